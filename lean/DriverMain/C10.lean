import VotelibDriver.Loop
import VotelibDriver.C10
def main : IO Unit := VL.Drv.mainLoop [VL.Drv.C10.handle]
