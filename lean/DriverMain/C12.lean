import VotelibDriver.Loop
import VotelibDriver.C12
def main : IO Unit := VL.Drv.mainLoop [VL.Drv.C12.handle]
