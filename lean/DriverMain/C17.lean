import VotelibDriver.Loop
import VotelibDriver.C17
def main : IO Unit := VL.Drv.mainLoop [VL.Drv.C17.handle]
