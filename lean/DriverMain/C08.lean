import VotelibDriver.Loop
import VotelibDriver.C08
def main : IO Unit := VL.Drv.mainLoop [VL.Drv.C08.handle]
