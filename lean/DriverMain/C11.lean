import VotelibDriver.Loop
import VotelibDriver.C11
def main : IO Unit := VL.Drv.mainLoop [VL.Drv.C11.handle]
