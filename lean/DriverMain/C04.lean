import VotelibDriver.Loop
import VotelibDriver.C03
import VotelibDriver.C04
def main : IO Unit := VL.Drv.mainLoop [VL.Drv.C04.handle, VL.Drv.C03.handle]
