import VotelibDriver.Loop
import VotelibDriver.C02
def main : IO Unit := VL.Drv.mainLoop [VL.Drv.C02.handle]
