import VotelibDriver.Loop
import VotelibDriver.C13
def main : IO Unit := VL.Drv.mainLoop [VL.Drv.C13.handle]
