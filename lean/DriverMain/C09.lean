import VotelibDriver.Loop
import VotelibDriver.C09
def main : IO Unit := VL.Drv.mainLoop [VL.Drv.C09.handle]
