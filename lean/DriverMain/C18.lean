import VotelibDriver.Loop
import VotelibDriver.C18
def main : IO Unit := VL.Drv.mainLoop [VL.Drv.C18.handle]
