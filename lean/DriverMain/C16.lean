import VotelibDriver.Loop
import VotelibDriver.C16
def main : IO Unit := VL.Drv.mainLoop [VL.Drv.C16.handle, VL.Drv.C09.handle]
