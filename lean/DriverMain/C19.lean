import VotelibDriver.Loop
import VotelibDriver.C19
def main : IO Unit := VL.Drv.mainLoop [VL.Drv.C19.handle]
