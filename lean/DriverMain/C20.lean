import VotelibDriver.Loop
import VotelibDriver.C20
def main : IO Unit := VL.Drv.mainLoop [VL.Drv.C20.handle]
