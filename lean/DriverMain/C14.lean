import VotelibDriver.Loop
import VotelibDriver.C14
def main : IO Unit := VL.Drv.mainLoop [VL.Drv.C14.handle]
