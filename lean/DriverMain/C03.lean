import VotelibDriver.Loop
import VotelibDriver.C03
def main : IO Unit := VL.Drv.mainLoop [VL.Drv.C03.handle]
