import VotelibDriver.Loop
import VotelibDriver.C01
def main : IO Unit := VL.Drv.mainLoop [VL.Drv.C01.handle]
