import VotelibDriver.Loop
import VotelibDriver.C06
def main : IO Unit := VL.Drv.mainLoop [VL.Drv.C06.handle]
