import VotelibDriver.Loop
import VotelibDriver.C07
def main : IO Unit := VL.Drv.mainLoop [VL.Drv.C07.handle]
