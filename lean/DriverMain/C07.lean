import VotelibDriver.Loop
import VotelibDriver.C07
open Lean VL.Drv

/-- same protocol as `VL.Drv.mainLoop`, but every answer is flushed: the C07 oracle talks to the driver
    synchronously (one certificate per request) while the implementation is being exercised. -/
partial def loopFlush (hs : List Handler) (h : IO.FS.Stream) (out : IO.FS.Stream) : IO Unit := do
  let line ← h.getLine
  if line.isEmpty then return ()
  let ans := match Json.parse line >>= dispatch hs with
    | .ok j => j.compress
    | .error e => (Json.mkObj [("driver_error", Json.str e)]).compress
  out.putStrLn ans
  out.flush
  loopFlush hs h out

def main : IO Unit := do
  loopFlush [VL.Drv.C07.handle] (← IO.getStdin) (← IO.getStdout)
