import VotelibDriver.Loop
import VotelibDriver.C05
import VotelibDriver.C06
def main : IO Unit := VL.Drv.mainLoop [VL.Drv.C05.handle, VL.Drv.C06.handle]
