import VotelibDriver.Loop
import VotelibDriver.C15
def main : IO Unit := VL.Drv.mainLoop [VL.Drv.C15.handleAll]
