import VotelibProofs.Lemmas.NBest
import VotelibProofs.Lemmas.Sort
import VotelibProofs.Props.C09
