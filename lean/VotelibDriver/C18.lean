/-
  C18 driver: runs the state-machine models of VotelibModel.Purity over a call history and reports, for every call,
  the state after the call and the output.
    {"op":"history","machine":"pav","calls":[{"votes":[[[ids],"w"],...],"n":k},...]}
    {"op":"history","machine":"borda","base":b,"calls":[[[ballot,"w"],...],...]}      ballot item: id | [ids]
    {"op":"history","machine":"rankval","cfg":{...},"calls":[ballot,...]}
    {"op":"history","machine":"scoreval","cfg":{...},"calls":[[[c,"score"],...],...]}
    {"op":"history","machine":"rng","calls":[{"seed":s,"blocks":[[req,...],...]} | {"other":k},...]}
    {"op":"history","machine":"none"}
-/
import VotelibDriver.Json
import VotelibModel.Purity
open Lean
namespace VL.Drv.C18
open VL VL.Purity

def ratsJson (l : List Rat) : Json := Json.arr (l.map ratJson).toArray

def parseApproval (j : Json) : Except String ApprovalProfile := do
  let arr ← fromJson? (α := Array (Array Nat × String)) j
  arr.toList.mapM (fun (b, s) => match parseRat s with
    | some r => pure (b.toList, r)
    | none => throw s!"bad rational {s}")

def parseItem (j : Json) : Except String RankItem :=
  match j with
  | Json.arr a => do
    let cs ← a.toList.mapM (fun x => fromJson? (α := Nat) x)
    pure (.shared cs)
  | _ => do
    let c ← fromJson? (α := Nat) j
    pure (.one c)

def parseBallot (j : Json) : Except String Ballot := do
  let a ← fromJson? (α := Array Json) j
  a.toList.mapM parseItem

def parseRanked (j : Json) : Except String RankedProfile := do
  let arr ← fromJson? (α := Array (Json × String)) j
  arr.toList.mapM (fun (b, s) => do
    let bb ← parseBallot b
    match parseRat s with
    | some r => pure (bb, r)
    | none => throw s!"bad rational {s}")

def parseBound (j : Json) : Except String (Option Rat) :=
  match j with
  | Json.null => pure none
  | _ => do let r ← jsonRat j; pure (some r)

def parseBounds (j : Json) : Except String Bounds := do
  let a ← fromJson? (α := Array Json) j
  match a.toList with
  | [l, h] => do pure ⟨← parseBound l, ← parseBound h⟩
  | _ => throw "bad bounds"

def parseStore (j : Json) : Except String CheckerStore := do
  let a ← fromJson? (α := Array (Nat × Json)) j
  a.toList.mapM (fun (k, b) => do pure (k, ← parseBounds b))

def boundJson : Option Rat → Json
  | none => Json.null
  | some r => ratJson r

def boundsJson (b : Bounds) : Json := Json.arr #[boundJson b.lo, boundJson b.hi]

def storeJson (s : CheckerStore) : Json :=
  Json.arr (s.map (fun p => Json.arr #[toJson p.1, boundsJson p.2])).toArray

def unitJson (r : Except Err Unit) : Json :=
  match r with
  | .ok _ => Json.str "ok"
  | .error e => errJson e

/-- run a machine, keeping every intermediate state -/
def trace {σ κ ο : Type} (step : σ → κ → σ × ο) : σ → List κ → List (σ × ο)
  | _, [] => []
  | s, c :: cs => let r := step s c; r :: trace step r.1 cs

partial def parseEv (j : Json) : Except String Ev := do
  let c ← j.getObjValAs? Nat "cls"
  match j.getObjVal? "inner" with
  | .ok i => do pure (.wrap c (← parseEv i))
  | .error _ => do
    let t ← j.getObjValAs? (Array Nat) "takes"
    pure (.leaf c t.toList)

def answer (states outs : List Json) : Json :=
  Json.mkObj [("states", Json.arr states.toArray), ("outs", Json.arr outs.toArray)]

def handle (op : String) (j : Json) : Option (Except String Json) :=
  match op with
  | "history" => some do
    let m ← j.getObjValAs? String "machine"
    match m with
    | "none" => pure (Json.mkObj [("machine", Json.str "none")])
    | "pav" => do
      let cs ← j.getObjValAs? (Array Json) "calls"
      let calls ← cs.toList.mapM (fun c => do
        let v ← c.getObjVal? "votes"
        let votes ← parseApproval v
        let n ← c.getObjValAs? Nat "n"
        pure (PavCall.mk votes n))
      let old := (j.getObjValAs? Bool "old").toOption.getD false
      let tr := trace (if old then pavStepOld else pavStep) pavInit calls
      let outs := (tr.zip calls).map (fun (r, c) => match r.2 with
        | .ok sel => Json.mkObj [("sel", slotsJson sel),
            ("drops", match pavDrops r.1 c.votes c.nSeats with | some d => votesJson d | none => Json.null)]
        | .error e => errJson e)
      pure (answer (tr.map (fun r => ratsJson r.1)) outs)
    | "borda" => do
      let base ← j.getObjValAs? Int "base"
      let cs ← j.getObjValAs? (Array Json) "calls"
      let calls ← cs.toList.mapM parseRanked
      let tr := trace (bordaStep base) bordaInit calls
      let st := tr.map (fun r => Json.mkObj [
        ("n", match r.1.nCands with | some n => toJson n | none => Json.null),
        ("scores", match r.1.scores with | some s => ratsJson s | none => Json.null)])
      pure (answer st (tr.map (fun r => exceptJson votesJson r.2)))
    | "rankval" => do
      let cfgj ← j.getObjVal? "cfg"
      let cfg : RankValCfg := ⟨← parseBounds (← cfgj.getObjVal? "total"), ← parseStore (← cfgj.getObjVal? "explicit"),
        ← parseBounds (← cfgj.getObjVal? "dflt")⟩
      let cs ← j.getObjValAs? (Array Json) "calls"
      let calls ← cs.toList.mapM parseBallot
      let tr := trace (rankValStep cfg) cfg.explicit calls
      pure (answer (tr.map (fun r => storeJson r.1)) (tr.map (fun r => unitJson r.2)))
    | "scoreval" => do
      let cfgj ← j.getObjVal? "cfg"
      let pj ← cfgj.getObjVal? "post"
      let kind ← pj.getObjValAs? String "kind"
      let post ← match kind with
        | "range" => do pure (ScorePost.range (← parseBounds (← pj.getObjVal? "bounds")))
        | "enum" => do
          let ls ← pj.getObjValAs? (Array Json) "levels"
          pure (ScorePost.enum (← ls.toList.mapM jsonRat))
        | _ => pure ScorePost.none
      let cfg : ScoreValCfg := ⟨← parseBounds (← cfgj.getObjVal? "nscorings"), ← parseStore (← cfgj.getObjVal? "explicit"),
        ← parseBounds (← cfgj.getObjVal? "dflt"), post⟩
      let cs ← j.getObjValAs? (Array Json) "calls"
      let calls ← cs.toList.mapM (fun c => do
        let a ← fromJson? (α := Array (Nat × String)) c
        a.toList.mapM (fun (k, s) => match parseRat s with
          | some r => pure (k, r)
          | none => throw s!"bad rational {s}"))
      let tr := trace (scoreValStep cfg) cfg.explicit calls
      pure (answer (tr.map (fun r => storeJson r.1)) (tr.map (fun r => unitJson r.2)))
    | "dispatch" => do
      -- every call asks about keyword 0 (prev_gains) and 1 (max_seats) of the evaluator handed to the asking wrapper
      let cs ← j.getObjValAs? (Array Json) "calls"
      let evs ← cs.toList.mapM parseEv
      let qs := evs.flatMap (fun e => [(e, 0), (e, 1)])
      let tr := trace dispatchStep [] qs
      let bs := tr.map (fun r => r.2)
      let rec pairs : List Bool → List Json
        | a :: b :: rest => Json.arr #[toJson a, toJson b] :: pairs rest
        | _ => []
      pure (answer [] (pairs bs))
    | "rng" => do
      -- a generator whose state is "seeded with s, k draws ago" (or unknown); a draw reports (s, k, request) when the
      -- state is known and nothing otherwise: the outputs show which draws are functions of (seed, position, request)
      let M : RngModel (Option (Nat × Nat)) Nat (List Nat) :=
        { reseed := fun s => some (s, 0),
          draw := fun g r => match g with
            | some (s, k) => ([s, k, r], some (s, k + 1))
            | none => ([], none) }
      let cs ← j.getObjValAs? (Array Json) "calls"
      let calls ← cs.toList.mapM (fun c => match c.getObjValAs? Nat "seed" with
        | .ok s => do
          let bl ← c.getObjValAs? (Array (Array Nat)) "blocks"
          pure (RngCall.seeded (G := Option (Nat × Nat)) s (bl.toList.map (·.toList)))
        | .error _ => pure (RngCall.other (fun _ => none)))
      let tr := trace (seededStep M) none calls
      pure (answer [] (tr.map (fun r => toJson r.2)))
    | _ => throw s!"unknown machine {m}"
  | _ => none

end VL.Drv.C18
