import VotelibDriver.Json
import VotelibModel.HighestAverages
import VotelibModel.HighestAveragesList
import VotelibModel.Gen.Divisor
open Lean
namespace VL.Drv.C01

def divisorByName : String → Option (Nat → Rat)
  | "d_hondt" => some Gen.Divisor.d_hondt
  | "sainte_lague" => some Gen.Divisor.sainte_lague
  | "imperiali" => some Gen.Divisor.imperiali
  | "danish" => some Gen.Divisor.danish
  | "macau" => some Gen.Divisor.macau
  | _ => none

/-- {"divisor": name, "first_coef": "p/q"|null} -/
def getDivisor (j : Json) : Except String (Nat → Rat) := do
  let dn ← j.getObjValAs? String "divisor"
  let base ← match divisorByName dn with
    | some d => pure d
    | none => throw s!"unknown divisor {dn}"
  match ← getRatOpt j "first_coef" with
  | some fc => pure (Gen.Divisor.modified_first_coef base fc)
  | none => pure base

def getCfg (j : Json) : Except String HACfg := do
  let div ← getDivisor j
  let votes ← getVotes j "votes"
  let n ← j.getObjValAs? Nat "n"
  let prev ← getNatMap j "prev"
  let caps ← getNatMap j "max"
  pure { div := div, votes := votes, n := n, prev := prev, caps := caps }

def handle (op : String) (j : Json) : Option (Except String Json) :=
  match op with
  | "ha" => some do
    let cfg ← getCfg j
    pure (exceptJson distJson (highestAverages cfg))
  | "divisor" => some do
    let div ← getDivisor j
    let upto ← j.getObjValAs? Nat "upto"
    pure (Json.arr ((List.range upto).map (fun k => ratJson (div k))).toArray)
  | "ha_list" => some do
    let cfg ← getCfg j
    pure (exceptJson distJson (highestAveragesList cfg))
  | _ => none

end VL.Drv.C01
