/-
  VotelibDriver.C08Seq — protocol handler for the multi-seat models of `Baldwin` and `PreferenceAddition`
  (VotelibModel/ShapeSequential.lean).

    {"op":"baldwin",             "votes": RANKED, "n": Nat}
    {"op":"preference_addition", "votes": RANKED, "n": Nat, "coef": "bucklin"|"oklahoma", "split": Bool}

  RANKED is the `ranked` protocol form of harness/families.py: `[[[item,…],"p/q"],…]`,
  item = candidate id | sorted list of ids (shared rank).  The answer is a selection: `[id | {"tie":[ids]}, …]`
  or `{"err": name}`.
-/
import VotelibDriver.Json
import VotelibModel.ShapeSequential
open Lean
namespace VL.Drv.C08Seq
open VL VL.Convert

def pNat (j : Json) : Except String Nat := fromJson? (α := Nat) j

def pArr (j : Json) : Except String (List Json) :=
  match j with
  | .arr a => pure a.toList
  | _ => throw "array expected"

/-- rank item of harness/families.py: a candidate id, or a list of ids (shared rank, sorted) -/
def pItemSeq (j : Json) : Except String RankItem :=
  match j with
  | .arr a => do pure (.shared (← a.toList.mapM pNat))
  | _ => do pure (.one (← pNat j))

def pBallotW (j : Json) : Except String (Ballot × Rat) := do
  match (← pArr j) with
  | [b, w] => do pure (← (← pArr b).mapM pItemSeq, ← jsonRat w)
  | _ => throw "pair expected"

def pRankedSeq (j : Json) : Except String RProfile := do (← pArr j).mapM pBallotW

def pCoef (s : String) : Except String (Nat → Rat) :=
  match s with
  | "bucklin" => pure ShapeSeq.coefBucklin
  | "oklahoma" => pure ShapeSeq.coefOklahoma
  | _ => throw s!"unknown coefficients {s}"

def handle (op : String) (j : Json) : Option (Except String Json) :=
  match op with
  | "baldwin" => some do
    let p ← pRankedSeq (← j.getObjVal? "votes")
    let n ← j.getObjValAs? Nat "n"
    pure (exceptJson slotsJson (ShapeSeq.baldwin p n))
  | "preference_addition" => some do
    let p ← pRankedSeq (← j.getObjVal? "votes")
    let n ← j.getObjValAs? Nat "n"
    let coef ← pCoef (← j.getObjValAs? String "coef")
    let split ← j.getObjValAs? Bool "split"
    pure (exceptJson slotsJson (ShapeSeq.preferenceAddition coef split p n))
  | _ => none

end VL.Drv.C08Seq
