import VotelibDriver.Json
import VotelibModel.Simple
import VotelibModel.Gen.Quota
open Lean
namespace VL.Drv.C09

def quotaByName : String → Option (Rat → Nat → Rat)
  | "hare" => some Gen.Quota.hare
  | "hare_rounded" => some Gen.Quota.hare_rounded
  | "droop" => some Gen.Quota.droop
  | "hagenbach_bischoff" => some Gen.Quota.hagenbach_bischoff
  | "hagenbach_bischoff_ceil" => some Gen.Quota.hagenbach_bischoff_ceil
  | "hagenbach_bischoff_rounded" => some Gen.Quota.hagenbach_bischoff_rounded
  | "imperiali" => some Gen.Quota.imperiali
  | _ => none

def handle (op : String) (j : Json) : Option (Except String Json) :=
  match op with
  | "get_n_best" | "plurality" => some do
    let n ← j.getObjValAs? Nat "n"
    let votes ← getVotes j "votes"
    pure (slotsJson (getNBest votes n))
  | "sorted_votes" => some do
    let votes ← getVotes j "votes"
    let desc ← j.getObjValAs? Bool "desc"
    pure (votesJson (if desc then sortDesc votes else sortAsc votes))
  | "quota_selector" => some do
    let n ← j.getObjValAs? Nat "n"
    let votes ← getVotes j "votes"
    let qn ← j.getObjValAs? String "quota"
    let eq ← j.getObjValAs? Bool "accept_equal"
    let om ← j.getObjValAs? String "on_more"
    let q ← match quotaByName qn with
      | some q => pure q
      | none => match parseRat qn with     -- constant quota
        | some r => pure (fun _ _ => r)
        | none => throw s!"unknown quota {qn}"
    let onMore := if om = "error" then OnMore.error else if om = "select" then OnMore.select else OnMore.invalid
    pure (exceptJson slotsJson (quotaSelector q eq onMore votes n))
  | _ => none

end VL.Drv.C09
