/-
  VotelibDriver.C14 — op `eval_tree`: decode a wrapper tree + call arguments, run `VL.C14.eval`,
  encode the nested result; also reports the model's hard-coded dispatch flags of every node
  (pre-order) so that the harness can cross-check them against votelib's accepts_seats /
  accepts_prev_gains / accepts_max_seats / seats_optional on the live objects.

  values:  "p/q" number | id candidate | {"tie":[ids]} | null | [..] list | {"dict":[[key, value],..]}
-/
import VotelibDriver.Json
import VotelibModel.WrapperLeaves
import VotelibModel.Gen.Divisor
import VotelibModel.Gen.Quota
open Lean
namespace VL.Drv.C14
open VL.C14

partial def decV (j : Json) : Except String V :=
  match j with
  | .null => pure .none
  | .str s => match parseRat s with
    | some r => pure (.num r)
    | none => throw s!"bad number {s}"
  | .num _ => do let c ← fromJson? (α := Nat) j; pure (.cand c)
  | .arr a => do let l ← a.toList.mapM decV; pure (.list l)
  | .obj _ =>
    match j.getObjVal? "tie" with
    | .ok t => do let cs ← fromJson? (α := List Nat) t; pure (.tie (sortNat cs))
    | .error _ => do
      let d ← j.getObjVal? "dict"
      let a ← fromJson? (α := Array Json) d
      let kvs ← a.toList.mapM (fun kv => do
        let pr ← fromJson? (α := Array Json) kv
        if pr.size ≠ 2 then throw "bad dict entry"
        let k ← decV pr[0]!
        let v ← decV pr[1]!
        match k.toKey? with
        | some kk => pure (kk, v)
        | none => throw "bad dict key")
      pure (.dict kvs)
  | _ => throw "bad value"

partial def encV : V → Json
  | .num r => ratJson r
  | .cand c => toJson c
  | .tie cs => Json.mkObj [("tie", toJson cs)]
  | .none => Json.null
  | .list l => Json.arr (l.map encV).toArray
  | .dict kvs => Json.mkObj [("dict", Json.arr (kvs.map (fun p =>
      Json.arr #[encV (V.ofKey p.1), encV p.2])).toArray)]

def optV (j : Json) (k : String) : Except String (Option V) :=
  match j.getObjVal? k with
  | .ok v => do let x ← decV v; pure (some x)
  | .error _ => pure none

def decArgs (j : Json) : Except String Args := do
  let votes ← j.getObjVal? "votes" >>= decV
  pure { votes := votes, n := ← optV j "n", prev := ← optV j "prev", max := ← optV j "max",
         pl := ← optV j "pl", lv := ← optV j "lv" }

def divisorByName : String → Option (Nat → Rat)
  | "d_hondt" => some Gen.Divisor.d_hondt
  | "sainte_lague" => some Gen.Divisor.sainte_lague
  | "imperiali" => some Gen.Divisor.imperiali
  | "danish" => some Gen.Divisor.danish
  | "macau" => some Gen.Divisor.macau
  | _ => none

/-- quota functions called as `quota_fx(sum(votes), n_seats)`; `Fraction(votes, 0)` raises -/
def quotaByName (name : String) : Option QuotaFn :=
  let wrap (f : Rat → Nat → Rat) (zeroBad : Bool) : QuotaFn := fun tot n =>
    if n.den ≠ 1 ∨ n.num < 0 then .error (.other "ModelUnsupported")
    else if zeroBad && n.num == 0 then .error eZeroDiv
    else .ok (f tot n.num.toNat)
  match name with
  | "hare" => some (wrap Gen.Quota.hare true)
  | "droop" => some (wrap Gen.Quota.droop false)
  | "hagenbach_bischoff" => some (wrap Gen.Quota.hagenbach_bischoff false)
  | "imperiali" => some (wrap Gen.Quota.imperiali false)
  | _ => none

partial def decConv (j : Json) : Except String Conv := do
  let c ← j.getObjValAs? String "c"
  match c with
  | "vote_totals" => pure .voteTotals
  | "constituency_totals" => pure .constituencyTotals
  | "party_totals" => pure .constituencyTotals
  | "merged_distributions" => pure .mergedDistributions
  | "merged_selections" => pure .mergedSelections
  | "inverted_simple" => pure .invertedSimpleVotes
  | "sel_to_dist" => do
      let a ← j.getObjVal? "amount" >>= decV
      pure (.selectionToDistribution a)
  | "by_constituency" => do
      let i ← j.getObjVal? "inner" >>= decConv
      pure (.byConstituency i)
  | "chain" => do
      let a ← j.getObjValAs? (Array Json) "cs"
      let cs ← a.toList.mapM decConv
      pure (.chain cs)
  | _ => throw s!"unknown converter {c}"

def getThr (j : Json) : Except String (Rat × Bool) := do
  let t ← getRat j "t"
  let eq ← j.getObjValAs? Bool "eq"
  pure (t, eq)

partial def decEv (j : Json) : Except String Ev := do
  let k ← j.getObjValAs? String "k"
  let sub (name : String) : Except String Ev := j.getObjVal? name >>= decEv
  let subOpt (name : String) : Except String (Option Ev) :=
    match j.getObjVal? name with
    | .ok .null => pure none
    | .ok v => do let e ← decEv v; pure (some e)
    | .error _ => pure none
  let subList (name : String) : Except String (List Ev) := do
    let a ← j.getObjValAs? (Array Json) name
    a.toList.mapM decEv
  let app : Except String (App Ev) :=
    match j.getObjVal? "app" with
    | .ok .null => pure .none
    | .error _ => pure .none
    | .ok v =>
      match v.getObjVal? "int" with
      | .ok i => do let r ← jsonRat i; pure (.int r)
      | .error _ =>
        match v.getObjVal? "dict" with
        | .ok _ => do
            let d ← decV v
            match d with
            | .dict kvs => pure (.dict kvs)
            | _ => throw "bad app dict"
        | .error _ => do
            let e ← v.getObjVal? "ev" >>= decEv
            pure (.ev e)
  match k with
  | "plurality" => pure (.leaf pluralitySig pluralityLeaf)
  | "input_order" => pure (.leaf pluralitySig inputOrderLeaf)
  | "ha" => do
      let dn ← j.getObjValAs? String "divisor"
      match divisorByName dn with
      | some d => pure (.leaf haSig (haLeaf d))
      | none => throw s!"unknown divisor {dn}"
  | "qd" | "lr" => do
      let qn ← j.getObjValAs? String "quota"
      let div (v : Rat) (d : Int) : Except Err Rat := if d = 0 then .error eZeroDiv else .ok (v / (d : Rat))
      let (q, qInt) ← match qn with
        | "hare" => pure (Gen.Quota.hare, fun v (n : Int) => div v n)
        | "droop" => pure (Gen.Quota.droop, fun v (n : Int) => do
            let x ← div v (n + 1); pure (((VL.Py.pyInt x + 1 : Int) : Rat)))
        | "hagenbach_bischoff" => pure (Gen.Quota.hagenbach_bischoff, fun v (n : Int) => div v (n + 1))
        | "imperiali" => pure (Gen.Quota.imperiali, fun v (n : Int) => div v (n + 2))
        | _ => throw s!"unknown quota {qn}"
      let ae ← j.getObjValAs? Bool "accept_equal"
      let pol ← j.getObjValAs? String "on_overaward"
      let onOver ← match pol with
        | "error" => pure QD.OnOver.error
        | "ignore" => pure QD.OnOver.ignore
        | "subtract" => pure QD.OnOver.subtract
        | _ => throw s!"bad policy {pol}"
      pure (.leaf haSig (quotaLeaf (k == "lr") ⟨q, ae, onOver⟩ qInt (qn == "hare")))
  | "abs_thr" => do let (t, eq) ← getThr j; pure (.leaf seatlessSig (absThresholdLeaf t eq))
  | "rel_thr" => do let (t, eq) ← getThr j; pure (.leaf seatlessSig (relThresholdLeaf t eq))
  | "prev_gain_thr" => do let (t, eq) ← getThr j; pure (.leaf prevGainSig (prevGainThresholdLeaf t eq))
  | "fixed" => do
      let n ← j.getObjVal? "n" >>= decV
      pure (.fixedSeatCount (← sub "e") n)
  | "tb" => pure (.tieBreaking (← sub "main") (← sub "tb"))
  | "cond" => do
      let d ← j.getObjValAs? Nat "depth"
      pure (.conditioned (← sub "elim") (← sub "e") d)
  | "pre" => do
      let c ← j.getObjVal? "c" >>= decConv
      pure (.preConverted c (← sub "e"))
  | "post" => do
      let c ← j.getObjVal? "c" >>= decConv
      pure (.postConverted (← sub "e") c)
  | "bycon" => pure (.byConstituency (← sub "e") (← app) (← subOpt "pre"))
  | "preapp" => pure (.preApportioned (← sub "e") (← app))
  | "remapp" => pure (.removedApportionment (← sub "e"))
  | "byparty" => pure (.byParty (← sub "overall") (← subOpt "alloc"))
  | "multi" => do
      let d ← j.getObjValAs? Nat "depth"
      pure (.multistage (← subList "rounds") d)
  | "unused" => do
      let d ← j.getObjValAs? Nat "depth"
      let qn ← j.getObjValAs? (List String) "quotas"
      let qs ← qn.mapM (fun n => match quotaByName n with
        | some q => pure q
        | none => throw s!"unknown quota {n}")
      pure (.unusedVotes (← subList "rounds") qs d)
  | "plist" => do
      let le : Option ListSem ← match j.getObjVal? "open" with
        | .ok .null => pure none
        | .error _ => pure none
        | .ok o => do
          let ok ← o.getObjValAs? String "k"
          if ok == "list_order" then pure (some listOrderLeaf)
          else do
            let jf ← getRatOpt o "jump_fraction"
            let qn ← match o.getObjVal? "quota" with
              | .ok (.str q) => pure (some q)
              | _ => pure none
            let q ← match qn with
              | none => pure none
              | some "hare" => pure (some Gen.Quota.hare)
              | some "droop" => pure (some Gen.Quota.droop)
              | some "hagenbach_bischoff" => pure (some Gen.Quota.hagenbach_bischoff)
              | some other => throw s!"unknown quota {other}"
            let qf ← getRat o "quota_fraction"
            let th ← o.getObjValAs? Bool "take_higher"
            let ae ← o.getObjValAs? Bool "accept_equal"
            let lp ← o.getObjValAs? Bool "list_precedence"
            pure (some (thresholdOpenListLeaf
              { jumpFraction := jf, quota := q, quotaFraction := qf, takeHigher := th, acceptEqual := ae,
                listPrecedence := lp } (qn == some "hare")))
      pure (.partyList (← sub "party") le none)
  | "vs" => pure (.votingSystem (← sub "e"))
  | _ => throw s!"unknown node {k}"

/-- dispatch flags of every node in pre-order (children in constructor order) -/
partial def flags : Ev → List (Bool × Bool × Bool × Bool)
  | e => (acceptsSeats e, acceptsPrevGains e, acceptsMaxSeats e, seatsOptional e) :: (match e with
    | .leaf _ _ => []
    | .fixedSeatCount e _ => flags e
    | .tieBreaking m t => flags m ++ flags t
    | .conditioned el e _ => flags el ++ flags e
    | .preConverted _ e => flags e
    | .postConverted e _ => flags e
    | .byConstituency e app pre =>
        flags e ++ (match app with | .ev a => flags a | _ => []) ++ (match pre with | some p => flags p | none => [])
    | .preApportioned e app => flags e ++ (match app with | .ev a => flags a | _ => [])
    | .removedApportionment e => flags e
    | .byParty o al => flags o ++ (match al with | some a => flags a | none => [])
    | .multistage rs _ => (rs.map flags).flatten
    | .unusedVotes rs _ _ => (rs.map flags).flatten
    | .partyList p _ _ => flags p
    | .votingSystem e => flags e)

def encResult : Except Err V → Json
  | .ok v => encV v
  | .error e => errJson e

def handle (op : String) (j : Json) : Option (Except String Json) :=
  match op with
  | "eval_tree" => some do
    let t ← j.getObjVal? "tree" >>= decEv
    let a ← j.getObjVal? "args" >>= decArgs
    let fl := flags t
    pure (Json.mkObj [("res", encResult (eval t a)),
                      ("flags", Json.arr (fl.map (fun p => Json.arr #[toJson p.1, toJson p.2.1, toJson p.2.2.1, toJson p.2.2.2])).toArray)])
  | "convert" => some do
    let c ← j.getObjVal? "conv" >>= decConv
    let v ← j.getObjVal? "value" >>= decV
    pure (Json.mkObj [("res", encResult (c.run v))])
  | _ => none

end VL.Drv.C14
