import VotelibDriver.Loop
import VotelibDriver.C09
import VotelibDriver.C01
import VotelibDriver.C02
import VotelibDriver.C05
open Lean
namespace VL.Drv.C08
/-- the C08 correspondence re-uses the handlers of the properties owning the models -/
def handlers : List Handler := [C09.handle, C01.handle, C02.handle, C05.handle]

def handle (op : String) (j : Json) : Option (Except String Json) :=
  handlers.firstM (fun (h : Handler) => h op j)
end VL.Drv.C08
