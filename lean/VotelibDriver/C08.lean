import VotelibDriver.Loop
import VotelibDriver.C09
import VotelibDriver.C01
import VotelibDriver.C02
import VotelibDriver.C05
import VotelibDriver.C13
import VotelibDriver.C03
import VotelibDriver.C12
import VotelibDriver.C08Seq
import VotelibDriver.C16
import VotelibModel.ShapeCompose
open Lean
namespace VL.Drv.C08
open VL VL.Convert

/-- rank item of harness/families.py: a candidate id, or a list of ids (shared rank, sorted) -/
def pItemL (j : Json) : Except String RankItem :=
  match j with
  | .arr a => do pure (.shared (← a.toList.mapM C13.pNat))
  | _ => do pure (.one (← C13.pNat j))

def pRanked (j : Json) : Except String RProfile := do
  (← C13.pArr j).mapM (C13.pPair (fun b => do (← C13.pArr b).mapM pItemL) jsonRat)

def pApprovalL (j : Json) : Except String AProfile := do
  (← C13.pArr j).mapM (C13.pPair (fun b => do (← C13.pArr b).mapM C13.pNat) jsonRat)

/-- ops of the composed evaluators (VotelibModel/ShapeCompose.lean) -/
def own (op : String) (j : Json) : Option (Except String Json) :=
  match op with
  | "positional_plurality" => some do
    let sc ← C13.pScorer (← j.getObjVal? "scorer")
    let p ← pRanked (← j.getObjVal? "votes")
    let n ← j.getObjValAs? Nat "n"
    pure (exceptJson slotsJson (Shape.positionalPlurality sc p n))
  | "approval_plurality" => some do
    let split ← j.getObjValAs? Bool "split"
    let p ← pApprovalL (← j.getObjVal? "votes")
    let n ← j.getObjValAs? Nat "n"
    pure (exceptJson slotsJson (Shape.approvalPlurality split p n))
  | "input_order" => some do
    let votes ← getVotes j "votes"
    let n ← j.getObjValAs? Nat "n"
    pure (slotsJson (Shape.inputOrderSelector votes n))
  | _ => none

/-- the C08 correspondence re-uses the handlers of the properties owning the models -/
def handlers : List Handler := [own, C09.handle, C01.handle, C02.handle, C05.handle, C06.handle, C16.handle, C03.handle, C12.handle, C08Seq.handle]

def handle (op : String) (j : Json) : Option (Except String Json) :=
  handlers.firstM (fun (h : Handler) => h op j)
end VL.Drv.C08
