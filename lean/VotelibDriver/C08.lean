import VotelibDriver.Loop
import VotelibDriver.C09
import VotelibDriver.C01
import VotelibDriver.C02
import VotelibDriver.C05
import VotelibDriver.C13
import VotelibDriver.C03
import VotelibDriver.C12
import VotelibDriver.C08Seq
import VotelibDriver.C16
import VotelibModel.ShapeCompose
import VotelibModel.ShapeAux
import VotelibModel.ShapeTieBreak
open Lean
namespace VL.Drv.C08
open VL VL.Convert

/-- rank item of harness/families.py: a candidate id, or a list of ids (shared rank, sorted) -/
def pItemL (j : Json) : Except String RankItem :=
  match j with
  | .arr a => do pure (.shared (← a.toList.mapM C13.pNat))
  | _ => do pure (.one (← C13.pNat j))

def pRanked (j : Json) : Except String RProfile := do
  (← C13.pArr j).mapM (C13.pPair (fun b => do (← C13.pArr b).mapM pItemL) jsonRat)

def pApprovalL (j : Json) : Except String AProfile := do
  (← C13.pArr j).mapM (C13.pPair (fun b => do (← C13.pArr b).mapM C13.pNat) jsonRat)

/-- ops of the composed evaluators (VotelibModel/ShapeCompose.lean) -/
def own (op : String) (j : Json) : Option (Except String Json) :=
  match op with
  | "positional_plurality" => some do
    let sc ← C13.pScorer (← j.getObjVal? "scorer")
    let p ← pRanked (← j.getObjVal? "votes")
    let n ← j.getObjValAs? Nat "n"
    pure (exceptJson slotsJson (Shape.positionalPlurality sc p n))
  | "approval_plurality" => some do
    let split ← j.getObjValAs? Bool "split"
    let p ← pApprovalL (← j.getObjVal? "votes")
    let n ← j.getObjValAs? Nat "n"
    pure (exceptJson slotsJson (Shape.approvalPlurality split p n))
  | "sortitor" | "random_ballot" => some do
    let votes ← getVotes j "votes"
    let n ← j.getObjValAs? Nat "n"
    let draws ← (← C13.pArr (← j.getObjVal? "draws")).mapM jsonRat
    if votes.any (fun p => p.2.den ≠ 1) then throw "random selectors: integer counts only"
    let r := if op = "sortitor" then ShapeAux.sortitor votes n draws else ShapeAux.randomBallot votes n draws
    pure (exceptJson (fun l => toJson l) r)
  | "rfc3797" => some do
    let votes ← getVotes j "votes"
    let n ← j.getObjValAs? Nat "n"
    let draws ← j.getObjValAs? (List Nat) "draws"
    pure (exceptJson (fun l => toJson l) (ShapeAux.rfc3797 votes n draws))
  | "candidate_number" => some do
    let votes ← getVotes j "votes"
    let n ← j.getObjValAs? Nat "n"
    -- numbers: [[candidate id, candidacy number | null], ...]
    let nums ← (← C13.pArr (← j.getObjVal? "numbers")).mapM (fun e => do
      match (← C13.pArr e) with
      | [c, Json.null] => do pure ((← C13.pNat c), (none : Option Int))
      | [c, v] => do pure ((← C13.pNat c), some (← fromJson? (α := Int) v))
      | _ => throw "numbers: pair expected")
    let num : Cand → Option Int := fun c => match nums.find? (fun e => e.1 == c) with | some e => e.2 | none => none
    pure (exceptJson (fun l => toJson l) (ShapeAux.candidateNumberRanker num votes n))
  | "tb_plurality" => some do
    let votes ← getVotes j "votes"
    let n ← j.getObjValAs? Nat "n"
    pure (exceptJson slotsJson (ShapeTB.tbPlurality votes n))
  | "tb_lr" => some do
    let cfg ← C02.getCfg j
    let votes ← getVotes j "votes"
    let n ← j.getObjValAs? Nat "n"
    pure (exceptJson C02.selJson (ShapeTB.tbLargestRemainder cfg votes n))
  | "tb_ha" => some do
    let cfg ← C01.getCfg j
    pure (exceptJson C02.selJson (ShapeTB.tbHighestAverages cfg))
  | "input_order" => some do
    let votes ← getVotes j "votes"
    let n ← j.getObjValAs? Nat "n"
    pure (slotsJson (Shape.inputOrderSelector votes n))
  | _ => none

/-- the C08 correspondence re-uses the handlers of the properties owning the models -/
def handlers : List Handler := [own, C09.handle, C01.handle, C02.handle, C05.handle, C06.handle, C16.handle, C03.handle, C12.handle, C08Seq.handle]

def handle (op : String) (j : Json) : Option (Except String Json) :=
  handlers.firstM (fun (h : Handler) => h op j)
end VL.Drv.C08
