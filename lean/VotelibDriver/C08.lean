import VotelibDriver.C09
import VotelibDriver.C01
open Lean
namespace VL.Drv.C08
def handle (op : String) (j : Json) : Option (Except String Json) :=
  match C09.handle op j with
  | some r => some r
  | none => C01.handle op j
end VL.Drv.C08
