/-
  Driver handlers for C04: evaluation (handlers of C03 are reused by the executable) and the verified
  PSC checker applied to an outcome.
-/
import VotelibDriver.C03
import VotelibModel.PSC
open Lean
namespace VL.Drv.C04
open VL.STV VL.Drv.C03

def handle (op : String) (j : Json) : Option (Except String Json) :=
  match op with
  | "psc_check" => some do
    let votes ← (j.getObjVal? "votes") >>= pileOfJson
    let q ← getRat j "q"
    let elected ← j.getObjValAs? (List Nat) "elected"
    pure (toJson (pscCheck votes q elected))
  | "stv_eval_psc" => some do
    -- evaluation, and the PSC verdict of the verified checker on the model's own outcome
    let s ← getSetup j
    let inp ← getInput j
    let q := computeQuota s.cfg (totalVotes inp.votes) inp.nSeats
    match distributorEvaluate s.E s.cfg inp s.draws with
    | .error e => pure (Json.mkObj [("result", errJson e), ("quota", optRatJson q)])
    | .ok seats =>
      let elected := distributionToSelection seats
      let psc : Json := match q with
        | some qv => toJson (pscCheck inp.votes qv elected)
        | none => Json.null
      pure (Json.mkObj [("result", toJson elected), ("quota", optRatJson q), ("psc", psc)])
  | _ => none

end VL.Drv.C04
