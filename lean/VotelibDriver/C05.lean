import VotelibDriver.Json
import VotelibDriver.C06
import VotelibModel.CondorcetRanked
open Lean
namespace VL.Drv.C05
open VL.Condorcet

def itemOfJson (j : Json) : Except String RankItem :=
  match j with
  | Json.arr a => do
    let cs ← a.toList.mapM (fun x => fromJson? (α := Nat) x)
    pure (RankItem.shared cs)
  | _ => do
    let c ← fromJson? (α := Nat) j
    pure (RankItem.one c)

/-- a ranked profile: [[[rank, ...], "p/q"], ...]; a rank is an id or a sorted list of ids -/
def getProfile (j : Json) (k : String) : Except String Profile := do
  let v ← j.getObjVal? k
  let arr ← fromJson? (α := Array Json) v
  arr.toList.mapM (fun e => do
    let b ← e.getArrVal? 0
    let items ← fromJson? (α := Array Json) b
    let ballot ← items.toList.mapM itemOfJson
    let s ← (← e.getArrVal? 1).getStr?
    match parseRat s with
    | some r => pure (ballot, r)
    | none => throw s!"bad rational {s}")

def evalByName (name : String) (v : Pairwise) (n : Nat) : Option (Except Err (List Slot)) :=
  match name with
  | "rankedpairs_winvotes" => some (rankedPairs .winningVotes v n)
  | "rankedpairs_margins" => some (rankedPairs .margins v n)
  | "rankedpairs_pwo" => some (rankedPairs .pairwiseOpposition v n)
  | "copeland_2o" => some (.ok (copeland true v n))
  | "copeland_raw" => some (.ok (copeland false v n))
  | "schulze" => some (.ok (schulze v n))
  | "kemeny_young" => some (kemenyYoung v n)
  | "minimax_winvotes" => some (.ok (minimax .winningVotes v n))
  | "minimax_margins" => some (.ok (minimax .margins v n))
  | "minimax_pwo" => some (.ok (minimax .pairwiseOpposition v n))
  | _ => none

def handle (op : String) (j : Json) : Option (Except String Json) :=
  match op with
  | "eval" => some do
    let v ← C06.getPairwise j "votes"
    let n ← j.getObjValAs? Nat "n"
    let name ← j.getObjValAs? String "name"
    match evalByName name v n with
    | none => throw s!"unknown evaluator {name}"
    | some r =>
      if name = "copeland_2o" then
        match r with
        | .ok res => pure (Json.mkObj [("res", slotsJson res), ("grp", toJson (copelandGroups v n))])
        | .error e => pure (errJson e)
      else pure (exceptJson slotsJson r)
  | "benham" => some do
    let p ← getProfile j "profile"
    pure (exceptJson slotsJson (benham p))
  | "tideman" => some do
    let p ← getProfile j "profile"
    let smith := (j.getObjValAs? Bool "smith").toOption.getD true
    match (j.getObjValAs? Nat "n").toOption with
    | none => pure (exceptJson slotsJson (tideman smith p))
    | some n => pure (exceptJson slotsJson (tidemanN smith p n))
  | "to_condorcet" => some do
    let p ← getProfile j "profile"
    let uab := (j.getObjValAs? Bool "uab").toOption.getD true
    pure (Json.arr ((if uab then rankedToCondorcet p else rankedToCondorcetNoBottom p).map (fun e => Json.arr #[toJson e.1.1, toJson e.1.2, ratJson e.2])).toArray)
  | _ => none

end VL.Drv.C05
