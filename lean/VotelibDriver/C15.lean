import VotelibDriver.Json
import VotelibModel.Overhang
import VotelibModel.Gen.Divisor
open Lean
namespace VL.Drv.C15
open VL.OH

/-- "d_hondt" | "sainte_lague" -> HighestAverages, "hare_lr" -> LargestRemainder('hare') -/
def evalByName : String → Except String PropEval
  | "d_hondt" => pure (haEval Gen.Divisor.d_hondt)
  | "sainte_lague" => pure (haEval Gen.Divisor.sainte_lague)
  | "hare_lr" => pure lrHareEval
  -- modified_first_coef(d_hondt, 3/2), modified_first_coef(sainte_lague, 7/5)
  | "d_hondt_mod" => pure (haEval (Gen.Divisor.modified_first_coef Gen.Divisor.d_hondt ((3 : Rat) / 2)))
  | "sainte_lague_mod" => pure (haEval (Gen.Divisor.modified_first_coef Gen.Divisor.sainte_lague ((7 : Rat) / 5)))
  | s => throw s!"unknown evaluator {s}"

def getCVotes (j : Json) (k : String) : Except String CVotes := do
  let v ← j.getObjVal? k
  let arr ← fromJson? (α := Array (Nat × Json)) v
  arr.toList.mapM (fun (c, jv) => do let vs ← jsonVotes jv; pure (c, vs))

def getCSeats (j : Json) (k : String) : Except String CSeats := do
  match j.getObjVal? k with
  | .ok Json.null => pure []
  | .ok v => do
    let arr ← fromJson? (α := Array (Nat × Array (Nat × Nat))) v
    pure (arr.toList.map (fun (c, a) => (c, a.toList)))
  | .error _ => pure []

/-- the calculator named by "kind" over flat votes -/
def flatCalc (kind : String) (ev : PropEval) (fuel : Nat) : Except String Calc :=
  match kind with
  | "allow" => pure (allowOverhang ev)
  | "level" => pure (levelOverhang ev fuel)
  | s => throw s!"unknown kind {s}"

def natJson (n : Nat) : Json := toJson n

/-- the by-constituency calculator of a request: "capp" = "fixed" (apportionment dict "app") or the name of the
    apportioning evaluator; "overall" = "given" (the evaluator itself on the vote totals) or "none" (default) -/
def ctyCalc (j : Json) (ev : PropEval) (fuel : Nat) : Except String CCalc := do
  let capp := (j.getObjValAs? String "capp").toOption.getD "fixed"
  let cev ← if capp = "fixed" then do
      let app ← getNatMap j "app"
      pure (byConstituencyFixed ev app)
    else do
      let aev ← evalByName capp
      pure (byConstituencyApportioned ev aev)
  let overall := (j.getObjValAs? String "overall").toOption.getD "given"
  if overall = "none" then pure (levelOverhangCtyDefault cev fuel)
  else pure (levelOverhangCty cev ev fuel)

def ndistJson (r : NDist) : Json :=
  Json.arr (r.map (fun p => Json.arr #[keyJson p.1, distJson p.2])).toArray

def handle (op : String) (j : Json) : Option (Except String Json) :=
  match op with
  | "overhang_calc" => some do
    let kind ← j.getObjValAs? String "kind"
    let ev ← evalByName (← j.getObjValAs? String "evaluator")
    let n ← j.getObjValAs? Nat "n"
    let fuel ← j.getObjValAs? Nat "fuel"
    if kind = "level_cty" then
      let cv ← getCVotes j "cvotes"
      let cprev ← getCSeats j "cprev"
      let c ← ctyCalc j ev fuel
      pure (exceptJson natJson (c cv n cprev))
    else
      let votes ← getVotes j "votes"
      let prev ← getNatMap j "prev"
      let caps ← getNatMap j "max"
      let c ← flatCalc kind ev fuel
      pure (exceptJson natJson (c votes n prev caps))
  | "adjusted_eval" => some do
    let kind ← j.getObjValAs? String "kind"
    let ev ← evalByName (← j.getObjValAs? String "evaluator")
    let fev ← evalByName (← j.getObjValAs? String "final")
    let n ← j.getObjValAs? Nat "n"
    let fuel ← j.getObjValAs? Nat "fuel"
    let wrap ← j.getObjValAs? String "wrap"
    if kind = "level_cty" then
      let cv ← getCVotes j "cvotes"
      let cprev ← getCSeats j "cprev"
      let c ← ctyCalc j ev fuel
      let aev ← evalByName (← j.getObjValAs? String "alloc")
      if wrap = "multistage3" then
        -- two fixed-outcome stages, then the adjusted stage; the adjustment is reported for their sum
        let cprev2 ← getCSeats j "cprev2"
        let elected := addNDist (addNDist [] (cseatsToNDist cprev)) (cseatsToNDist cprev2)
        let adjJ := match ndToCSeats elected with
          | some pr => exceptJson natJson (c cv n pr)
          | none => errJson unmodelled
        pure (Json.mkObj [("adj", adjJ), ("result", exceptJson ndistJson (multistageDE [cprev, cprev2] c fev aev cv n))])
      else
      let adjJ := exceptJson natJson (c cv n cprev)
      let resJ :=
        if wrap = "multistage" then exceptJson ndistJson (multistageDE [cprev] c fev aev cv n)
        else exceptJson ndistJson (adjustedByParty c fev aev cv n cprev)
      pure (Json.mkObj [("adj", adjJ), ("result", resJ)])
    else
      let votes ← getVotes j "votes"
      let prev ← getNatMap j "prev"
      let caps ← getNatMap j "max"
      let c ← flatCalc kind ev fuel
      if wrap = "multistage3" then
        let prev2 ← getNatMap j "prev2"
        let elected := addDist (addDist [] (seatsToDist prev)) (seatsToDist prev2)
        let adjJ := match distToSeats elected with
          | some pr => exceptJson natJson (c votes n pr caps)
          | none => errJson unmodelled
        pure (Json.mkObj [("adj", adjJ), ("result", exceptJson distJson
          (multistage [(mockStage prev, votes), (mockStage prev2, votes), (adjustedSeatCount c fev, votes)] n [] caps))])
      else
      let adjJ := exceptJson natJson (c votes n prev caps)
      let resJ :=
        if wrap = "multistage" then
          -- MultistageDistributor([Mock(direct), AdjustedSeatCount(calc, final)]).evaluate(votes, n)
          exceptJson distJson (multistage [(mockStage prev, votes), (adjustedSeatCount c fev, votes)] n [] caps)
        else
          exceptJson distJson (adjustedSeatCount c fev votes n prev caps)
      pure (Json.mkObj [("adj", adjJ), ("result", resJ)])
  | _ => none

/-- "adjusted_seq": the same configuration on several elections in a row ("elections": objects with the per-election
    fields); the model is a pure function, so every election is answered on its own -/
def handleAll (op : String) (j : Json) : Option (Except String Json) :=
  match op with
  | "adjusted_seq" => some do
    let els ← j.getObjValAs? (Array Json) "elections"
    let outs ← els.toList.mapM (fun e =>
      match handle "adjusted_eval" (j.mergeObj e) with
      | some r => r
      | none => throw "bad election")
    pure (Json.arr outs.toArray)
  | _ => handle op j

end VL.Drv.C15
