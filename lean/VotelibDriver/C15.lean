import VotelibDriver.Json
import VotelibModel.Overhang
import VotelibModel.Gen.Divisor
open Lean
namespace VL.Drv.C15
open VL.OH

/-- "d_hondt" | "sainte_lague" -> HighestAverages, "hare_lr" -> LargestRemainder('hare') -/
def evalByName : String → Except String PropEval
  | "d_hondt" => pure (haEval Gen.Divisor.d_hondt)
  | "sainte_lague" => pure (haEval Gen.Divisor.sainte_lague)
  | "hare_lr" => pure lrHareEval
  | s => throw s!"unknown evaluator {s}"

def getCVotes (j : Json) (k : String) : Except String CVotes := do
  let v ← j.getObjVal? k
  let arr ← fromJson? (α := Array (Nat × Json)) v
  arr.toList.mapM (fun (c, jv) => do let vs ← jsonVotes jv; pure (c, vs))

def getCSeats (j : Json) (k : String) : Except String CSeats := do
  match j.getObjVal? k with
  | .ok Json.null => pure []
  | .ok v => do
    let arr ← fromJson? (α := Array (Nat × Array (Nat × Nat))) v
    pure (arr.toList.map (fun (c, a) => (c, a.toList)))
  | .error _ => pure []

/-- the calculator named by "kind" over flat votes -/
def flatCalc (kind : String) (ev : PropEval) (fuel : Nat) : Except String Calc :=
  match kind with
  | "allow" => pure (allowOverhang ev)
  | "level" => pure (levelOverhang ev fuel)
  | s => throw s!"unknown kind {s}"

def natJson (n : Nat) : Json := toJson n

/-- the by-constituency calculator of a request: "capp" = "fixed" (apportionment dict "app") or the name of the
    apportioning evaluator; "overall" = "given" (the evaluator itself on the vote totals) or "none" (default) -/
def ctyCalc (j : Json) (ev : PropEval) (fuel : Nat) : Except String CCalc := do
  let capp := (j.getObjValAs? String "capp").toOption.getD "fixed"
  let cev ← if capp = "fixed" then do
      let app ← getNatMap j "app"
      pure (byConstituencyFixed ev app)
    else do
      let aev ← evalByName capp
      pure (byConstituencyApportioned ev aev)
  let overall := (j.getObjValAs? String "overall").toOption.getD "given"
  if overall = "none" then pure (levelOverhangCtyDefault cev fuel)
  else pure (levelOverhangCty cev ev fuel)

def ndistJson (r : NDist) : Json :=
  Json.arr (r.map (fun p => Json.arr #[keyJson p.1, distJson p.2])).toArray

def handle (op : String) (j : Json) : Option (Except String Json) :=
  match op with
  | "overhang_calc" => some do
    let kind ← j.getObjValAs? String "kind"
    let ev ← evalByName (← j.getObjValAs? String "evaluator")
    let n ← j.getObjValAs? Nat "n"
    let fuel ← j.getObjValAs? Nat "fuel"
    if kind = "level_cty" then
      let cv ← getCVotes j "cvotes"
      let cprev ← getCSeats j "cprev"
      let c ← ctyCalc j ev fuel
      pure (exceptJson natJson (c cv n cprev))
    else
      let votes ← getVotes j "votes"
      let prev ← getNatMap j "prev"
      let caps ← getNatMap j "max"
      let c ← flatCalc kind ev fuel
      pure (exceptJson natJson (c votes n prev caps))
  | "adjusted_eval" => some do
    let kind ← j.getObjValAs? String "kind"
    let ev ← evalByName (← j.getObjValAs? String "evaluator")
    let fev ← evalByName (← j.getObjValAs? String "final")
    let n ← j.getObjValAs? Nat "n"
    let fuel ← j.getObjValAs? Nat "fuel"
    let wrap ← j.getObjValAs? String "wrap"
    if kind = "level_cty" then
      let cv ← getCVotes j "cvotes"
      let cprev ← getCSeats j "cprev"
      let c ← ctyCalc j ev fuel
      let aev ← evalByName (← j.getObjValAs? String "alloc")
      let adjJ := exceptJson natJson (c cv n cprev)
      let resJ :=
        if wrap = "multistage" then exceptJson ndistJson (multistageDE cprev c fev aev cv n)
        else exceptJson ndistJson (adjustedByParty c fev aev cv n cprev)
      pure (Json.mkObj [("adj", adjJ), ("result", resJ)])
    else
      let votes ← getVotes j "votes"
      let prev ← getNatMap j "prev"
      let caps ← getNatMap j "max"
      let c ← flatCalc kind ev fuel
      let adjJ := exceptJson natJson (c votes n prev caps)
      let resJ :=
        if wrap = "multistage" then
          -- MultistageDistributor([Mock(direct), AdjustedSeatCount(calc, final)]).evaluate(votes, n)
          exceptJson distJson (multistage [(mockStage prev, votes), (adjustedSeatCount c fev, votes)] n [] caps)
        else
          exceptJson distJson (adjustedSeatCount c fev votes n prev caps)
      pure (Json.mkObj [("adj", adjJ), ("result", resJ)])
  | _ => none

end VL.Drv.C15
