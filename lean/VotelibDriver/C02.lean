import VotelibDriver.Json
import VotelibModel.QuotaDist
import VotelibModel.Gen.Quota
open Lean
namespace VL.Drv.C02
open VL.QD

def quotaByName : String → Option (Rat → Nat → Rat)
  | "hare" => some Gen.Quota.hare
  | "hare_rounded" => some Gen.Quota.hare_rounded
  | "droop" => some Gen.Quota.droop
  | "hagenbach_bischoff" => some Gen.Quota.hagenbach_bischoff
  | "hagenbach_bischoff_ceil" => some Gen.Quota.hagenbach_bischoff_ceil
  | "hagenbach_bischoff_rounded" => some Gen.Quota.hagenbach_bischoff_rounded
  | "imperiali" => some Gen.Quota.imperiali
  | _ => none

/-- a quota given by registered name, or "const:p/q" for `quota.constant(p/q)` -/
def getQuota (qn : String) : Except String (Rat → Nat → Rat) :=
  match quotaByName qn with
  | some q => pure q
  | none =>
    match qn.splitOn ":" with
    | ["const", v] =>
      match parseRat v with
      | some r => pure (fun _ _ => r)
      | none => throw s!"bad constant quota {qn}"
    | _ => throw s!"unknown quota {qn}"

def getIMap (j : Json) (k : String) : Except String IMap := do
  match j.getObjVal? k with
  | .ok Json.null => pure []
  | .ok v => do let a ← fromJson? (α := Array (Nat × Int)) v; pure a.toList
  | .error _ => pure []

def selJson (l : Sel) : Json :=
  Json.arr (l.map (fun p => Json.arr #[keyJson p.1, toJson p.2])).toArray

def getCfg (j : Json) : Except String Cfg := do
  let qn ← j.getObjValAs? String "quota"
  let q ← getQuota qn
  let ae ← j.getObjValAs? Bool "accept_equal"
  let pol ← j.getObjValAs? String "on_overaward"
  let onOver ← match pol with
    | "error" => pure OnOver.error
    | "ignore" => pure OnOver.ignore
    | "subtract" => pure OnOver.subtract
    | _ => throw s!"bad policy {pol}"
  pure ⟨q, ae, onOver⟩

def handle (op : String) (j : Json) : Option (Except String Json) :=
  match op with
  | "qd" | "lr" => some do
    let cfg ← getCfg j
    let n ← j.getObjValAs? Nat "n"
    let votes ← getVotes j "votes"
    let prev ← getIMap j "prev"
    let maxS ← getIMap j "max"
    let r := if op = "qd" then quotaDistribute cfg votes n prev maxS
             else largestRemainder cfg votes n prev maxS
    pure (exceptJson selJson r)
  | "quota" => some do
    let qn ← j.getObjValAs? String "quota"
    let q ← getQuota qn
    let v ← getRat j "total"
    let n ← j.getObjValAs? Nat "n"
    if (qn = "hare" || qn = "hare_rounded") && n = 0 then pure (errJson QD.zeroDiv)
    else pure (ratJson (q v n))
  | _ => none

end VL.Drv.C02
