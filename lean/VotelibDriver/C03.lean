/-
  Driver handlers for the transferable-vote model (C03; reused by C04).
  Protocol: ballot = [item, …] with item = candidate id | [ids of a shared rank];
  profile / pile = [[ballot, "w"], …]; allocation = [[holder | null, pile], …]; seats = [[c, k], …];
  draws = [{"p": [[ballot, "s"], …]} | {"c": [[cand, "s"], …]}, …].
-/
import VotelibDriver.Json
import VotelibModel.STV
import VotelibModel.Gen.Quota
open Lean
namespace VL.Drv.C03
open VL.STV

def quotaByName : String → Option (Rat → Nat → Rat)
  | "hare" => some Gen.Quota.hare
  | "hare_rounded" => some Gen.Quota.hare_rounded
  | "droop" => some Gen.Quota.droop
  | "hagenbach_bischoff" => some Gen.Quota.hagenbach_bischoff
  | "hagenbach_bischoff_ceil" => some Gen.Quota.hagenbach_bischoff_ceil
  | "hagenbach_bischoff_rounded" => some Gen.Quota.hagenbach_bischoff_rounded
  | "imperiali" => some Gen.Quota.imperiali
  | _ => none

def itemOfJson (j : Json) : Except String RankItem :=
  match j with
  | .arr xs => do
    let cs ← xs.toList.mapM (fun x => fromJson? (α := Nat) x)
    pure (.shared cs)
  | x => do
    let c ← fromJson? (α := Nat) x
    pure (.one c)

def ballotOfJson (j : Json) : Except String Ballot := do
  let xs ← fromJson? (α := Array Json) j
  xs.toList.mapM itemOfJson

def pileOfJson (j : Json) : Except String Pile := do
  let xs ← fromJson? (α := Array Json) j
  xs.toList.mapM (fun e => do
    let pr ← fromJson? (α := Array Json) e
    if h : pr.size = 2 then
      let b ← ballotOfJson pr[0]
      let w ← jsonRat pr[1]
      pure (b, w)
    else throw "bad pile entry")

def allocOfJson (j : Json) : Except String Alloc := do
  let xs ← fromJson? (α := Array Json) j
  xs.toList.mapM (fun e => do
    let pr ← fromJson? (α := Array Json) e
    if h : pr.size = 2 then
      let hd ← match pr[0] with
        | .null => pure none
        | x => do let c ← fromJson? (α := Nat) x; pure (some c)
      let p ← pileOfJson pr[1]
      pure (hd, p)
    else throw "bad allocation entry")

def candRatsOfJson (j : Json) : Except String (List (Cand × Rat)) := do
  let xs ← fromJson? (α := Array Json) j
  xs.toList.mapM (fun e => do
    let pr ← fromJson? (α := Array Json) e
    if h : pr.size = 2 then
      let c ← fromJson? (α := Nat) pr[0]
      let w ← jsonRat pr[1]
      pure (c, w)
    else throw "bad cand entry")

def drawsOfJson (j : Json) (k : String) : Except String (List Draw) :=
  match j.getObjVal? k with
  | .ok Json.null => pure []
  | .error _ => pure []
  | .ok v => do
    let xs ← fromJson? (α := Array Json) v
    xs.toList.mapM (fun d =>
      match d.getObjVal? "p" with
      | .ok p => do let l ← pileOfJson p; pure (Draw.papers l)
      | .error _ => do
        let c ← d.getObjVal? "c"
        let l ← candRatsOfJson c
        pure (Draw.cands l))

def itemJson : RankItem → Json
  | .one c => toJson c
  | .shared cs => toJson cs

def ballotJson (b : Ballot) : Json := Json.arr (b.map itemJson).toArray

def pileJson (p : Pile) : Json :=
  Json.arr (p.map (fun bw => Json.arr #[ballotJson bw.1, ratJson bw.2])).toArray

def holderJson : Option Cand → Json
  | some c => toJson c
  | none => Json.null

def allocJson (a : Alloc) : Json :=
  Json.arr (a.map (fun hp => Json.arr #[holderJson hp.1, pileJson hp.2])).toArray

def seatsJson (s : Seats) : Json := Json.arr (s.map (fun p => Json.arr #[toJson p.1, toJson p.2])).toArray

def totalsJson (t : List (Option Cand × Rat)) : Json :=
  Json.arr (t.map (fun p => Json.arr #[holderJson p.1, ratJson p.2])).toArray

def optRatJson : Option Rat → Json
  | some r => ratJson r
  | none => Json.null

structure Setup where
  E : Engine
  cfg : Cfg
  draws : List Draw

def getSetup (j : Json) : Except String Setup := do
  let m ← j.getObjValAs? String "method"
  let E ← if m = "gregory" then pure gregory else if m = "hare" then pure hare else throw s!"unknown method {m}"
  let q ← match j.getObjVal? "quota" with
    | .ok Json.null => pure none
    | .ok (.str s) => match quotaByName s with
      | some f => pure (some f)
      | none => match parseRat s with          -- `quota.constant(q)`
        | some r => pure (some (fun _ _ => r))
        | none => throw s!"unknown quota {s}"
    | _ => throw "quota missing"
  let eq ← j.getObjValAs? Bool "accept_equal"
  let mand ← j.getObjValAs? Bool "mandatory"
  let step ← match j.getObjVal? "step" with
    | .ok Json.null => pure none
    | .ok v => do let i ← fromJson? (α := Int) v; pure (some i)
    | .error _ => pure (some (-1))
  let ds ← drawsOfJson j "draws"
  pure { E := E, cfg := { quota := q, acceptEqual := eq, mandatory := mand, step := step }, draws := ds }

def stJson (st : St) : Json :=
  Json.mkObj [("alloc", allocJson st.alloc), ("seats", seatsJson st.seats), ("by_quota", toJson st.byQuota),
              ("final", toJson st.final)]

def getInput (j : Json) : Except String Input := do
  let votes ← (j.getObjVal? "votes") >>= pileOfJson
  let n ← j.getObjValAs? Nat "n"
  let prev ← getNatMap j "prev"
  let form ← j.getObjValAs? String "form"
  if form = "selector" then pure (selectorInput votes n)
  else do
    let maxS ← getNatMap j "max"
    pure { votes := votes, nSeats := n, prev := prev, maxS := maxS }

def handle (op : String) (j : Json) : Option (Except String Json) :=
  match op with
  | "all_ranked" => some do
    let votes ← (j.getObjVal? "votes") >>= pileOfJson
    pure (toJson (allRanked votes))
  | "ranked_next" => some do
    let b ← (j.getObjVal? "ballot") >>= ballotOfJson
    let frm ← j.getObjValAs? Nat "from"
    let allowed ← j.getObjValAs? (List Nat) "allowed"
    pure (toJson (rankedNext b (some frm) allowed))
  | "stv_init" => some do
    let s ← getSetup j
    let votes ← (j.getObjVal? "votes") >>= pileOfJson
    pure (exceptJson (fun r => allocJson r.1) (initialAllocation s.E votes s.draws))
  | "stv_next" => some do
    let s ← getSetup j
    let a ← (j.getObjVal? "alloc") >>= allocOfJson
    let n ← j.getObjValAs? Nat "n"
    let total ← getRat j "total"
    let prev ← getNatMap j "prev"
    let maxS ← getNatMap j "max"
    pure (exceptJson (fun r => Json.mkObj [("alloc", allocJson r.1.alloc), ("elected", seatsJson r.1.elected),
        ("eliminated", toJson r.1.eliminated), ("shortcut", toJson r.1.shortcut),
        ("quota", optRatJson (if r.1.shortcut then none else computeQuota s.cfg total n))])
      (nextCount s.E s.cfg a n total prev maxS s.draws))
  | "stv_trace" => some do
    let s ← getSetup j
    let inp ← getInput j
    match initState s.E inp s.draws with
    | .error e => pure (Json.mkObj [("init", errJson e)])
    | .ok st0 =>
      let (sts, end_) := traceGo s.E s.cfg inp (evalFuel inp) st0 []
      let seats := match sts.getLast? with
        | some st => st.seats
        | none => st0.seats
      let form ← j.getObjValAs? String "form"
      let result : Json := match end_ with
        | some e => errJson e
        | none => if form = "selector" then toJson (distributionToSelection seats) else seatsJson seats
      pure (Json.mkObj [("init", allocJson st0.alloc), ("counts", Json.arr (sts.map stJson).toArray),
        ("result", result), ("quota", optRatJson (computeQuota s.cfg (totalVotes inp.votes) inp.nSeats))])
  | "stv_nth" => some do
    let s ← getSetup j
    let inp ← getInput j
    let k ← j.getObjValAs? Nat "k"
    let form ← j.getObjValAs? String "form"
    pure (exceptJson (fun r => Json.mkObj [("totals", totalsJson r.1),
        ("seats", if form = "selector" then toJson (distributionToSelection r.2) else seatsJson r.2)])
      (nthCount s.E s.cfg inp k s.draws))
  | "stv_eval" => some do
    let s ← getSetup j
    let inp ← getInput j
    let form ← j.getObjValAs? String "form"
    pure (exceptJson (fun r => if form = "selector" then toJson (distributionToSelection r) else seatsJson r)
      (distributorEvaluate s.E s.cfg inp s.draws))
  | _ => none

end VL.Drv.C03
