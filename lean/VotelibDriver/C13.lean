/-
  Driver handler of C13: op `convert` applies one configured converter (or Chain) to the profiles
  A, B, A+B and to single-ballot profiles.

  Encodings.  candidate = Nat; frozenset = {"set":[...]}; tuple = [...]; numbers = "p/q";
  rank item = Nat | {"set":[Nat]}; score ballot = {"set":[[c,"s"],...]}; party key = {"party":n} | null | {"cand":c};
  a dict = [[key, value], ...].
-/
import VotelibDriver.Json
import VotelibModel.Convert
open Lean
namespace VL.Drv.C13
open VL VL.Convert

/-! ### parsing -/

def pSet (j : Json) : Except String (Array Json) := do
  let s ← j.getObjVal? "set"
  match s with
  | .arr a => pure a
  | _ => throw "set: array expected"

def pNat (j : Json) : Except String Nat := fromJson? (α := Nat) j

def pItem (j : Json) : Except String RankItem :=
  match j with
  | .obj _ => do
    let a ← pSet j
    let cs ← a.toList.mapM pNat
    pure (.shared cs)
  | _ => do let c ← pNat j; pure (.one c)

def pArr (j : Json) : Except String (List Json) :=
  match j with
  | .arr a => pure a.toList
  | _ => throw "array expected"

def pBallot (j : Json) : Except String Ballot := do (← pArr j).mapM pItem

def pApproval (j : Json) : Except String Approval := do (← pSet j).toList.mapM pNat

def pPair {α β} (fa : Json → Except String α) (fb : Json → Except String β) (j : Json) : Except String (α × β) := do
  match (← pArr j) with
  | [a, b] => do pure (← fa a, ← fb b)
  | _ => throw "pair expected"

def pScoreBallot (j : Json) : Except String ScoreBallot := do
  (← pSet j).toList.mapM (pPair pNat jsonRat)

def pDict {κ} (fk : Json → Except String κ) (j : Json) : Except String (Dict κ) := do
  (← pArr j).mapM (pPair fk jsonRat)

def pNested (j : Json) : Except String (List (Nat × Dict Cand)) := do
  (← pArr j).mapM (pPair pNat (pDict pNat))

def pNDict : Nat → Json → Except String (NDict Cand)
  | 0, j => NDict.leaf <$> pDict pNat j
  | n + 1, j => do
    let l ← (← pArr j).mapM (pPair pNat (pNDict n))
    pure (.node l)

def pVal (kind : String) (j : Json) (depth : Nat := 0) : Except String Val :=
  match kind with
  | "deep" => Val.deep <$> pNDict depth j
  | "simple" => Val.simple <$> pDict pNat j
  | "items" => Val.items <$> pDict pItem j
  | "approval" => Val.approval <$> pDict pApproval j
  | "ranked" => Val.ranked <$> pDict pBallot j
  | "score" => Val.score <$> pDict pScoreBallot j
  | "nested" => Val.nested <$> pNested j
  | "nested_ranked" => Val.nestedR <$> (do (← pArr j).mapM (pPair pNat (pDict pBallot)))
  | "nested_approval" => Val.nestedA <$> (do (← pArr j).mapM (pPair pNat (pDict pApproval)))
  | k => throw s!"unknown kind {k}"

def pScorer (j : Json) : Except String Scorer := do
  let s ← j.getObjValAs? String "s"
  match s with
  | "Borda" => do pure (.borda (← j.getObjValAs? Int "base"))
  | "Dowdall" => pure .dowdall
  | "Geometric" => do pure (.geometric (← j.getObjValAs? Nat "base"))
  | "ModifiedBorda" => pure .modifiedBorda
  | "FixedTop" => do pure (.fixedTop (← j.getObjValAs? Int "top"))
  | "SequenceBased" => do
    let a ← j.getObjVal? "sequence"
    pure (.sequence (← (← pArr a).mapM jsonRat))
  | _ => throw s!"unknown scorer {s}"

def pInd (s : String) : Except String Independents :=
  match s with
  | "error" => pure .error
  | "keep" => pure .keep
  | "aggregate" => pure .aggregate
  | "ignore" => pure .ignore
  | _ => throw s!"unknown independents mode {s}"

def pNatList (j : Json) (k : String) : Except String (List Nat) := do
  (← pArr (← j.getObjVal? k)).mapM pNat

partial def pConv (j : Json) : Except String Conv := do
  let c ← j.getObjValAs? String "c"
  match c with
  | "ApprovalToSimpleVotes" => do pure (.approvalToSimple (← j.getObjValAs? Bool "split"))
  | "RankedToFirstPreference" => pure .rankedToFirstPreference
  | "RankedToFirstNPreferences" => do pure (.rankedToFirstN (← j.getObjValAs? Int "n"))
  | "RankedToPresenceCounts" => pure .rankedToPresenceCounts
  | "RankedToApprovalVotes" => pure .rankedToApproval
  | "RankedToPositionalVotes" => do pure (.rankedToPositional (← pScorer (← j.getObjVal? "scorer")))
  | "RankedToCondorcetVotes" => do pure (.rankedToCondorcet (← j.getObjValAs? Bool "unranked_at_bottom"))
  | "ScoreToRankedVotes" => do pure (.scoreToRanked (← getRatOpt j "unscored_value"))
  | "ScoreToApprovalVotesThreshold" => do pure (.scoreToApproval (← getRat j "threshold"))
  | "InvertedSimpleVotes" => pure .invertedSimple
  | "InvertedApprovalVotes" => pure .invertedApproval
  | "IndividualToPartyVotes" => do
    let aff ← (← pArr (← j.getObjVal? "aff")).mapM (pPair pNat pNat)
    pure (.individualToParty aff (← pInd (← j.getObjValAs? String "independents")))
  | "GroupVotesByParty" => do
    let aff ← (← pArr (← j.getObjVal? "aff")).mapM (pPair pNat pNat)
    pure (.groupByParty aff (← pInd (← j.getObjValAs? String "independents")))
  | "VoteTotals" => pure .voteTotals
  | "ConstituencyTotals" => pure .constituencyTotals
  | "SubsettedVotes" => do
    let s ← pNatList j "subset"
    let depth ← j.getObjValAs? Nat "depth"
    let kind ← j.getObjValAs? String "subsetter"
    if depth ≥ 2 then
      if kind = "simple" then pure (.subsettedDeep depth s) else throw "depth > 0 only with the simple subsetter"
    else if depth = 1 then
      if kind = "simple" then pure (.subsettedNested s) else throw "depth 1 only with the simple subsetter"
    else match kind with
      | "simple" => pure (.subsetted 0 s)
      | "approval" => pure (.subsetted 1 s)
      | "ranked" => pure (.subsetted 2 s)
      | "score" => pure (.subsetted 3 s)
      | _ => throw s!"unknown subsetter {kind}"
  | "RoundedVotes" => do
    let ki ← j.getObjValAs? Int "decimals"
    if ki < 0 then pure (.invalid .valueError) else
    let k := ki.toNat
    match j.getObjValAs? String "round_method" with
    | .ok "ROUND_HALF_UP" => pure (.roundedWith .halfUp k)
    | .ok "ROUND_HALF_DOWN" => pure (.roundedWith .halfDown k)
    | .ok "ROUND_HALF_EVEN" => pure (.roundedWith .halfEven k)
    | .ok "ROUND_DOWN" => pure (.roundedWith .down k)
    | .ok "ROUND_UP" => pure (.roundedWith .up k)
    | .ok "ROUND_CEILING" => pure (.roundedWith .ceiling k)
    | .ok "ROUND_FLOOR" => pure (.roundedWith .floor k)
    | .ok "ROUND_05UP" => pure (.roundedWith .r05up k)
    | .ok m => throw s!"unknown round_method {m}"
    | .error _ => pure (.rounded k)
  | "Chain" => do
    let cs ← (← pArr (← j.getObjVal? "cs")).mapM pConv
    pure (.chain cs)
  | _ => throw s!"unknown converter {c}"

/-! ### printing -/

def setJson (l : List Json) : Json := Json.mkObj [("set", Json.arr l.toArray)]

def itemJson : RankItem → Json
  | .one c => toJson c
  | .shared cs => setJson (cs.map toJson)

def ballotJson (b : Ballot) : Json := Json.arr (b.map itemJson).toArray

def pkeyJson : PKey → Json
  | .party n => Json.mkObj [("party", toJson n)]
  | .none => Json.null
  | .indep c => toJson c

def dictJson {κ} (fk : κ → Json) (d : Dict κ) : Json :=
  Json.arr (d.map (fun kv => Json.arr #[fk kv.1, ratJson kv.2])).toArray

partial def ndictJson : NDict Cand → Json
  | .leaf d => dictJson (fun (c : Cand) => toJson c) d
  | .node cs => Json.arr (cs.map (fun kc => Json.arr #[toJson kc.1, ndictJson kc.2])).toArray

def valJson : Val → Json
  | .simple d => dictJson (fun (c : Cand) => toJson c) d
  | .items d => dictJson itemJson d
  | .approval d => dictJson (fun s => setJson (s.map toJson)) d
  | .ranked d => dictJson ballotJson d
  | .score d => dictJson (fun s => setJson (s.map (fun cs => Json.arr #[toJson cs.1, ratJson cs.2]))) d
  | .pairs d => dictJson (fun (k : Cand × Cand) => Json.arr #[toJson k.1, toJson k.2]) d
  | .party d => dictJson pkeyJson d
  | .grouped d => Json.arr (d.map (fun kv => Json.arr #[pkeyJson kv.1, dictJson (fun (c : Cand) => toJson c) kv.2])).toArray
  | .nested d => Json.arr (d.map (fun kv => Json.arr #[toJson kv.1, dictJson (fun (c : Cand) => toJson c) kv.2])).toArray
  | .nestedR d => Json.arr (d.map (fun kv => Json.arr #[toJson kv.1, dictJson ballotJson kv.2])).toArray
  | .nestedA d => Json.arr (d.map (fun kv => Json.arr #[toJson kv.1, dictJson (fun s => setJson (s.map toJson)) kv.2])).toArray
  | .districts d => dictJson (fun (c : Nat) => toJson c) d
  | .deep t => ndictJson t

def outJson (r : Except Err Val) : Json := exceptJson valJson r

/-- the model's own `A + B` must be the dict the harness sent (ties `mergeDict` to Python's dict sum) -/
def mergeOk (depth : Nat) : Val → Val → Val → Bool
  | .deep a, .deep b, .deep ab => beqN depth (mergeN depth a b) ab
  | .simple a, .simple b, .simple ab => decide (mergeDict (a ++ b) = ab)
  | .items a, .items b, .items ab => decide (mergeDict (a ++ b) = ab)
  | .approval a, .approval b, .approval ab => decide (mergeDict (a ++ b) = ab)
  | .ranked a, .ranked b, .ranked ab => decide (mergeDict (a ++ b) = ab)
  | .score a, .score b, .score ab => decide (mergeDict (a ++ b) = ab)
  | .nested a, .nested b, .nested ab => decide (mergeNested (a ++ b) = ab)
  | .nestedR a, .nestedR b, .nestedR ab => decide (mergeNested (a ++ b) = ab)
  | .nestedA a, .nestedA b, .nestedA ab => decide (mergeNested (a ++ b) = ab)
  | _, _, _ => false

def handle (op : String) (j : Json) : Option (Except String Json) :=
  match op with
  | "convert" => some do
    let kind ← j.getObjValAs? String "kind"
    let conv ← pConv (← j.getObjVal? "conv")
    let depth := (j.getObjValAs? Nat "depth").toOption.getD 0
    let a ← pVal kind (← j.getObjVal? "A") depth
    let b ← pVal kind (← j.getObjVal? "B") depth
    let ab ← pVal kind (← j.getObjVal? "AB") depth
    let singles ← (← pArr (← j.getObjVal? "singles")).mapM (fun s => pVal kind s depth)
    if !mergeOk depth a b ab then throw "A+B sent by the harness is not mergeDict (A ++ B)"
    pure (Json.mkObj [("A", outJson (applyConv conv a)), ("B", outJson (applyConv conv b)),
      ("AB", outJson (applyConv conv ab)),
      ("singles", Json.arr (singles.map (fun s => outJson (applyConv conv s))).toArray)])
  | "util" => some do
    let p ← pDict pBallot (← j.getObjVal? "votes")
    pure (Json.mkObj [("all_ranked_candidates", toJson (allRankedCandidates p)),
      ("all_rankings", Json.arr ((allRankings p).map (fun t => Json.arr #[toJson t.1, toJson t.2.1, ratJson t.2.2])).toArray)])
  | _ => none

end VL.Drv.C13
