/-
  Driver of C10.  The models of the proved families are evaluated through the correspondence-validated handlers of their
  owners (C09 plurality / quota selector, C01 highest averages, C16 thresholds, C02 quota distributor / largest remainder).
  The `PreConverted(converter, evaluator)` families are compositions (VotelibModel/PreConverted.lean) of the owners' models;
  their profiles are decoded with the owners' decoders (`C13.pDict`, `C13.pBallot`, `C13.pApproval`, `C13.pScorer`,
  `C05.evalByName`); PAV / SPAV / score voting are the models of C12, STV (Gregory) the model of C03 (`stv_eval`), Baldwin / Bucklin / Oklahoma the models of C08 (`C08Seq`), Benham / Tideman the one-seat models of C05 (`C12.getApproval`, `C12.getScoreProfile`, `C12.getCfg`).
-/
import VotelibDriver.C09
import VotelibDriver.C01
import VotelibDriver.C16
import VotelibDriver.C02
import VotelibDriver.C13
import VotelibDriver.C05
import VotelibDriver.C12
import VotelibDriver.C03
import VotelibDriver.C08Seq
import VotelibDriver.PureProportionality
import VotelibModel.PureConstrained
import VotelibModel.PreConverted
open Lean
namespace VL.Drv.C10
open VL VL.PreConv

def own (op : String) (j : Json) : Option (Except String Json) :=
  match op with
  | "c10_positional" => some do
    let p ← C13.pDict C13.pBallot (← j.getObjVal? "votes")
    let sc ← C13.pScorer (← j.getObjVal? "scorer")
    let n ← j.getObjValAs? Nat "n"
    pure (exceptJson slotsJson (positionalRule sc p n))
  | "c10_approval" => some do
    let p ← C13.pDict C13.pApproval (← j.getObjVal? "votes")
    let split ← j.getObjValAs? Bool "split"
    let n ← j.getObjValAs? Nat "n"
    pure (exceptJson slotsJson (approvalRule split p n))
  | "c10_condorcet" => some do
    let p ← C13.pDict C13.pBallot (← j.getObjVal? "votes")
    let name ← j.getObjValAs? String "name"
    let n ← j.getObjValAs? Nat "n"
    -- the converter mode `unranked_at_bottom` (default true = `RankedToCondorcetVotes()`)
    let ab := (j.getObjValAs? Bool "bottom").toOption.getD true
    match name with
    | "winner" => pure (toJson (condorcetSeatlessAt ab Condorcet.condorcetWinner p))
    | "smith" => pure (toJson (condorcetSeatlessAt ab Condorcet.smithSet p))
    | "schwartz" => pure (toJson (condorcetSeatlessAt ab Condorcet.schwartzSet p))
    | _ =>
      match condorcetRuleAt ab (C05.evalByName name) p n with
      | some r => pure (exceptJson slotsJson r)
      | none => throw s!"unknown evaluator {name}"
  | "c10_pav" => some do
    let votes ← C12.getApproval j
    let n ← j.getObjValAs? Nat "n"
    pure (exceptJson slotsJson (Appr.pav votes n))
  | "c10_score" => some do
    let votes ← C12.getScoreProfile j
    let cfg ← C12.getCfg j
    let n ← j.getObjValAs? Nat "n"
    pure (exceptJson slotsJson (Score.scoreVoting cfg votes n))
  | "c10_pure_constrained" => some do
    let votes ← getVotes j "votes"
    let n ← j.getObjValAs? Nat "n"
    pure (exceptJson votesJson (PureC.pureConstrained votes n))
  | "c10_benham" => some do
    let p ← C05.getProfile j "profile"
    let n ← j.getObjValAs? Nat "n"
    pure (exceptJson slotsJson (benhamN p n))
  | "c10_star" => some do
    let votes ← C12.getScoreProfile j
    let cfg ← C12.getCfg j
    let n ← j.getObjValAs? Nat "n"
    let ac ← j.getObjValAs? Nat "added_count"
    let af ← getRat j "added_fraction"
    pure (exceptJson slotsJson (Score.star ac af cfg votes n))
  | _ => none

def handlers : List (String → Json → Option (Except String Json)) :=
  [own, C09.handle, C01.handle, C16.handle, C02.handle, C12.handle, C03.handle, C08Seq.handle, C05.handle, Pure.handle]

def handle (op : String) (j : Json) : Option (Except String Json) :=
  handlers.firstM (fun h => h op j)
end VL.Drv.C10
