import VotelibDriver.C09
import VotelibDriver.C01
import VotelibDriver.C16
import VotelibDriver.C02
open Lean
namespace VL.Drv.C10
/-- the C10 driver evaluates the models of the proved families (owned by C09, C01, C16, C02, ...) through the
    correspondence-validated handlers of their owners -/
def handlers : List (String → Json → Option (Except String Json)) :=
  [C09.handle, C01.handle, C16.handle, C02.handle]

def handle (op : String) (j : Json) : Option (Except String Json) :=
  handlers.firstM (fun h => h op j)
end VL.Drv.C10
