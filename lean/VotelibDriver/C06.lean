import VotelibDriver.Json
import VotelibModel.Condorcet
open Lean
namespace VL.Drv.C06
open VL.Condorcet

/-- a pairwise dict: [[upper, lower, "p/q"], ...] in insertion order -/
def getPairwise (j : Json) (k : String) : Except String Pairwise := do
  let v ← j.getObjVal? k
  let arr ← fromJson? (α := Array Json) v
  arr.toList.mapM (fun e => do
    let a ← fromJson? (α := Nat) (← e.getArrVal? 0)
    let b ← fromJson? (α := Nat) (← e.getArrVal? 1)
    let s ← (← e.getArrVal? 2).getStr?
    match parseRat s with
    | some r => pure ((a, b), r)
    | none => throw s!"bad rational {s}")

def handle (op : String) (j : Json) : Option (Except String Json) :=
  match op with
  | "cw" => some do
    let v ← getPairwise j "votes"
    pure (toJson (condorcetWinner v))
  | "smith" => some do
    let v ← getPairwise j "votes"
    pure (toJson (smithSet v))
  | "schwartz" => some do
    let v ← getPairwise j "votes"
    pure (toJson (schwartzSet v))
  | _ => none

end VL.Drv.C06
