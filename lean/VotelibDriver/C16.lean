/-
  Driver handler of C16: thresholds, bracketers, alternative thresholds, open lists, list tie-breaker.
  (quota_selector is served by the C09 handler, which DriverMain/C16 chains after this one.)
-/
import VotelibDriver.Json
import VotelibDriver.C09
import VotelibModel.Threshold
import VotelibModel.OpenList
import VotelibModel.Simple
import VotelibModel.Gen.Quota
open Lean
namespace VL.Drv.C16

partial def parseSel (j : Json) : Except String Sel := do
  let k ← j.getObjValAs? String "k"
  match k with
  | "abs" => pure (.abs (← getRat j "t") (← j.getObjValAs? Bool "eq"))
  | "rel" => pure (.rel (← getRat j "t") (← j.getObjValAs? Bool "eq"))
  | "alt" => do
    let ps ← j.getObjValAs? (Array Json) "parts"
    pure (.alt (← ps.toList.mapM parseSel))
  | "coalition" => do
    let evs ← j.getObjValAs? (Array Json) "evs"
    let evs ← evs.toList.mapM (fun e => do
      let a ← fromJson? (α := Array Json) e
      match a.toList with
      | [n, s] => do pure ((← fromJson? (α := Nat) n), (← parseSel s))
      | _ => throw "bad evs entry")
    pure (.coalition evs (← parseSel (← j.getObjVal? "default")))
  | "property" => do
    let evs ← j.getObjValAs? (Array Json) "evs"
    let optSel : Json → Except String (Option Sel) := fun s =>
      match s with
      | Json.null => pure none
      | s => do pure (some (← parseSel s))
    let evs ← evs.toList.mapM (fun e => do
      let a ← fromJson? (α := Array Json) e
      match a.toList with
      | [n, s] => do pure ((← fromJson? (α := Nat) n), (← optSel s))
      | _ => throw "bad evs entry")
    pure (.property evs (← optSel (← j.getObjVal? "default")))
  | "prev" => do pure (.prevGain (← parseSel (← j.getObjVal? "inner")))
  | _ => throw s!"bad selector kind {k}"

def candsJson (l : List Cand) : Json := toJson l

/-- the quota argument: a registered name, or `const:p/q` for `votelib.component.quota.constant(p/q)` -/
def parseQuota (s : String) : Except String (Rat → Nat → Rat) :=
  match C09.quotaByName s with
  | some q => pure q
  | none =>
    if s.startsWith "const:" then
      match parseRat (s.drop 6).toString with
      | some r => pure (fun _ _ => r)
      | none => throw s!"bad constant quota {s}"
    else throw s!"unknown quota {s}"

def getOptNatMap (j : Json) (k : String) : Except String (List (Nat × Option Nat)) := do
  match j.getObjVal? k with
  | .ok Json.null => pure []
  | .ok v => do
    let a ← fromJson? (α := Array (Nat × Option Nat)) v
    pure a.toList
  | .error _ => pure []

def parseSlots (j : Json) : Except String (List Slot) := do
  let a ← fromJson? (α := Array Json) j
  a.toList.mapM (fun x => match x.getObjVal? "tie" with
    | .ok t => do pure (Slot.tie (← fromJson? (α := List Nat) t))
    | .error _ => do pure (Slot.cand (← fromJson? (α := Nat) x)))

def handle (op : String) (j : Json) : Option (Except String Json) :=
  match op with
  | "abs_threshold" => some do
    let votes ← getVotes j "votes"
    pure (candsJson (absoluteThreshold (← getRat j "threshold") (← j.getObjValAs? Bool "accept_equal") votes))
  | "rel_threshold" => some do
    let votes ← getVotes j "votes"
    pure (exceptJson candsJson (relativeThreshold (← getRat j "threshold") (← j.getObjValAs? Bool "accept_equal") votes))
  | "seatless" => some do
    let votes ← getVotes j "votes"
    let sel ← parseSel (← j.getObjVal? "sel")
    let prev ← match j.getObjVal? "prev" with
      | .ok Json.null => pure []
      | .ok v => jsonVotes v
      | .error _ => pure []
    let members ← getNatMap j "members"
    let props ← getOptNatMap j "props"
    let attrs : Attrs := {
      members := fun c => match members.find? (fun e => e.1 == c) with | some e => e.2 | none => 1
      prop := fun c => match props.find? (fun e => e.1 == c) with | some e => e.2 | none => none }
    -- the model reports the mean ranks too (harness groups equal mean ranks of an `alt` at the root)
    pure (exceptJson candsJson (Sel.run attrs 64 sel votes prev))
  | "alt_ranks" => some do
    -- mean ranks of the combined result for explicit partial results (canonicalisation helper)
    let rs ← j.getObjValAs? (List (List Nat)) "results"
    pure (Json.arr ((alternativeCombine rs).map (fun c => Json.arr #[toJson c, ratJson (meanRank rs c)])).toArray)
  | "openlist" => some do
    let votes ← getVotes j "votes"
    let n ← j.getObjValAs? Nat "n"
    let clist ← j.getObjValAs? (List Nat) "list"
    let jf ← getRatOpt j "jump_fraction"
    let q ← match j.getObjVal? "quota" with
      | .ok (Json.str s) => do pure (some (← parseQuota s))
      | _ => pure none
    let divides := match j.getObjVal? "quota" with
      | .ok (Json.str s) => s == "hare" || s == "hare_rounded"
      | _ => false
    let qf ← getRat j "quota_fraction"
    let cfg : OpenListCfg := {
      jumpFraction := jf, quota := q, quotaFraction := qf,
      takeHigher := (← j.getObjValAs? Bool "take_higher"),
      acceptEqual := (← j.getObjValAs? Bool "accept_equal"),
      listPrecedence := (← j.getObjValAs? Bool "list_precedence") }
    pure (exceptJson candsJson (thresholdOpenListAt divides cfg votes n clist))
  | "tiebreak" => some do
    let votes ← getVotes j "votes"
    let n ← j.getObjValAs? Nat "n"
    let clist ← j.getObjValAs? (List Nat) "list"
    let inner ← j.getObjValAs? String "inner"
    let f : Votes → Nat → Except Err (List Slot) ←
      if inner = "plurality" then pure (fun v k => .ok (plurality v k))
      else do
        let q ← parseQuota inner
        let eq ← j.getObjValAs? Bool "accept_equal"
        pure (quotaSelector q eq OnMore.select)
    pure (exceptJson slotsJson (listOrderTieBreaker f votes n clist))
  | "break_by_list" => some do
    let el ← parseSlots (← j.getObjVal? "elected")
    let br ← j.getObjValAs? (List Nat) "breaker"
    pure (exceptJson candsJson (breakByList el br))
  | _ => none

end VL.Drv.C16
