/-
  driver handler of C07: the verified certificate checkers (`biprop_cert`, `infeasible_cert`) and the
  port of the evaluator (`biprop_eval`).
-/
import VotelibDriver.Json
import VotelibModel.Biprop
open Lean
namespace VL.Drv.C07
open VL.Biprop

def divByName : String → Option (Nat → Rat)
  | "d_hondt" => some Gen.Divisor.d_hondt
  | "sainte_lague" => some Gen.Divisor.sainte_lague
  | _ => none

def getRatMat (j : Json) (k : String) : Except String (Mat Rat) := do
  let v ← j.getObjVal? k
  let arr ← fromJson? (α := Array (Array String)) v
  arr.toList.mapM (fun r => r.toList.mapM (fun s => match parseRat s with
    | some x => pure x
    | none => throw s!"bad rational {s}"))

def getRatList (j : Json) (k : String) : Except String (List Rat) := do
  let v ← j.getObjVal? k
  let arr ← fromJson? (α := Array String) v
  arr.toList.mapM (fun s => match parseRat s with
    | some x => pure x
    | none => throw s!"bad rational {s}")

def getNatMat (j : Json) (k : String) : Except String (Mat Nat) := do
  let v ← j.getObjVal? k
  let arr ← fromJson? (α := Array (Array Nat)) v
  pure (arr.toList.map (·.toList))

def getNatList (j : Json) (k : String) : Except String (List Nat) := do
  let v ← j.getObjVal? k
  let arr ← fromJson? (α := Array Nat) v
  pure arr.toList

def ratsJson (l : List Rat) : Json := Json.arr (l.map ratJson).toArray

def outcomeJson (o : Outcome) : Json :=
  Json.mkObj [("seats", toJson o.final.x), ("dc", ratsJson o.final.dc), ("pc", ratsJson o.final.pc),
              ("transfers", toJson o.transfers), ("updates", ratsJson o.updates)]

def handle (op : String) (j : Json) : Option (Except String Json) :=
  match op with
  | "biprop_cert" => some do
    let q ← getRat j "q"
    let votes ← getRatMat j "votes"
    let row ← getNatList j "row"
    let col ← getNatList j "col"
    let x ← getNatMat j "x"
    let rho ← getRatList j "rho"
    let gamma ← getRatList j "gamma"
    pure (toJson (bipropCheckL q votes row col x rho gamma))
  | "infeasible_cert" => some do
    let votes ← getRatMat j "votes"
    let row ← getNatList j "row"
    let col ← getNatList j "col"
    let S ← getNatList j "S"
    let T ← getNatList j "T"
    pure (toJson (infeasibleCheckL votes row col S T))
  | "biprop_eval" => some do
    let dn ← j.getObjValAs? String "divisor"
    let div ← match divByName dn with
      | some d => pure d
      | none => throw s!"unknown divisor {dn}"
    let q ← getRat j "q"
    let votes ← getRatMat j "votes"
    let total ← j.getObjValAs? Nat "total"
    let rows ← match j.getObjVal? "rows" with
      | .ok Json.null => pure none
      | .ok _ => do let l ← getNatList j "rows"; pure (some l)
      | .error _ => pure none
    let fuel := (j.getObjValAs? Nat "fuel").toOption.getD 100000
    -- which cells are keys of the district dicts (absent = every cell): fixes `all_parties`, the order of first appearance
    let present : List (List Bool) ← match j.getObjVal? "present" with
      | .ok Json.null => pure (votes.map (fun r => r.map (fun _ => true)))
      | .ok v => do let a ← fromJson? (α := Array (Array Bool)) v; pure (a.toList.map (·.toList))
      | .error _ => pure (votes.map (fun r => r.map (fun _ => true)))
    let ord := firstAppearance present
    -- the decidable hypotheses of `VL.C07.evaluate_ok_sound`, evaluated on this very input
    let hyp : List (String × Json) :=
      [("votes_ok", toJson (votesOk votes)), ("has_votes", toJson (hasVotes votes)),
       ("mask_ok", toJson (maskOk present votes)), ("ord_covers", toJson (ordCovers ord votes)), ("ord", toJson ord),
       ("init_ok", match initState div q votes total with
          | .ok s0 => toJson (stateOk q votes s0)
          | .error _ => Json.null)]
    pure (match evaluate div q ord votes total rows fuel with
      | .ok o => (outcomeJson o).mergeObj (Json.mkObj hyp)
      | .error e => (errJson e).mergeObj (Json.mkObj hyp))
  | "biprop_init" => some do
    let dn ← j.getObjValAs? String "divisor"
    let div ← match divByName dn with
      | some d => pure d
      | none => throw s!"unknown divisor {dn}"
    let q ← getRat j "q"
    let votes ← getRatMat j "votes"
    let total ← j.getObjValAs? Nat "total"
    pure (match initState div q votes total with
      | .ok s => Json.mkObj [("seats", toJson s.x), ("pc", ratsJson s.pc)]
      | .error e => errJson e)
  | "ha" => some do
    let dn ← j.getObjValAs? String "divisor"
    let div ← match divByName dn with
      | some d => pure d
      | none => throw s!"unknown divisor {dn}"
    let votes ← getRatList j "votes"
    let n ← j.getObjValAs? Nat "n"
    pure (match haEvaluate div votes n with
      | .ok r => Json.mkObj [("seats", toJson r.seats),
                             ("tie", match r.tie with | none => Json.null | some (b, c) => Json.arr #[toJson b, toJson c])]
      | .error e => errJson e)
  | _ => none

end VL.Drv.C07
