/-
  VotelibDriver.Json — protocol encoding shared by all driver handlers.
  Numbers travel as strings "p" or "p/q"; candidates are Nat ids; a Tie is {"tie":[ids]};
  errors are {"err": "<enum>"}.
-/
import Lean.Data.Json
import VotelibModel.Core
open Lean
namespace VL.Drv

def parseRat (s : String) : Option Rat :=
  match s.splitOn "/" with
  | [a] => a.toInt?.map (fun i => (i : Rat))
  | [a, b] => do
    let x ← a.toInt?
    let y ← b.toNat?
    if y = 0 then none else some ((x : Rat) / (y : Rat))
  | _ => none

def ratStr (r : Rat) : String :=
  if r.den = 1 then toString r.num else s!"{r.num}/{r.den}"

def ratJson (r : Rat) : Json := Json.str (ratStr r)

def getRat (j : Json) (k : String) : Except String Rat := do
  let s ← j.getObjValAs? String k
  match parseRat s with
  | some r => pure r
  | none => throw s!"bad rational {s}"

def jsonRat (j : Json) : Except String Rat := do
  let s ← fromJson? (α := String) j
  match parseRat s with
  | some r => pure r
  | none => throw s!"bad rational {s}"

def getRatOpt (j : Json) (k : String) : Except String (Option Rat) :=
  match j.getObjVal? k with
  | .ok Json.null => pure none
  | .ok v => do let r ← jsonRat v; pure (some r)
  | .error _ => pure none

/-- a dict candidate -> number: [[c, "p/q"], ...] -/
def jsonVotes (j : Json) : Except String Votes := do
  let arr ← fromJson? (α := Array (Nat × String)) j
  arr.toList.mapM (fun (c, s) => match parseRat s with
    | some r => pure (c, r)
    | none => throw s!"bad rational {s}")

def getVotes (j : Json) (k : String) : Except String Votes := do
  let v ← j.getObjVal? k
  jsonVotes v

/-- a dict candidate -> Nat : [[c, n], ...] -/
def getNatMap (j : Json) (k : String) : Except String (List (Nat × Nat)) := do
  match j.getObjVal? k with
  | .ok Json.null => pure []
  | .ok v => do let a ← fromJson? (α := Array (Nat × Nat)) v; pure a.toList
  | .error _ => pure []

def votesJson (v : Votes) : Json :=
  Json.arr (v.map (fun p => Json.arr #[toJson p.1, ratJson p.2])).toArray

def slotJson : Slot → Json
  | .cand c => toJson c
  | .tie cs => Json.mkObj [("tie", toJson cs)]

def slotsJson (l : List Slot) : Json := Json.arr (l.map slotJson).toArray

def keyJson : Key → Json
  | .cand c => toJson c
  | .tie cs => Json.mkObj [("tie", toJson cs)]

def distJson (l : List (Key × Nat)) : Json :=
  Json.arr (l.map (fun p => Json.arr #[keyJson p.1, toJson p.2])).toArray

def errName : Err → String
  | .votingSystemError => "VotingSystemError"
  | .notImplemented => "NotImplementedError"
  | .valueError => "ValueError"
  | .voteError => "VoteError"
  | .candidateError => "CandidateError"
  | .parseError => "ParseError"
  | .other n => n

def errJson (e : Err) : Json := Json.mkObj [("err", Json.str (errName e))]

def exceptJson {α} (f : α → Json) : Except Err α → Json
  | .ok a => f a
  | .error e => errJson e

end VL.Drv
