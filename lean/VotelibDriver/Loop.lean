/-
  line protocol loop shared by the per-property drivers:
  one JSON request per line on stdin, one JSON answer per line on stdout.
  {"op": "...", ...}  ->  result | {"err": "..."} | {"driver_error": "..."}
-/
import VotelibDriver.Json
open Lean
namespace VL.Drv

abbrev Handler := String → Json → Option (Except String Json)

def dispatch (hs : List Handler) (j : Json) : Except String Json := do
  let op ← j.getObjValAs? String "op"
  let rec go : List Handler → Except String Json
    | [] => throw s!"bad-op {op}"
    | h :: t => match h op j with
      | some r => r
      | none => go t
  go hs

partial def loop (hs : List Handler) (h : IO.FS.Stream) (out : IO.FS.Stream) : IO Unit := do
  let line ← h.getLine
  if line.isEmpty then return ()
  let ans := match Json.parse line >>= dispatch hs with
    | .ok j => j.compress
    | .error e => (Json.mkObj [("driver_error", Json.str e)]).compress
  out.putStrLn ans
  loop hs h out

def mainLoop (hs : List Handler) : IO Unit := do
  let out ← IO.getStdout
  loop hs (← IO.getStdin) out
  out.flush

end VL.Drv
