/-
  Driver handler of C17: op `pair_eval` evaluates a base election and its perturbation with the models and
  applies the move itself (`moved`), so that the Lean definition of the move is compared with the harness's.

  Encodings as for C13: candidate = Nat; frozenset = {"set":[...]}; tuple = [...]; numbers = "p/q";
  rank item = Nat | {"set":[Nat]}; score ballot = {"set":[[c,"s"],...]}; a dict = [[key, value], ...].
-/
import VotelibDriver.Json
import VotelibDriver.C01
import VotelibModel.Mono
import VotelibModel.Score
import VotelibModel.ShapeSequential
open Lean
namespace VL.Drv.C17
open VL VL.Convert VL.Mono

/-! ### parsing -/

def pSet (j : Json) : Except String (Array Json) := do
  let s ← j.getObjVal? "set"
  match s with
  | .arr a => pure a
  | _ => throw "set: array expected"

def pNat (j : Json) : Except String Nat := fromJson? (α := Nat) j

def pItem (j : Json) : Except String RankItem :=
  match j with
  | .obj _ => do
    let a ← pSet j
    let cs ← a.toList.mapM pNat
    pure (.shared cs)
  | _ => do let c ← pNat j; pure (.one c)

def pArr (j : Json) : Except String (List Json) :=
  match j with
  | .arr a => pure a.toList
  | _ => throw "array expected"

def pBallot (j : Json) : Except String Ballot := do (← pArr j).mapM pItem

def pApproval (j : Json) : Except String Approval := do (← pSet j).toList.mapM pNat

def pPair {α β} (fa : Json → Except String α) (fb : Json → Except String β) (j : Json) : Except String (α × β) := do
  match (← pArr j) with
  | [a, b] => do pure (← fa a, ← fb b)
  | _ => throw "pair expected"

def pScoreBallot (j : Json) : Except String ScoreBallot := do
  (← pSet j).toList.mapM (pPair pNat jsonRat)

def pDict {κ} (fk : Json → Except String κ) (j : Json) : Except String (Dict κ) := do
  (← pArr j).mapM (pPair fk jsonRat)

/-! ### printing -/

def setJson (l : List Json) : Json := Json.mkObj [("set", Json.arr l.toArray)]

def itemJson : RankItem → Json
  | .one c => toJson c
  | .shared cs => setJson (cs.map toJson)

def ballotJson (b : Ballot) : Json := Json.arr (b.map itemJson).toArray
def approvalJson (b : Approval) : Json := setJson (b.map toJson)
def scoreBallotJson (b : ScoreBallot) : Json := setJson (b.map (fun cs => Json.arr #[toJson cs.1, ratJson cs.2]))

def dictJson {κ} (fk : κ → Json) (d : Dict κ) : Json :=
  Json.arr (d.map (fun kv => Json.arr #[fk kv.1, ratJson kv.2])).toArray

def answer (base pert : Json) (moved : Option Json) : Json :=
  Json.mkObj [("base", base), ("pert", pert), ("moved", moved.getD Json.null)]

def slotsE : Except Err (List Slot) → Json := exceptJson slotsJson

/-! ### rules -/

inductive RankedRule where
  | positional (sc : Scorer)
  | bucklin
  | bucklinWhole
  | pa (coef : Nat → Rat) (split : Bool)
  | copeland (so : Bool)
  | minimax (sc : Condorcet.Scorer)
  | schulze

def rankedRule (rule : String) (j : Json) : Except String (Option RankedRule) := do
  match rule with
  | "borda" => do pure (some (.positional (.borda (← j.getObjValAs? Int "param"))))
  | "dowdall" => pure (some (.positional .dowdall))
  | "geometric" => do pure (some (.positional (.geometric (← j.getObjValAs? Nat "param"))))
  | "modified_borda" => pure (some (.positional .modifiedBorda))
  | "fixed_top" => do pure (some (.positional (.fixedTop (← j.getObjValAs? Int "param"))))
  | "sequence" => do
    let a ← pArr (← j.getObjVal? "param")
    let seq ← a.mapM jsonRat
    pure (some (.positional (.sequence seq)))
  | "bucklin" => pure (some .bucklin)
  | "bucklin_whole" => pure (some .bucklinWhole)
  | "pa_list" | "pa_list_whole" => do
    let a ← pArr (← j.getObjVal? "param")
    let l ← a.mapM jsonRat
    pure (some (.pa (coefOfList l) (rule = "pa_list")))
  | "pa_call" => pure (some (.pa ShapeSeq.coefOklahoma true))
  | "pa_call_whole" => pure (some (.pa ShapeSeq.coefOklahoma false))
  | "copeland" => do pure (some (.copeland ((← j.getObjValAs? Nat "param") != 0)))
  | "minimax_wv" => pure (some (.minimax .winningVotes))
  | "minimax_margins" => pure (some (.minimax .margins))
  | "minimax_pwo" => pure (some (.minimax .pairwiseOpposition))
  | "schulze" => pure (some .schulze)
  | _ => pure none

def evalRanked : RankedRule → RProfile → Except Err (List Slot)
  | .positional sc, p => evalPositional sc p
  | .bucklin, p => evalBucklinSplit p
  | .bucklinWhole, p => evalBucklin p
  | .pa coef split, p =>
    -- the one-seat model of VotelibModel.Mono, cross-checked against the multi-seat model of C08 (ShapeSequential)
    let mine := if split then evalPASplit coef p else evalPA coef p
    let canonSlot : Slot → Slot := fun s => match s with
      | .tie cs => .tie (cs.foldl (fun a c => Condorcet.insertSorted c a) [])
      | s => s
    let canonR : Except Err (List Slot) → Except Err (List Slot) := fun r => match r with
      | .ok l => .ok (l.map canonSlot)
      | e => e
    let same : Bool := match canonR mine, canonR (ShapeSeq.preferenceAddition coef split p 1) with
      | .ok a, .ok b => decide (a = b)
      | .error a, .error b => decide (a = b)
      | _, _ => false
    if same then mine
    else .error (.other "C17 and C08 models of PreferenceAddition differ")
  | .copeland so, p => .ok (evalCopeland so p)
  | .minimax sc, p => .ok (evalMinimax sc p)
  | .schulze, p => .ok (evalSchulze p)

def nthKey {κ} (d : Dict κ) (i : Nat) : Except String κ :=
  match d[i]? with
  | some e => pure e.1
  | none => throw s!"ballot index {i} out of range"

/-- cross-check of `scoreSum` against the `{score: count}` table model of C12 (`Score.scoreVoting` with `sum`) -/
def intProfile (p : SProfile) : Except String Score.SProfile :=
  p.mapM (fun bw => if bw.2.den = 1 then pure (bw.1, bw.2.num) else throw "score_sum: integral counts expected")

def tableCfg (un : Score.Unscored) : Score.Cfg := { fn := .sum, unscored := un, minCount := 0, trunc := .off, bottom := 0 }

/-- the `unscored_value` of the request: null, a number, or "min" -/
inductive UnscoredParam where
  | none | value (u : Rat) | min

def pUnscored (j : Json) : Except String UnscoredParam :=
  match j.getObjVal? "param" with
  | .ok Json.null => pure .none
  | .ok (Json.str "min") => pure .min
  | .ok v => do pure (.value (← jsonRat v))
  | .error _ => pure .none

/-- one-seat result of `ScoreVoting('sum', unscored_value=…)`: the sum models of VotelibModel.Mono, cross-checked against
    the `{score: count}` table model of C12 (`Score.scoreVoting`); `unscored_value='min'` is evaluated by the table
    model only -/
def evalScore (un : UnscoredParam) (p : SProfile) : Except String Json := do
  let ip ← intProfile p
  match un with
  | .none =>
    match Score.scoreVoting (tableCfg .none) ip 1 with
    | .ok r => if r = evalScoreSum p then pure (slotsJson r) else throw "score_sum: table model and sum model differ"
    | .error _ => throw "score_sum: table model refuses"
  | .value u =>
    match Score.scoreVoting (tableCfg (.value u)) ip 1 with
    | .ok r => if r = evalScoreSumU u p then pure (slotsJson r) else throw "score_sum: table model and sum model differ (unscored value)"
    | .error _ => throw "score_sum: table model refuses"
  | .min => pure (exceptJson slotsJson (Score.scoreVoting (tableCfg .min) ip 1))

def handle (op : String) (j : Json) : Option (Except String Json) :=
  match op with
  | "pair_eval" => some do
    let rule ← j.getObjValAs? String "rule"
    let jb ← j.getObjVal? "base"
    let jp ← j.getObjVal? "pert"
    if rule = "ha" then
      let cb ← C01.getCfg jb
      let cp ← C01.getCfg jp
      pure (answer (exceptJson distJson (highestAverages cb)) (exceptJson distJson (highestAverages cp)) none)
    else
      let w ← j.getObjValAs? Nat "w"
      let mv ← j.getObjVal? "move"
      let kind ← mv.getObjValAs? String "kind"
      if rule = "plurality" then
        let b ← getVotes j "base"
        let p ← getVotes j "pert"
        let moved ← match kind with
          | "new" => pure (oneMore b w)
          | "switch" => do pure (switchVote b (← mv.getObjValAs? Nat "from") w)
          | k => throw s!"plurality: unknown move {k}"
        pure (answer (slotsJson (evalPlurality b)) (slotsJson (evalPlurality p)) (some (votesJson moved)))
      else if rule = "approval" then
        let b ← pDict pApproval jb
        let p ← pDict pApproval jp
        let moved ← match kind with
          | "new" => do pure (addTo b (← pApproval (← mv.getObjVal? "ballot")) 1)
          | "approve" => do
            let x ← nthKey b (← mv.getObjValAs? Nat "ballot")
            pure (replaceUnit b x (approve w x))
          | k => throw s!"approval: unknown move {k}"
        let split := match j.getObjVal? "param" with
          | .ok Json.null => false
          | .ok _ => true
          | .error _ => false
        let ev := if split then evalApprovalSplit else evalApproval
        pure (answer (slotsE (ev b)) (slotsE (ev p)) (some (dictJson approvalJson moved)))
      else if rule = "score_gen" then
        let b ← pDict pScoreBallot jb
        let p ← pDict pScoreBallot jp
        let pj ← j.getObjVal? "param"
        let pfn : String → Except String ListFn := fun n => match n with
          | "sum" => pure .sum | "mean" => pure .mean | "median" => pure .median | "min" => pure .min | "max" => pure .max
          | "midrange" => pure .midrange
          | other => match parseRat other with
            | some v => pure (.const v)
            | none => throw s!"score_gen: unknown function {other}"
        let agg ← pfn (← pj.getObjValAs? String "fn")
        let fill : Option ListFn ← match pj.getObjVal? "unscored" with
          | .ok Json.null => pure none
          | .ok (Json.str n) => do pure (some (← pfn n))
          | _ => pure none
        let moved ← match kind with
          | "raise" => do
            let x ← nthKey b (← mv.getObjValAs? Nat "ballot")
            let s ← getRat mv "score"
            pure (replaceUnit b x (raiseScore w s x))
          | k => throw s!"score_gen: unknown move {k}"
        pure (answer (slotsE (evalScoreGen agg fill b)) (slotsE (evalScoreGen agg fill p)) (some (dictJson scoreBallotJson moved)))
      else if rule = "score_trunc" then
        -- ScoreVoting(function, unscored_value, min_count, truncation): evaluated by the {score: count} table model of C12
        let b ← pDict pScoreBallot jb
        let p ← pDict pScoreBallot jp
        let pj ← j.getObjVal? "param"
        let fnName ← pj.getObjValAs? String "fn"
        let fn : Score.Agg := if fnName = "mean" then .mean else .sum
        let un : Score.Unscored ← match pj.getObjVal? "unscored" with
          | .ok Json.null => pure Score.Unscored.none
          | .ok v => do pure (Score.Unscored.value (← jsonRat v))
          | .error _ => pure Score.Unscored.none
        let mc ← pj.getObjValAs? Int "min_count"
        let tr : Score.Trunc ← match pj.getObjVal? "trunc" with
          | .ok Json.null => pure Score.Trunc.off
          | .ok v => match v.getObjVal? "count" with
            | .ok c => do pure (Score.Trunc.count (← fromJson? (α := Nat) c))
            | .error _ => do pure (Score.Trunc.frac (← getRat v "frac"))
          | .error _ => pure Score.Trunc.off
        let cfg : Score.Cfg := { fn := fn, unscored := un, minCount := mc, trunc := tr, bottom := 0 }
        let ib ← intProfile b
        let ip ← intProfile p
        let moved ← match kind with
          | "raise" => do
            let x ← nthKey b (← mv.getObjValAs? Nat "ballot")
            let s ← getRat mv "score"
            pure (replaceUnit b x (raiseScore w s x))
          | k => throw s!"score_trunc: unknown move {k}"
        pure (answer (exceptJson slotsJson (Score.scoreVoting cfg ib 1)) (exceptJson slotsJson (Score.scoreVoting cfg ip 1))
          (some (dictJson scoreBallotJson moved)))
      else if rule = "score_sum" then
        let b ← pDict pScoreBallot jb
        let p ← pDict pScoreBallot jp
        let un ← pUnscored j
        let rb ← evalScore un b
        let rp ← evalScore un p
        let moved ← match kind with
          | "new" => do pure (addTo b (← pScoreBallot (← mv.getObjVal? "ballot")) 1)
          | "raise" => do
            let x ← nthKey b (← mv.getObjValAs? Nat "ballot")
            let s ← getRat mv "score"
            pure (replaceUnit b x (raiseScore w s x))
          | k => throw s!"score_sum: unknown move {k}"
        pure (answer rb rp (some (dictJson scoreBallotJson moved)))
      else
        match ← rankedRule rule j with
        | none => throw s!"unknown rule {rule}"
        | some r =>
          let b ← pDict pBallot jb
          let p ← pDict pBallot jp
          let moved ← match kind with
            | "new" => do pure (addTo b (← pBallot (← mv.getObjVal? "ballot")) 1)
            | "lift" => do
              let x ← nthKey b (← mv.getObjValAs? Nat "ballot")
              let i ← mv.getObjValAs? Nat "pos"
              if !liftOK w i x then throw "lift: not an upward move"
              pure (replaceUnit b x (lift w i x))
            | "join" => do
              let x ← nthKey b (← mv.getObjValAs? Nat "ballot")
              pure (replaceUnit b x (joinAbove w x))
            | k => throw s!"ranked: unknown move {k}"
          pure (answer (slotsE (evalRanked r b)) (slotsE (evalRanked r p)) (some (dictJson ballotJson moved)))
  | _ => none

end VL.Drv.C17
