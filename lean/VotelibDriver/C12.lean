import VotelibDriver.Json
import VotelibModel.Approval
import VotelibModel.Score
import VotelibModel.Gen.Quota
open Lean
namespace VL.Drv.C12
open VL VL.Appr VL.Score

def getApproval (j : Json) : Except String Profile := do
  let v ← j.getObjVal? "votes"
  let arr ← fromJson? (α := Array (Array Nat × String)) v
  arr.toList.mapM (fun (b, s) => match parseRat s with
    | some r => pure (b.toList, r)
    | none => throw s!"bad rational {s}")

def getScoreProfile (j : Json) : Except String SProfile := do
  let v ← j.getObjVal? "votes"
  let arr ← fromJson? (α := Array (Array (Nat × String) × Int)) v
  arr.toList.mapM (fun (b, n) => do
    let bl ← b.toList.mapM (fun (c, s) => match parseRat s with
      | some r => pure (c, r)
      | none => throw s!"bad rational {s}")
    pure (bl, n))

def getCfg (j : Json) : Except String Cfg := do
  let fn ← match j.getObjValAs? String "function" with
    | .ok "mean" => pure Agg.mean
    | .ok "sum" => pure Agg.sum
    | .ok "median_low" => pure Agg.medianLow
    | .ok s => throw s!"unknown function {s}"
    | .error _ => pure Agg.mean
  let unscored ← match j.getObjVal? "unscored" with
    | .ok Json.null => pure Unscored.none
    | .ok (Json.str "min") => pure Unscored.min
    | .ok v => do let r ← jsonRat v; pure (Unscored.value r)
    | .error _ => pure Unscored.none
  let minCount ← match j.getObjValAs? Int "min_count" with
    | .ok k => pure k
    | .error _ => pure 0
  let t ← match j.getObjVal? "truncation" with
    | .ok v => jsonRat v
    | .error _ => pure 0
  let trunc ← if t = 0 then pure Trunc.off
    else if 0 < t ∧ t < 1 then pure (Trunc.frac t)
    else if t.den = 1 ∧ 1 ≤ t then pure (Trunc.count t.num.toNat)
    else throw s!"truncation outside the modelled domain"
  let bottom ← match j.getObjVal? "bottom" with
    | .ok v => jsonRat v
    | .error _ => pure 0
  pure { fn := fn, unscored := unscored, minCount := minCount, trunc := trunc, bottom := bottom }

def withKeys (sel : List Slot) (keys : Votes) : Json :=
  Json.mkObj [("sel", slotsJson sel), ("keys", votesJson keys)]

def keyListJson (l : List Key) : Json := Json.arr (l.map keyJson).toArray

def pavJson (coefs : List Rat) (votes : Profile) (n : Nat) : Json :=
  match (pavStep coefs votes n).1 with
  | .ok sel =>
    match dropKeys (extendCoefs coefs n) votes (slotCands sel) with
    | .ok ks => withKeys sel ks
    | .error e => errJson e
  | .error e => errJson e

def pavSeqJson (votes : Profile) : List Rat → List Nat → List Json
  | _, [] => []
  | coefs, n :: ns => pavJson coefs votes n :: pavSeqJson votes (pavStep coefs votes n).2 ns

/-- counts as JSON numbers or as "p/q" strings -/
def getWeightedProfile (j : Json) : Except String WProfile := do
  let v ← j.getObjVal? "votes"
  let arr ← fromJson? (α := Array (Array (Nat × String) × Json)) v
  arr.toList.mapM (fun (b, w) => do
    let bl ← b.toList.mapM (fun (c, s) => match parseRat s with
      | some r => pure (c, r)
      | none => throw s!"bad rational {s}")
    let wr ← match w with
      | Json.str s => (match parseRat s with
        | some r => pure r
        | none => throw s!"bad rational {s}")
      | _ => do let i ← fromJson? (α := Int) w; pure ((i : Int) : Rat)
    pure (bl, wr))

def quotaByName : String → Option (Rat → Nat → Rat)
  | "hare" => some Gen.Quota.hare
  | "hare_rounded" => some Gen.Quota.hare_rounded
  | "droop" => some Gen.Quota.droop
  | "hagenbach_bischoff" => some Gen.Quota.hagenbach_bischoff
  | "hagenbach_bischoff_ceil" => some Gen.Quota.hagenbach_bischoff_ceil
  | "hagenbach_bischoff_rounded" => some Gen.Quota.hagenbach_bischoff_rounded
  | "imperiali" => some Gen.Quota.imperiali
  | _ => none

def handle1 (op : String) (j : Json) : Option (Except String Json) :=
  match op with
  | "pav" => some do
    let votes ← getApproval j
    let n ← j.getObjValAs? Nat "n"
    pure (pavJson freshCoefs votes n)
  | "pav_seq" => some do
    let votes ← getApproval j
    let calls ← j.getObjValAs? (List Nat) "calls"
    pure (Json.arr (pavSeqJson votes freshCoefs calls).toArray)
  | "spav" => some do
    let votes ← getApproval j
    let n ← j.getObjValAs? Nat "n"
    pure (exceptJson (fun l => toJson l) (spav votes n))
  | "score_agg" => some do
    let votes ← getScoreProfile j
    let cfg ← getCfg j
    pure (exceptJson votesJson (convert cfg votes))
  | "score" => some do
    let votes ← getScoreProfile j
    let cfg ← getCfg j
    let n ← j.getObjValAs? Nat "n"
    pure (match convert cfg votes with
      | .ok agg => withKeys (getNBest agg n) agg
      | .error e => errJson e)
  | "mj" => some do
    let votes ← getScoreProfile j
    let cfg ← getCfg j
    let n ← j.getObjValAs? Nat "n"
    let tb ← j.getObjValAs? String "tie_breaking"
    let tbk ← if tb = "default" then pure TieBreaking.default else if tb = "plus" then pure TieBreaking.plus
      else throw s!"unknown tie_breaking {tb}"
    pure (exceptJson slotsJson (majorityJudgment tbk cfg votes n))
  | "star" => some do
    let votes ← getScoreProfile j
    let cfg ← getCfg j
    let n ← j.getObjValAs? Nat "n"
    let ac ← j.getObjValAs? Nat "added_count"
    let af ← getRat j "added_fraction"
    if cfg.unscored = Unscored.min then throw "STAR with unscored_value='min' is not modelled"
    pure (match starRunoff ac af cfg votes n with
      | .ok r =>
        if r.1.length ≤ 1 then withKeys ((r.1.take n).map Slot.cand) (r.1.map (fun c => (c, 0)))
        else withKeys (schulze r.2 n) (schulzeScores r.2)
      | .error e => errJson e)
  | "allocated" => some do
    let cv ← getWeightedProfile j
    let n ← j.getObjValAs? Nat "n"
    let qn ← j.getObjValAs? String "quota"
    let q ← match quotaByName qn with
      | some q => pure q
      | none => throw s!"unknown quota {qn}"
    pure (exceptJson keyListJson (allocatedSelectorW q cv n))
  | _ => none

/-- `seq`: the runs of one evaluator object called several times; the models are pure functions of their input -/
def handle (op : String) (j : Json) : Option (Except String Json) :=
  match op with
  | "seq" => some do
    let runs ← j.getObjValAs? (Array Json) "runs"
    let outs ← runs.toList.mapM (fun r => do
      let o ← r.getObjValAs? String "op"
      match handle1 o r with
      | some x => x
      | none => throw s!"bad-op {o}")
    pure (Json.arr outs.toArray)
  | _ => handle1 op j

end VL.Drv.C12
