/-
  driver handler of C20: ops `validate` and `eliminate`.
  Obj encoding:  {"s":id} str | {"c":kind,"id":n} candidate object | {"n":"p/q"} number | null None |
                 {"o":id} other object | {"t":[..]} tuple | {"l":[..]} list | {"f":[..]} frozenset |
                 {"m":[..]} set | {"d":[[keys..],[values..]]} dict
  bounds [lo,hi] (null or "p/q"); bound map {"all":[lo,hi]} | {"by":[[key,[lo,hi]],..]} | {"by":[..],"default":[lo,hi]};
  nominator {"k":"basic","blank":b} | {"k":"person","indep":b,"blank":b} | {"k":"party","coal":b,"blank":b}
-/
import VotelibDriver.Json
import VotelibModel.Validate
open Lean
namespace VL.Drv.C20
open VL.Validate

def kindOf : String → Except String CandKind
  | "person_party" => pure .personParty
  | "person_indep" => pure .personIndep
  | "party" => pure .party
  | "coalition" => pure .coalition
  | "blank" => pure .blank
  | s => throw s!"bad candidate kind {s}"

def kindName : CandKind → String
  | .personParty => "person_party"
  | .personIndep => "person_indep"
  | .party => "party"
  | .coalition => "coalition"
  | .blank => "blank"

partial def parseObj (j : Json) : Except String Obj := do
  match j with
  | Json.null => pure .none
  | _ =>
    let arr (v : Json) : Except String (List Obj) := do
      let a ← fromJson? (α := Array Json) v
      a.toList.mapM parseObj
    if let .ok v := j.getObjVal? "s" then
      let n ← fromJson? (α := Nat) v; pure (.str n)
    else if let .ok v := j.getObjVal? "c" then
      let k ← fromJson? (α := String) v
      let id ← j.getObjValAs? Nat "id"
      pure (.cand (← kindOf k) id)
    else if let .ok v := j.getObjVal? "n" then
      let r ← jsonRat v; pure (.num r)
    else if let .ok v := j.getObjVal? "o" then
      let n ← fromJson? (α := Nat) v; pure (.other n)
    else if let .ok v := j.getObjVal? "t" then pure (.tuple (← arr v))
    else if let .ok v := j.getObjVal? "l" then pure (.list (← arr v))
    else if let .ok v := j.getObjVal? "f" then pure (.fset (← arr v))
    else if let .ok v := j.getObjVal? "m" then pure (.mset (← arr v))
    else if let .ok v := j.getObjVal? "d" then
      let a ← fromJson? (α := Array Json) v
      match a.toList with
      | [ks, vs] => pure (.dict (← arr ks) (← arr vs))
      | _ => throw "bad dict"
    else throw s!"bad object {j.compress}"

partial def objJson : Obj → Json
  | .str s => Json.mkObj [("s", toJson s)]
  | .cand k id => Json.mkObj [("c", Json.str (kindName k)), ("id", toJson id)]
  | .num q => Json.mkObj [("n", ratJson q)]
  | .none => Json.null
  | .other id => Json.mkObj [("o", toJson id)]
  | .tuple xs => Json.mkObj [("t", Json.arr (xs.map objJson).toArray)]
  | .list xs => Json.mkObj [("l", Json.arr (xs.map objJson).toArray)]
  | .fset xs => Json.mkObj [("f", Json.arr (xs.map objJson).toArray)]
  | .mset xs => Json.mkObj [("m", Json.arr (xs.map objJson).toArray)]
  | .dict ks vs => Json.mkObj [("d", Json.arr #[Json.arr (ks.map objJson).toArray, Json.arr (vs.map objJson).toArray])]

def parseOptRat (j : Json) : Except String (Option Rat) :=
  match j with
  | Json.null => pure none
  | v => do let r ← jsonRat v; pure (some r)

def parseBounds (j : Json) : Except String Bounds := do
  let a ← fromJson? (α := Array Json) j
  match a.toList with
  | [lo, hi] => pure ⟨← parseOptRat lo, ← parseOptRat hi⟩
  | _ => throw "bad bounds"

def parseBoundMap (j : Json) : Except String BoundMap := do
  if let .ok v := j.getObjVal? "all" then
    pure (.all (← parseBounds v))
  else
    let v ← j.getObjVal? "by"
    let a ← fromJson? (α := Array Json) v
    let m ← a.toList.mapM (fun e => do
      let p ← fromJson? (α := Array Json) e
      match p.toList with
      | [k, b] => do
        let kk ← fromJson? (α := Nat) k
        let bb ← parseBounds b
        pure (kk, bb)
      | _ => throw "bad bound map entry")
    match j.getObjVal? "default" with
    | .ok d => pure (.withDefault m (← parseBounds d))
    | .error _ => pure (.byKey m)

def parseNom (j : Json) : Except String Nominator := do
  let k ← j.getObjValAs? String "k"
  let blank ← j.getObjValAs? Bool "blank"
  match k with
  | "basic" => pure (.basic blank)
  | "person" => pure (.person (← j.getObjValAs? Bool "indep") blank)
  | "party" => pure (.party (← j.getObjValAs? Bool "coal") blank)
  | _ => throw s!"bad nominator {k}"

def parseValidator (j : Json) : Except String Validator := do
  let vt ← j.getObjValAs? String "vt"
  let nom ← parseNom (← j.getObjVal? "nom")
  let scoreCfg : Except String ScoreCfg := do
    pure ⟨← parseBounds (← j.getObjVal? "n"), ← parseBoundMap (← j.getObjVal? "sum"), nom⟩
  match vt with
  | "simple" => pure (.simple nom)
  | "approval" => pure (.approval ⟨← parseBounds (← j.getObjVal? "count"), nom⟩)
  | "ranked" =>
    pure (.ranked ⟨← parseBounds (← j.getObjVal? "total"), ← parseBoundMap (← j.getObjVal? "rank"), nom⟩)
  | "enum" =>
    let lv ← fromJson? (α := Array Json) (← j.getObjVal? "levels")
    pure (.enumScore ⟨← scoreCfg, ← lv.toList.mapM parseObj⟩)
  | "range" => pure (.range ⟨← scoreCfg, ← parseBounds (← j.getObjVal? "range")⟩)
  | _ => throw s!"bad vote type {vt}"

def rejName : Rej → String
  | .voteError => "VoteError"
  | .candidateError => "CandidateError"
  | .typeError => "TypeError"

def rejJson (r : Rej) : Json := Json.mkObj [("err", Json.str (rejName r))]

def handle (op : String) (j : Json) : Option (Except String Json) :=
  match op with
  | "validate" => some do
    let val ← parseValidator (← j.getObjVal? "val")
    let vote ← parseObj (← j.getObjVal? "vote")
    pure (match val.validate vote with
      | .ok _ => Json.str "ok"
      | .error e => rejJson e)
  | "validate_seq" => some do
    -- one validator object validating a sequence of ballots: the model is stateless, one verdict per ballot
    let val ← parseValidator (← j.getObjVal? "val")
    let a ← fromJson? (α := Array Json) (← j.getObjVal? "votes")
    let votes ← a.toList.mapM parseObj
    pure (Json.arr (votes.map (fun v => match val.validate v with
      | .ok _ => Json.str "ok"
      | .error e => rejJson e)).toArray)
  | "shape" => some do
    -- the well-formedness predicates used as theorem hypotheses, validated against the real objects
    let vote ← parseObj (← j.getObjVal? "vote")
    pure (Json.mkObj [("hashable", toJson vote.hashable), ("wf", toJson vote.wf)])
  | "eliminate_seq" => some do
    -- one eliminator object filtering a sequence of profiles: the model is a pure function of each step
    -- (the validator configuration in force at that step, and the profile)
    let a ← fromJson? (α := Array Json) (← j.getObjVal? "steps")
    let outs ← a.toList.mapM (fun st => do
      let val ← parseValidator (← st.getObjVal? "val")
      let va ← fromJson? (α := Array Json) (← st.getObjVal? "votes")
      let votes ← va.toList.mapM (fun e => do
        let p ← fromJson? (α := Array Json) e
        match p.toList with
        | [k, n] => do pure ((← parseObj k), (← jsonRat n))
        | _ => throw "bad votes entry")
      pure (match eliminate val.validate votes with
        | .ok out => Json.arr (out.map (fun p => Json.arr #[objJson p.1, ratJson p.2])).toArray
        | .error e => rejJson e))
    pure (Json.arr outs.toArray)
  | "eliminate" => some do
    let val ← parseValidator (← j.getObjVal? "val")
    let a ← fromJson? (α := Array Json) (← j.getObjVal? "votes")
    let votes ← a.toList.mapM (fun e => do
      let p ← fromJson? (α := Array Json) e
      match p.toList with
      | [k, n] => do pure ((← parseObj k), (← jsonRat n))
      | _ => throw "bad votes entry")
    pure (match eliminate val.validate votes with
      | .ok out => Json.arr (out.map (fun p => Json.arr #[objJson p.1, ratJson p.2])).toArray
      | .error e => rejJson e)
  | _ => none

end VL.Drv.C20
