import VotelibDriver.C09
import VotelibDriver.C01
open Lean
namespace VL.Drv.C11
/-- C11 re-uses the model handlers of the families it scales -/
def handle (op : String) (j : Json) : Option (Except String Json) :=
  match C09.handle op j with
  | some r => some r
  | none => C01.handle op j
end VL.Drv.C11
