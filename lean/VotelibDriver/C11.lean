import VotelibDriver.C09
import VotelibDriver.C01
import VotelibDriver.C02
import VotelibDriver.C16
import VotelibDriver.C13
import VotelibDriver.C05
import VotelibDriver.C12
import VotelibDriver.C03
import VotelibDriver.C08Seq
import VotelibDriver.PureProportionality
import VotelibModel.ScaleFamilies
import VotelibModel.Mono
open Lean
namespace VL.Drv.C11
open VL VL.Convert

/-- a selection together with the numbers it was read off (the harness canonicalises the order inside runs of
    equally valued winners, which in Python depends on set iteration order) -/
def withKeys (sel : List Slot) (keys : Votes) : Json :=
  Json.mkObj [("sel", slotsJson sel), ("keys", votesJson keys)]

/-- equality of two pairwise dictionaries as maps (keys are distinct in both) -/
def sameMap (a b : Condorcet.Pairwise) : Bool :=
  a.length == b.length && a.all (fun e => b.contains e)

/-- the composite families of harness/families.py (`VotelibModel.ScaleFamilies`) -/
def handleOwn (op : String) (j : Json) : Option (Except String Json) :=
  match op with
  | "c11_positional" => some do
    let sc ← C13.pScorer (← j.getObjVal? "scorer")
    let p ← C13.pDict C13.pBallot (← j.getObjVal? "votes")
    let n ← j.getObjValAs? Nat "n"
    match rankedToPositional sc p, C11F.positionalRule sc p n with
    | .ok keys, .ok sel => pure (withKeys sel keys)
    | _, .error e => pure (errJson e)
    | .error e, _ => pure (errJson e)
  | "c11_approval" => some do
    let split ← j.getObjValAs? Bool "split"
    let p ← C13.pDict C13.pApproval (← j.getObjVal? "votes")
    let n ← j.getObjValAs? Nat "n"
    match approvalToSimple split p, C11F.approvalRule split p n with
    | .ok keys, .ok sel => pure (withKeys sel keys)
    | _, .error e => pure (errJson e)
    | .error e, _ => pure (errJson e)
  | "c11_bucklin" => some do
    -- PreferenceAddition(split_equal_rankings=split).evaluate(votes, 1)
    let p ← C13.pDict C13.pBallot (← j.getObjVal? "votes")
    let split ← j.getObjValAs? Bool "split"
    pure (exceptJson slotsJson (if split then Mono.evalBucklinSplit p else Mono.evalBucklin p))
  | "c11_condorcet" => some do
    -- ranked profile (scaled) + the pairwise dictionary the real converter made of it (insertion order kept)
    let p ← C05.getProfile j "profile"
    let v ← C06.getPairwise j "votes"
    let name ← j.getObjValAs? String "name"
    let ab := (j.getObjValAs? Bool "bottom").toOption.getD true
    if !sameMap (if ab then Condorcet.rankedToCondorcet p else Condorcet.rankedToCondorcetNoBottom p) v then
      throw "RankedToCondorcetVotes: the model's dictionary differs (as a map) from the implementation's"
    match name with
    | "winner" => pure (toJson (C11F.CondorcetSet.winner.eval v))
    | "smith" => pure (toJson (C11F.CondorcetSet.smith.eval v))
    | "schwartz" => pure (toJson (C11F.CondorcetSet.schwartz.eval v))
    | _ =>
      let n ← j.getObjValAs? Nat "n"
      match C11F.CondorcetEv.byName name with
      | none => throw s!"unknown evaluator {name}"
      | some ev =>
        match ev.eval v n with
        | .ok res =>
          if name = "copeland_2o" then
            pure (Json.mkObj [("res", slotsJson res), ("grp", toJson (Condorcet.copelandGroups v n))])
          else pure (slotsJson res)
        | .error e => pure (errJson e)
  | "c11_pairwise" => some do
    -- an evaluator of condorcet.EVALUATORS / a Condorcet set on a pairwise dictionary given directly (no converter in front):
    -- pairwise dictionaries with exact ties of a large total next to genuine wins (op `pair_tie` of harness/props/C11.py)
    let v ← C06.getPairwise j "votes"
    let name ← j.getObjValAs? String "name"
    match name with
    | "winner" => pure (toJson (C11F.CondorcetSet.winner.eval v))
    | "smith" => pure (toJson (C11F.CondorcetSet.smith.eval v))
    | "schwartz" => pure (toJson (C11F.CondorcetSet.schwartz.eval v))
    | _ =>
      let n ← j.getObjValAs? Nat "n"
      match C11F.CondorcetEv.byName name with
      | none => throw s!"unknown evaluator {name}"
      | some ev =>
        match ev.eval v n with
        | .ok res =>
          if name = "copeland_2o" then
            pure (Json.mkObj [("res", slotsJson res), ("grp", toJson (Condorcet.copelandGroups v n))])
          else pure (slotsJson res)
        | .error e => pure (errJson e)
  | _ => none

/-- C11 re-uses the model handlers of the families it scales (first handler that knows the op answers) -/
def handlers : List (String → Json → Option (Except String Json)) :=
  [handleOwn, C09.handle, C01.handle, C02.handle, C16.handle, C05.handle, C12.handle, C03.handle, C08Seq.handle, Pure.handle]

def handle (op : String) (j : Json) : Option (Except String Json) :=
  handlers.findSome? (fun h => h op j)
end VL.Drv.C11
