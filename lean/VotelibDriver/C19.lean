/-
  Driver handlers of C19: the dict codec (`codec`, `deser`) and the BLT token-level writer / parser
  (`blt_dump`, `blt_load`).  Encodings are described in harness/props/C19.py.
-/
import VotelibDriver.Json
import VotelibModel.Persist
import VotelibModel.Blt
import VotelibModel.StvFile
open Lean
namespace VL.Drv.C19
open VL VL.Persist

def intOfStr (s : String) : Except String Int :=
  match s.toInt? with
  | some z => pure z
  | none => throw s!"bad int {s}"

def ratOfStr (s : String) : Except String Rat :=
  match parseRat s with
  | some r => pure r
  | none => throw s!"bad rational {s}"

/-! #### PVal <-> JSON -/
partial def pvalOfJson (j : Json) : Except String PVal := do
  match j.getObjValAs? String "a" with
  | .ok "none" => pure (.atom .none)
  | .ok "bool" => do let b ← j.getObjValAs? Bool "v"; pure (.atom (.bool b))
  | .ok "int" => do let s ← j.getObjValAs? String "v"; pure (.atom (.int (← intOfStr s)))
  | .ok "float" => do let s ← j.getObjValAs? String "v"; pure (.atom (.float s))
  | .ok "str" => do let s ← j.getObjValAs? String "v"; pure (.atom (.str s))
  | .ok a => throw s!"bad atom kind {a}"
  | .error _ =>
    let t ← j.getObjValAs? String "t"
    let items (k : String) : Except String (List PVal) := do
      let arr ← (← j.getObjVal? k).getArr?
      arr.toList.mapM pvalOfJson
    match t with
    | "frac" => do let s ← j.getObjValAs? String "v"; pure (.frac (← ratOfStr s))
    | "dec" => do let s ← j.getObjValAs? String "v"; pure (.dec s)
    | "list" => do pure (.list (← items "v"))
    | "tuple" => do pure (.tuple (← items "v"))
    | "fset" => do pure (.fset (← items "v"))
    | "set" => do pure (.set (← items "v"))
    | "dict" => do
        let ks ← items "k"
        let vs ← items "v"
        pure (.dict (ks.zip vs))
    | "obj" => do
        let cls ← j.getObjValAs? String "cls"
        let arr ← (← j.getObjVal? "p").getArr?
        let ps ← arr.toList.mapM (fun e => do
          let pr ← e.getArr?
          match pr.toList with
          | [k, v] => do let ks ← k.getStr?; let vv ← pvalOfJson v; pure (ks, vv)
          | _ => throw "bad param pair")
        pure (.obj cls ps)
    | "callable" => do
        let n ← j.getObjValAs? String "n"
        let s ← j.getObjValAs? Bool "self"
        pure (.callable n s)
    | "opaque" => do let s ← j.getObjValAs? String "tag"; pure (.foreign s)
    | "ncallable" => do let s ← j.getObjValAs? String "tag"; pure (.ncallable s)
    | _ => throw s!"bad pval tag {t}"

partial def pvalJson : PVal → Json
  | .atom .none => Json.mkObj [("a", "none")]
  | .atom (.bool b) => Json.mkObj [("a", "bool"), ("v", Json.bool b)]
  | .atom (.int z) => Json.mkObj [("a", "int"), ("v", Json.str (toString z))]
  | .atom (.float r) => Json.mkObj [("a", "float"), ("v", Json.str r)]
  | .atom (.str s) => Json.mkObj [("a", "str"), ("v", Json.str s)]
  | .frac r => Json.mkObj [("t", "frac"), ("v", ratJson r)]
  | .dec s => Json.mkObj [("t", "dec"), ("v", Json.str s)]
  | .list l => Json.mkObj [("t", "list"), ("v", Json.arr (l.map pvalJson).toArray)]
  | .tuple l => Json.mkObj [("t", "tuple"), ("v", Json.arr (l.map pvalJson).toArray)]
  | .fset l => Json.mkObj [("t", "fset"), ("v", Json.arr (l.map pvalJson).toArray)]
  | .set l => Json.mkObj [("t", "set"), ("v", Json.arr (l.map pvalJson).toArray)]
  | .dict d => Json.mkObj [("t", "dict"), ("k", Json.arr (d.map (fun p => pvalJson p.1)).toArray),
                           ("v", Json.arr (d.map (fun p => pvalJson p.2)).toArray)]
  | .obj c ps => Json.mkObj [("t", "obj"), ("cls", Json.str c),
      ("p", Json.arr (ps.map (fun p => Json.arr #[Json.str p.1, pvalJson p.2])).toArray)]
  | .callable n s => Json.mkObj [("t", "callable"), ("n", Json.str n), ("self", Json.bool s)]
  | .foreign s => Json.mkObj [("t", "opaque"), ("tag", Json.str s)]
  | .ncallable s => Json.mkObj [("t", "ncallable"), ("tag", Json.str s)]

/-! #### J <-> JSON (tagged: null, bool, {"i": "123"}, {"f": repr}, "str", [..], {"d": [[k, v], ..]}) -/
partial def jOfJson (j : Json) : Except String J := do
  match j with
  | .null => pure .null
  | .bool b => pure (.bool b)
  | .str s => pure (.str s)
  | .arr a => do let l ← a.toList.mapM jOfJson; pure (.list l)
  | .obj _ =>
    match j.getObjVal? "i" with
    | .ok v => do let s ← v.getStr?; pure (.int (← intOfStr s))
    | .error _ =>
      match j.getObjVal? "f" with
      | .ok v => do let s ← v.getStr?; pure (.float s)
      | .error _ => do
        let arr ← (← j.getObjVal? "d").getArr?
        let fs ← arr.toList.mapM (fun e => do
          let pr ← e.getArr?
          match pr.toList with
          | [k, v] => do let ks ← k.getStr?; let vv ← jOfJson v; pure (ks, vv)
          | _ => throw "bad field pair")
        pure (.dict fs)
  | _ => throw "bad J"

partial def jJson : J → Json
  | .null => Json.null
  | .bool b => Json.bool b
  | .int z => Json.mkObj [("i", Json.str (toString z))]
  | .float r => Json.mkObj [("f", Json.str r)]
  | .str s => Json.str s
  | .list l => Json.arr (l.map jJson).toArray
  | .dict d => Json.mkObj [("d", Json.arr (d.map (fun p => Json.arr #[Json.str p.1, jJson p.2])).toArray)]

def envOfJson (j : Json) : Except String Env := do
  match j.getObjVal? "env" with
  | .ok e => do
      let cs ← e.getObjValAs? (List String) "classes"
      let fs ← e.getObjValAs? (List String) "callables"
      let os := (e.getObjValAs? (List String) "others").toOption.getD []
      pure { classes := cs, callables := fs, others := os }
  | .error _ => pure { classes := [], callables := [], others := [] }

def resJson {α} (f : α → Json) : Except Err α → Json := exceptJson f

/-! #### BLT -/
open VL.Blt in
def tokOfJson (j : Json) : Except String Tok := do
  match j with
  | .str "nan" => pure .nan
  | .str "udigit" => pure .udigit
  | .str "bad" => pure .bad
  | _ =>
    match j.getObjVal? "n" with
    | .ok v => do
        let s ← v.getStr?
        match s.toNat? with
        | some n => pure (.nat n)
        | none => throw s!"bad nat {s}"
    | .error _ => do
        let s ← j.getObjValAs? String "d"
        pure (.dec (← ratOfStr s))

open VL.Blt in
def tokJson : Tok → Json
  | .nat n => Json.mkObj [("n", Json.str (toString n))]
  | .dec r => Json.mkObj [("d", ratJson r)]
  | .nan => "nan"
  | .udigit => "udigit"
  | .bad => "bad"

open VL.Blt in
def lineOfJson (j : Json) : Except String Line := do
  match j with
  | .null => pure .blank
  | .arr a => do let ts ← a.toList.mapM tokOfJson; pure (.toks ts)
  | _ => do let s ← j.getObjValAs? String "q"; pure (.quoted s)

open VL.Blt in
def lineJson : Line → Json
  | .blank => Json.null
  | .quoted s => Json.mkObj [("q", Json.str s)]
  | .toks ts => Json.arr (ts.map tokJson).toArray

open VL.Blt in
def weightOfJson (j : Json) : Except String Weight := do
  let k ← j.getObjValAs? String "k"
  let s ← j.getObjValAs? String "v"
  match k with
  | "int" => pure (.int (← intOfStr s))
  | "dec" => do let dg ← j.getObjValAs? Bool "digits"; pure (.decimal (← ratOfStr s) dg)
  | "frac" => pure (.fraction (← ratOfStr s))
  | _ => throw s!"bad weight kind {k}"

open VL.Blt in
def docOfJson (j : Json) : Except String (Doc Weight) := do
  let seats ← j.getObjValAs? Nat "seats"
  let cs ← (← j.getObjVal? "cands").getArr?
  let cands ← cs.toList.mapM (fun e => do
    let pr ← e.getArr?
    match pr.toList with
    | [n, w] => do let ns ← n.getStr?; let wb ← w.getBool?; pure (ns, wb)
    | _ => throw "bad candidate")
  let bs ← (← j.getObjVal? "ballots").getArr?
  let ballots ← bs.toList.mapM (fun e => do
    let pr ← e.getArr?
    match pr.toList with
    | [idx, w] => do
        let ix ← fromJson? (α := List Nat) idx
        let ww ← weightOfJson w
        pure (ix, ww)
    | _ => throw "bad ballot")
  let title ← match j.getObjVal? "title" with
    | .ok (.str s) => pure (some s)
    | _ => pure none
  pure { nSeats := seats, cands := cands, ballots := ballots, title := title }

open VL.Blt in
def docJson (d : Doc Rat) : Json :=
  Json.mkObj [("seats", toJson d.nSeats),
    ("cands", Json.arr (d.cands.map (fun c => Json.arr #[Json.str c.1, Json.bool c.2])).toArray),
    ("ballots", Json.arr (d.ballots.map (fun b => Json.arr #[toJson b.1, ratJson b.2])).toArray),
    ("title", match d.title with | some t => Json.str t | none => Json.null)]

/-! #### STV section -/
namespace Stv
open VL.StvFile

def svalJson (v : SVal) : Json :=
  Json.mkObj [("text", Json.str v.text), ("digits", match v.digits with | some n => Json.str (toString n) | none => Json.null),
    ("int", match v.intv with | some z => Json.str (toString z) | none => Json.null)]

def svalOfJson (j : Json) : Except String SVal := do
  let t ← j.getObjValAs? String "text"
  let d ← (match j.getObjVal? "digits" with
    | .ok (.str s) => (match s.toNat? with | some n => pure (some n) | none => throw "bad digits")
    | _ => pure none)
  let i ← (match j.getObjVal? "int" with
    | .ok (.str s) => (match s.toInt? with | some z => pure (some z) | none => throw "bad int")
    | _ => pure none)
  pure { text := t, digits := d, intv := i }

partial def tbOfJson (j : Json) : Except String Tb := do
  match j with
  | .str "order" => pure .order
  | .str "unsupported" => pure .unsupported
  | _ =>
    match j.getObjVal? "sortitor" with
    | .ok (.null) => pure (.sortitor none)
    | .ok v => do pure (.sortitor (some (← fromJson? (α := Nat) v)))
    | .error _ => do
      let ok ← j.getObjValAs? Bool "pre"
      let inner ← tbOfJson (← j.getObjVal? "inner")
      pure (.pre ok inner)

partial def sysOfJson (j : Json) : Except String Sys := do
  match j with
  | .str "other" => pure .other
  | _ =>
    match j.getObjVal? "voting" with
    | .ok .null => do pure (.voting none (← sysOfJson (← j.getObjVal? "e")))
    | .ok v => do
        let ok := (j.getObjValAs? Bool "title_ok").toOption.getD true
        pure (.voting (some ((← svalOfJson v), ok)) (← sysOfJson (← j.getObjVal? "e")))
    | .error _ =>
      match j.getObjVal? "fixed" with
      | .ok v => do pure (.fixed (← fromJson? (α := Nat) v) (← sysOfJson (← j.getObjVal? "e")))
      | .error _ =>
        match j.getObjVal? "tie" with
        | .ok v => do
            let dflt := (j.getObjValAs? Bool "default_subsetter").toOption.getD true
            pure (.tie (← sysOfJson v) (← tbOfJson (← j.getObjVal? "tb")) dflt)
        | .error _ => do
          let fl ← j.getObjValAs? (List Bool) "tv"
          let q := (j.getObjValAs? String "quota").toOption
          let m ← j.getObjValAs? Bool "mandatory"
          match fl with
          | [a, b, c] =>
              let ae := (j.getObjValAs? Bool "accept_equal").toOption.getD true
              let sel := (j.getObjValAs? Bool "selector").toOption.getD true
              pure (.tv a b c q m ae sel)
          | _ => throw "bad tv flags"

def summaryJson (s : Summary) : Json :=
  Json.mkObj [("title", match s.title with | some t => Json.str t | none => Json.null),
    ("seats", match s.seats with | some z => Json.str (toString z) | none => Json.null),
    ("quota", match s.quota with
              | .name n => Json.mkObj [("name", Json.str n)]
              | .const n => Json.mkObj [("const", Json.str (toString n))]
              | .unknown => Json.str "unknown"),
    ("mandatory", Json.bool s.mandatory),
    ("random", match s.random with | none => Json.null | some none => Json.str "non" | some (some n) => Json.str (toString n))]

def hlineJson : HLine → Json
  | .blank => Json.null
  | .invalid => "invalid"
  | .cand w nick name => Json.mkObj [("cand", Json.arr #[Json.bool w, Json.str nick, Json.str name])]
  | .candBad => "candBad"
  | .ballotsN n => Json.mkObj [("ballots", toJson n)]
  | .ballotsBlt => "ballotsBlt"
  | .ballotsBad => "ballotsBad"
  | .order l => Json.mkObj [("order", toJson l)]
  | .other k v => Json.mkObj [("other", Json.arr #[Json.str k, svalJson v])]

def hlineOfJson (j : Json) : Except String HLine := do
  match j with
  | .null => pure .blank
  | .str "invalid" => pure .invalid
  | .str "candBad" => pure .candBad
  | .str "ballotsBlt" => pure .ballotsBlt
  | .str "ballotsBad" => pure .ballotsBad
  | _ =>
    match j.getObjVal? "cand" with
    | .ok v => do
        let a ← v.getArr?
        match a.toList with
        | [w, n, m] => do pure (.cand (← w.getBool?) (← n.getStr?) (← m.getStr?))
        | _ => throw "bad cand"
    | .error _ =>
      match j.getObjVal? "ballots" with
      | .ok v => do pure (.ballotsN (← fromJson? (α := Nat) v))
      | .error _ =>
        match j.getObjVal? "order" with
        | .ok v => do pure (.order (← fromJson? (α := List String) v))
        | .error _ => do
          let a ← (← j.getObjVal? "other").getArr?
          match a.toList with
          | [k, v] => do pure (.other (← k.getStr?) (← svalOfJson v))
          | _ => throw "bad other"

def firstJson : First → Json
  | .mult r => Json.mkObj [("mult", ratJson r)]
  | .multBad => "multBad"
  | .word s => Json.mkObj [("word", Json.str s)]

def firstOfJson (j : Json) : Except String First := do
  match j with
  | .str "multBad" => pure .multBad
  | _ =>
    match j.getObjVal? "mult" with
    | .ok v => do let s ← v.getStr?; pure (.mult (← ratOfStr s))
    | .error _ => do pure (.word (← j.getObjValAs? String "word"))

def vlineJson : VLine → Json
  | .blank => Json.null
  | .endLine => "end"
  | .items f rest => Json.mkObj [("first", firstJson f), ("rest", toJson rest)]

def vlineOfJson (j : Json) : Except String VLine := do
  match j with
  | .null => pure .blank
  | .str "end" => pure .endLine
  | _ => do
    let f ← firstOfJson (← j.getObjVal? "first")
    let r ← j.getObjValAs? (List String) "rest"
    pure (.items f r)

def docOfJson (j : Json) : Except String (Doc Weight) := do
  let cs ← (← j.getObjVal? "cands").getArr?
  let cands ← cs.toList.mapM (fun e => do
    let pr ← e.getArr?
    match pr.toList with
    | [n, w, i] => do pure ((← n.getStr?), (← w.getBool?), (← i.getStr?))
    | _ => throw "bad candidate")
  let bs ← (← j.getObjVal? "ballots").getArr?
  let ballots ← bs.toList.mapM (fun e => do
    let pr ← e.getArr?
    match pr.toList with
    | [idx, w] => do
        let ix ← fromJson? (α := List Nat) idx
        let v ← w.getObjValAs? String "v"
        let sp ← w.getObjValAs? Bool "spellable"
        pure (ix, ({ val := (← ratOfStr v), spellable := sp } : Weight))
    | _ => throw "bad ballot")
  pure { cands := cands, ballots := ballots }

def loadedJson (r : Doc Rat × List (String × Bool) × Summary) : Json :=
  Json.mkObj [("cands", Json.arr (r.2.1.map (fun c => Json.arr #[Json.str c.1, Json.bool c.2])).toArray),
    ("ballots", Json.arr (r.1.ballots.map (fun b => Json.arr #[toJson b.1, ratJson b.2])).toArray),
    ("system", summaryJson r.2.2)]

/-- `"cls": [[item, rank | "dash"], ...]`: how isdecimal()/int() and `== '-'` classify the items of the vote lines; any
    other item is `bad` -/
def clsOfJson (j : Json) : Except String (String → OItem) := do
  match j.getObjVal? "cls" with
  | .ok (.arr a) => do
      let tbl ← a.toList.mapM (fun e => do
        let pr ← e.getArr?
        match pr.toList with
        | [k, .str "dash"] => do pure ((← k.getStr?), OItem.dash)
        | [k, v] => do pure ((← k.getStr?), OItem.rank (← fromJson? (α := Nat) v))
        | _ => throw "bad cls entry")
      pure (fun s => (tbl.lookup s).getD OItem.bad)
  | _ => pure (fun _ => OItem.bad)

def handleStv (op : String) (j : Json) : Option (Except String Json) :=
  match op with
  | "stv_dump" => some do
    let d ← docOfJson (← j.getObjVal? "doc")
    let sys ← sysOfJson (← j.getObjVal? "sys")
    let arg := (j.getObjValAs? Nat "seats_arg").toOption
    let namesOK := (j.getObjValAs? Bool "names_ok").toOption.getD true
    match dumpStv sys arg namesOK d with
    | .error e => pure (Json.mkObj [("dump", errJson e)])
    | .ok (h, v) =>
      pure (Json.mkObj [("hdr", Json.arr (h.map hlineJson).toArray), ("votes", Json.arr (v.map vlineJson).toArray),
        ("loaded", resJson loadedJson (loadStv (fun _ => .bad) h v [])), ("wf", Json.bool (wfStv d))])
  | "stv_dump_blt" => some do
    let d ← VL.Drv.C19.docOfJson (← j.getObjVal? "doc")
    match dumpStvBlt d with
    | .error e => pure (Json.mkObj [("dump", errJson e), ("wf", Json.bool (Blt.WFdoc d))])
    | .ok (h, ls) =>
      pure (Json.mkObj [("hdr", Json.arr (h.map hlineJson).toArray), ("lines", Json.arr (ls.map lineJson).toArray),
        ("loaded", resJson loadedJson (loadStv (fun _ => .bad) h [] ls)), ("wf", Json.bool (Blt.WFdoc d))])
  | "stv_sys" => some do
    let sys ← sysOfJson (← j.getObjVal? "sys")
    let arg := (j.getObjValAs? Nat "seats_arg").toOption
    let lines : Json := match dumpSys sys with
      | .error e => errJson e
      | .ok ls => Json.arr (ls.map (fun p => Json.arr #[Json.str p.1, svalJson p.2])).toArray
    pure (Json.mkObj [("lines", lines), ("reload", resJson summaryJson (reloadSys sys arg)),
      ("refused", Json.bool (sysRefused sys)), ("readable", Json.bool (sysReadable sys arg)),
      ("lossy", Json.bool (lossy sys)), ("complete", Json.bool (sysComplete sys arg))])
  | "stv_load" => some do
    let h ← (← (← j.getObjVal? "hdr").getArr?).toList.mapM hlineOfJson
    let v ← (← (← j.getObjVal? "votes").getArr?).toList.mapM vlineOfJson
    let bl ← (match j.getObjVal? "blt" with
      | .ok (.arr a) => a.toList.mapM lineOfJson
      | _ => pure [])
    let cls ← clsOfJson j
    pure (Json.mkObj [("loaded", resJson loadedJson (loadStv cls h v bl))])
  | _ => none
end Stv

def handle (op : String) (j : Json) : Option (Except String Json) :=
  match op with
  | "codec" => some do
    let v ← pvalOfJson (← j.getObjVal? "v")
    let env ← envOfJson j
    let ser := serialize v
    let back : Json := match ser with
      | .ok js => resJson pvalJson (deserialize env js)
      | .error _ => Json.null
    pure (Json.mkObj [("ser", resJson jJson ser), ("back", back),
      ("representable", Json.bool (Representable env v)), ("serializable", Json.bool (Serializable v))])
  | "deser" => some do
    let js ← jOfJson (← j.getObjVal? "j")
    let env ← envOfJson j
    let top := (j.getObjValAs? Bool "top").toOption.getD false
    let back := if top then fromDict env js else deserialize env js
    let reser : Json := match back with
      | .ok v => resJson jJson (serialize v)
      | .error _ => Json.null
    pure (Json.mkObj [("back", resJson pvalJson back), ("reser", reser)])
  | "blt_dump" => some do
    let d ← docOfJson (← j.getObjVal? "doc")
    match Blt.dumpBlt d with
    | .error e => pure (Json.mkObj [("dump", errJson e), ("wf", Json.bool (Blt.WFdoc d))])
    | .ok lines =>
      pure (Json.mkObj [("lines", Json.arr (lines.map lineJson).toArray),
        ("loaded", resJson docJson (Blt.loadBlt lines)), ("wf", Json.bool (Blt.WFdoc d))])
  | "blt_clean" => some do
    let line ← j.getObjValAs? String "line"
    pure (Json.mkObj [("clean", Json.str (Blt.cleanLine line))])
  | "blt_load" => some do
    let ls ← (← j.getObjVal? "lines").getArr?
    let lines ← ls.toList.mapM lineOfJson
    let oneplus := (j.getObjValAs? Bool "oneplus").toOption.getD false
    pure (Json.mkObj [("loaded", resJson docJson (Blt.loadBltWith oneplus lines))])
  | _ => Stv.handleStv op j

end VL.Drv.C19
