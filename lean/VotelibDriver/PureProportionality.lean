/-
  Driver handler for VotelibModel/PureProportionality.lean (used by C11; free for C10 to chain).
    {"op":"pure_proportionality", "votes": [[c,"p/q"],…], "n": Nat, "prev": [[c,int],…]|null, "max": [[c,int],…]|null}
  answer: [[c,"p/q"],…] in dict order, or {"err": name}.
-/
import VotelibDriver.Json
import VotelibModel.PureProportionality
open Lean
namespace VL.Drv.Pure
open VL VL.Pure

def getIMap (j : Json) (k : String) : Except String IMap := do
  match j.getObjVal? k with
  | .ok Json.null => pure []
  | .ok v => do let a ← fromJson? (α := Array (Nat × Int)) v; pure a.toList
  | .error _ => pure []

def handle (op : String) (j : Json) : Option (Except String Json) :=
  match op with
  | "pure_proportionality" => some do
    let votes ← getVotes j "votes"
    let n ← j.getObjValAs? Nat "n"
    let prev ← getIMap j "prev"
    let maxS ← getIMap j "max"
    pure (exceptJson votesJson (pureProportionality votes n prev maxS))
  | _ => none

end VL.Drv.Pure
