/-
  VotelibModel.CondorcetEval — the seat-taking Condorcet evaluators of
  `votelib/evaluate/condorcet.py` (Copeland, Schulze, Kemeny-Young, minimax, ranked pairs) and the
  pairwise win scorers of `votelib/component/pairwin_scorer.py`.
-/
import VotelibModel.Condorcet
import VotelibModel.Gen.PairwinScorer
namespace VL.Condorcet
open VL

/-! ### Copeland (condorcet.py L191-258) -/

def isTie : Slot → Bool
  | .tie _ => true
  | .cand _ => false

/-- ascending insertion of a candidate id (canonical order of a Python `set`) -/
def insertSorted (c : Cand) : List Cand → List Cand
  | [] => [c]
  | x :: xs => if c < x then c :: x :: xs else if c = x then x :: xs else x :: insertSorted c xs

/-- `Copeland.break_second_order` (L237-258).  `tied` is a Python `set`; its iteration order (which
    fixes the insertion order of `second_order_scores`) is modelled as ascending ids. -/
def breakSecondOrder (best : List Slot) (scores : Votes) (wins : List Pair) : List Slot :=
  let untied := best.filter (fun s => !isTie s)
  let tied : List Cand := best.foldl (fun acc s => match s with
    | .tie cs => cs.foldl (fun a c => insertSorted c a) acc
    | .cand _ => acc) []
  let sos0 : Votes := tied.map (fun c => (c, 0))
  let sos := wins.foldl (fun d w => if tied.contains w.1 then incr d w.1 (getD scores w.2 0) else d) sos0
  untied ++ getNBest sos (best.length - untied.length)

/-- `Copeland(second_order).evaluate` (L207-226) -/
def copeland (secondOrder : Bool) (v : Pairwise) (n : Nat) : List Slot :=
  let wins := pairwiseWins v false
  let scores := seededScores v (copelandScoresRaw wins)
  let best := getNBest scores n
  if secondOrder && best.any isTie then breakSecondOrder best scores wins else best

/-- second-order scores of the places of `copeland true`: the key by which the tail is ordered
    (used by the harness to canonicalise the order inside runs of equal keys, which in Python
    depends on the iteration order of a `set`) -/
def copelandGroups (v : Pairwise) (n : Nat) : List Nat :=
  let wins := pairwiseWins v false
  let scores := seededScores v (copelandScoresRaw wins)
  let best := getNBest scores n
  if best.any isTie then
    let untied := best.filter (fun s => !isTie s)
    let tied : List Cand := best.foldl (fun acc s => match s with
      | .tie cs => cs.foldl (fun a c => insertSorted c a) acc
      | .cand _ => acc) []
    let sos0 : Votes := tied.map (fun c => (c, 0))
    let sos := wins.foldl (fun d w => if tied.contains w.1 then incr d w.1 (getD scores w.2 0) else d) sos0
    let res := getNBest sos (best.length - untied.length)
    -- group id: position for the untied prefix; afterwards the rank of the second-order score
    let vals := (sortDesc sos).map (·.2)
    (List.range untied.length) ++ res.map (fun s => match s with
      | .cand c => untied.length + (vals.findIdx (fun x => x = getD sos c 0))
      | .tie _ => untied.length + vals.length)
  else List.range best.length

/-! ### Schulze (condorcet.py L261-313) -/

/-- `d[p] = x`: in place if present, else appended -/
def pset : Pairwise → Pair → Rat → Pairwise
  | [], p, x => [(p, x)]
  | (q, y) :: rest, p, x => if q = p then (q, x) :: rest else (q, y) :: pset rest p x

def rmax (a b : Rat) : Rat := if a < b then b else a
def rmin (a b : Rat) : Rat := if b < a then b else a

/-- `Schulze.widest_paths` (L291-313).  `all_candidates` is a `list(set)`; the iteration order is
    modelled as the order of first appearance (the result of Floyd-Warshall as a map does not depend
    on it). -/
def widestPaths (v : Pairwise) : Pairwise :=
  let cands := candidates v
  let paths0 : Pairwise := v.filter (fun e => decide (pget v (e.1.2, e.1.1) < e.2))
  cands.foldl (fun p1 c1 =>
    cands.foldl (fun p2 c2 =>
      if c1 != c2 then
        cands.foldl (fun p3 ca =>
          if ca != c1 && ca != c2 then
            pset p3 (c2, ca) (rmax (pget p3 (c2, ca)) (rmin (pget p3 (c2, c1)) (pget p3 (c1, ca))))
          else p3) p2
      else p2) p1) paths0

/-- `Schulze.evaluate` (L269-289) -/
def schulze (v : Pairwise) (n : Nat) : List Slot :=
  let paths := widestPaths v
  let scores0 : Votes := (candidates v).map (fun c => (c, 0))
  let scores := (pairwiseWins paths false).foldl (fun d w => incr (incr d w.1 1) w.2 0) scores0
  getNBest scores n

/-! ### Kemeny-Young (condorcet.py L316-380) -/

def insertEverywhere (x : Cand) : List Cand → List (List Cand)
  | [] => [[x]]
  | y :: ys => (x :: y :: ys) :: (insertEverywhere x ys).map (fun l => y :: l)

/-- all orderings of the candidates (`itertools.permutations(frozenset)`; the enumeration order only
    matters when the maximiser is not unique, which is refused) -/
def perms : List Cand → List (List Cand)
  | [] => [[]]
  | x :: xs => (perms xs).flatMap (insertEverywhere x)

/-- `KemenyYoung.score` (L364-380) -/
def kyScore (v : Pairwise) : List Cand → Rat
  | [] => 0
  | x :: xs => (xs.foldl (fun acc y => acc + pget v (x, y)) 0) + kyScore v xs

/-- `KemenyYoung.evaluate` (L333-362); `Tie.tie_rankings` raises NotImplementedError -/
def kemenyYoung (v : Pairwise) (n : Nat) : Except Err (List Slot) :=
  let st := (perms (candidates v)).foldl (fun (st : List (List Cand) × Rat) variant =>
    let score := kyScore v variant
    if st.2 ≤ score then
      if st.2 < score then ([variant], score) else (st.1 ++ [variant], st.2)
    else st) ([], 0)
  match st.1 with
  | [best] => .ok ((best.take n).map Slot.cand)
  | _ => .error .notImplemented

/-! ### pairwise win scorers (pairwin_scorer.py L25-71) -/

inductive Scorer where
  | winningVotes | margins | pairwiseOpposition
deriving DecidableEq, Repr

/-- the three scorers: a dict comprehension over `counts.items()` whose value for one pair is the function
    of the pair's own count and of `counts.get(reversed pair, 0)` that `harness/translate.py` regenerates from
    `pairwin_scorer.py` on every run (`VotelibModel/Gen/PairwinScorer.lean`) -/
def scorePairs (sc : Scorer) (v : Pairwise) : Pairwise :=
  match sc with
  | .winningVotes => v.map (fun e => (e.1, Gen.PairwinScorer.winning_votes_value e.2 (pget v (e.1.2, e.1.1))))
  | .margins => v.map (fun e => (e.1, Gen.PairwinScorer.margins_value e.2 (pget v (e.1.2, e.1.1))))
  | .pairwiseOpposition =>
    v.map (fun e => (e.1, Gen.PairwinScorer.pairwise_opposition_value e.2 (pget v (e.1.2, e.1.1))))

/-! ### minimax (condorcet.py L383-429) -/

/-- `d[c] = x` on a dict candidate -> worst counter-score (`none` = `-float('inf')`) -/
def oset : List (Cand × Option Rat) → Cand → Option Rat → List (Cand × Option Rat)
  | [], c, x => [(c, x)]
  | (d, y) :: rest, c, x => if d = c then (d, x) :: rest else (d, y) :: oset rest c x

def oget (m : List (Cand × Option Rat)) (c : Cand) : Option Rat :=
  match m.find? (fun e => e.1 = c) with
  | some e => e.2
  | none => none

/-- the loop L427-431 of `MinimaxCondorcet.evaluate` over a dictionary of scored pairs, started from
    `{cand: -inf for cand in cands}` -/
def maxCounterscoreOn (cands : List Cand) (scored : Pairwise) : List (Cand × Option Rat) :=
  scored.foldl (fun m e =>
    oset m e.1.2 (match oget m e.1.2 with
      | none => some e.2
      | some a => some (rmax a e.2))) (cands.map (fun c => (c, none)))

/-- the worst counter-scores over the pairs PRESENT in `v` (this was `max_counterscore` before fix 39ed002;
    kept as a helper: `minimaxPresent`, C17) -/
def maxCounterscore (sc : Scorer) (v : Pairwise) : List (Cand × Option Rat) :=
  (scorePairs sc v).foldl (fun m e =>
    oset m e.1.2 (match oget m e.1.2 with
      | none => some e.2
      | some a => some (rmax a e.2))) ((candidates v).map (fun c => (c, none)))

/-- `all_pairs` (condorcet.py L421-425): every ordered pair of distinct candidates, a pair nobody ranked
    counting as zero -/
def allPairs (v : Pairwise) : Pairwise :=
  ((candidates v).flatMap (fun u => (candidates v).map (fun l => ((u, l), pget v (u, l))))).filter
    (fun e => e.1.1 != e.1.2)

/-- `max_counterscore` of `MinimaxCondorcet.evaluate` (L417-431): seeded with the candidates of `votes`,
    filled from the scored `all_pairs` -/
def minimaxTable (sc : Scorer) (v : Pairwise) : List (Cand × Option Rat) :=
  maxCounterscoreOn (candidates v) (scorePairs sc (allPairs v))

/-- a rational strictly above every finite negated counter-score: stands for `+inf`
    (`get_n_best` only compares values; `-inf` survives only for a lone candidate) -/
def minimaxBig (m : List (Cand × Option Rat)) : Rat :=
  1 + m.foldl (fun acc e => match e.2 with
    | some s => rmax acc (-s)
    | none => acc) 0

/-- `MinimaxCondorcet(scorer).evaluate` (L405-435) -/
def minimax (sc : Scorer) (v : Pairwise) (n : Nat) : List Slot :=
  let m := minimaxTable sc v
  let big := minimaxBig m
  getNBest (m.map (fun e => (e.1, match e.2 with
    | some s => -s
    | none => big))) n

/-- the evaluator as it was before fix 39ed002 (only the pairs present in `v` are scored); on a dictionary
    without self-pairs `minimax sc v n = minimaxPresent sc (allPairs v) n` -/
def minimaxPresent (sc : Scorer) (v : Pairwise) (n : Nat) : List Slot :=
  let m := maxCounterscore sc v
  let big := minimaxBig m
  getNBest (m.map (fun e => (e.1, match e.2 with
    | some s => -s
    | none => big))) n

/-! ### ranked pairs (condorcet.py L432-520) -/

/-- stable descending insertion sort of pairs by a key (Python `list.sort(key=…, reverse=True)`) -/
def insertDescBy (key : Pair → Rat) (x : Pair) : List Pair → List Pair
  | [] => [x]
  | y :: ys => if key x < key y then y :: insertDescBy key x ys else x :: y :: ys

def sortDescBy (key : Pair → Rat) : List Pair → List Pair
  | [] => []
  | x :: xs => insertDescBy key x (sortDescBy key xs)

/-- one sweep of the `for` loop of `_is_path` (L492-496): (visited, found) -/
def pathSweep (pairs : List Pair) (sink : Cand) (visited : List Cand) : List Cand × Bool :=
  pairs.foldl (fun (st : List Cand × Bool) e =>
    if st.2 then st
    else if st.1.contains e.1 && !st.1.contains e.2 then (e.2 :: st.1, e.2 == sink)
    else st) (visited, false)

/-- `RankedPairs._is_path` (L484-498); every sweep that does not return adds a node, so
    `pairs.length + 1` sweeps suffice -/
def isPathFuel (pairs : List Pair) (sink : Cand) : Nat → List Cand → Bool
  | 0, _ => false
  | f + 1, visited =>
    let st := pathSweep pairs sink visited
    if st.2 then true
    else if st.1.length = visited.length then false
    else isPathFuel pairs sink f st.1

def isPath (pairs : List Pair) (source sink : Cand) : Bool :=
  isPathFuel pairs sink (pairs.length + 2) [source]

/-- `RankedPairs._lock_pairs` (L474-482) -/
def lockPairs (pairs : List Pair) : List Pair :=
  pairs.foldl (fun locked p => if !isPath locked p.2 p.1 then locked ++ [p] else locked) []

/-- loop of `_build_ranking` (L505-516) -/
def buildLoop : Nat → List Pair → List Cand → Except Err (List Cand)
  | 0, _, _ => .error (.other "fuel")
  | f + 1, edges, ranking =>
    if edges.isEmpty then .ok ranking
    else
      let losers := edges.map (·.2)
      let winners := uniq ((edges.map (·.1)).filter (fun w => !losers.contains w))
      match winners with
      | [w] => buildLoop f (edges.filter (fun e => e.1 != w)) (ranking ++ [w])
      | _ => .error .votingSystemError

/-- `RankedPairs._build_ranking` (L500-520); `next(...)` on an exhausted generator is StopIteration -/
def buildRanking (locked : List Pair) : Except Err (List Cand) := do
  let ranking ← buildLoop (locked.length + 1) locked []
  match (locked.flatMap (fun e => [e.1, e.2])).find? (fun c => !ranking.contains c) with
  | some c => .ok (ranking ++ [c])
  | none => .error (.other "StopIteration")

/-- `RankedPairs(scorer).evaluate` (L454-472) -/
def rankedPairs (sc : Scorer) (v : Pairwise) (n : Nat) : Except Err (List Slot) := do
  let scored := scorePairs sc v
  let keys := v.map (·.1)
  let s1 := sortDescBy (pget v) keys
  let s2 := sortDescBy (pget scored) s1
  let ranking ← buildRanking (lockPairs s2)
  .ok ((ranking.take n).map Slot.cand)

end VL.Condorcet
