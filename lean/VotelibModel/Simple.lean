/-
  VotelibModel.Simple — Plurality (core.py L1331-1390) and QuotaSelector (approval.py L215-238).
-/
import VotelibModel.Core
namespace VL

/-- `Plurality.evaluate(votes, n_seats)` = `get_n_best(votes, n_seats)` -/
def plurality (votes : Votes) (n : Nat) : List Slot := getNBest votes n

inductive OnMore where
  | error | select | invalid
deriving DecidableEq, Repr

/-- `QuotaSelector.evaluate` (approval.py L215-238); `quota` is the constructed quota function. -/
def quotaSelector (quota : Rat → Nat → Rat) (acceptEqual : Bool) (onMore : OnMore)
    (votes : Votes) (n : Nat) : Except Err (List Slot) :=
  let qval := quota (sumVals votes) n
  let over := votes.filter (fun p => decide (p.2 > qval) || (acceptEqual && decide (p.2 = qval)))
  if over.length > n then
    match onMore with
    | .error => .error .votingSystemError
    | .select => .ok (getNBest over n)
    | .invalid => .error (.other "AttributeError")
  else .ok (getNBest over n)

end VL
