/-
  VotelibModel.Persist — the value codec of `votelib/persist.py` (C19).

  `PVal` is the algebra of in-memory Python values the codec distinguishes, `J` is the JSON-shaped
  dictionary form (`to_dict` output; a Python tuple inside it — `Fraction.as_integer_ratio()` — is identified
  with the list JSON text turns it into).  `serialize` mirrors `serialize_value` (persist.py L46-79) branch
  by branch in the order the code tests them, `deserialize` mirrors `deserialize_value` / `deserialize_typed` /
  `deserialize_class` / `get_object` (L82-145), `fromDict` mirrors `from_dict` (L148-162).

  NOT modelled (lexing / reflection, covered by the correspondence only):
    * `str.isidentifier` is modelled for ASCII (`isScopedIdent`); the theorems never unfold it;
    * `str(Decimal)` / `Decimal(str)`: a Decimal is carried by its `str()` text;
    * `get_object`: name resolution is the parameter `Env` (which dotted names resolve to a class / to a
      callable that is the object itself); type names other than dict/Fraction/Decimal/tuple/frozenset/set are
      answered `Err.other "unmodelled"` (the real code would call whatever builtin has that name);
    * constructor reflection: an object is its class name plus its constructor-parameter dict
      (`simple_serialization`, L15-43, and `cls(**params)`, L129-131); class-specific `from_dict` hooks are not
      modelled.
  Import-free.
-/
import VotelibModel.Core
namespace VL.Persist
open VL

/-- `ATOMIC_TYPES` (persist.py L206-208): str, int, float, bool, NoneType.  A float is carried by its repr. -/
inductive Atom where
  | none
  | bool (b : Bool)
  | int (z : Int)
  | float (repr : String)
  | str (s : String)
deriving DecidableEq, Repr, Inhabited

/-- in-memory values, as far as `serialize_value` tells them apart -/
inductive PVal where
  | atom (a : Atom)
  | frac (r : Rat)                                  -- fractions.Fraction
  | dec (repr : String)                             -- decimal.Decimal, carried by str(d)
  | list (l : List PVal)
  | tuple (l : List PVal)
  | fset (l : List PVal)                            -- frozenset (iteration order of the harness)
  | set (l : List PVal)                             -- set (exact type; iteration order of the harness)
  | dict (d : List (PVal × PVal))                   -- any mapping, insertion order
  | obj (cls : String) (params : List (String × PVal))   -- object with `to_dict` from `simple_serialization`
  | callable (name : String) (isSelf : Bool)        -- `module.__name__`, and whether that name resolves to the object itself
  | ncallable (tag : String)                        -- callable object without `__name__` (functools.partial, quota.constant(5))
  | foreign (tag : String)                           -- no to_dict, not atomic/convertible, not iterable, not callable
deriving Repr, Inhabited

/-- JSON-shaped dictionary form -/
inductive J where
  | null
  | bool (b : Bool)
  | int (z : Int)
  | float (repr : String)
  | str (s : String)
  | list (l : List J)
  | dict (d : List (String × J))
deriving Repr, Inhabited

/-- which dotted names `get_object` resolves (L134-145): to a class, to a callable that is itself -/
structure Env where
  classes : List String
  callables : List String
  others : List String := []        -- names that resolve to something else (not modelled further)
deriving Repr, Inhabited

def Env.resolves (env : Env) (n : String) : Bool :=
  env.classes.contains n || env.callables.contains n || env.others.contains n

/-! ### structural equality on `PVal` (no derive handler for nested inductives) -/
mutual
def PVal.beq : PVal → PVal → Bool
  | .atom a, .atom b => decide (a = b)
  | .frac a, .frac b => decide (a = b)
  | .dec a, .dec b => decide (a = b)
  | .list a, .list b => beqL a b
  | .tuple a, .tuple b => beqL a b
  | .fset a, .fset b => beqL a b
  | .set a, .set b => beqL a b
  | .dict a, .dict b => beqD a b
  | .obj c a, .obj d b => decide (c = d) && beqF a b
  | .callable n s, .callable m t => decide (n = m) && decide (s = t)
  | .foreign a, .foreign b => decide (a = b)
  | .ncallable a, .ncallable b => decide (a = b)
  | _, _ => false
def beqL : List PVal → List PVal → Bool
  | [], [] => true
  | a :: as, b :: bs => PVal.beq a b && beqL as bs
  | _, _ => false
def beqD : List (PVal × PVal) → List (PVal × PVal) → Bool
  | [], [] => true
  | (k, v) :: as, (k', v') :: bs => PVal.beq k k' && PVal.beq v v' && beqD as bs
  | _, _ => false
def beqF : List (String × PVal) → List (String × PVal) → Bool
  | [], [] => true
  | (k, v) :: as, (k', v') :: bs => decide (k = k') && PVal.beq v v' && beqF as bs
  | _, _ => false
end

mutual
theorem PVal.beq_refl : ∀ a : PVal, a.beq a = true
  | .atom _ | .frac _ | .dec _ | .foreign _ | .ncallable _ => by simp [PVal.beq]
  | .callable _ _ => by simp [PVal.beq]
  | .list l | .tuple l | .fset l | .set l => by simp [PVal.beq, beqL_refl l]
  | .dict d => by simp [PVal.beq, beqD_refl d]
  | .obj _ ps => by simp [PVal.beq, beqF_refl ps]
theorem beqL_refl : ∀ l : List PVal, beqL l l = true
  | [] => by simp [beqL]
  | a :: t => by simp [beqL, PVal.beq_refl a, beqL_refl t]
theorem beqD_refl : ∀ l : List (PVal × PVal), beqD l l = true
  | [] => by simp [beqD]
  | (k, v) :: t => by simp [beqD, PVal.beq_refl k, PVal.beq_refl v, beqD_refl t]
theorem beqF_refl : ∀ l : List (String × PVal), beqF l l = true
  | [] => by simp [beqF]
  | (_, v) :: t => by simp [beqF, PVal.beq_refl v, beqF_refl t]
end

mutual
theorem PVal.eq_of_beq : ∀ a b : PVal, a.beq b = true → a = b
  | .atom a, b => by cases b <;> simp [PVal.beq]
  | .frac a, b => by cases b <;> simp [PVal.beq]
  | .dec a, b => by cases b <;> simp [PVal.beq]
  | .foreign a, b => by cases b <;> simp [PVal.beq]
  | .ncallable a, b => by cases b <;> simp [PVal.beq]
  | .callable n s, b => by cases b <;> simp [PVal.beq]
  | .list l, b => by
      cases b <;> simp [PVal.beq]
      exact eqL_of_beq l _
  | .tuple l, b => by
      cases b <;> simp [PVal.beq]
      exact eqL_of_beq l _
  | .fset l, b => by
      cases b <;> simp [PVal.beq]
      exact eqL_of_beq l _
  | .set l, b => by
      cases b <;> simp [PVal.beq]
      exact eqL_of_beq l _
  | .dict d, b => by
      cases b <;> simp [PVal.beq]
      exact eqD_of_beq d _
  | .obj c ps, b => by
      cases b <;> simp [PVal.beq]
      intro h1 h2
      exact ⟨h1, eqF_of_beq ps _ h2⟩
theorem eqL_of_beq : ∀ a b : List PVal, beqL a b = true → a = b
  | [], b => by cases b <;> simp [beqL]
  | x :: t, b => by
      cases b with
      | nil => simp [beqL]
      | cons y u =>
        simp only [beqL, Bool.and_eq_true, List.cons.injEq]
        intro ⟨h1, h2⟩
        exact ⟨PVal.eq_of_beq x y h1, eqL_of_beq t u h2⟩
theorem eqD_of_beq : ∀ a b : List (PVal × PVal), beqD a b = true → a = b
  | [], b => by cases b <;> simp [beqD]
  | (k, v) :: t, b => by
      cases b with
      | nil => simp [beqD]
      | cons y u =>
        obtain ⟨k', v'⟩ := y
        simp only [beqD, Bool.and_eq_true, List.cons.injEq, Prod.mk.injEq]
        intro ⟨⟨h1, h2⟩, h3⟩
        exact ⟨⟨PVal.eq_of_beq k k' h1, PVal.eq_of_beq v v' h2⟩, eqD_of_beq t u h3⟩
theorem eqF_of_beq : ∀ a b : List (String × PVal), beqF a b = true → a = b
  | [], b => by cases b <;> simp [beqF]
  | (k, v) :: t, b => by
      cases b with
      | nil => simp [beqF]
      | cons y u =>
        obtain ⟨k', v'⟩ := y
        simp only [beqF, Bool.and_eq_true, decide_eq_true_eq, List.cons.injEq, Prod.mk.injEq]
        intro ⟨⟨h1, h2⟩, h3⟩
        exact ⟨⟨h1, PVal.eq_of_beq v v' h2⟩, eqF_of_beq t u h3⟩
end

instance : DecidableEq PVal := fun a b =>
  if h : a.beq b = true then isTrue (PVal.eq_of_beq a b h)
  else isFalse (fun e => h (e ▸ PVal.beq_refl a))

/-! ### identifiers (`is_scoped_identifier`, persist.py L176-181; ASCII model of `str.isidentifier`) -/
def isIdStart (c : Char) : Bool :=
  (c.val ≥ 65 && c.val ≤ 90) || (c.val ≥ 97 && c.val ≤ 122) || c = '_'
def isIdCont (c : Char) : Bool := isIdStart c || (c.val ≥ 48 && c.val ≤ 57)
def isIdentifierL : List Char → Bool
  | [] => false
  | c :: cs => isIdStart c && cs.all isIdCont
/-- `value.split('.')` on the character list (structural, so that closed instances reduce in the kernel) -/
def dotChunks : List Char → List Char → List (List Char)
  | [], cur => [cur.reverse]
  | c :: cs, cur => if c = '.' then cur.reverse :: dotChunks cs [] else dotChunks cs (c :: cur)
/-- `not value.startswith('.') and all(chunk.isidentifier() for chunk in value.split('.'))`; a leading dot gives an
    empty first chunk, which is not an identifier, so the first conjunct is implied. -/
def isScopedIdent (s : String) : Bool := (dotChunks s.toList []).all isIdentifierL

/-! ### serialisation -/
def atomJ : Atom → J
  | .none => .null
  | .bool b => .bool b
  | .int z => .int z
  | .float r => .float r
  | .str s => .str s

/-- `all(isinstance(key, str) for key in value.keys())` (L55) together with the keys themselves -/
def strKeys : List (PVal × PVal) → Option (List String)
  | [] => some []
  | (.atom (.str s), _) :: t => (strKeys t).map (s :: ·)
  | _ :: _ => none

/-- the three reserved keys, tested in this order by `deserialize_value`; `RESERVED_KEYS` (L13) -/
def reservedKeys : List String := ["type", "class", "callable"]

/-- L56-57: `all(isinstance(key, str) ...) and not RESERVED_KEYS.intersection(value.keys())` -/
def plainKeys (d : List (PVal × PVal)) : Option (List String) :=
  match strKeys d with
  | some ks => if ks.any (fun k => reservedKeys.contains k) then none else some ks
  | none => none

mutual
/-- `serialize_value` (persist.py L46-81).  Test order of the code: `to_dict` present (objects), atomic,
    convertible (Fraction, Decimal, frozenset, tuple), iterable (mapping with all-str keys / other mapping /
    any other iterable), callable, else ValueError. -/
def serialize : PVal → Except Err J
  | .obj cls ps => do                                   -- simple_serialization.to_dict L36-40
      let fs ← serF ps
      pure (.dict (("class", .str cls) :: fs))
  | .atom a => pure (atomJ a)
  | .frac r => pure (.dict [("type", .str "Fraction"), ("arguments", .list [.int r.num, .int r.den])])   -- L189-190
  | .dec s => pure (.dict [("type", .str "Decimal"), ("value", .str s)])                                  -- L193-194
  | .fset l => do let js ← serL l; pure (.dict [("type", .str "frozenset"), ("value", .list js)])         -- L197-203
  | .tuple l => do let js ← serL l; pure (.dict [("type", .str "tuple"), ("value", .list js)])
  | .set l => do let js ← serL l; pure (.dict [("type", .str "set"), ("value", .list js)])
  | .dict d =>
      match plainKeys d with
      | some ks => do                                   -- L56-61: all keys are str and none is reserved
          let vs ← serV d
          pure (.dict (ks.zip vs))
      | none => do                                      -- L62-67
          let kj ← serK d
          let vj ← serV d
          pure (.dict [("type", .str "dict"), ("keys", .list kj), ("values", .list vj)])
  | .list l => do let js ← serL l; pure (.list js)     -- L68-69
  | .callable name isSelf =>                            -- L68-77
      if isSelf then pure (.dict [("callable", .str name)]) else throw Err.valueError
  | .ncallable _ => throw (Err.other "AttributeError")  -- L69: `value.__name__` does not exist
  | .foreign _ => throw Err.valueError                   -- L78-79
def serL : List PVal → Except Err (List J)
  | [] => pure []
  | v :: t => do let j ← serialize v; let js ← serL t; pure (j :: js)
def serK : List (PVal × PVal) → Except Err (List J)
  | [] => pure []
  | (k, _) :: t => do let j ← serialize k; let js ← serK t; pure (j :: js)
def serV : List (PVal × PVal) → Except Err (List J)
  | [] => pure []
  | (_, v) :: t => do let j ← serialize v; let js ← serV t; pure (j :: js)
def serF : List (String × PVal) → Except Err (List (String × J))
  | [] => pure []
  | (k, v) :: t => do let j ← serialize v; let js ← serF t; pure ((k, j) :: js)
end

/-! ### deserialisation -/
mutual
/-- Python `hash()` succeeds -/
def hashable : PVal → Bool
  | .list _ | .set _ | .dict _ => false
  | .tuple l => hashableL l
  | _ => true
def hashableL : List PVal → Bool
  | [] => true
  | v :: t => hashable v && hashableL t
end

/-- `d[k] = v` on an insertion-ordered dict -/
def dictSet (d : List (PVal × PVal)) (k v : PVal) : List (PVal × PVal) :=
  match d with
  | [] => [(k, v)]
  | (k', v') :: t => if k' = k then (k', v) :: t else (k', v') :: dictSet t k v

/-- `dict(zip(ks, vs))` -/
def zipDict : List PVal → List PVal → List (PVal × PVal) → List (PVal × PVal)
  | k :: ks, v :: vs, acc => zipDict ks vs (dictSet acc k v)
  | _, _, acc => acc

/-- `frozenset(l)` / `set(l)`: first occurrences (the harness compares sets order-free) -/
def dedup : List PVal → List PVal → List PVal
  | [], acc => acc
  | v :: t, acc => if v ∈ acc then dedup t acc else dedup t (acc ++ [v])

/-- `'k' in value and is_scoped_identifier(value['k'])` (L84-88) -/
def hasIdent (d : List (String × J)) (k : String) : Bool :=
  match d.lookup k with
  | some (.str s) => isScopedIdent s
  | _ => false

def identAt (d : List (String × J)) (k : String) : String :=
  match d.lookup k with
  | some (.str s) => s
  | _ => ""

abbrev Res := Except Err PVal

def unmodelled : Err := Err.other "unmodelled"
def unresolvable : Err := Err.other "unresolvable"      -- AttributeError / ImportError of get_object

/-- run the per-field results in order, first error wins (dict comprehension L91, loop L129-130) -/
def seqFields : List (String × Res) → Except Err (List (String × PVal))
  | [] => pure []
  | (k, r) :: t => do let v ← r; let vs ← seqFields t; pure ((k, v) :: vs)

def asList : Res → Except Err (List PVal)
  | .ok (.list l) => pure l
  | .ok _ => throw unmodelled
  | .error e => throw e

/-- `deserialize_typed` (L100-119); `R` holds the deserialisation result of every field of `d`. -/
def deserTyped (env : Env) (d : List (String × J)) (R : List (String × Res)) : Res :=
  let tn := identAt d "type"
  if tn = "dict" then                                   -- L102-106
    match d.lookup "keys", R.lookup "keys" with
    | some (.list _), some rk => do
        let ks ← asList rk
        match d.lookup "values", R.lookup "values" with
        | some (.list _), some rv => do
            let vs ← asList rv
            if hashableL (ks.take vs.length) then pure (.dict (zipDict ks vs [])) else throw (Err.other "TypeError")
        | none, _ => throw (Err.other "KeyError")
        | _, _ => throw unmodelled
    | none, _ => throw (Err.other "KeyError")
    | _, _ => throw unmodelled
  else if tn = "Fraction" then
    match d.lookup "value", d.lookup "arguments" with
    | none, some (.list [.int n, .int m]) =>            -- L109-112: Fraction(n, m)
        if m = 0 then throw (Err.other "ZeroDivisionError") else pure (.frac ((n : Rat) / (m : Rat)))
    | none, none => if (d.lookup "parameters").isSome then throw unmodelled else throw Err.valueError
    | _, _ => throw unmodelled
  else if tn = "Decimal" then
    match d.lookup "value" with
    | some (.str s) => pure (.dec s)                    -- L107-108: Decimal(str)
    | some _ => throw unmodelled
    | none => if (d.lookup "arguments").isSome || (d.lookup "parameters").isSome then throw unmodelled
              else throw Err.valueError
  else if tn = "tuple" then
    match d.lookup "value", R.lookup "value" with
    | some (.list _), some r => do let l ← asList r; pure (.tuple l)        -- tuple(list)
    | some _, _ => throw unmodelled
    | none, _ => if (d.lookup "arguments").isSome || (d.lookup "parameters").isSome then throw unmodelled
                 else throw Err.valueError
  else if tn = "frozenset" then
    match d.lookup "value", R.lookup "value" with
    | some (.list _), some r => do
        let l ← asList r
        if hashableL l then pure (.fset (dedup l [])) else throw (Err.other "TypeError")
    | some _, _ => throw unmodelled
    | none, _ => if (d.lookup "arguments").isSome || (d.lookup "parameters").isSome then throw unmodelled
                 else throw Err.valueError
  else if tn = "set" then
    match d.lookup "value", R.lookup "value" with
    | some (.list _), some r => do
        let l ← asList r
        if hashableL l then pure (.set (dedup l [])) else throw (Err.other "TypeError")
    | some _, _ => throw unmodelled
    | none, _ => if (d.lookup "arguments").isSome || (d.lookup "parameters").isSome then throw unmodelled
                 else throw Err.valueError
  else if env.resolves tn then throw unmodelled          -- some other global / builtin would be called
  else throw unresolvable                                -- L101 get_object: AttributeError / ImportError

/-- `deserialize_class` (L122-131) for classes without a `from_dict` hook -/
def deserClass (env : Env) (d : List (String × J)) (R : List (String × Res)) : Res :=
  let cn := identAt d "class"
  if cn ∈ env.classes then do
    let ps ← seqFields (R.filter (fun p => p.1 ≠ "class"))
    pure (.obj cn ps)
  else if env.resolves cn then throw unmodelled
  else throw unresolvable

/-- the `isinstance(value, dict)` branch of `deserialize_value` (L83-91) -/
def deserDict (env : Env) (d : List (String × J)) (R : List (String × Res)) : Res :=
  if hasIdent d "type" then deserTyped env d R
  else if hasIdent d "class" then deserClass env d R
  else if hasIdent d "callable" then
    (if identAt d "callable" ∈ env.callables then pure (.callable (identAt d "callable") true)
     else if env.resolves (identAt d "callable") then throw unmodelled else throw unresolvable)
  else do
    let ps ← seqFields R
    pure (.dict (ps.map (fun p => (PVal.atom (.str p.1), p.2))))

mutual
/-- `deserialize_value` (L82-97).  (`else: raise ValueError` at L96-97 is unreachable for JSON-shaped input.) -/
def deserialize (env : Env) : J → Res
  | .null => pure (.atom .none)
  | .bool b => pure (.atom (.bool b))
  | .int z => pure (.atom (.int z))
  | .float r => pure (.atom (.float r))
  | .str s => pure (.atom (.str s))
  | .list l => do let vs ← deserL env l; pure (.list vs)
  | .dict d => deserDict env d (deserR env d)
def deserL (env : Env) : List J → Except Err (List PVal)
  | [] => pure []
  | j :: t => do let v ← deserialize env j; let vs ← deserL env t; pure (v :: vs)
/-- the result of deserialising every field value (computed eagerly here, consumed on demand above) -/
def deserR (env : Env) : List (String × J) → List (String × Res)
  | [] => []
  | (k, j) :: t => (k, deserialize env j) :: deserR env t
end

/-- `from_dict` (L148-162) -/
def fromDict (env : Env) : J → Res
  | .dict d =>
      if (d.lookup "class").isNone then throw Err.valueError
      else if !hasIdent d "class" then throw Err.valueError
      else deserialize env (.dict d)
  | _ => throw Err.valueError

/-- `to_dict` (L165-173) -/
def toDict (v : PVal) : Except Err J := serialize v

/-! ### the decidable side conditions of the round-trip theorems -/

def reservedHitF (d : List (String × PVal)) : Bool :=
  match d.lookup "type" with
  | some (.atom (.str s)) => isScopedIdent s
  | _ => false

mutual
/-- the value reloads to itself: what `codec_roundtrip` assumes -/
def Representable (env : Env) : PVal → Bool
  | .atom _ | .frac _ | .dec _ => true
  | .list l | .tuple l => reprL env l
  | .fset l | .set l => reprL env l && hashableL l && decide l.Nodup
  | .dict d => reprD env d && hashableL (d.map (·.1)) && decide (d.map (·.1)).Nodup
  | .obj cls ps => isScopedIdent cls && decide (cls ∈ env.classes) && reprF env ps
                && decide (ps.map (·.1)).Nodup && !(ps.map (·.1)).contains "class" && !reservedHitF ps
  | .callable n s => s && isScopedIdent n && decide (n ∈ env.callables)
  | .ncallable _ | .foreign _ => false
def reprL (env : Env) : List PVal → Bool
  | [] => true
  | v :: t => Representable env v && reprL env t
def reprD (env : Env) : List (PVal × PVal) → Bool
  | [] => true
  | (k, v) :: t => Representable env k && Representable env v && reprD env t
def reprF (env : Env) : List (String × PVal) → Bool
  | [] => true
  | (_, v) :: t => Representable env v && reprF env t
end

mutual
/-- nothing inside the value is refused by `serialize_value` -/
def Serializable : PVal → Bool
  | .atom _ | .frac _ | .dec _ => true
  | .list l | .tuple l | .fset l | .set l => serzL l
  | .dict d => serzD d
  | .obj _ ps => serzF ps
  | .callable _ s => s
  | .ncallable _ | .foreign _ => false
def serzL : List PVal → Bool
  | [] => true
  | v :: t => Serializable v && serzL t
def serzD : List (PVal × PVal) → Bool
  | [] => true
  | (k, v) :: t => Serializable k && Serializable v && serzD t
def serzF : List (String × PVal) → Bool
  | [] => true
  | (_, v) :: t => Serializable v && serzF t
end


mutual
/-- Representation invariants of an in-memory value of this algebra — facts about any live Python object of these
    types, not restrictions on configurations: set elements and mapping keys are hashable and pairwise different; the
    class of an object and a callable that is "itself" resolve by their dotted name (`Env`); constructor parameter
    names are pairwise different and none is `class` (a Python keyword); and — the one fact about class signatures,
    true of every votelib class and asserted by the harness by reflection — no constructor parameter is called `type`
    while holding an identifier-like string (`to_dict` writes parameters next to the `class` key, L36-40). -/
def WFval (env : Env) : PVal → Bool
  | .atom _ | .frac _ | .dec _ | .ncallable _ | .foreign _ => true
  | .list l | .tuple l => wfvL env l
  | .fset l | .set l => wfvL env l && hashableL l && decide l.Nodup
  | .dict d => wfvD env d && hashableL (d.map (·.1)) && decide (d.map (·.1)).Nodup
  | .obj cls ps => isScopedIdent cls && decide (cls ∈ env.classes) && wfvF env ps
                && decide (ps.map (·.1)).Nodup && !(ps.map (·.1)).contains "class" && !reservedHitF ps
  | .callable n s => !s || (isScopedIdent n && decide (n ∈ env.callables))
def wfvL (env : Env) : List PVal → Bool
  | [] => true
  | v :: t => WFval env v && wfvL env t
def wfvD (env : Env) : List (PVal × PVal) → Bool
  | [] => true
  | (k, v) :: t => WFval env k && WFval env v && wfvD env t
def wfvF (env : Env) : List (String × PVal) → Bool
  | [] => true
  | (_, v) :: t => WFval env v && wfvF env t
end

end VL.Persist
