/-
  VotelibModel.ScaleFamilies — the composite evaluators of the C11 family table (harness/families.py) that are
  built with `PreConverted(converter, evaluator)` (core.py L767-792):
      evaluate(votes, n) = evaluator.evaluate(converter.convert(votes), n)
  Only compositions of models owned by other properties; import-free apart from VotelibModel.*.
-/
import VotelibModel.Simple
import VotelibModel.Convert
namespace VL.C11F
open VL VL.Convert

/-- `PreConverted(conv, ev).evaluate(votes, n)` when the converter may refuse -/
def preConverted {α β : Type} (conv : Except Err α) (ev : α → β) : Except Err β :=
  match conv with
  | .ok v => .ok (ev v)
  | .error e => .error e

/-- `PreConverted(RankedToPositionalVotes(scorer), Plurality())` — Borda, Dowdall, geometric, modified Borda, fixed top -/
def positionalRule (sc : Scorer) (p : RProfile) (n : Nat) : Except Err (List Slot) :=
  preConverted (rankedToPositional sc p) (fun v => plurality v n)

/-- `PreConverted(ApprovalToSimpleVotes(split), Plurality())` — approval voting / satisfaction approval voting -/
def approvalRule (split : Bool) (p : AProfile) (n : Nat) : Except Err (List Slot) :=
  preConverted (approvalToSimple split p) (fun v => plurality v n)

end VL.C11F
