/-
  VotelibModel.ScaleFamilies — the composite evaluators of the C11 family table (harness/families.py) that are
  built with `PreConverted(converter, evaluator)` (core.py L767-792):
      evaluate(votes, n) = evaluator.evaluate(converter.convert(votes), n)
  Only compositions of models owned by other properties; import-free apart from VotelibModel.*.
-/
import VotelibModel.Simple
import VotelibModel.Convert
import VotelibModel.CondorcetRanked
namespace VL.C11F
open VL VL.Convert

/-- `PreConverted(conv, ev).evaluate(votes, n)` when the converter may refuse -/
def preConverted {α β : Type} (conv : Except Err α) (ev : α → β) : Except Err β :=
  match conv with
  | .ok v => .ok (ev v)
  | .error e => .error e

/-- `PreConverted(RankedToPositionalVotes(scorer), Plurality())` — Borda, Dowdall, geometric, modified Borda, fixed top -/
def positionalRule (sc : Scorer) (p : RProfile) (n : Nat) : Except Err (List Slot) :=
  preConverted (rankedToPositional sc p) (fun v => plurality v n)

/-- `PreConverted(ApprovalToSimpleVotes(split), Plurality())` — approval voting / satisfaction approval voting -/
def approvalRule (split : Bool) (p : AProfile) (n : Nat) : Except Err (List Slot) :=
  preConverted (approvalToSimple split p) (fun v => plurality v n)

/-! ### the Condorcet family: `PreConverted(RankedToCondorcetVotes(), condorcet.EVALUATORS[name])` -/

/-- the ten entries of `votelib.evaluate.condorcet.EVALUATORS` (condorcet.py L529-540) -/
inductive CondorcetEv where
  | rankedPairs (sc : Condorcet.Scorer)
  | copeland (secondOrder : Bool)
  | schulze
  | kemenyYoung
  | minimax (sc : Condorcet.Scorer)
deriving DecidableEq, Repr

/-- `EVALUATORS[name].evaluate(pairwise, n)` -/
def CondorcetEv.eval : CondorcetEv → Condorcet.Pairwise → Nat → Except Err (List Slot)
  | .rankedPairs sc, v, n => Condorcet.rankedPairs sc v n
  | .copeland so, v, n => .ok (Condorcet.copeland so v n)
  | .schulze, v, n => .ok (Condorcet.schulze v n)
  | .kemenyYoung, v, n => Condorcet.kemenyYoung v n
  | .minimax sc, v, n => .ok (Condorcet.minimax sc v n)

def CondorcetEv.byName : String → Option CondorcetEv
  | "rankedpairs_winvotes" => some (.rankedPairs .winningVotes)
  | "rankedpairs_margins" => some (.rankedPairs .margins)
  | "rankedpairs_pwo" => some (.rankedPairs .pairwiseOpposition)
  | "copeland_2o" => some (.copeland true)
  | "copeland_raw" => some (.copeland false)
  | "schulze" => some .schulze
  | "kemeny_young" => some .kemenyYoung
  | "minimax_winvotes" => some (.minimax .winningVotes)
  | "minimax_margins" => some (.minimax .margins)
  | "minimax_pwo" => some (.minimax .pairwiseOpposition)
  | _ => none

/-- `PreConverted(RankedToCondorcetVotes(), EVALUATORS[name]).evaluate(votes, n)` -/
def condorcetRule (ev : CondorcetEv) (p : Condorcet.Profile) (n : Nat) : Except Err (List Slot) :=
  ev.eval (Condorcet.rankedToCondorcet p) n

/-- the seatless set selectors behind the same converter -/
inductive CondorcetSet where
  | winner | smith | schwartz
deriving DecidableEq, Repr

def CondorcetSet.eval : CondorcetSet → Condorcet.Pairwise → List Cand
  | .winner, v => Condorcet.condorcetWinner v
  | .smith, v => Condorcet.smithSet v
  | .schwartz, v => Condorcet.schwartzSet v

def condorcetSetRule (s : CondorcetSet) (p : Condorcet.Profile) : List Cand :=
  s.eval (Condorcet.rankedToCondorcet p)

/-- `PreConverted(RankedToCondorcetVotes(unranked_at_bottom=False), EVALUATORS[name]).evaluate(votes, n)`: the evaluator on
    the incomplete pairwise dictionary truncated ballots leave in the converter's other mode -/
def condorcetRuleNoBottom (ev : CondorcetEv) (p : Condorcet.Profile) (n : Nat) : Except Err (List Slot) :=
  ev.eval (Condorcet.rankedToCondorcetNoBottom p) n

def condorcetSetRuleNoBottom (s : CondorcetSet) (p : Condorcet.Profile) : List Cand :=
  s.eval (Condorcet.rankedToCondorcetNoBottom p)

end VL.C11F
