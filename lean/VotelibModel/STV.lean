/-
  VotelibModel.STV — transferable vote (C03 / C04).

  Mirrors  votelib/evaluate/sequential.py  (TransferableVoteDistributor L40-351, initial_allocation
  L354-399, allocation_totals L402-407, TransferableVoteSelector L410-480),
  votelib/component/transfer.py (ranked_next L34-66, SimpleVoteTransferer L152-223, Hare L227-283,
  Gregory L287-325) and votelib/util.py (all_rankings / all_ranked_candidates L38-88,
  add_dict_to_dict L19-23, distribution_to_selection L91-96).

  Representation.  A ballot is a list of rank items (a candidate, or a shared rank = the members of the
  frozenset in the order Python iterates it); a pile is the dict  ballot -> weight  in insertion order; an
  allocation is the dict  holder -> pile  in insertion order, holder `none` = the exhausted pile (key None).
  The FICTIONAL object that `initial_allocation` prepends to ballots with a shared first rank is the
  source `none` of `rankedNext`.

  Randomness.  `Hare` calls `distribute_n_random`; the model takes the answers as an oracle stream
  (`List Draw`), one entry per call, and *checks the contract of every answer it consumes* (`DrawOK`: the
  amounts are non-negative, name only papers of the pile / target candidates, never exceed a paper's
  weight, and add up to the number asked for); an answer outside the contract is the outcome
  `Err.other "DrawContract"`.  The harness monitors the same contract on the implementation.

  Not modelled (explicit outcome `Err.other "unmodelled:…"`, never defaulted): a custom `retainer`,
  previous gains above the seat number (negative remaining seats), a non-positive quota value.
-/
import VotelibModel.Core
namespace VL.STV
open VL

/-! ## data -/

inductive RankItem where
  | one (c : Cand)
  | shared (cs : List Cand)
deriving DecidableEq, Repr, Inhabited

abbrev Ballot := List RankItem
/-- dict ballot -> weight -/
abbrev Pile := List (Ballot × Rat)
/-- dict holder -> pile; holder `none` = exhausted pile -/
abbrev Alloc := List (Option Cand × Pile)
/-- the `votes` argument: dict ballot -> number of votes -/
abbrev Profile := List (Ballot × Rat)
/-- dict candidate -> seats (`prev_gains`, `max_seats`, results) -/
abbrev Seats := List (Cand × Nat)

def itemCands : RankItem → List Cand
  | .one c => [c]
  | .shared cs => cs

/-- all candidates named on a ballot, in ballot order -/
def ballotCands (b : Ballot) : List Cand := b.flatMap itemCands

/-! ## util.py -/

/-- `if cand not in output: output.append(cand)` (util.py L50-53) -/
def dedupFirst (l : List Cand) : List Cand :=
  l.foldl (fun out c => if c ∈ out then out else out ++ [c]) []

/-- number of rank positions visited by `all_rankings` (util.py L74-88): the longest ballot -/
def maxRanks (votes : Profile) : Nat := votes.foldl (fun m p => max m p.1.length) 0

/-- one sweep of `all_rankings` at position `i`, in dict order -/
def rankRow (votes : Profile) (i : Nat) : List Cand :=
  votes.flatMap (fun p => match p.1[i]? with
    | some it => itemCands it
    | none => [])

/-- `util.all_ranked_candidates` (L38-54): rank-major order of first appearance -/
def allRanked (votes : Profile) : List Cand :=
  dedupFirst ((List.range (maxRanks votes)).flatMap (rankRow votes))

/-- `dict.get(c, 0)` -/
def seatsGet (s : Seats) (c : Cand) : Nat :=
  match s.find? (fun p => p.1 = c) with
  | some p => p.2
  | none => 0

/-- `max_seats.get(c, INF)`; `none` = INF -/
def maxGet (s : Seats) (c : Cand) : Option Nat :=
  match s.find? (fun p => p.1 = c) with
  | some p => some p.2
  | none => none

def sumSeats (s : Seats) : Nat := (s.map (·.2)).sum

/-- `dict1[key] = dict1.get(key, 0) + addition` for one key (util.py L22-23) -/
def seatsAdd1 : Seats → Cand → Nat → Seats
  | [], c, k => [(c, 0 + k)]
  | (c', k') :: rest, c, k => if c' = c then (c', k' + k) :: rest else (c', k') :: seatsAdd1 rest c k

/-- `util.add_dict_to_dict` (L19-23) -/
def seatsAdd (s add : Seats) : Seats := add.foldl (fun acc p => seatsAdd1 acc p.1 p.2) s

/-- `util.distribution_to_selection` (L91-96): keys by non-increasing value, stable -/
def distributionToSelection (s : Seats) : List Cand :=
  (sortDesc (s.map (fun p => (p.1, (p.2 : Rat))))).map (·.1)

/-! ## piles and allocations -/

def pileTotal (p : Pile) : Rat := (p.map (·.2)).sum

/-- `if vote not in target_alloc: target_alloc[vote] = 0;  target_alloc[vote] += n` (transfer.py L193-196) -/
def pileAdd : Pile → Ballot → Rat → Pile
  | [], b, w => [(b, 0 + w)]
  | (b', w') :: rest, b, w => if b' = b then (b', w' + w) :: rest else (b', w') :: pileAdd rest b w

/-- add weight for a ballot to the pile of `h` (`setdefault(target, {})` / creation of the None pile, L193-203) -/
def allocAdd : Alloc → Option Cand → Ballot → Rat → Alloc
  | [], h, b, w => [(h, pileAdd [] b w)]
  | (h', p) :: rest, h, b, w => if h' = h then (h', pileAdd p b w) :: rest else (h', p) :: allocAdd rest h b w

def allocKeys (a : Alloc) : List (Option Cand) := a.map (·.1)

/-- continuing candidates = the non-None keys of the allocation, in order -/
def continuing (a : Alloc) : List Cand := a.filterMap (·.1)

def allocPile (a : Alloc) (h : Option Cand) : Pile :=
  match a.find? (fun hp => hp.1 = h) with
  | some hp => hp.2
  | none => []

/-- `del allocation[cand]` -/
def allocErase (a : Alloc) (h : Option Cand) : Alloc := a.filter (fun hp => hp.1 ≠ h)

/-- `allocation_totals` (sequential.py L402-407) restricted to the keys that are candidates, in order
    (the `None` entry is filtered out by every consumer: L172, L290, L325-328) -/
def totalsInPlay (a : Alloc) : Votes :=
  a.filterMap (fun hp => match hp.1 with
    | some c => some (c, pileTotal hp.2)
    | none => none)

/-- `allocation_totals` with the None pile -/
def allocTotals (a : Alloc) : List (Option Cand × Rat) := a.map (fun hp => (hp.1, pileTotal hp.2))

/-- all weight in the allocation, exhausted pile included -/
def held (a : Alloc) : Rat := (a.map (fun hp => pileTotal hp.2)).sum

/-! ## transfer.py: ranked_next -/

/-- loop of `ranked_next` (L50-67); `take` is `take_next` -/
def rankedNextGo (frm : Option Cand) (allowed : List Cand) : Bool → Ballot → List Cand
  | _, [] => []
  | take, .shared cs :: rest =>
    -- `if not take_next and cand in rank_alt: take_next = True` (L53-55): the candidates sharing the rank
    -- with `cand` come before lower ranks
    if take || (match frm with
        | some f => decide (f ∈ cs)
        | none => false) then
      let alt := cs.filter (fun c => decide (c ∈ allowed))
      if alt ≠ [] then alt else rankedNextGo frm allowed true rest
    else rankedNextGo frm allowed false rest
  | take, .one c :: rest =>
    if take then
      if c ∈ allowed then [c] else rankedNextGo frm allowed true rest
    else if frm = some c then rankedNextGo frm allowed true rest
    else rankedNextGo frm allowed false rest

/-- `ranked_next(vote, cand, allowed)`; `frm = none` is the FICTIONAL first entry that
    `initial_allocation` prepends (it is found at once, so the whole ballot is scanned with `take_next`) -/
def rankedNext (vote : Ballot) (frm : Option Cand) (allowed : List Cand) : List Cand :=
  rankedNextGo frm allowed frm.isNone vote

/-! ## transferers -/

inductive Draw where
  /-- answer of `distribute_n_random(cand_alloc, n_sub, limit_by_weight=True)`: paper -> amount -/
  | papers (l : List (Ballot × Rat))
  /-- answer of `distribute_n_random({tgt: remainder …}, remainder)`: candidate -> amount -/
  | cands (l : List (Cand × Rat))
deriving Repr

def drawErr : Err := .other "DrawContract"

/-- the two operations in which `Gregory` and `Hare` differ (`_subtract`, `_distribute_equal_ranking`) -/
structure Engine where
  subtract : Pile → Rat → List Draw → Except Err (Pile × List Draw)
  split : List Cand → Rat → List Draw → Except Err (List (Cand × Rat) × List Draw)

/-- `Gregory._subtract` (L304-318) -/
def gregorySubtract (p : Pile) (n : Rat) : Except Err Pile :=
  let cur := pileTotal p
  if cur = 0 then .error (.other "RuntimeError")
  else if n ≥ cur then .ok []
  else .ok (p.map (fun bw => (bw.1, bw.2 * ((cur - n) / cur))))

/-- `Gregory._distribute_equal_ranking` (L320-325) -/
def gregorySplit (targets : List Cand) (w : Rat) : List (Cand × Rat) :=
  targets.map (fun c => (c, w / (targets.length : Rat)))

def gregory : Engine where
  subtract p n ds := (gregorySubtract p n).map (fun p' => (p', ds))
  split ts w ds := .ok (gregorySplit ts w, ds)

def lookupB (l : List (Ballot × Rat)) (b : Ballot) : Option Rat :=
  match l.find? (fun p => p.1 = b) with
  | some p => some p.2
  | none => none

/-- amount the answer takes from each paper of the pile -/
def takenFrom (ans : List (Ballot × Rat)) (p : Pile) : List Rat := p.map (fun bw => (lookupB ans bw.1).getD 0)

/-- contract of a `limit_by_weight=True` answer w.r.t. the pile and the number asked for -/
def papersOK (ans : List (Ballot × Rat)) (p : Pile) (n : Rat) : Bool :=
  ans.all (fun bs => decide (0 ≤ bs.2) && p.any (fun bw => decide (bw.1 = bs.1))) &&
  p.all (fun bw => decide ((lookupB ans bw.1).getD 0 ≤ bw.2)) &&
  decide ((takenFrom ans p).sum = n)

/-- `Hare._subtract` (L248-261) on an answer satisfying the contract -/
def hareApply (ans : List (Ballot × Rat)) (p : Pile) : Pile :=
  p.filterMap (fun bw => match lookupB ans bw.1 with
    | none => some bw
    | some s => if s ≥ bw.2 then none else some (bw.1, bw.2 - s))

def hareSubtract (p : Pile) (n : Rat) : List Draw → Except Err (Pile × List Draw)
  | .papers ans :: ds => if papersOK ans p n then .ok (hareApply ans p, ds) else .error drawErr
  | _ => .error drawErr

/-- `result[cand] = result.get(cand, 0) + transfer` (L281-282) -/
def ratAdd1 : List (Cand × Rat) → Cand → Rat → List (Cand × Rat)
  | [], c, k => [(c, 0 + k)]
  | (c', k') :: rest, c, k => if c' = c then (c', k' + k) :: rest else (c', k') :: ratAdd1 rest c k

/-- contract of an equal-rank answer: non-negative amounts for target candidates adding up to `n` -/
def candsOK (ans : List (Cand × Rat)) (targets : List Cand) (n : Rat) : Bool :=
  ans.all (fun cs => decide (0 ≤ cs.2) && decide (cs.1 ∈ targets)) && decide ((ans.map (·.2)).sum = n)

/-- `Hare._distribute_equal_ranking` (L263-283) -/
def hareSplit (targets : List Cand) (w : Rat) (ds : List Draw) : Except Err (List (Cand × Rat) × List Draw) :=
  let whole : Rat := ((w / (targets.length : Rat)).floor : Int)
  let first : List (Cand × Rat) := if whole ≠ 0 then targets.map (fun c => (c, whole)) else []
  let remainder : Rat := if whole ≠ 0 then w - (targets.length : Rat) * whole else w
  if whole ≠ 0 ∧ remainder = 0 then .ok (first, ds)
  else match ds with
    | .cands ans :: ds' =>
      if candsOK ans targets remainder then .ok (ans.foldl (fun r cs => ratAdd1 r cs.1 cs.2) first, ds')
      else .error drawErr
    | _ => .error drawErr

def hare : Engine where
  subtract := hareSubtract
  split := hareSplit

/-- one paper of a removed pile (body of the loop L182-203) -/
def moveBallot (E : Engine) (cont : List Cand) (frm : Option Cand) (a : Alloc) (b : Ballot) (w : Rat)
    (ds : List Draw) : Except Err (Alloc × List Draw) :=
  match rankedNext b frm cont with
  | [] => .ok (allocAdd a none b w, ds)
  | [t] => .ok (allocAdd a (some t) b w, ds)
  | ts => do
    let (realloc, ds') ← E.split ts w ds
    pure (realloc.foldl (fun a' tn => allocAdd a' (some tn.1) b tn.2) a, ds')

def movePile (E : Engine) (cont : List Cand) (frm : Option Cand) :
    Pile → Alloc → List Draw → Except Err (Alloc × List Draw)
  | [], a, ds => .ok (a, ds)
  | (b, w) :: rest, a, ds => do
    let (a', ds') ← moveBallot E cont frm a b w ds
    movePile E cont frm rest a' ds'

/-- removal of the listed candidates one after another (L181-204).  The pile of a removed candidate is
    taken out before its papers are re-allocated; in the Python code it is deleted afterwards, which is the
    same because no paper can be re-allocated to a removed candidate (`targets ⊆ continuing`). -/
def transferGo (E : Engine) (cont : List Cand) : List Cand → Alloc → List Draw → Except Err (Alloc × List Draw)
  | [], a, ds => .ok (a, ds)
  | c :: rest, a, ds => do
    let (a', ds') ← movePile E cont (some c) (allocPile a (some c)) (allocErase a (some c)) ds
    transferGo E cont rest a' ds'

/-- `SimpleVoteTransferer.transfer` (L163-205) -/
def transfer (E : Engine) (a : Alloc) (cands : List Cand) (ds : List Draw) : Except Err (Alloc × List Draw) :=
  let toRemove := (continuing a).filter (fun c => decide (c ∈ cands))
  let cont := (continuing a).filter (fun c => decide (c ∉ cands))
  transferGo E cont toRemove a ds

/-- replace the pile of holder `h` -/
def allocSetPile : Alloc → Option Cand → Pile → Alloc
  | [], _, _ => []
  | (h', p) :: rest, h, p' => if h' = h then (h', p') :: rest else (h', p) :: allocSetPile rest h p'

/-- `SimpleVoteTransferer.subtract` (L153-161): `elected` maps a candidate to the votes to remove -/
def subtract (E : Engine) : List (Cand × Rat) → Alloc → List Draw → Except Err (Alloc × List Draw)
  | [], a, ds => .ok (a, ds)
  | (c, n) :: rest, a, ds => do
    let (p', ds') ← E.subtract (allocPile a (some c)) n ds
    subtract E rest (allocSetPile a (some c) p') ds'

/-! ## sequential.py: initial_allocation -/

/-- the ballot's first rank is the single candidate `c` (`first_prefs[first_pref][vote] = n_votes`, L381-382) -/
def firstIs (c : Cand) (bw : Ballot × Rat) : Bool :=
  match bw.1 with
  | .one c' :: _ => decide (c' = c)
  | _ => false

/-- the ballot's first rank is shared (`isinstance(first_pref, collections.abc.Set)`, L374) -/
def sharedFirst (bw : Ballot × Rat) : Bool :=
  match bw.1 with
  | .shared _ :: _ => true
  | _ => false

/-- `first_prefs` before the FICTIONAL pile is split (L366-382) -/
def firstPrefs (votes : Profile) : Alloc :=
  (allRanked votes).map (fun c => (some c, votes.filter (firstIs c)))

/-- `first_prefs[FICTIONAL]` without the prepended marker (L378-380) -/
def fictionalPile (votes : Profile) : Pile := votes.filter sharedFirst

/-- `initial_allocation` (L354-399).  Ballots with a shared first rank form the pile of the FICTIONAL
    holder, which is then transferred (`frm = none`); renaming `(FICTIONAL,)+vote` back to `vote` moves
    nothing in this representation.  Empty ballots are skipped (L371-372). -/
def initialAllocation (E : Engine) (votes : Profile) (ds : List Draw) : Except Err (Alloc × List Draw) :=
  movePile E (allRanked votes) none (fictionalPile votes) (firstPrefs votes) ds

/-! ## sequential.py: next_count -/

structure Cfg where
  /-- `quota_function` (`none` = no election by quota) -/
  quota : Option (Rat → Nat → Rat)
  acceptEqual : Bool
  mandatory : Bool
  /-- `eliminate_step` -/
  step : Option Int

/-- `_compute_quota` (L264-271); `none` = INF -/
def computeQuota (cfg : Cfg) (total : Rat) (nSeats : Nat) : Option Rat :=
  match cfg.quota with
  | some f => if total ≠ 0 ∧ nSeats ≠ 0 then some (f total nSeats) else none
  | none => none

/-- `min(n_multiples, max_seats.get(cand, INF))` (L292) -/
def capOf (maxS : Seats) (c : Cand) (m : Int) : Int :=
  match maxGet maxS c with
  | some k => min m (k : Int)
  | none => m

/-- body of the loop of `_elect_by_quota` (L288-297) for one candidate -/
def quotaEntry (acceptEqual : Bool) (q : Rat) (prev maxS : Seats) (ct : Cand × Rat) : Option (Cand × Nat × Rat) :=
  let m : Int := (ct.2 / q).floor
  let over : Rat := ct.2 - (m : Rat) * q
  if acceptEqual || decide (over ≠ 0) then
    let actual : Int := capOf maxS ct.1 m - (seatsGet prev ct.1 : Int)
    if actual > 0 then some (ct.1, actual.toNat, over) else none
  else none

/-- loop of `_elect_by_quota` (L287-297): (candidate, seats, overcount) in order of non-increasing totals -/
def quotaMultiples (acceptEqual : Bool) (q : Rat) (prev maxS : Seats) (tp : Votes) : List (Cand × Nat × Rat) :=
  (sortDesc tp).filterMap (quotaEntry acceptEqual q prev maxS)

def hasTie (l : List Slot) : Bool := l.any (fun s => match s with
  | .tie _ => true
  | .cand _ => false)

def slotCands (l : List Slot) : List Cand := l.filterMap (fun s => match s with
  | .cand c => some c
  | .tie _ => none)

/-- `_correct_overcount` (L307-320) -/
def correctOvercount (awarded : List (Cand × Nat × Rat)) (nRem : Nat) : Except Err Seats :=
  let kept := getNBest (awarded.map (fun x => (x.1, x.2.2))) nRem
  if hasTie kept then .error .notImplemented
  else
    let keptC := slotCands kept
    .ok (awarded.filterMap (fun x =>
      if x.1 ∈ keptC then some (x.1, x.2.1)
      else if x.2.1 > 1 then some (x.1, x.2.1 - 1) else none))

/-- `_elect_by_quota` (L273-305) for a finite quota value -/
def electByQuota (acceptEqual : Bool) (qv : Rat) (nRem : Nat) (prev maxS : Seats) (tp : Votes) :
    Except Err Seats :=
  let qm := quotaMultiples acceptEqual qv prev maxS tp
  if (qm.map (·.2.1)).sum > nRem then correctOvercount qm nRem
  else .ok (qm.map (fun x => (x.1, x.2.1)))

/-- `_retained_count` (L344-351) -/
def retainedCount (step : Int) (len : Nat) : Nat :=
  if step < 0 then (max ((len : Int) + step) 1).toNat else (min step ((len : Int) - 1)).toNat

/-- `select_retained` (L322-342) without a custom retainer -/
def selectRetained (step : Option Int) (tp : Votes) : Except Err (List Cand) :=
  match step with
  | none => .error .valueError
  | some st =>
    let retained := getNBest tp (retainedCount st tp.length)
    if hasTie retained then .error .notImplemented else .ok (slotCands retained)

structure CountOut where
  /-- `new_allocation` (`[]` = the `{}` returned by the elect-all-remaining shortcut) -/
  alloc : Alloc
  /-- `newly_elected` -/
  elected : Seats
  /-- the list handed to `transfer` -/
  eliminated : List Cand
  /-- the elect-all-remaining shortcut was taken (L175-177) -/
  shortcut : Bool

/-- `avail_seats` (L169-173): candidates by non-increasing total (stable), `none` = INF -/
def availSeats (a : Alloc) (prev maxS : Seats) : List (Cand × Option Int) :=
  ((sortDesc (totalsInPlay a)).map (·.1)).map
    (fun c => (c, (maxGet maxS c).map (fun k => (k : Int) - (seatsGet prev c : Int))))

/-- one addition of `sum(avail_seats.values())`; `none` = INF -/
def availAdd (acc : Option Int) (p : Cand × Option Int) : Option Int :=
  match acc, p.2 with
  | some s, some k => some (s + k)
  | _, _ => none

/-- `tot_avail_seats` (L174) -/
def totAvail (avail : List (Cand × Option Int)) : Option Int := avail.foldl availAdd (some 0)

/-- `tot_avail_seats == n_rem_seats and not self.mandatory_quota` (L175) -/
def shortcutCond (cfg : Cfg) (a : Alloc) (nSeats : Nat) (prev maxS : Seats) : Bool :=
  decide (totAvail (availSeats a prev maxS) = some (((nSeats - sumSeats prev : Nat)) : Int)) && !cfg.mandatory

/-- elect all remaining, no choice (L176-177) -/
def electAll (a : Alloc) (prev maxS : Seats) (ds : List Draw) : Except Err (CountOut × List Draw) :=
  let avail := availSeats a prev maxS
  if avail.any (fun p => match p.2 with
      | some k => decide (k < 0)
      | none => true) then .error (.other "unmodelled:negative available seats")
  else .ok ({ alloc := [], elected := avail.map (fun p => (p.1, (p.2.getD 0).toNat)),
              eliminated := [], shortcut := true }, ds)

/-- candidates elected in this count that have reached their maximum (L197-203) -/
def fullyElected (elected prev maxS : Seats) : List Cand :=
  (elected.filter (fun ck =>
    match maxGet maxS ck.1 with
    | some k => decide (seatsGet (seatsAdd elected prev) ck.1 ≥ k)
    | none => false)).map (·.1)

/-- `if eliminated: new_allocation = transfer(allocation, eliminated)` (L212-218) -/
def transferIf (E : Engine) (a : Alloc) (eliminated : List Cand) (ds : List Draw) :
    Except Err (Alloc × List Draw) :=
  if eliminated = [] then .ok (a, ds) else transfer E a eliminated ds

/-- somebody holds the quota (L189-203, L212-221) -/
def afterElection (E : Engine) (a : Alloc) (elected : Seats) (qv : Rat) (prev maxS : Seats) (ds : List Draw) :
    Except Err (CountOut × List Draw) :=
  match subtract E (elected.map (fun ck => (ck.1, (ck.2 : Rat) * qv))) a ds with
  | .error e => .error e
  | .ok (a1, ds1) =>
    let eliminated := fullyElected elected prev maxS
    match transferIf E a1 eliminated ds1 with
    | .error e => .error e
    | .ok (a2, ds2) => .ok ({ alloc := a2, elected := elected, eliminated := eliminated, shortcut := false }, ds2)

/-- nobody elected by quota, we have to eliminate (L204-221) -/
def afterElimination (E : Engine) (a : Alloc) (step : Option Int) (ds : List Draw) :
    Except Err (CountOut × List Draw) :=
  let tp := totalsInPlay a
  match selectRetained step tp with
  | .error e => .error e
  | .ok retained =>
    let eliminated := (tp.map (·.1)).filter (fun c => decide (c ∉ retained))
    match transferIf E a eliminated ds with
    | .error e => .error e
    | .ok (a2, ds2) => .ok ({ alloc := a2, elected := [], eliminated := eliminated, shortcut := false }, ds2)

/-- the `else` branch of `next_count` (L178-221) -/
def countProper (E : Engine) (cfg : Cfg) (a : Alloc) (nSeats : Nat) (total : Rat) (prev maxS : Seats)
    (ds : List Draw) : Except Err (CountOut × List Draw) :=
  match computeQuota cfg total nSeats with
  | none => afterElimination E a cfg.step ds     -- quota INF: `total // INF` is 0 for everybody
  | some qv =>
    if qv ≤ 0 then .error (.other "unmodelled:non-positive quota") else
    match electByQuota cfg.acceptEqual qv (nSeats - sumSeats prev) prev maxS (totalsInPlay a) with
    | .error e => .error e
    | .ok elected =>
      if elected = [] then afterElimination E a cfg.step ds
      else afterElection E a elected qv prev maxS ds

/-- `TransferableVoteDistributor.next_count` (L143-221) -/
def nextCount (E : Engine) (cfg : Cfg) (a : Alloc) (nSeats : Nat) (total : Rat) (prev maxS : Seats)
    (ds : List Draw) : Except Err (CountOut × List Draw) :=
  if sumSeats prev > nSeats then .error (.other "unmodelled:negative remaining seats")
  else if shortcutCond cfg a nSeats prev maxS then electAll a prev maxS ds
  else countProper E cfg a nSeats total prev maxS ds

/-! ## sequential.py: nth_count -/

/-- loop state of `nth_count` (L238-262) after some counts -/
structure St where
  /-- `new_allocation` (the state the next count starts from); initially the initial allocation -/
  alloc : Alloc
  /-- `allocation`: the state the last executed count started from (what `nth_count` reports) -/
  shown : Alloc
  seats : Seats
  /-- ghost: seats filled by quota so far -/
  byQuota : Nat
  /-- ghost: the last count took the elect-all-remaining shortcut, `alloc` is its `{}` marker -/
  final : Bool
  draws : List Draw

structure Input where
  votes : Profile
  nSeats : Nat
  prev : Seats
  maxS : Seats

def totalVotes (votes : Profile) : Rat := (votes.map (·.2)).sum

def initState (E : Engine) (inp : Input) (ds : List Draw) : Except Err St :=
  match initialAllocation E inp.votes ds with
  | .error e => .error e
  | .ok (a, ds') =>
    .ok { alloc := a, shown := a, seats := inp.prev, byQuota := 0, final := false, draws := ds' }

/-- the loop state after a count that returned `out` -/
def advance (st : St) (out : CountOut) (ds' : List Draw) : St :=
  { alloc := out.alloc, shown := st.alloc, seats := seatsAdd st.seats out.elected,
    byQuota := st.byQuota + (if out.shortcut then 0 else sumSeats out.elected),
    final := out.shortcut, draws := ds' }

/-- `not newly_elected and new_allocation == allocation` (L257): without election the allocation is
    returned unchanged exactly when nothing was eliminated (a removed key makes the dicts differ); the
    `{}` of the shortcut equals the allocation only if that is empty as well -/
def noProgress (st : St) (out : CountOut) : Bool :=
  decide (out.elected = []) && (if out.shortcut then decide (st.alloc = []) else decide (out.eliminated = []))

/-- one iteration of the loop L242-261; `none` = `break` -/
def countStep (E : Engine) (cfg : Cfg) (inp : Input) (st : St) : Except Err (Option St) :=
  if sumSeats st.seats = inp.nSeats then .ok none
  else
    match nextCount E cfg st.alloc inp.nSeats (totalVotes inp.votes) st.seats inp.maxS st.draws with
    | .error e => .error e
    | .ok (out, ds') =>
      if noProgress st out then .error .votingSystemError
      else .ok (some (advance st out ds'))

/-- at most `k` counts (the `for count_i in range(count_number)` loop) -/
def runCounts (E : Engine) (cfg : Cfg) (inp : Input) : Nat → St → Except Err St
  | 0, st => .ok st
  | k + 1, st =>
    match countStep E cfg inp st with
    | .error e => .error e
    | .ok none => .ok st
    | .ok (some st') => runCounts E cfg inp k st'

/-- `TransferableVoteDistributor.nth_count` (L223-262): (totals of `allocation`, seats) -/
def nthCount (E : Engine) (cfg : Cfg) (inp : Input) (k : Nat) (ds : List Draw) :
    Except Err (List (Option Cand × Rat) × Seats) := do
  let st0 ← initState E inp ds
  let st ← runCounts E cfg inp k st0
  pure (allocTotals st.shown, st.seats)

/-- number of counts after which `evaluate` (count_number = sys.maxsize) has certainly stopped: every
    count that does not raise fills a seat or removes a candidate -/
def evalFuel (inp : Input) : Nat := inp.nSeats + (allRanked inp.votes).length + 2

def finished (inp : Input) (st : St) : Bool := sumSeats st.seats = inp.nSeats

/-- `TransferableVoteDistributor.evaluate` (L120-141) -/
def distributorEvaluate (E : Engine) (cfg : Cfg) (inp : Input) (ds : List Draw) : Except Err Seats := do
  let st0 ← initState E inp ds
  let st ← runCounts E cfg inp (evalFuel inp) st0
  if finished inp st then pure st.seats else .error (.other "fuel")

/-- `max_seats={c: 1 for c in all_cands}` (L473-479) -/
def selectorInput (votes : Profile) (nSeats : Nat) : Input :=
  { votes := votes, nSeats := nSeats, prev := [], maxS := (allRanked votes).map (fun c => (c, 1)) }

/-- `TransferableVoteSelector.nth_count` (L460-480) -/
def selectorNthCount (E : Engine) (cfg : Cfg) (votes : Profile) (nSeats k : Nat) (ds : List Draw) :
    Except Err (List (Option Cand × Rat) × List Cand) := do
  let (tot, seats) ← nthCount E cfg (selectorInput votes nSeats) k ds
  pure (tot, distributionToSelection seats)

/-- `TransferableVoteSelector.evaluate` (L423-427) -/
def selectorEvaluate (E : Engine) (cfg : Cfg) (votes : Profile) (nSeats : Nat) (ds : List Draw) :
    Except Err (List Cand) := do
  let seats ← distributorEvaluate E cfg (selectorInput votes nSeats) ds
  pure (distributionToSelection seats)

/-- the successive loop states of an `evaluate` run, for count-by-count comparison: the initial state and
    the state after every executed count, and how the run ended -/
def traceGo (E : Engine) (cfg : Cfg) (inp : Input) : Nat → St → List St → List St × Option Err
  | 0, _, acc => (acc.reverse, some (.other "fuel"))
  | k + 1, st, acc =>
    match countStep E cfg inp st with
    | .error e => (acc.reverse, some e)
    | .ok none => (acc.reverse, none)
    | .ok (some st') => traceGo E cfg inp k st' (st' :: acc)

end VL.STV
