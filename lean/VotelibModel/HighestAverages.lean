/-
  VotelibModel.HighestAverages — `HighestAverages.evaluate` (proportional.py L421-478).

  The Python code keeps an ascending sorted list of (candidate, quotient) with `bisect_left`
  re-insertion and takes the whole run of maximal quotients from its tail.  Only the *multiset* of
  the maximal run is observable, so the model keeps an unordered pool and takes all entries with the
  maximal quotient (abstraction listed under "modelled, not verified" for C01; the correspondence
  check is what ties it to the sorted-list code).
-/
import VotelibModel.Core
namespace VL

/-- lookup in a dict candidate -> Nat with default -/
def natLookup (l : List (Cand × Nat)) (c : Cand) (d : Nat) : Nat :=
  match l.find? (fun p => p.1 = c) with
  | some p => p.2
  | none => d

structure HACfg where
  /-- divisor function: seats held so far -> divisor -/
  div   : Nat → Rat
  /-- party -> votes (insertion order) -/
  votes : Votes
  /-- `n_seats` -/
  n     : Nat
  /-- `prev_gains` -/
  prev  : List (Cand × Nat)
  /-- `max_seats` -/
  caps  : List (Cand × Nat)

namespace HACfg
def prevOf (cfg : HACfg) (c : Cand) : Nat := natLookup cfg.prev c 0
/-- `max_seats.get(cand, n_seats)` -/
def capOf (cfg : HACfg) (c : Cand) : Nat := natLookup cfg.caps c cfg.n
def vote (cfg : HACfg) (c : Cand) : Rat := getD cfg.votes c 0
/-- exact quotient of party `c` for its `(k+1)`-th seat -/
def quot (cfg : HACfg) (c : Cand) (k : Nat) : Rat := cfg.vote c / cfg.div k
def sumPrev (cfg : HACfg) : Nat := cfg.prev.foldl (fun acc p => acc + p.2) 0
end HACfg

/-- largest quotient in the pool -/
def maxQ : List (Cand × Rat) → Option Rat
  | [] => none
  | p :: ps => match maxQ ps with
    | none => some p.2
    | some m => some (if m < p.2 then p.2 else m)

structure HAState where
  /-- `totals` (seats held including previous gains) -/
  tot  : Cand → Nat
  /-- eligible parties with their next quotient (`candidates`/`quotients` lists) -/
  pool : List (Cand × Rat)
  /-- `rem_seats` -/
  rem  : Nat
  /-- the `Tie` entry of `totals`, if any: members and number of seats it contests -/
  tie  : Option (List Cand × Nat)

def bumpAll (tot : Cand → Nat) (batch : List Cand) : Cand → Nat :=
  fun c => if c ∈ batch then tot c + 1 else tot c

/-- L436-442: initial pool -/
def haInit (cfg : HACfg) : HAState :=
  { tot := cfg.prevOf
    pool := cfg.votes.filterMap (fun p =>
      if 0 < cfg.div (cfg.prevOf p.1) ∧ cfg.prevOf p.1 < cfg.capOf p.1
      then some (p.1, p.2 / cfg.div (cfg.prevOf p.1)) else none)
    rem := cfg.n - cfg.sumPrev
    tie := none }

/-- one iteration of the `while rem_seats > 0 and quotients` loop (L448-472) -/
def haStep (cfg : HACfg) (s : HAState) : HAState :=
  match maxQ s.pool with
  | none => s
  | some m =>
    let batch := (s.pool.filter (fun p => p.2 = m)).map (·.1)
    let rest  := s.pool.filter (fun p => p.2 ≠ m)
    if batch.length > s.rem then
      { s with tie := some (batch, s.rem), rem := 0 }
    else
      let tot' := bumpAll s.tot batch
      let back := batch.filterMap (fun c =>
        if tot' c < cfg.capOf c then some (c, cfg.quot c (tot' c)) else none)
      { tot := tot', pool := rest ++ back, rem := s.rem - batch.length, tie := none }

def haLoop (cfg : HACfg) : Nat → HAState → HAState
  | 0, s => s
  | fuel+1, s => if s.rem = 0 ∨ s.pool = [] then s else haLoop cfg fuel (haStep cfg s)

/-- final state; `rem` strictly decreases in every iteration, so `rem` is enough fuel -/
def haRun (cfg : HACfg) : HAState := haLoop cfg (haInit cfg).rem (haInit cfg)

/-- first occurrences only (keys of a dict built by successive insertion) -/
def dedupC : List Cand → List Cand
  | [] => []
  | x :: xs => x :: (dedupC xs).filter (fun y => y ≠ x)

def haCands (cfg : HACfg) : List Cand := dedupC (cfg.prev.map (·.1) ++ cfg.votes.map (·.1))

/-- seats awarded individually to `c` -/
def haSeats (cfg : HACfg) (c : Cand) : Nat := (haRun cfg).tot c - cfg.prevOf c

/-- L474-478: the returned dict (gains beyond `prev_gains`, `Tie` key with the seats it contests) -/
def haResult (cfg : HACfg) : List (Key × Nat) :=
  let s := haRun cfg
  (haCands cfg).filterMap (fun c =>
    if s.tot c > cfg.prevOf c then some (Key.cand c, s.tot c - cfg.prevOf c) else none)
  ++ (match s.tie with
      | some (T, m) => if m > 0 then [(Key.tie T, m)] else []
      | none => [])

/-- `HighestAverages.evaluate`; an empty initial pool makes `zip(*…)` raise `ValueError` (L443) -/
def highestAverages (cfg : HACfg) : Except Err (List (Key × Nat)) :=
  if (haInit cfg).pool = [] then .error .valueError else .ok (haResult cfg)

end VL
