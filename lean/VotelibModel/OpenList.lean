/-
  VotelibModel.OpenList — port of votelib/evaluate/openlist.py (ThresholdOpenList, ListOrderTieBreaker)
  and of `Tie.break_by_list` (core.py L79-101).  Import-free.
-/
import VotelibModel.Threshold
import VotelibModel.Py
import VotelibModel.Gen.OpenList
namespace VL

/-- constructor arguments of `ThresholdOpenList` (openlist.py L82-100).  `quota` is what
    `votelib.component.quota.construct(quota_function)` returns (the named function or the callable);
    `__init__` stores it as it is and the quota fraction is applied in `evaluate` (d56e55e). -/
structure OpenListCfg where
  jumpFraction : Option Rat
  quota : Option (Rat → Nat → Rat)
  quotaFraction : Rat
  takeHigher : Bool
  acceptEqual : Bool
  listPrecedence : Bool

/-- Python `min(a, b)` on numbers (the first on ties) -/
def pyMin (a b : Rat) : Rat := if b < a then b else a

/-- openlist.py L114-129: `jump_thresholds` = [`_exact(total_votes) * _exact(jump_fraction)`] (if a jump fraction is
    given) followed by [`_exact(quota_function(total_votes, n_seats)) * _exact(quota_fraction)`] (if a quota function
    is given), then `(max if take_higher else min)(jump_thresholds)`; `none` when neither is configured (L125-126).
    `_exact` (L35-44, c90882d) turns Decimal and float operands into the Fractions of their exact values, so the
    products are products of rationals whatever the parameter types — which is what `Rat` multiplication says. -/
def jumpThreshold (cfg : OpenListCfg) (total : Rat) (n : Nat) : Option Rat :=
  match cfg.jumpFraction, cfg.quota with
  | none, none => none
  | some jf, none => some (total * jf)
  | none, some q => some (q total n * cfg.quotaFraction)
  | some jf, some q =>
    some (if cfg.takeHigher then Py.pyMax (total * jf) (q total n * cfg.quotaFraction)
          else pyMin (total * jf) (q total n * cfg.quotaFraction))

/-- L130-135: everybody over (or on) the threshold, sorted by votes.  The filter condition of the comprehension is
    `Gen.OpenList.openlist_jumps`, regenerated from the source by harness/translate.py on every run. -/
def jumpers (eq : Bool) (thr : Rat) (votes : Votes) : List Cand :=
  ((sortDesc votes).filter (fun p => Gen.OpenList.openlist_jumps thr eq p.2)).map (·.1)

/-- L147-153: the loop over `candidate_list` appending to `elected` until `n_seats` are reached -/
def fillFromList (n : Nat) : List Cand → List Cand → List Cand
  | elected, [] => elected
  | elected, c :: cs =>
    if elected.length = n then elected
    else if elected.contains c then fillFromList n elected cs
    else fillFromList n (elected ++ [c]) cs

/-- `ThresholdOpenList.evaluate` (openlist.py L102-153), given that the quota function answers (see `thresholdOpenListAt`
    for `n_seats = 0`) -/
def thresholdOpenList (cfg : OpenListCfg) (votes : Votes) (n : Nat) (clist : List Cand) :
    Except Err (List Cand) :=
  match jumpThreshold cfg (sumVals votes) n with
  | none => .ok (clist.take n)                                                    -- L125-126
  | some thr =>
    let jumping := jumpers cfg.acceptEqual thr votes
    if jumping.length > n then
      if cfg.listPrecedence then
        -- `candidate_list.index` raises ValueError for a jumper that is not on the list
        if jumping.all (fun c => clist.contains c) then
          let byList := (sortBy (fun a b => decide (clist.idxOf a < clist.idxOf b)) jumping).take n   -- L139-140
          .ok (sortBy (fun a b => decide (getD votes b 0 < getD votes a 0)) byList)                  -- L141 reverse=True
        else .error .valueError
      else .ok (jumping.take n)                                                    -- L144
    else .ok (fillFromList n jumping clist)

/-- `evaluate` for every `n_seats ≥ 0`.  The quota functions that divide by the seat count (`hare`, `hare_rounded`:
    `Fraction(votes, seats)`) raise ZeroDivisionError when called with `n_seats = 0` (L121-124); `quotaDividesBySeats`
    says whether the configured quota function is one of them.  Everything else is `thresholdOpenList`. -/
def thresholdOpenListAt (quotaDividesBySeats : Bool) (cfg : OpenListCfg) (votes : Votes) (n : Nat)
    (clist : List Cand) : Except Err (List Cand) :=
  if n = 0 ∧ cfg.quota.isSome = true ∧ quotaDividesBySeats = true then .error (.other "ZeroDivisionError")
  else thresholdOpenList cfg votes n clist

/-! ### Tie.break_by_list (core.py L79-101) -/

/-- equality of two `Tie`s (frozensets) given by their members -/
def sameSet (a b : List Cand) : Bool := a.all (fun x => b.contains x) && b.all (fun x => a.contains x)

/-- the `ties` dictionary: Tie ↦ its members not handed out yet, in breaker order -/
abbrev TieState := List (List Cand × List Cand)

def tsFind (ts : TieState) (t : List Cand) : Option (List Cand) :=
  match ts.find? (fun e => sameSet e.1 t) with
  | some e => some e.2
  | none => none

def tsDel (ts : TieState) (t : List Cand) : TieState := ts.filter (fun e => !sameSet e.1 t)

def tsSet (ts : TieState) (t : List Cand) (rest : List Cand) : TieState := (t, rest) :: tsDel ts t

/-- `sorted(item, key=breaker.index)` -/
def sortByIndex (breaker : List Cand) (t : List Cand) : List Cand :=
  sortBy (fun a b => decide (breaker.idxOf a < breaker.idxOf b)) (dedupKeep t)

def breakLoop (breaker : List Cand) : List Slot → TieState → Except Err (List Cand)
  | [], _ => .ok []
  | .cand c :: rest, ts => do
    let r ← breakLoop breaker rest ts
    pure (c :: r)
  | .tie t :: rest, ts =>
    match tsFind ts t with
    | some rem =>                                                  -- L89-94
      match rem with
      | [] => .error (.other "IndexError")
      | x :: xs => do
        let r ← breakLoop breaker rest (if rem.length > 1 then tsSet ts t xs else tsDel ts t)
        pure (x :: r)
    | none =>                                                      -- L96-98
      if t.all (fun c => breaker.contains c) then
        match sortByIndex breaker t with
        | [] => .error (.other "IndexError")
        | x :: xs => do
          let r ← breakLoop breaker rest (tsSet ts t xs)
          pure (x :: r)
      else .error .valueError

def breakByList (elected : List Slot) (breaker : List Cand) : Except Err (List Cand) :=
  breakLoop breaker elected []

def Slot.isTie : Slot → Bool
  | .tie _ => true
  | .cand _ => false

/-- `ListOrderTieBreaker.evaluate` (openlist.py L169-188) around any selector -/
def listOrderTieBreaker (inner : Votes → Nat → Except Err (List Slot)) (votes : Votes) (n : Nat)
    (clist : List Cand) : Except Err (List Slot) := do
  let res ← inner votes n
  if res.any Slot.isTie then
    let broken ← breakByList res clist
    pure (broken.map Slot.cand)
  else pure res

end VL
