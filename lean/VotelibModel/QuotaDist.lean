/-
  VotelibModel.QuotaDist — `QuotaDistributor` and `LargestRemainder`
  (votelib/evaluate/proportional.py L162-378), modelled as the code is NOW (after the repairs 9571110 —
  a capped party is held at its cap, no implicit `n_seats` cap, no overshoot recursion, `LargestRemainder`
  passes `max_seats` on —, 24bad1e and eca6e34: a non-positive quota is refused).  The pre-repair model is kept in `QuotaDistPreFix.lean`.

  Conventions
  * a vote dict is `Votes` (insertion order), `prev_gains` / `max_seats` are `IMap`s (candidate -> int),
  * `selected` / the returned dict is `Sel = List (Key × Int)`: keys are candidates or `Tie` objects
    (a `Tie` is a frozenset; it is represented by the *sorted* list of its members), values are Python ints,
  * exceptions: `VotingSystemError` (policy 'error'), `ZeroDivisionError` (`Fraction(v, 0)`),
    `IndexError` (`get_n_best({}, 1)[0]`), as `Err.other "<name>"`.
  * one abstraction: a `Tie` whose members are themselves `Tie` objects (nested frozensets) is not
    representable; the model answers `Err.other "Model:NestedTie"` there (never observed on 10^5 runs
    of the implementation; a disagreement would surface in the correspondence).
-/
import VotelibModel.Core
import VotelibModel.Py
namespace VL.QD
open VL

abbrev IMap := List (Cand × Int)
abbrev Sel := List (Key × Int)

inductive OnOver where
  | error | ignore | subtract
deriving DecidableEq, Repr

structure Cfg where
  quota : Rat → Nat → Rat
  acceptEqual : Bool
  onOver : OnOver

def zeroDiv : Err := .other "ZeroDivisionError"
def indexErr : Err := .other "IndexError"
def nestedTie : Err := .other "Model:NestedTie"

/-! ### dict helpers -/

/-- `d.get(c, dflt)` on a candidate -> int dict -/
def getI (m : IMap) (c : Cand) (d : Int) : Int :=
  match m.find? (fun p => p.1 = c) with
  | some p => p.2
  | none => d

/-- `max_seats.get(c, INF)` -/
def getCap (m : IMap) (c : Cand) : Option Int :=
  match m.find? (fun p => p.1 = c) with
  | some p => some p.2
  | none => none

def sumI (m : IMap) : Int := m.foldl (fun acc p => acc + p.2) 0

def getK (s : Sel) (k : Key) (d : Int) : Int :=
  match s.find? (fun p => p.1 = k) with
  | some p => p.2
  | none => d

def hasK (s : Sel) (k : Key) : Bool := s.any (fun p => p.1 = k)

/-- `d[k] = v` (update in place, or append) -/
def setK : Sel → Key → Int → Sel
  | [], k, v => [(k, v)]
  | p :: ps, k, v => if p.1 = k then (k, v) :: ps else p :: setK ps k v

/-- `del d[k]` -/
def delK (s : Sel) (k : Key) : Sel := s.filter (fun p => p.1 ≠ k)

def sumK (s : Sel) : Int := s.foldl (fun acc p => acc + p.2) 0

/-- `util.add_dict_to_dict(d1, d2)` (util.py L19-23) -/
def addDict (d1 d2 : Sel) : Sel := d2.foldl (fun acc p => setK acc p.1 (getK acc p.1 0 + p.2)) d1

/-- `if d[k] == 1: del d[k] else: d[k] -= 1`  (proportional.py L284-283, L290-289, L297-296) -/
def decK (s : Sel) (k : Key) : Sel :=
  if getK s k 0 = 1 then delK s k else setK s k (getK s k 0 - 1)

def insNat (x : Nat) : List Nat → List Nat
  | [] => [x]
  | y :: ys => if x ≤ y then x :: y :: ys else y :: insNat x ys

/-- canonical member list of a frozenset of candidates -/
def sortNat : List Nat → List Nat
  | [] => []
  | x :: xs => insNat x (sortNat xs)

def mkTie (cs : List Cand) : Key := Key.tie (sortNat cs)

def slotKey : Slot → Key
  | .cand c => .cand c
  | .tie cs => mkTie cs

/-! ### whole quotas: the loop L229-237 -/

/-- `n_votes > quota_val or self.accept_equal and n_votes == quota_val` (L231-230) -/
def fulfills (q : Rat) (ae : Bool) (v : Rat) : Bool := decide (q < v) || (ae && decide (v = q))

/-- `min(w, max_seats.get(candidate, INF))` (L236-235) -/
def capMin (maxS : IMap) (c : Cand) (w : Int) : Int :=
  match getCap maxS c with
  | some m => if m < w then m else w
  | none => w

/-- body of the loop L229-237 for one `(candidate, n_votes)` -/
def wholeStep (q : Rat) (ae : Bool) (prev maxS : IMap) (sel : Sel) (p : Cand × Rat) : Except Err Sel :=
  let c := p.1
  let v := p.2
  let nPrev := getI prev c 0
  if fulfills q ae v then
    if q = 0 then .error zeroDiv
    else
      let nAdd := capMin maxS c (Py.pyInt (v / q)) - nPrev
      if nAdd > 0 then .ok (setK sel (.cand c) nAdd) else .ok sel
  else .ok sel

def wholeLoop (q : Rat) (ae : Bool) (prev maxS : IMap) : Sel → Votes → Except Err Sel
  | sel, [] => .ok sel
  | sel, p :: ps =>
    match wholeStep q ae prev maxS sel p with
    | .ok sel' => wholeLoop q ae prev maxS sel' ps
    | .error e => .error e

/-! ### `_subtract_overaward` (L263-298) -/

/-- `votes.get(key, 0)` for a key of `selected` (a `Tie` key is never a key of `votes`) -/
def votesOfKey (votes : Votes) : Key → Rat
  | .cand c => getD votes c 0
  | .tie _ => 0

def prevOfKey (prev : IMap) : Key → Int
  | .cand c => getI prev c 0
  | .tie _ => 0

/-- the dict `remainders` of L274-276, keyed by the *position* of the entry in `selected` -/
def subRemainders (votes : Votes) (q : Rat) (prev : IMap) (sel : Sel) : Votes :=
  (List.range sel.length).zip sel |>.map
    (fun ip => (ip.1, -(votesOfKey votes ip.2.1 - q * (((ip.2.2 + prevOfKey prev ip.2.1 : Int)) : Rat))))

def keyAt (sel : Sel) (i : Nat) : Key :=
  match sel[i]? with
  | some p => p.1
  | none => .cand 0

def candOfKey : Key → Option Cand
  | .cand c => some c
  | .tie _ => none

/-- one pass of the `while` body L274-297 -/
def subtractStep (votes : Votes) (q : Rat) (prev : IMap) (sel : Sel) : Except Err Sel :=
  match getNBest (subRemainders votes q prev sel) 1 with
  | [] => .error indexErr                                   -- `get_n_best({}, 1)[0]`
  | Slot.cand i :: _ => .ok (decK sel (keyAt sel i))         -- a candidate, or a Tie key already in `selected`
  | Slot.tie is :: _ =>
    let ks := is.map (keyAt sel)
    match ks.mapM candOfKey with
    | none => .error nestedTie
    | some cs =>
      let tk := mkTie cs
      if hasK sel tk then .ok (decK sel tk)                  -- L283-283
      else
        let sel' := cs.foldl (fun acc c => decK acc (.cand c)) sel     -- L289-289
        .ok (setK sel' tk (getK sel' tk 0 + (cs.length : Int) - 1))    -- L294-292

def subtractLoop (votes : Votes) (q : Rat) (prev : IMap) : Nat → Sel → Except Err Sel
  | 0, sel => .ok sel
  | k + 1, sel =>
    match subtractStep votes q prev sel with
    | .ok sel' => subtractLoop votes q prev k sel'
    | .error e => .error e

def subtractOveraward (cfg : Cfg) (votes : Votes) (sel : Sel) (n : Nat) (prev : IMap) : Except Err Sel :=
  let overaward : Int := sumK sel + sumI prev - (n : Int)
  let q := cfg.quota (sumVals votes) n
  subtractLoop votes q prev overaward.toNat sel

/-! ### `QuotaDistributor.evaluate` (L205-261) -/

/-- over-award policies L242-257 -/
def applyPolicy (cfg : Cfg) (votes : Votes) (n : Nat) (prev : IMap) (selected : Sel) : Except Err Sel :=
  let totalAwarded := sumK selected + sumI prev
  if totalAwarded > (n : Int) then
    match cfg.onOver with
    | .ignore => .ok selected
    | .error => .error .votingSystemError
    | .subtract => subtractOveraward cfg votes selected n prev
  else .ok selected

def quotaDistribute (cfg : Cfg) (votes : Votes) (n : Nat) (prev maxS : IMap) : Except Err Sel :=
  let q := cfg.quota (sumVals votes) n
  if q ≤ 0 then .error .votingSystemError            -- L224-227: non-positive quota refused (repair eca6e34)
  else
    match wholeLoop q cfg.acceptEqual prev maxS [] votes with
    | .error e => .error e
    | .ok selected => applyPolicy cfg votes n prev selected

/-! ### `LargestRemainder.evaluate` (L340-374) -/

def prevAsSel (prev : IMap) : Sel := prev.map (fun p => (Key.cand p.1, p.2))

/-- the dict `remainders` of L365-365 -/
def lrRemainders (votes : Votes) (q : Rat) (gained : Sel) (maxS : IMap) : Votes :=
  votes.filterMap (fun p =>
    let g := getK gained (.cand p.1) 0
    let ok := match getCap maxS p.1 with
      | some m => decide (g < m)
      | none => true
    if ok then some (p.1, p.2 / q - (g : Rat)) else none)

/-- `quota_elected[candidate] += 1` or `= 1` (L373-373) -/
def incK (s : Sel) (k : Key) : Sel := if hasK s k then setK s k (getK s k 0 + 1) else setK s k 1

def largestRemainder (cfg : Cfg) (votes : Votes) (n : Nat) (prev maxS : IMap) : Except Err Sel :=
  match quotaDistribute cfg votes n prev maxS with       -- L357-355
  | .error e => .error e
  | .ok quotaElected =>
    let q := cfg.quota (sumVals votes) n
    let gained := addDict quotaElected (prevAsSel prev)   -- util.sum_dicts
    let nForRem : Int := (n : Int) - sumK gained
    let rems := lrRemainders votes q gained maxS
    if q = 0 ∧ rems ≠ [] then .error zeroDiv
    else
      let best := getNBest rems nForRem.toNat             -- max(n_for_remainder, 0)
      .ok (best.foldl (fun acc s => incK acc (slotKey s)) quotaElected)

end VL.QD
