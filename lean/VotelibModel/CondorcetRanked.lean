/-
  VotelibModel.CondorcetRanked — the Condorcet / instant-runoff hybrids of
  `votelib/evaluate/sequential.py` (Benham L700-728, TidemanAlternative L631-690, `eliminate_one`
  L693-697) with the pieces of the ranked-vote plumbing they use:
  `util.all_ranked_candidates`, `convert.RankedToCondorcetVotes` (unranked_at_bottom=True),
  `vote.RankedSubsetter` + `convert.SubsettedVotes`, `initial_allocation` + `allocation_totals`
  (Gregory split of a shared first rank).

  A ranked ballot is a list of ranks; a shared rank (`frozenset`) is a list of candidate ids which
  the harness sends sorted ascending, so that list equality is set equality.
-/
import VotelibModel.CondorcetEval
namespace VL.Condorcet
open VL

inductive RankItem where
  | one (c : Cand)
  | shared (cs : List Cand)
deriving DecidableEq, Repr, Inhabited

abbrev Ballot := List RankItem
/-- `Dict[RankedVoteType, number]` in insertion order -/
abbrev Profile := List (Ballot × Rat)

def itemCands : RankItem → List Cand
  | .one c => [c]
  | .shared cs => cs

/-- `util.all_ranked_candidates` (util.py L38-54 over `all_rankings` L71-88): candidates by rank
    position, then ballot order -/
def allRankedCandidates (p : Profile) : List Cand :=
  let maxLen := p.foldl (fun m b => if m < b.1.length then b.1.length else m) 0
  uniq ((List.range maxLen).flatMap (fun i => p.flatMap (fun b =>
    match b.1[i]? with
    | some it => itemCands it
    | none => [])))

/-- `counts[p] += x` on a `defaultdict(int)` keyed by pairs -/
def padd : Pairwise → Pair → Rat → Pairwise
  | [], p, x => [(p, x)]
  | (q, y) :: rest, p, x => if q = p then (q, y + x) :: rest else (q, y) :: padd rest p x

/-- the pairs one ballot contributes, in the order of the loops of `RankedToCondorcetVotes.convert`
    (convert.py L417-428); `unranked` is a frozenset, modelled in `all_ranked_candidates` order -/
def ballotPairs (allCands : List Cand) : Ballot → List Cand → List Pair
  | [], _ => []
  | it :: rest, unranked =>
    (itemCands it).flatMap (fun u =>
      (rest.flatMap itemCands).map (fun l => (u, l)) ++ unranked.map (fun l => (u, l)))
    ++ ballotPairs allCands rest unranked

/-- `RankedToCondorcetVotes(unranked_at_bottom=True).convert` (convert.py L399-429) -/
def rankedToCondorcet (p : Profile) : Pairwise :=
  let allCands := allRankedCandidates p
  p.foldl (fun counts b =>
    let ranked := b.1.flatMap itemCands
    let unranked := allCands.filter (fun c => !ranked.contains c)
    (ballotPairs allCands b.1 unranked).foldl (fun cs pr => padd cs pr b.2) counts) []

/-- `RankedSubsetter.subset` (vote.py L620-643) -/
def subsetBallot (subset : List Cand) : Ballot → Ballot
  | [] => []
  | .one c :: rest => if subset.contains c then .one c :: subsetBallot subset rest else subsetBallot subset rest
  | .shared cs :: rest =>
    match cs.filter (fun c => subset.contains c) with
    | [] => subsetBallot subset rest
    | [c] => .one c :: subsetBallot subset rest
    | sub => .shared sub :: subsetBallot subset rest

/-- `sub[ballot] += n` on a `defaultdict(int)` keyed by ballots -/
def badd : Profile → Ballot → Rat → Profile
  | [], b, x => [(b, x)]
  | (q, y) :: rest, b, x => if q = b then (q, y + x) :: rest else (q, y) :: badd rest b x

/-- `SubsettedVotes(RankedSubsetter()).convert(votes, subset)` (convert.py L925-949) -/
def subsetProfile (p : Profile) (subset : List Cand) : Profile :=
  p.foldl (fun acc b => badd acc (subsetBallot subset b.1) b.2) []

/-- the candidates of a selection used as a `subset`: `Tie` objects equal no candidate, so a tied
    place keeps nobody -/
def slotCands (l : List Slot) : List Cand :=
  l.filterMap (fun s => match s with
    | .cand c => some c
    | .tie _ => none)

/-- `allocation_totals(initial_allocation(votes))` (sequential.py L354-407): first preferences; a
    shared first rank is split evenly by the Gregory transferer (transfer.py L322-326) -/
def firstPrefTotals (p : Profile) : Votes :=
  (allRankedCandidates p).map (fun c => (c, p.foldl (fun acc b =>
    match b.1 with
    | [] => acc
    | .one d :: _ => if d = c then acc + b.2 else acc
    | .shared cs :: _ => if cs.contains c then acc + b.2 / (cs.length : Rat) else acc) 0))

/-- `get_n_best(totals, #candidates - 1)` inside `eliminate_one`.
    Python's negative indices: with no candidate `n_seats = -1` and `sorted_items[-2]` raises
    IndexError; with one candidate `n_seats = 0` gives `[]`. -/
def eliminateOneRaw (p : Profile) : Except Err (List Slot) :=
  let totals := firstPrefTotals p
  match totals.length with
  | 0 => .error (.other "IndexError")
  | 1 => .ok []
  | m + 2 => .ok (getNBest totals (m + 1))

/-- `eliminate_one` (sequential.py): the candidates that stay after the one with the fewest first preferences is
    eliminated; when several candidates are level for the elimination and more than one place is still to be decided
    it refuses with the declared NotImplementedError('tie in elimination') -/
def eliminateOne (p : Profile) : Except Err (List Slot) :=
  match eliminateOneRaw p with
  | .error e => .error e
  | .ok remaining =>
    if decide (remaining.length > 1) && remaining.any isTie then .error .notImplemented else .ok remaining

/-- `Benham.get_condorcet_winner` (L723-727) -/
def benhamCW (p : Profile) : Option Cand := (condorcetWinner (rankedToCondorcet p)).head?

/-- loop of `Benham.evaluate` (L713-721); the candidate set shrinks in every round -/
def benhamLoop (votes : Profile) : Nat → Profile → Except Err (List Slot)
  | 0, _ => .error (.other "fuel")
  | f + 1, cur =>
    match benhamCW cur with
    | some c => .ok [Slot.cand c]
    | none =>
      match eliminateOne cur with
      | .error e => .error e
      | .ok remains =>
        if remains.length = 1 then .ok remains
        else benhamLoop votes f (subsetProfile votes (slotCands remains))

/-- the loop of `Benham().evaluate(votes, 1)` entered with the whole profile (the evaluator as it was before the
    lone-candidate fix; kept for the lemmas of C08 / C10 / C11) -/
def benhamCore (votes : Profile) : Except Err (List Slot) :=
  benhamLoop votes ((allRankedCandidates votes).length + 3) votes

/-- `Benham().evaluate(votes, 1)` (sequential.py, Benham.evaluate): a lone candidate has no pairwise contest and
    takes the seat; otherwise the Condorcet / elimination loop -/
def benham (votes : Profile) : Except Err (List Slot) :=
  match allRankedCandidates votes with
  | [c] => .ok [Slot.cand c]
  | _ => benhamCore votes

/-- `TidemanAlternative.run_tier` (L670-685) with the Smith (`true`) or Schwartz set selector -/
def tidemanTier (smith : Bool) : Nat → Profile → Except Err Slot
  | 0, _ => .error (.other "fuel")
  | f + 1, rv =>
    if rv.isEmpty then .error .notImplemented
    else
      let sset0 := smithSchwartz (rankedToCondorcet rv) smith
      -- no pairwise contest at all: nobody is outside the set
      let sset := if sset0.isEmpty then allRankedCandidates rv else sset0
      match sset with
      | [c] => .ok (Slot.cand c)
      | _ =>
        let rv2 := subsetProfile rv sset
        match eliminateOne rv2 with
        | .error e => .error e
        | .ok [Slot.tie _] => .error .notImplemented      -- 'tie in the last elimination'
        | .ok [s] => .ok s
        | .ok rem => tidemanTier smith f (subsetProfile rv2 (slotCands rem))

/-- `TidemanAlternative.run_tier` as a whole: a lone candidate takes the seat at once (the check is made once, before
    the loop); otherwise the set-selector / elimination loop `tidemanTier` -/
def tidemanRunTier (smith : Bool) (fuel : Nat) (rv : Profile) : Except Err Slot :=
  match allRankedCandidates rv with
  | [c] => .ok (Slot.cand c)
  | _ => tidemanTier smith fuel rv

/-- the one-seat evaluation without the lone-candidate shortcut (the evaluator as it was before that fix; kept for
    the lemmas of C08 / C10 / C11) -/
def tidemanCore (smith : Bool) (votes : Profile) : Except Err (List Slot) :=
  match tidemanTier smith ((allRankedCandidates votes).length + 3) votes with
  | .error e => .error e
  | .ok (Slot.cand c) =>
    if (allRankedCandidates votes).contains c then .ok [Slot.cand c] else .error (.other "KeyError")
  | .ok (Slot.tie _) => .error (.other "KeyError")

/-- `TidemanAlternative(set_selector).evaluate(votes, 1)`: `eligible_set.remove(winner)` raises KeyError when the
    tier returned a `Tie` -/
def tideman (smith : Bool) (votes : Profile) : Except Err (List Slot) :=
  match tidemanRunTier smith ((allRankedCandidates votes).length + 3) votes with
  | .error e => .error e
  | .ok (Slot.cand c) =>
    if (allRankedCandidates votes).contains c then .ok [Slot.cand c] else .error (.other "KeyError")
  | .ok (Slot.tie _) => .error (.other "KeyError")

/-- remove the first occurrence (`set.remove` on a duplicate-free list) -/
def eraseCand : List Cand → Cand → List Cand
  | [], _ => []
  | x :: xs, c => if x = c then xs else x :: eraseCand xs c

/-- the `while True` loop of `TidemanAlternative.evaluate` (sequential.py L658-668, after fix 33df8fe): one tier
    per seat, the winners of earlier tiers removed from the ballots of the later ones -/
def tidemanLoop (smith : Bool) (tierFuel : Nat) : Nat → Profile → List Cand → List Slot → Nat → Except Err (List Slot)
  | 0, _, _, _, _ => .error (.other "fuel")
  | f + 1, tier, eligible, acc, n =>
    match tidemanRunTier smith tierFuel tier with
    | .error e => .error e
    | .ok (Slot.tie _) => .error (.other "KeyError")
    | .ok (Slot.cand c) =>
      if !eligible.contains c then .error (.other "KeyError")
      else
        let acc' := acc ++ [Slot.cand c]
        let eligible' := eraseCand eligible c
        if acc'.length = n || eligible'.isEmpty then .ok acc'
        else tidemanLoop smith tierFuel f (subsetProfile tier eligible') eligible' acc' n

/-- `TidemanAlternative(set_selector).evaluate(votes, n_seats)` for any number of seats -/
def tidemanN (smith : Bool) (votes : Profile) (n : Nat) : Except Err (List Slot) :=
  let cands := allRankedCandidates votes
  tidemanLoop smith (cands.length + 3) (cands.length + 2) votes cands [] n

/-- `RankedToCondorcetVotes(unranked_at_bottom=False).convert` (convert.py L399-429): only the candidates a
    ballot ranks are compared -/
def rankedToCondorcetNoBottom (p : Profile) : Pairwise :=
  p.foldl (fun counts b =>
    (ballotPairs [] b.1 []).foldl (fun cs pr => padd cs pr b.2) counts) []

end VL.Condorcet
