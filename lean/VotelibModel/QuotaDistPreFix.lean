/-
  VotelibModel.QuotaDistPreFix — the model of `QuotaDistributor` / `LargestRemainder` as the code was BEFORE the
  repairs 9571110 (caps) and 24bad1e (constant quota name): kept only so that the defects those commits removed
  stay stated as theorems (`VL.C02.prefix_*_witness`).  Not run by the driver; line numbers refer to 9571110^.

  Conventions
  * a vote dict is `Votes` (insertion order), `prev_gains` / `max_seats` are `IMap`s (candidate -> int),
  * `selected` / the returned dict is `Sel = List (Key × Int)`: keys are candidates or `Tie` objects
    (a `Tie` is a frozenset; it is represented by the *sorted* list of its members), values are Python
    ints (they do go negative in the overshoot branch, so `Int`, not `Nat`),
  * exceptions: `VotingSystemError` (policy 'error'), `ZeroDivisionError` (`Fraction(v, 0)`),
    `IndexError` (`get_n_best({}, 1)[0]`), as `Err.other "<name>"`.
  * one abstraction: a `Tie` whose members are themselves `Tie` objects (nested frozensets) is not
    representable; the model answers `Err.other "Model:NestedTie"` there (never observed on 10^5 runs
    of the implementation; a disagreement would surface in the correspondence).
-/
import VotelibModel.Core
import VotelibModel.Py
namespace VL.QDPre
open VL

abbrev IMap := List (Cand × Int)
abbrev Sel := List (Key × Int)

inductive OnOver where
  | error | ignore | subtract
deriving DecidableEq, Repr

structure Cfg where
  quota : Rat → Nat → Rat
  acceptEqual : Bool
  onOver : OnOver
  /-- does the quota callable have a `__name__`?  (registered functions do, `quota.constant(...)` instances do not;
      the message of L264 reads `self.quota_function.__name__`) -/
  named : Bool := true

def zeroDiv : Err := .other "ZeroDivisionError"
def indexErr : Err := .other "IndexError"
def nestedTie : Err := .other "Model:NestedTie"
def fuelErr : Err := .other "Model:Fuel"
def attrErr : Err := .other "AttributeError"

/-! ### dict helpers -/

/-- `d.get(c, dflt)` on a candidate -> int dict -/
def getI (m : IMap) (c : Cand) (d : Int) : Int :=
  match m.find? (fun p => p.1 = c) with
  | some p => p.2
  | none => d

/-- `max_seats.get(c, INF)` -/
def getCap (m : IMap) (c : Cand) : Option Int :=
  match m.find? (fun p => p.1 = c) with
  | some p => some p.2
  | none => none

def sumI (m : IMap) : Int := m.foldl (fun acc p => acc + p.2) 0

def getK (s : Sel) (k : Key) (d : Int) : Int :=
  match s.find? (fun p => p.1 = k) with
  | some p => p.2
  | none => d

def hasK (s : Sel) (k : Key) : Bool := s.any (fun p => p.1 = k)

/-- `d[k] = v` (update in place, or append) -/
def setK : Sel → Key → Int → Sel
  | [], k, v => [(k, v)]
  | p :: ps, k, v => if p.1 = k then (k, v) :: ps else p :: setK ps k v

/-- `del d[k]` -/
def delK (s : Sel) (k : Key) : Sel := s.filter (fun p => p.1 ≠ k)

def sumK (s : Sel) : Int := s.foldl (fun acc p => acc + p.2) 0

/-- `util.add_dict_to_dict(d1, d2)` (util.py L19-23) -/
def addDict (d1 d2 : Sel) : Sel := d2.foldl (fun acc p => setK acc p.1 (getK acc p.1 0 + p.2)) d1

/-- `if d[k] == 1: del d[k] else: d[k] -= 1`  (proportional.py L296-299, L302-305, L309-312) -/
def decK (s : Sel) (k : Key) : Sel :=
  if getK s k 0 = 1 then delK s k else setK s k (getK s k 0 - 1)

def insNat (x : Nat) : List Nat → List Nat
  | [] => [x]
  | y :: ys => if x ≤ y then x :: y :: ys else y :: insNat x ys

/-- canonical member list of a frozenset of candidates -/
def sortNat : List Nat → List Nat
  | [] => []
  | x :: xs => insNat x (sortNat xs)

def mkTie (cs : List Cand) : Key := Key.tie (sortNat cs)

def slotKey : Slot → Key
  | .cand c => .cand c
  | .tie cs => mkTie cs

/-! ### whole quotas: the loop L227-242 -/

structure WState where
  selected : Sel
  nOvershot : Int
  overshot : List Cand
deriving Repr

/-- `n_votes > quota_val or self.accept_equal and n_votes == quota_val` (L229-232) -/
def fulfills (q : Rat) (ae : Bool) (v : Rat) : Bool := decide (q < v) || (ae && decide (v = q))

/-- body of the loop L227-242 for one `(candidate, n_votes)`; `n` is `n_seats` -/
def wholeStep (q : Rat) (ae : Bool) (n : Int) (prev maxS : IMap) (st : WState) (p : Cand × Rat) :
    Except Err WState :=
  let c := p.1
  let v := p.2
  let nPrev := getI prev c 0
  if fulfills q ae v then
    if q = 0 then .error zeroDiv
    else
      let nAdd := Py.pyInt (v / q) - nPrev
      if nAdd > 0 then
        let cap := getI maxS c n                       -- L236: default cap is n_seats
        if nAdd + nPrev > cap then
          let overshoot := nAdd + nPrev                -- L238 (whole entitlement, not the excess)
          .ok { selected := setK st.selected (.cand c) (nAdd - overshoot),
                nOvershot := st.nOvershot + overshoot,
                overshot := st.overshot ++ [c] }
        else .ok { st with selected := setK st.selected (.cand c) nAdd }
      else .ok st
  else .ok st

def wholeLoop (q : Rat) (ae : Bool) (n : Int) (prev maxS : IMap) : WState → Votes → Except Err WState
  | st, [] => .ok st
  | st, p :: ps =>
    match wholeStep q ae n prev maxS st p with
    | .ok st' => wholeLoop q ae n prev maxS st' ps
    | .error e => .error e

/-! ### `_subtract_overaward` (L275-314) -/

/-- `votes.get(key, 0)` for a key of `selected` (a `Tie` key is never a key of `votes`) -/
def votesOfKey (votes : Votes) : Key → Rat
  | .cand c => getD votes c 0
  | .tie _ => 0

def prevOfKey (prev : IMap) : Key → Int
  | .cand c => getI prev c 0
  | .tie _ => 0

/-- the dict `remainders` of L286-292, keyed by the *position* of the entry in `selected` -/
def subRemainders (votes : Votes) (q : Rat) (prev : IMap) (sel : Sel) : Votes :=
  (List.range sel.length).zip sel |>.map
    (fun ip => (ip.1, -(votesOfKey votes ip.2.1 - q * (((ip.2.2 + prevOfKey prev ip.2.1 : Int)) : Rat))))

def keyAt (sel : Sel) (i : Nat) : Key :=
  match sel[i]? with
  | some p => p.1
  | none => .cand 0

def candOfKey : Key → Option Cand
  | .cand c => some c
  | .tie _ => none

/-- one pass of the `while` body L286-313 -/
def subtractStep (votes : Votes) (q : Rat) (prev : IMap) (sel : Sel) : Except Err Sel :=
  match getNBest (subRemainders votes q prev sel) 1 with
  | [] => .error indexErr                                   -- `get_n_best({}, 1)[0]`
  | Slot.cand i :: _ => .ok (decK sel (keyAt sel i))         -- a candidate, or a Tie key already in `selected`
  | Slot.tie is :: _ =>
    let ks := is.map (keyAt sel)
    match ks.mapM candOfKey with
    | none => .error nestedTie
    | some cs =>
      let tk := mkTie cs
      if hasK sel tk then .ok (decK sel tk)                  -- L295-299
      else
        let sel' := cs.foldl (fun acc c => decK acc (.cand c)) sel     -- L301-305
        .ok (setK sel' tk (getK sel' tk 0 + (cs.length : Int) - 1))    -- L306-308

def subtractLoop (votes : Votes) (q : Rat) (prev : IMap) : Nat → Sel → Except Err Sel
  | 0, sel => .ok sel
  | k + 1, sel =>
    match subtractStep votes q prev sel with
    | .ok sel' => subtractLoop votes q prev k sel'
    | .error e => .error e

def subtractOveraward (cfg : Cfg) (votes : Votes) (sel : Sel) (n : Nat) (prev : IMap) : Except Err Sel :=
  let overaward : Int := sumK sel + sumI prev - (n : Int)
  let q := cfg.quota (sumVals votes) n
  subtractLoop votes q prev overaward.toNat sel

/-! ### `QuotaDistributor.evaluate` (L205-273) -/

/-- over-award policies L258-273 -/
def applyPolicy (cfg : Cfg) (votes : Votes) (n : Nat) (prev : IMap) (selected : Sel) : Except Err Sel :=
  let totalAwarded := sumK selected + sumI prev
  if totalAwarded > (n : Int) then
    match cfg.onOver with
    | .ignore => .ok selected
    | .error => if cfg.named then .error .votingSystemError else .error attrErr   -- L263-266
    | .subtract => subtractOveraward cfg votes selected n prev
  else .ok selected

/-- body of `evaluate` (L221-273); `recur` stands for the recursive call `self.evaluate` of L252. -/
def qdBody (cfg : Cfg) (recur : Votes → Nat → IMap → IMap → Except Err Sel)
    (votes : Votes) (n : Nat) (prev maxS : IMap) : Except Err Sel :=
  let q := cfg.quota (sumVals votes) n
  match wholeLoop q cfg.acceptEqual (n : Int) prev maxS ⟨[], 0, []⟩ votes with
  | .error e => .error e
  | .ok st =>
    if st.nOvershot ≠ 0 then
      let remaining := votes.filter (fun p => !st.overshot.contains p.1)
      let totalGained : IMap :=
        votes.map (fun p => (p.1, getK st.selected (.cand p.1) 0 + getI prev p.1 0))
      match recur remaining st.nOvershot.toNat totalGained maxS with
      | .error e => .error e
      | .ok r => applyPolicy cfg votes n prev (addDict st.selected r)
    else applyPolicy cfg votes n prev st.selected

/-- `evaluate`; the recursion of L243-257 takes fuel (the number of parties suffices: every recursive
    call drops at least one party, see `VL.C02.qd_fuel_suffices`). -/
def qdEval (cfg : Cfg) : Nat → Votes → Nat → IMap → IMap → Except Err Sel
  | 0 => qdBody cfg (fun _ _ _ _ => .error fuelErr)
  | fuel + 1 => qdBody cfg (qdEval cfg fuel)

def quotaDistribute (cfg : Cfg) (votes : Votes) (n : Nat) (prev maxS : IMap) : Except Err Sel :=
  qdEval cfg votes.length votes n prev maxS

/-! ### `LargestRemainder.evaluate` (L352-390) -/

def prevAsSel (prev : IMap) : Sel := prev.map (fun p => (Key.cand p.1, p.2))

/-- the dict `remainders` of L377-381 -/
def lrRemainders (votes : Votes) (q : Rat) (gained : Sel) (maxS : IMap) : Votes :=
  votes.filterMap (fun p =>
    let g := getK gained (.cand p.1) 0
    let ok := match getCap maxS p.1 with
      | some m => decide (g < m)
      | none => true
    if ok then some (p.1, p.2 / q - (g : Rat)) else none)

/-- `quota_elected[candidate] += 1` or `= 1` (L385-389) -/
def incK (s : Sel) (k : Key) : Sel := if hasK s k then setK s k (getK s k 0 + 1) else setK s k 1

def largestRemainder (cfg : Cfg) (votes : Votes) (n : Nat) (prev maxS : IMap) : Except Err Sel :=
  match quotaDistribute cfg votes n prev [] with         -- L369-371: max_seats is NOT passed on
  | .error e => .error e
  | .ok quotaElected =>
    let q := cfg.quota (sumVals votes) n
    let gained := addDict quotaElected (prevAsSel prev)   -- util.sum_dicts
    let nForRem : Int := (n : Int) - sumK gained
    let rems := lrRemainders votes q gained maxS
    if q = 0 ∧ rems ≠ [] then .error zeroDiv
    else
      let best := getNBest rems nForRem.toNat             -- max(n_for_remainder, 0)
      .ok (best.foldl (fun acc s => incK acc (slotKey s)) quotaElected)

end VL.QDPre
