/-
  VotelibModel.WrapperLeaves — concrete LEAF evaluators for the wrapper trees of C14: adapters from the
  nested-value calling convention (`Args → Except Err V`) to the flat models that exist elsewhere
  (`getNBest`, `highestAverages`) plus the two threshold comprehensions (threshold.py L39-52, L77-92),
  `PreviousGainThreshold` (threshold.py L278-288) and `InputOrderSelector` (auxiliary.py L107-117).
  The wrapper theorems do not depend on this file (leaves are abstract there); the driver and the
  non-vacuity examples instantiate it.
-/
import VotelibModel.Wrappers
import VotelibModel.Simple
import VotelibModel.HighestAverages
import VotelibModel.QuotaDist
import VotelibModel.OpenList
namespace VL.C14
open VL

/-- input the flat leaf models cannot represent (never produced by the harness generator) -/
def eUnsupported : Err := .other "ModelUnsupported"

/-- ascending insertion sort of candidate ids: canonical member order of a Tie -/
def insNat (x : Nat) : List Nat → List Nat
  | [] => [x]
  | y :: ys => if x ≤ y then x :: y :: ys else y :: insNat x ys
def sortNat : List Nat → List Nat
  | [] => []
  | x :: xs => insNat x (sortNat xs)

/-- a simple-votes dict candidate -> number -/
def toVotes (v : V) : Except Err Votes := do
  let kvs ← v.items
  kvs.mapM (fun p => match p.1, p.2 with
    | .cand c, .num r => pure (c, r)
    | .cand _, _ => throw eType
    | .tie _, _ => throw eUnsupported)

/-- first id used for keys that are Tie objects (beyond every candidate id of the protocol) -/
def freshBase : Nat := 1000000000

/-- simple votes whose keys may include Tie objects (e.g. previous gains with an unbroken tie used as
    votes by PreviousGainThreshold): Tie keys travel under fresh ids, `table` maps them back -/
def toVotesT (v : V) : Except Err (Votes × List (Cand × List Cand)) := do
  let kvs ← v.items
  let rec go : List (Key × V) → Nat → Except Err (Votes × List (Cand × List Cand))
    | [], _ => pure ([], [])
    | p :: ps, fresh => do
        let r ← p.2.asNum
        match p.1 with
        | .cand c => do let (vs, tb) ← go ps fresh; pure ((c, r) :: vs, tb)
        | .tie cs => do let (vs, tb) ← go ps (fresh + 1); pure ((fresh, r) :: vs, (fresh, cs) :: tb)
  go kvs freshBase

def candV (table : List (Cand × List Cand)) (c : Cand) : V :=
  match table.find? (fun p => p.1 = c) with
  | some p => .tie p.2
  | Option.none => .cand c

def slotV : Slot → V
  | .cand c => .cand c
  | .tie cs => .tie (sortNat cs)

/-- optional `n_seats` with default 1 (Plurality, InputOrderSelector) -/
def seatsDefault1 (n : Option V) : Except Err Nat :=
  match n with
  | Option.none => pure 1
  | some (.num r) =>
      -- a negative seat count (left by an over-awarding unused-votes stage) indexes from the end in Python:
      -- not covered by `getNBest`
      if r.den = 1 ∧ r.num < 0 then throw eUnsupported else (V.num r).asNat
  | some v => v.asNat

/-- Plurality.evaluate(votes, n_seats=1) = get_n_best (core.py L1382-1399, L104-140).
    `getNBest` models n ≥ 1; for n = 0 the Python code returns the empty list on every input. -/
def pluralityLeaf : Sem := fun a => do
  let votes ← toVotes a.votes
  let n ← seatsDefault1 a.n
  if n = 0 then pure (.list []) else pure (.list ((getNBest votes n).map slotV))

def pluralitySig : Sig := { seats := true, prev := false, max := false }

/-- InputOrderSelector.evaluate (auxiliary.py L107-117) -/
def inputOrderLeaf : Sem := fun a => do
  let kvs ← a.votes.items
  match a.n, kvs with
  | some _, [] => pure (.list [])           -- `i < n_seats` is never evaluated on an empty dict
  | _, _ => do
    let n ← seatsDefault1 a.n
    pure (.list ((kvs.take n).map (fun p => V.ofKey p.1)))

/-- a `prev_gains` / `max_seats` dict; a Tie key (left over from an unbroken tie of an earlier stage) can
    never match a candidate, so it is carried under a fresh id beyond every candidate id -/
def toNatMap (v : V) : Except Err (List (Cand × Nat)) := do
  let kvs ← v.items
  let rec go : List (Key × V) → Nat → Except Err (List (Cand × Nat))
    | [], _ => pure []
    | p :: ps, fresh => do
        let k ← p.2.asNat
        match p.1 with
        | .cand c => do let r ← go ps fresh; pure ((c, k) :: r)
        | .tie _ => do let r ← go ps (fresh + 1); pure ((fresh, k) :: r)
  go kvs freshBase

def keyV (k : Key) : Key :=
  match k with
  | .cand c => .cand c
  | .tie cs => .tie (sortNat cs)

/-- HighestAverages.evaluate(votes, n_seats, prev_gains={}, max_seats={}) (proportional.py L421-478) -/
def haLeaf (div : Nat → Rat) : Sem := fun a => do
  let votes ← toVotes a.votes
  let prev ← toNatMap (a.prev.getD (.dict []))
  -- `max_seats` is only ever consulted as `max_seats.get(cand, n_seats)` for the candidates of the votes:
  -- entries under other keys (e.g. a per-constituency table handed through) are never looked at
  let capsV ← (a.max.getD (.dict [])).items
  let caps ← toNatMap (.dict (capsV.filter (fun p => match p.1 with
    | .cand c => votes.any (fun q => q.1 = c)
    | .tie _ => false)))
  let n ← match a.n with
    | some .none =>
        -- n_seats=None (a district missing from the apportionment): L436-442 compare
        -- `cand_total < max_seats.get(cand, None)` party by party, then L443 unpacks the pool, then
        -- L447 subtracts from None
        if votes.any (fun p => decide (0 < div (natLookup prev p.1 0)) && !(caps.any (fun q => q.1 = p.1)))
        then throw eType
        else if votes.all (fun p => !(decide (0 < div (natLookup prev p.1 0))
                    && decide (natLookup prev p.1 0 < natLookup caps p.1 0)))
        then throw .valueError
        else throw eType
    | some (.num r) =>
        if r.den = 1 ∧ r.num < 0 then
          -- a negative seat count (left over when earlier stages over-awarded): nobody without an
          -- explicit cap is below `max_seats.get(cand, n_seats)`; a non-empty pool gives no seats at all
          if votes.any (fun p => decide (0 < div (natLookup prev p.1 0)) && caps.any (fun q => q.1 = p.1)
                && decide (natLookup prev p.1 0 < natLookup caps p.1 0))
          then return (.dict [])
          else throw .valueError
        else (V.num r).asNat
    | some v => v.asNat
    | Option.none => throw eType
  let r ← highestAverages { div := div, votes := votes, n := n, prev := prev, caps := caps }
  pure (.dict (r.filterMap (fun p => match p.1 with
    | .cand c => if c ≥ freshBase then Option.none else some (Key.cand c, V.num p.2)
    | k => some (keyV k, V.num p.2))))

def haSig : Sig := { seats := true, prev := true, max := true, needs := true }

/-- AbsoluteThreshold.evaluate (threshold.py L39-52) -/
def absThreshold (t : Rat) (eq : Bool) (votes : Votes) : List Cand :=
  ((sortDesc votes).filter (fun p => decide (p.2 > t) || (eq && decide (p.2 = t)))).map (·.1)

def absThresholdLeaf (t : Rat) (eq : Bool) : Sem := fun a => do
  let (votes, table) ← toVotesT a.votes
  pure (.list ((absThreshold t eq votes).map (candV table)))

/-- RelativeThreshold.evaluate (threshold.py L77-92): `Fraction(n_votes, total)` -/
def relThreshold (t : Rat) (eq : Bool) (votes : Votes) : Except Err (List Cand) :=
  let total := VL.sumVals votes
  if total = 0 then
    (if votes.isEmpty then pure [] else throw eZeroDiv)
  else pure (((sortDesc votes).filter (fun p =>
    decide (p.2 / total > t) || (eq && decide (p.2 / total = t)))).map (·.1))

def relThresholdLeaf (t : Rat) (eq : Bool) : Sem := fun a => do
  let (votes, table) ← toVotesT a.votes
  let r ← relThreshold t eq votes
  pure (.list (r.map (candV table)))

def seatlessSig : Sig := { seats := false, prev := false, max := false }

/-- PreviousGainThreshold(AbsoluteThreshold(t, eq)).evaluate(votes, prev_gains) (threshold.py L278-288) -/
def prevGainThresholdLeaf (t : Rat) (eq : Bool) : Sem := fun a => do
  match a.prev with
  | Option.none => throw eType
  | some p => do
      let (votes, table) ← toVotesT p
      pure (.list ((absThreshold t eq votes).map (candV table)))

def prevGainSig : Sig := { seats := false, prev := true, max := false }

/-! ### QuotaDistributor / LargestRemainder (proportional.py L163-378, model `VL.QD`) as leaves -/

/-- a `prev_gains` / `max_seats` dict for `VL.QD` (Python ints); Tie keys travel under fresh ids -/
def toIMap (v : V) : Except Err QD.IMap := do
  let m ← toNatMap v
  pure (m.map (fun p => (p.1, (p.2 : Int))))

def selV (r : QD.Sel) : V :=
  .dict (r.filterMap (fun p => match p.1 with
    | .cand c => if c ≥ freshBase then Option.none else some (Key.cand c, V.num (p.2 : Rat))
    | k => some (keyV k, V.num (p.2 : Rat))))

/-- common argument binding of the two classes: `(votes, n_seats, prev_gains={}, max_seats={})`.
    `qInt` is the quota function on Python ints (division by zero raises); it decides the outcome for the
    seat counts the flat model (`Nat` seats) does not cover: a negative seat count left over by an
    over-awarding earlier stage gives a non-positive quota (VotingSystemError) for the usual quotas, and
    `hareLike` says that `n_seats=None` is swallowed by `Fraction(votes, None)` -/
def quotaLeaf (lr : Bool) (cfg : QD.Cfg) (qInt : Rat → Int → Except Err Rat) (hareLike : Bool) : Sem := fun a => do
  let votes ← toVotes a.votes
  let prev ← toIMap (a.prev.getD (.dict []))
  let caps ← toIMap (a.max.getD (.dict []))
  let total := VL.sumVals votes
  match a.n with
  | Option.none => throw eType
  | some .none =>
      if hareLike && decide (total ≤ 0) then throw .votingSystemError else throw eType
  | some (.num r) =>
      if r.den ≠ 1 then throw eType
      else do
        let q ← qInt total r.num
        if r.num < 0 then
          (if q ≤ 0 then throw .votingSystemError else throw eUnsupported)
        else do
          let n := r.num.toNat
          let res ← if lr then QD.largestRemainder cfg votes n prev caps else QD.quotaDistribute cfg votes n prev caps
          pure (selV res)
  | some _ => throw eType

/-! ### open list evaluators (openlist.py, model `VL.thresholdOpenList` / `VL.listOrderTieBreaker`) for PartyListEvaluator -/

/-- a party list: a Python list of candidates -/
def toCandList (v : V) : Except Err (List Cand) :=
  match v with
  | .list l => l.mapM (fun x => match x with
      | .cand c => pure c
      | _ => throw eUnsupported)
  | _ => throw eType

/-- ThresholdOpenList.evaluate(votes, n_seats, candidate_list) -/
def thresholdOpenListLeaf (cfg : OpenListCfg) (zeroBad : Bool) : ListSem := fun pv k lst => do
  let votes ← toVotes pv
  let n ← k.asNat
  let cl ← toCandList lst
  -- a party listed with zero seats (previous gains only): `Fraction(total, 0)` in the Hare quota
  if zeroBad && n = 0 then throw eZeroDiv
  let r ← thresholdOpenList cfg votes n cl
  pure (.list (r.map V.cand))

/-- ListOrderTieBreaker(Plurality()).evaluate(votes, n_seats, candidate_list) -/
def listOrderLeaf : ListSem := fun pv k lst => do
  let votes ← toVotes pv
  let n ← k.asNat
  let cl ← toCandList lst
  let r ← listOrderTieBreaker (fun v m => .ok (if m = 0 then [] else getNBest v m)) votes n cl
  pure (.list (r.map slotV))

end VL.C14
