/-
  VotelibModel.Validate — model of the vote validators (votelib/vote.py), the nominators
  (votelib/candidate.py L367-457) and the invalid-vote filter (votelib/convert.py InvalidVoteEliminator).

  Import-free.  `Obj` is the grammar of Python values as the validators see them; a validator is a
  function `Cfg → Obj → Res` returning `ok ()` or the class of the exception that comes out
  (`VoteError`, `CandidateError`, or a leaked `TypeError` — proved unreachable for real Python values).
  The order of the checks mirrors the code, because the order decides which class comes out.
  The model follows the tree including the fix commits e8da0bf (non-numeric score -> VoteValueError),
  e8d1cd6 (eliminator catches CandidateError), 84faad8 (explicit checker dicts get a default) and
  e5359c9 (only frozensets are shared ranks).

  Abstractions (validated by the correspondence, listed in harness/props/C20.py NOT_VERIFIED):
  * numbers are their exact values (`int` and `Fraction` are not distinguished — no validator does);
  * a Python set is the list of its members in the iteration order observed on the real object
    (only the order of a top-level score ballot can influence which error class comes out; acceptance
    never depends on it — proved: `VL.C20.valid_*_perm`);
  * equality of Python values is structural equality of the encodings (nested sets are sent in a
    canonical order by the harness, candidate objects compare by identity = protocol id).
-/
namespace VL.Validate

/-- the candidate classes of candidate.py: `Person` with / without `candidacy_for`, `PoliticalParty`,
    `Coalition`, `BlankVoteOption` (NoneOfTheAbove / ReopenNominations) -/
inductive CandKind where
  | personParty | personIndep | party | coalition | blank
deriving DecidableEq, Repr, Inhabited

/-- Python values as the validators see them -/
inductive Obj where
  | str (s : Nat)                    -- a string (candidate name or score label), by id
  | cand (k : CandKind) (id : Nat)   -- a CandidateObject instance (identity = id)
  | num (q : Rat)                    -- int / Fraction
  | none                             -- None
  | other (id : Nat)                 -- a hashable object that is no candidate (e.g. a Constituency)
  | tuple (xs : List Obj)
  | list (xs : List Obj)
  | fset (xs : List Obj)             -- frozenset
  | mset (xs : List Obj)             -- set (mutable)
  | dict (ks vs : List Obj)
deriving Repr, Inhabited

mutual
def Obj.beq : Obj → Obj → Bool
  | .str a, .str b => a == b
  | .cand k i, .cand k' i' => k == k' && i == i'
  | .num a, .num b => a == b
  | .none, .none => true
  | .other a, .other b => a == b
  | .tuple a, .tuple b => Obj.beqL a b
  | .list a, .list b => Obj.beqL a b
  | .fset a, .fset b => Obj.beqL a b
  | .mset a, .mset b => Obj.beqL a b
  | .dict a c, .dict b d => Obj.beqL a b && Obj.beqL c d
  | _, _ => false
def Obj.beqL : List Obj → List Obj → Bool
  | [], [] => true
  | x :: xs, y :: ys => Obj.beq x y && Obj.beqL xs ys
  | _, _ => false
end

mutual
theorem Obj.beq_eq : ∀ (a b : Obj), Obj.beq a b = true ↔ a = b
  | .str a, b => by cases b <;> simp [Obj.beq]
  | .cand k i, b => by cases b <;> simp [Obj.beq]
  | .num a, b => by cases b <;> simp [Obj.beq]
  | .none, b => by cases b <;> simp [Obj.beq]
  | .other a, b => by cases b <;> simp [Obj.beq]
  | .tuple a, b => by cases b <;> simp [Obj.beq, Obj.beqL_eq a]
  | .list a, b => by cases b <;> simp [Obj.beq, Obj.beqL_eq a]
  | .fset a, b => by cases b <;> simp [Obj.beq, Obj.beqL_eq a]
  | .mset a, b => by cases b <;> simp [Obj.beq, Obj.beqL_eq a]
  | .dict a c, b => by cases b <;> simp [Obj.beq, Obj.beqL_eq a, Obj.beqL_eq c]
theorem Obj.beqL_eq : ∀ (a b : List Obj), Obj.beqL a b = true ↔ a = b
  | [], b => by cases b <;> simp [Obj.beqL]
  | x :: xs, b => by cases b <;> simp [Obj.beqL, Obj.beq_eq x, Obj.beqL_eq xs]
end

instance : DecidableEq Obj := fun a b =>
  if h : Obj.beq a b = true then isTrue ((Obj.beq_eq a b).1 h)
  else isFalse (fun e => h ((Obj.beq_eq a b).2 e))

/-- the exception classes that can come out of a validator -/
inductive Rej where
  | voteError        -- votelib.vote.VoteError and subclasses (type, magnitude, value)
  | candidateError   -- votelib.candidate.CandidateError
  | typeError        -- a leaked builtin TypeError
deriving DecidableEq, Repr, Inhabited

instance {α} [DecidableEq α] : DecidableEq (Except Rej α) := fun a b =>
  match a, b with
  | .ok x, .ok y => if h : x = y then isTrue (by rw [h]) else isFalse (fun e => h (by cases e; rfl))
  | .error x, .error y => if h : x = y then isTrue (by rw [h]) else isFalse (fun e => h (by cases e; rfl))
  | .ok _, .error _ => isFalse (fun e => by cases e)
  | .error _, .ok _ => isFalse (fun e => by cases e)

/-- result of `validate`: returns None or raises -/
abbrev Res := Except Rej Unit

/-! ### Python predicates on values -/

/-- `hash(x)` does not raise -/
def Obj.hashable : Obj → Bool
  | .tuple xs => hashableL xs
  | .list _ => false
  | .mset _ => false
  | .dict _ _ => false
  | _ => true
where hashableL : List Obj → Bool
  | [] => true
  | x :: xs => x.hashable && hashableL xs

abbrev hashableL := Obj.hashable.hashableL

/-- `isinstance(x, str)` -/
def Obj.isStr : Obj → Bool | .str _ => true | _ => false
/-- `isinstance(x, CandidateObject)` -/
def Obj.isCandObj : Obj → Bool | .cand _ _ => true | _ => false
/-- `isinstance(x, BlankVoteOption)` -/
def Obj.isBlank : Obj → Bool | .cand .blank _ => true | _ => false
/-- `isinstance(x, IndividualElectionOption)`: Person, BlankVoteOption -/
def Obj.isIndividual : Obj → Bool
  | .cand .personParty _ | .cand .personIndep _ | .cand .blank _ => true
  | _ => false
/-- `isinstance(x, ElectionParty)`: PoliticalParty, Coalition, BlankVoteOption -/
def Obj.isElectionParty : Obj → Bool
  | .cand .party _ | .cand .coalition _ | .cand .blank _ => true
  | _ => false
/-- `isinstance(x, Coalition)` -/
def Obj.isCoalition : Obj → Bool | .cand .coalition _ => true | _ => false
/-- truth value of `x.candidacy_for` for an IndividualElectionOption -/
def Obj.hasCandidacy : Obj → Bool | .cand .personParty _ => true | _ => false

/-! ### Nominators (candidate.py L367-457) -/

inductive Nominator where
  | basic (allowBlank : Bool)                      -- BasicNominator L367-389
  | person (allowIndependents allowBlank : Bool)   -- PersonNominator L392-421
  | party (allowCoalitions allowBlank : Bool)      -- PartyNominator L424-457
deriving DecidableEq, Repr, Inhabited

/-- `nominator.validate(candidate)` -/
def nominate : Nominator → Obj → Res
  | .basic allowBlank, c =>
    -- candidate.py L379-389
    if !(c.isStr || c.isCandObj) then .error .candidateError
    else if !allowBlank && c.isBlank then .error .candidateError
    else .ok ()
  | .person allowIndep allowBlank, c =>
    -- candidate.py L406-421
    if !c.isIndividual then .error .candidateError
    else if c.isBlank then
      (if !allowBlank then .error .candidateError else .ok ())
    else if !allowIndep && !c.hasCandidacy then .error .candidateError
    else .ok ()
  | .party allowCoal allowBlank, c =>
    -- candidate.py L444-457
    if c.isBlank then
      (if !allowBlank then .error .candidateError else .ok ())
    else if !c.isElectionParty then .error .candidateError
    else if !allowCoal && c.isCoalition then .error .candidateError
    else .ok ()

/-! ### VoteMagnitudeChecker (vote.py L129-178) -/

/-- `bounds = (min_value, max_value)`, `None` = not checked -/
structure Bounds where
  lo : Option Rat
  hi : Option Rat
deriving DecidableEq, Repr, Inhabited

def Bounds.none : Bounds := ⟨.none, .none⟩

/-- `__bool__` (vote.py L152-154) -/
def Bounds.active (b : Bounds) : Bool := b.lo.isSome || b.hi.isSome

/-- `is_valid` (vote.py L156-161) on a number -/
def Bounds.isValid (b : Bounds) (x : Rat) : Bool :=
  (match b.lo with | .none => true | some l => decide (l ≤ x))
  && (match b.hi with | .none => true | some h => decide (x ≤ h))

/-- `check` (vote.py L163-178) on a number -/
def Bounds.check (b : Bounds) (x : Rat) : Res :=
  if b.isValid x then .ok () else .error .voteError

/-- `check` on an arbitrary value (a score): comparing a non-number with a number raises TypeError inside
    `is_valid`, which `check` reports as VoteValueError (vote.py L171-174); with both bounds None nothing
    is compared -/
def Bounds.checkObj (b : Bounds) : Obj → Res
  | .num x => b.check x
  | _ => if b.active then .error .voteError else .ok ()

/-- the `defaultdict`s built by the constructors: one checker for every key (tuple given), or
    a checker per listed key and an unconstrained checker otherwise (dict of bounds, or explicit dict of
    checkers, given) -/
inductive BoundMap where
  | all (b : Bounds)
  | byKey (m : List (Nat × Bounds))
  | withDefault (m : List (Nat × Bounds)) (d : Bounds)   -- an explicit defaultdict: listed keys, else the factory's checker
deriving DecidableEq, Repr, Inhabited

def BoundMap.get : BoundMap → Nat → Bounds
  | .all b, _ => b
  | .byKey m, k => match m.lookup k with
    | some b => b
    | .none => Bounds.none
  | .withDefault m d, k => match m.lookup k with
    | some b => b
    | .none => d

/-! ### helpers -/

/-- `for x in xs: f(x)` where `f` may raise -/
def forEach (f : Obj → Res) : List Obj → Res
  | [] => .ok ()
  | x :: xs => match f x with
    | .ok _ => forEach f xs
    | .error e => .error e

/-- members of a Python `set` built from the list (first occurrences dropped, last kept — the order
    is immaterial, only length and membership are used) -/
def dedup : List Obj → List Obj
  | [] => []
  | x :: xs => if x ∈ xs then dedup xs else x :: dedup xs

/-! ### SimpleVoteValidator (vote.py L199-219) -/

def validateSimple (nom : Nominator) (vote : Obj) : Res := nominate nom vote

/-! ### ApprovalVoteValidator (vote.py L223-264) -/

structure ApprovalCfg where
  count : Bounds
  nom : Nominator
deriving DecidableEq, Repr, Inhabited

/-- vote.py L250-264 -/
def validateApproval (cfg : ApprovalCfg) (vote : Obj) : Res :=
  match vote with
  | .fset xs => do
    forEach (nominate cfg.nom) xs
    cfg.count.check xs.length
  | _ => .error .voteError           -- VoteTypeError

/-! ### RankedVoteValidator (vote.py L268-367) -/

structure RankedCfg where
  total : Bounds
  rank : BoundMap
  nom : Nominator
deriving DecidableEq, Repr, Inhabited

/-- `isinstance(item, frozenset)` (vote.py L354) -/
def Obj.asSet : Obj → Option (List Obj)
  | .fset xs => some xs
  | _ => .none

/-- the loop of vote.py L353-362: `i` is `rank_i`, `total` is `total_votes`, `all` the members added to
    `all_candidates` so far (with repetitions; the Python set is `dedup all`) -/
def rankedLoop (cfg : RankedCfg) : Nat → List Obj → Nat → List Obj → Except Rej (Nat × List Obj)
  | _, [], total, all => .ok (total, all)
  | i, item :: rest, total, all =>
    match item.asSet with
    | some xs =>
      match (cfg.rank.get (i+1)).check xs.length with
      | .error e => .error e
      | .ok _ =>
        -- all_candidates.update(item): members of a real set are hashable
        if !hashableL xs then .error .typeError
        else rankedLoop cfg (i+1) rest (total + xs.length) (all ++ xs)
    | .none =>
      match nominate cfg.nom item with
      | .error e => .error e
      | .ok _ =>
        match (cfg.rank.get (i+1)).check 1 with
        | .error e => .error e
        | .ok _ =>
          -- all_candidates.add(item) hashes the item
          if !item.hashable then .error .typeError
          else rankedLoop cfg (i+1) rest (total + 1) (all ++ [item])

/-- vote.py L337-367 -/
def validateRanked (cfg : RankedCfg) (vote : Obj) : Res :=
  match vote with
  | .tuple items =>
    match rankedLoop cfg 0 items 0 [] with
    | .error e => .error e
    | .ok (total, all) => do
      cfg.total.check total
      if (dedup all).length < total then .error .voteError     -- 'duplicated candidates'
      else forEach (nominate cfg.nom) (dedup all)
  | _ => .error .voteError           -- VoteTypeError

/-! ### ScoreVoteValidator (vote.py L370-429) and its two subclasses -/

structure ScoreCfg where
  nScorings : Bounds
  sum : BoundMap
  nom : Nominator
deriving DecidableEq, Repr, Inhabited

/-- a 2-tuple `(candidate, score)` -/
def Obj.asPair : Obj → Option (Obj × Obj)
  | .tuple [c, s] => some (c, s)
  | _ => .none

/-- the loop of vote.py L411-418 -/
def scoreItems (nom : Nominator) : List Obj → Res
  | [] => .ok ()
  | item :: rest =>
    match item with
    | .tuple ys =>
      match ys with
      | [c, _] =>
        match nominate nom c with
        | .error e => .error e
        | .ok _ => scoreItems nom rest
      | _ => .error .voteError       -- VoteMagnitudeError 'scoring pair length'
    | _ => .error .voteError         -- VoteTypeError(item, tuple)

def pairsOf (items : List Obj) : List (Obj × Obj) := items.filterMap Obj.asPair
def candsOf (items : List Obj) : List Obj := (pairsOf items).map (·.1)
def scoresOf (items : List Obj) : List Obj := (pairsOf items).map (·.2)

/-- `sum(scoring[1] for scoring in vote)`: `0 + x` raises TypeError for any non-number -/
def sumScores : List Obj → Option Rat
  | [] => some 0
  | .num x :: rest => (sumScores rest).map (x + ·)
  | _ :: _ => .none

/-- ScoreVoteValidator.validate, vote.py L406-429 -/
def validateScoreBase (cfg : ScoreCfg) (vote : Obj) : Res :=
  match vote with
  | .fset items => do
    cfg.nScorings.check items.length
    scoreItems cfg.nom items
    -- frozenset(item[0] for item in vote)
    if !hashableL (candsOf items) then .error .typeError
    else if (dedup (candsOf items)).length < items.length then .error .voteError   -- 'duplicated candidates'
    else
      let sc := cfg.sum.get items.length
      if sc.active then
        match sumScores (scoresOf items) with
        | .none => .error .voteError          -- TypeError inside sum() -> VoteValueError (vote.py L423-429)
        | some s => sc.check s
      else .ok ()
  | _ => .error .voteError           -- VoteTypeError

structure EnumCfg where
  base : ScoreCfg
  levels : List Obj
deriving Repr, Inhabited

/-- EnumScoreVoteValidator.validate, vote.py L493-509 -/
def validateEnumScore (cfg : EnumCfg) (vote : Obj) : Res := do
  validateScoreBase cfg.base vote
  match vote with
  | .fset items =>
    forEach (fun s => if s ∈ cfg.levels then .ok () else .error .voteError) (scoresOf items)  -- VoteValueError
  | _ => .ok ()

structure RangeCfg where
  base : ScoreCfg
  range : Bounds
deriving DecidableEq, Repr, Inhabited

/-- RangeVoteValidator.validate, vote.py L573-586 -/
def validateRange (cfg : RangeCfg) (vote : Obj) : Res := do
  validateScoreBase cfg.base vote
  match vote with
  | .fset items => forEach cfg.range.checkObj (scoresOf items)
  | _ => .ok ()

/-! ### InvalidVoteEliminator (convert.py L816-846) -/

/-- `convert`: keys raising VoteError or CandidateError are removed; any other exception propagates -/
def eliminate (validate : Obj → Res) : List (Obj × Rat) → Except Rej (List (Obj × Rat))
  | [] => .ok []
  | (k, n) :: rest =>
    match validate k with
    | .ok _ =>
      match eliminate validate rest with
      | .ok out => .ok ((k, n) :: out)
      | .error e => .error e
    | .error .voteError => eliminate validate rest
    | .error .candidateError => eliminate validate rest
    | .error e => .error e

/-! ### the five validators behind one type (what the driver and the eliminator use) -/

inductive Validator where
  | simple (nom : Nominator)
  | approval (cfg : ApprovalCfg)
  | ranked (cfg : RankedCfg)
  | enumScore (cfg : EnumCfg)
  | range (cfg : RangeCfg)
deriving Repr, Inhabited

def Validator.validate : Validator → Obj → Res
  | .simple nom => validateSimple nom
  | .approval cfg => validateApproval cfg
  | .ranked cfg => validateRanked cfg
  | .enumScore cfg => validateEnumScore cfg
  | .range cfg => validateRange cfg

/-! ### well-formed values: what can exist as a Python object -/

/-- pairwise distinct (Bool) -/
def nodupB : List Obj → Bool
  | [] => true
  | x :: xs => !(decide (x ∈ xs)) && nodupB xs

/-- sets hold hashable, pairwise distinct members; dict keys likewise -/
def Obj.wf : Obj → Bool
  | .tuple xs => wfL xs
  | .list xs => wfL xs
  | .fset xs => wfL xs && hashableL xs && nodupB xs
  | .mset xs => wfL xs && hashableL xs && nodupB xs
  | .dict ks vs => wfL ks && wfL vs && hashableL ks && nodupB ks && ks.length == vs.length
  | _ => true
where wfL : List Obj → Bool
  | [] => true
  | x :: xs => x.wf && wfL xs

end VL.Validate
