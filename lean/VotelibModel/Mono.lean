/-
  VotelibModel.Mono — the one-seat winner rules of property C17 and the perturbations ("moves") under
  which they are claimed monotone.

  Rules (each the composition the library documents):
    plurality          core.Plurality                                       core.py L1365-1417
    positional         PreConverted(RankedToPositionalVotes(scorer), Plurality)   convert.py L365-387
    approval           PreConverted(ApprovalToSimpleVotes(), Plurality)     convert.py L70-80
    score-sum          cardinal.ScoreVoting('sum')                          cardinal.py L63-75, convert.py L160-217
    Bucklin            sequential.PreferenceAddition()                      sequential.py L525-631
    Copeland/minimax/Schulze  PreConverted(RankedToCondorcetVotes(), …)     convert.py L405-435, condorcet.py
  The converters are those of VotelibModel.Convert (C13), the Condorcet evaluators those of
  VotelibModel.CondorcetEval (C05); highest averages is VotelibModel.HighestAverages (C01).

  Moves: `lift` (the winner is taken out of a ranked ballot and re-inserted as a rank of its own, not
  below its old place), `approve`, `raiseScore`, and `replaceUnit` (one unit of weight of one ballot
  becomes another ballot) / `addTo _ _ 1` (a new ballot).
-/
import VotelibModel.Convert
import VotelibModel.CondorcetEval
import VotelibModel.HighestAverages
namespace VL.Mono
open VL VL.Convert

/-! ## moves -/

/-- take `w` out of one place of a ballot; a shared rank left with one member becomes that member -/
def stripItem (w : Cand) : RankItem → Option RankItem
  | .one c => if c = w then none else some (.one c)
  | .shared cs =>
    if w ∈ cs then
      match cs.filter (fun c => c ≠ w) with
      | [] => none
      | [c] => some (.one c)
      | rest => some (.shared rest)
    else some (.shared cs)

/-- the ballot without `w` -/
def strip (w : Cand) (b : Ballot) : Ballot := b.filterMap (stripItem w)

/-- the ballot with `w` taken out and re-inserted as a rank of its own at index `i` -/
def lift (w : Cand) (i : Nat) (b : Ballot) : Ballot := (strip w b).take i ++ RankItem.one w :: (strip w b).drop i

/-- `w` joins a place: a single candidate becomes a shared rank, a shared rank gets one more member (ascending ids) -/
def joinItem (w : Cand) : RankItem → RankItem
  | .one c => .shared (if w < c then [w, c] else [c, w])
  | .shared cs => .shared (cs.filter (fun c => c < w) ++ w :: cs.filter (fun c => w < c))

/-- the ballot on which `w` has left its place (index `r + 1`) and JOINED the place directly above it (index `r`):
    a strict rank becomes a shared rank with the former superior, a shared rank above gets `w` as a further member -/
def joinAboveAt (w : Cand) (r : Nat) (b : Ballot) : Ballot :=
  match b[r]?, b[r + 1]? with
  | some sup, some it => b.take r ++ joinItem w sup :: ((stripItem w it).toList ++ b.drop (r + 2))
  | _, _ => b

/-- `w` joins the rank directly above its own (nothing happens when `w` is unranked or stands first) -/
def joinAbove (w : Cand) (b : Ballot) : Ballot :=
  match b.findIdx? (fun it => decide (w ∈ it.cands)) with
  | some (r + 1) => joinAboveAt w r b
  | _ => b

/-- index of the place where `w` stands -/
def posOf (w : Cand) (b : Ballot) : Option Nat := b.findIdx? (fun it => decide (w ∈ it.cands))

/-- the move is upwards: the new place is not below the old one (an unranked `w` counts as below everybody) -/
def liftOK (w : Cand) (i : Nat) (b : Ballot) : Bool :=
  match posOf w b with
  | some r => decide (i ≤ r)
  | none => decide (i ≤ b.length)

/-- one unit of weight of ballot `b` is removed (the entry disappears when nothing is left) -/
def decr {κ : Type} [DecidableEq κ] : Dict κ → κ → Dict κ
  | [], _ => []
  | (k, v) :: t, b => if k = b then (if v = 1 then t else (k, v - 1) :: t) else (k, v) :: decr t b

/-- one unit of weight of ballot `b` becomes ballot `b'` -/
def replaceUnit {κ : Type} [DecidableEq κ] (p : Dict κ) (b b' : κ) : Dict κ := addTo (decr p b) b' 1

/-- ascending insertion of a candidate into an approval set -/
def approve (w : Cand) : Approval → Approval
  | [] => [w]
  | c :: cs => if w < c then w :: c :: cs else if w = c then c :: cs else c :: approve w cs

/-- the score ballot on which `w` has score `s` (in place; added in ascending candidate order when unscored) -/
def raiseScore (w : Cand) (s : Rat) : ScoreBallot → ScoreBallot
  | [] => [(w, s)]
  | (c, x) :: rest => if w < c then (w, s) :: (c, x) :: rest else if w = c then (c, s) :: rest
      else (c, x) :: raiseScore w s rest

/-- one voter of `x` votes for `w` instead (simple votes) -/
def switchVote (votes : Votes) (x w : Cand) : Votes :=
  votes.map (fun e => (e.1, e.2 + (if e.1 = w then 1 else 0) - (if e.1 = x then 1 else 0)))

/-- one more vote for `w` (simple votes) -/
def oneMore (votes : Votes) (w : Cand) : Votes :=
  votes.map (fun e => (e.1, e.2 + (if e.1 = w then 1 else 0)))

/-! ## the rules, for one seat -/

/-- `Plurality().evaluate(votes, 1)` -/
def evalPlurality (votes : Votes) : List Slot := getNBest votes 1

/-- `PreConverted(RankedToPositionalVotes(scorer), Plurality()).evaluate(votes, 1)` -/
def evalPositional (sc : Scorer) (p : RProfile) : Except Err (List Slot) :=
  match rankedToPositional sc p with
  | .ok d => .ok (getNBest d 1)
  | .error e => .error e

/-- `PreConverted(ApprovalToSimpleVotes(), Plurality()).evaluate(votes, 1)` -/
def evalApproval (p : AProfile) : Except Err (List Slot) :=
  match approvalToSimple false p with
  | .ok d => .ok (getNBest d 1)
  | .error e => .error e

/-- `PreConverted(ApprovalToSimpleVotes(split=True), Plurality()).evaluate(votes, 1)` (satisfaction approval: every
    ballot is split evenly over the candidates it approves; an empty ballot divides by zero) -/
def evalApprovalSplit (p : AProfile) : Except Err (List Slot) :=
  match approvalToSimple true p with
  | .ok d => .ok (getNBest d 1)
  | .error e => .error e

/-- `ScoreToSimpleVotes('sum').convert`: the per-candidate `{score: count}` tables (convert.py L186-196),
    their expansion and the builtin `sum` (L213-217) collapse to the sum of `score * count` -/
def scoreSum (p : SProfile) : Votes :=
  p.foldl (fun agg bw => bw.1.foldl (fun agg cs => addTo agg cs.1 (bw.2 * cs.2)) agg) []

/-- `ScoreVoting('sum').evaluate(votes, 1)` (cardinal.py L63-75) -/
def evalScoreSum (p : SProfile) : List Slot := getNBest (scoreSum p) 1

/-- total weight of the ballots that score each candidate (`n_scores` of `_correct_candidate_scores`, convert.py L223) -/
def scoredWeight (p : SProfile) : Votes :=
  p.foldl (fun agg bw => bw.1.foldl (fun agg cs => addTo agg cs.1 bw.2) agg) []

/-- `ScoreToSimpleVotes('sum', unscored_value=u).convert` for a numeric `u`: every candidate's table receives
    `scores[u] = n_votes - n_scores + scores.get(u, 0)` (convert.py L229-240), i.e. the ballots that do not score the
    candidate count as `u`; under the sum this adds `(n_votes - n_scores) * u` -/
def scoreSumU (u : Rat) (p : SProfile) : Votes :=
  (scoreSum p).map (fun e => (e.1, e.2 + (sumValues p - getD (scoredWeight p) e.1 0) * u))

/-- `ScoreVoting('sum', unscored_value=u).evaluate(votes, 1)` -/
def evalScoreSumU (u : Rat) (p : SProfile) : List Slot := getNBest (scoreSumU u p) 1

/-! ### `ScoreVoting(function, unscored_value)` with a named aggregation and a CALLABLE fill-in value (convert.py L160-240):
    every candidate's scores form a multiset (a score repeated by the number of voters who gave it); a callable
    `unscored_value` is applied to that multiset and the voters who did not score the candidate count as its value -/

/-- the functions admitted by name (`min`, `max` builtins, `mean` = util.exact_mean, `median` = statistics.median), a constant,
    and `lambda xs: Fraction(min(xs) + max(xs), 2)` -/
inductive ListFn where
  | sum | mean | median | min | max | midrange | const (v : Rat)
deriving DecidableEq, Repr

def insRat (x : Rat) : List Rat → List Rat
  | [] => [x]
  | y :: ys => if x ≤ y then x :: y :: ys else y :: insRat x ys

def sortRats : List Rat → List Rat
  | [] => []
  | x :: xs => insRat x (sortRats xs)

/-- the function applied to a list of scores; on the empty list `exact_mean` divides by zero, `statistics.median` raises
    StatisticsError, `min` / `max` raise ValueError -/
def ListFn.eval : ListFn → List Rat → Except Err Rat
  | .sum, l => .ok l.sum
  | .const v, _ => .ok v
  | .mean, l => if l.isEmpty then .error (.other "ZeroDivisionError") else .ok (l.sum / (l.length : Rat))
  | .median, l =>
    let s := sortRats l
    if l.isEmpty then .error (.other "StatisticsError")
    else if s.length % 2 = 1 then .ok (s.getD (s.length / 2) 0)
    else .ok ((s.getD (s.length / 2 - 1) 0 + s.getD (s.length / 2) 0) / 2)
  | .min, l => match sortRats l with
    | [] => .error .valueError
    | x :: _ => .ok x
  | .max, l => match (sortRats l).getLast? with
    | none => .error .valueError
    | some x => .ok x
  | .midrange, l => match sortRats l, (sortRats l).getLast? with
    | x :: _, some y => .ok ((x + y) / 2)
    | _, _ => .error .valueError

/-- the scores candidate `c` received, each repeated by the number of voters (convert.py L188-191, L232-235) -/
def scoresOf (p : SProfile) (c : Cand) : List Rat :=
  p.flatMap (fun bw => match bw.1.find? (fun e => e.1 = c) with
    | some e => List.replicate bw.2.floor.toNat e.2
    | none => [])

/-- `ScoreToSimpleVotes(function, unscored_value).convert`: with a fill-in, `scores[u] = n_votes - n_scores + scores.get(u, 0)`
    where `u` is the number or the callable applied to the candidate's multiset of scores -/
def scoreGen (agg : ListFn) (fill : Option ListFn) (p : SProfile) : Except Err Votes :=
  (scoreSum p).mapM (fun e =>
    let xs := scoresOf p e.1
    match fill with
    | none => match agg.eval xs with
      | .ok v => .ok (e.1, v)
      | .error err => .error err
    | some f => match f.eval xs with
      | .error err => .error err
      | .ok u => match agg.eval (xs ++ List.replicate ((sumValues p).floor.toNat - xs.length) u) with
        | .ok v => .ok (e.1, v)
        | .error err => .error err)

/-- `ScoreVoting(function, unscored_value).evaluate(votes, 1)` -/
def evalScoreGen (agg : ListFn) (fill : Option ListFn) (p : SProfile) : Except Err (List Slot) :=
  match scoreGen agg fill p with
  | .ok d => .ok (getNBest d 1)
  | .error e => .error e

/-- `PreferenceAddition._add_round_votes` (sequential.py L600-616) with coefficient 1 and nobody elected yet;
    a shared rank gives its whole weight to every member (the `isinstance(preference, Set)` branch) -/
def bucklinRound (p : RProfile) (i : Nat) (tot : Votes) : Votes :=
  p.foldl (fun t bw => match bw.1[i]? with
    | some it => it.cands.foldl (fun t c => addTo t c bw.2) t
    | none => t) tot

/-- the `for pref_i in range(max_pref_len)` loop of `PreferenceAddition.evaluate` (L542-563) for one seat:
    `fuel` rounds are left, `i` is the current preference index, `tot` the running totals -/
def bucklinLoop (p : RProfile) (quota : Rat) : Nat → Nat → Votes → List Slot
  | 0, _, _ => []
  | f + 1, i, tot =>
    let tot' := bucklinRound p i tot
    let maj := (sortDesc tot').filter (fun e => decide (quota < e.2))
    let best := getNBest maj 1
    if best.length = 1 then best else bucklinLoop p quota f (i + 1) tot'

/-- `PreferenceAddition(split_equal_rankings=False).evaluate(votes, 1)`; equal to the default
    `PreferenceAddition()` (Bucklin) on profiles without shared ranks.  `max()` of no ballots is a ValueError. -/
def evalBucklin (p : RProfile) : Except Err (List Slot) :=
  if p.isEmpty then .error .valueError
  else .ok (bucklinLoop p (sumValues p / 2) (maxLen p) 0 [])

/-! ### `_decouple_equal_rankings` (sequential.py L565-598): the default Bucklin splits every ballot with shared ranks
    evenly over all the strict orders it is compatible with -/

def isShared : RankItem → Bool
  | .shared _ => true
  | .one _ => false

/-- all strict ballots compatible with `b`: the product of the permutations of its shared ranks (L582-596);
    `itertools.permutations` enumerates in another order than `Condorcet.perms`, which only affects the insertion
    order of the new dictionary -/
def linearize : Ballot → List Ballot
  | [] => [[]]
  | .one c :: rest => (linearize rest).map (fun l => RankItem.one c :: l)
  | .shared cs :: rest =>
    (Condorcet.perms cs).flatMap (fun pc => (linearize rest).map (fun l => pc.map RankItem.one ++ l))

/-- `PreferenceAddition._decouple_equal_rankings`: `new_votes = votes.copy()`; for every ballot with a shared rank:
    `del new_votes[ballot]` and every variant receives `n / len(variants)`, ADDED to what the variant holds already
    (fix 9fdccec) -/
def decouple (p : RProfile) : RProfile :=
  p.foldl (fun nv bw =>
    if bw.1.any isShared then
      let vars := linearize bw.1
      vars.foldl (fun nv v => addTo nv v (bw.2 / (vars.length : Rat))) (nv.filter (fun e => e.1 ≠ bw.1))
    else nv) p

/-- `PreferenceAddition().evaluate(votes, 1)` — Bucklin with the default `split_equal_rankings=True` -/
def evalBucklinSplit (p : RProfile) : Except Err (List Slot) := evalBucklin (decouple p)

/-! ### `PreferenceAddition(coefficients, …)` with an arbitrary coefficient function (Bucklin family: Oklahoma primary …) -/

/-- `_get_coefficient(pref_i)` for a coefficient LIST (sequential.py L618-624): the entry, the last entry beyond the end -/
def coefOfList (l : List Rat) (i : Nat) : Rat := l.getD i (l.getLastD 0)

/-- `_add_round_votes` (L600-616) with `coef = _get_coefficient(pref_i)` and nobody elected yet -/
def bucklinRoundC (c : Rat) (p : RProfile) (i : Nat) (tot : Votes) : Votes :=
  p.foldl (fun t bw => match bw.1[i]? with
    | some it => it.cands.foldl (fun t x => addTo t x (bw.2 * c)) t
    | none => t) tot

/-- the round loop of `PreferenceAddition.evaluate` (L542-563) for one seat with coefficient function `coef` -/
def bucklinLoopC (coef : Nat → Rat) (p : RProfile) (quota : Rat) : Nat → Nat → Votes → List Slot
  | 0, _, _ => []
  | f + 1, i, tot =>
    let tot' := bucklinRoundC (coef i) p i tot
    let maj := (sortDesc tot').filter (fun e => decide (quota < e.2))
    let best := getNBest maj 1
    if best.length = 1 then best else bucklinLoopC coef p quota f (i + 1) tot'

/-- `PreferenceAddition(coefficients, split_equal_rankings=False).evaluate(votes, 1)` -/
def evalPA (coef : Nat → Rat) (p : RProfile) : Except Err (List Slot) :=
  if p.isEmpty then .error .valueError
  else .ok (bucklinLoopC coef p (sumValues p / 2) (maxLen p) 0 [])

/-- `PreferenceAddition(coefficients).evaluate(votes, 1)` (shared ranks split, the default) -/
def evalPASplit (coef : Nat → Rat) (p : RProfile) : Except Err (List Slot) := evalPA coef (decouple p)

/-- `RankedToCondorcetVotes().convert` -/
def pairwiseOf (p : RProfile) : Condorcet.Pairwise := rankedToCondorcet true p

def evalCopeland (secondOrder : Bool) (p : RProfile) : List Slot := Condorcet.copeland secondOrder (pairwiseOf p) 1
def evalMinimax (sc : Condorcet.Scorer) (p : RProfile) : List Slot := Condorcet.minimax sc (pairwiseOf p) 1
def evalSchulze (p : RProfile) : List Slot := Condorcet.schulze (pairwiseOf p) 1

end VL.Mono
