/-
  VotelibModel.Overhang — the seat-count adjusters of votelib/evaluate/core.py
  (`AdjustedSeatCount` L474-518, `AllowOverhang` L522-571, `LevelOverhang` L575-636,
  `LevelOverhangByConstituency` L640-734) and the two-stage `MultistageDistributor` (L284-346, depth 1)
  that wraps them in the NZ example.

  The proportional evaluator is a PARAMETER (`PropEval`): every adjuster is modelled for an arbitrary
  distributor `votes → n_seats → prev_gains → max_seats → result | exception`.  Two instances are given:
  `haEval div` (the C01 model `VL.highestAverages`) and `lrHareEval` (a minimal model of
  `LargestRemainder('hare')`, proportional.py QuotaDistributor.evaluate + LargestRemainder.evaluate, written here so that this file does not
  depend on the C02 model).

  Conventions: a party is a `Cand`; `prev_gains` / `max_seats` are `Seats` (party -> Nat, insertion order);
  a distribution result is a `Dist` (keys are parties or `Tie` objects).  The `while` loop of the levelling
  calculators takes fuel = the number of evaluator calls it may make; running out of fuel is the explicit
  outcome `Err.other "FuelExhausted"` (the harness imposes the same bound on the real code through a
  counting proxy around the evaluator).
-/
import VotelibModel.Core
import VotelibModel.Py
import VotelibModel.HighestAverages
namespace VL.OH
open VL

abbrev Seats := List (Cand × Nat)
abbrev Dist := List (Key × Nat)

/-- a distribution evaluator: `evaluate(votes, n_seats, prev_gains=…, max_seats=…)` -/
abbrev PropEval := Votes → Nat → Seats → Seats → Except Err Dist

def fuelErr : Err := .other "FuelExhausted"
def unmodelled : Err := .other "Unmodelled"
def zeroDiv : Err := .other "ZeroDivisionError"

/-! ### dict helpers -/

/-- `d.get(k, 0)` on a result dict -/
def distGet (d : Dist) (k : Key) : Nat :=
  match d.find? (fun p => p.1 = k) with
  | some p => p.2
  | none => 0

/-- `k in d` -/
def distHas (d : Dist) (k : Key) : Bool := d.any (fun p => p.1 = k)

/-- `prev_gains.get(key, 0)`: a `Tie` object is never a key of `prev_gains` -/
def prevGetKey (prev : Seats) : Key → Nat
  | .cand c => natLookup prev c 0
  | .tie _ => 0

def sumSeats (s : Seats) : Nat := (s.map (·.2)).sum
def sumDist (d : Dist) : Nat := (d.map (·.2)).sum

/-- `d[k] = v` (update in place, or append) -/
def setK : Dist → Key → Nat → Dist
  | [], k, v => [(k, v)]
  | p :: ps, k, v => if p.1 = k then (k, v) :: ps else p :: setK ps k v

/-- `util.add_dict_to_dict(d1, d2)` (util.py L19-23) -/
def addDist (d1 d2 : Dist) : Dist := d2.foldl (fun acc p => setK acc p.1 (distGet acc p.1 + p.2)) d1

def seatsToDist (s : Seats) : Dist := s.map (fun p => (Key.cand p.1, p.2))

/-- a result dict used as `prev_gains` of the next stage; `Tie` keys there are outside the model -/
def distToSeats : Dist → Option Seats
  | [] => some []
  | (Key.cand c, v) :: ps => (distToSeats ps).map (fun r => (c, v) :: r)
  | (Key.tie _, _) :: _ => none

/-! ### the two proportional evaluators used by the harness -/

def insNat (x : Nat) : List Nat → List Nat
  | [] => [x]
  | y :: ys => if x ≤ y then x :: y :: ys else y :: insNat x ys

def sortNat : List Nat → List Nat
  | [] => []
  | x :: xs => insNat x (sortNat xs)

/-- a `Tie` is a frozenset: two ties are the same key iff they have the same members.  The evaluator models
    list the members in pool order, so keys are compared after sorting the members. -/
def normKey : Key → Key
  | .cand c => .cand c
  | .tie cs => .tie (sortNat cs)

def normDist (d : Dist) : Dist := d.map (fun p => (normKey p.1, p.2))

/-- `HighestAverages(div).evaluate` — the C01 model (Tie keys canonicalised) -/
def haEval (div : Nat → Rat) : PropEval := fun votes n prev caps =>
  (highestAverages { div := div, votes := votes, n := n, prev := prev, caps := caps }).map normDist

/-- `QuotaDistributor('hare').evaluate(votes, n, prev_gains, max_seats={})` (proportional.py L221-252) with
    `accept_equal=True`, `on_overaward='error'`:  whole Hare quotas beyond the previous gains
    (`min(int(v/q), max_seats.get(c, INF)) - prev`, no cap given).  `selected` holds only positive additions.
    `hareStep` is the body of the `for candidate, n_votes in votes.items()` loop. -/
def hareStep (q : Rat) (prev : Seats) (acc : Except Err Seats) (p : Cand × Rat) : Except Err Seats := do
  let sel ← acc
  if q < p.2 ∨ p.2 = q then
    if q = 0 then .error zeroDiv else
    let add : Int := Py.pyInt (p.2 / q) - (natLookup prev p.1 0 : Nat)
    if 0 < add then pure (sel ++ [(p.1, add.toNat)])
    else pure sel
  else pure sel

def hareQuotaSeats (votes : Votes) (n : Nat) (prev : Seats) : Except Err Seats :=
  if n = 0 then .error zeroDiv else            -- `Fraction(total, 0)` in the Hare quota
  if sumVals votes / (n : Rat) ≤ 0 then .error .votingSystemError else   -- non-positive quota refused (eca6e34)
  votes.foldl (hareStep (sumVals votes / (n : Rat)) prev) (.ok [])

/-- `quota_elected[candidate] += 1` / `= 1` for one entry of `best` (proportional.py L385-389) -/
def incSlot (acc : Dist) : Slot → Dist
  | .cand c => setK acc (.cand c) (distGet acc (.cand c) + 1)
  | .tie cs => setK acc (.tie (sortNat cs)) (distGet acc (.tie (sortNat cs)) + 1)

/-- `LargestRemainder('hare').evaluate(votes, n, prev_gains, max_seats={})` (proportional.py L352-390) -/
def lrHareEval : PropEval := fun votes n prev caps =>
  if caps ≠ [] then .error unmodelled else do
  let qe ← hareQuotaSeats votes n prev
  if n < sumSeats qe + sumSeats prev then .error .votingSystemError else
  let q : Rat := sumVals votes / (n : Rat)
  -- gained_prerem = sum_dicts(quota_elected, prev_gains)
  let gained (c : Cand) : Nat := natLookup qe c 0 + natLookup prev c 0
  let gainedTotal := sumSeats qe + sumSeats prev
  let nRem := n - gainedTotal
  let remainders : Votes := votes.map (fun p => (p.1, p.2 / q - (gained p.1 : Nat)))
  let best : List Slot := if nRem = 0 then [] else getNBest remainders nRem
  let qd : Dist := seatsToDist qe
  pure (best.foldl incSlot qd)

/-! ### AllowOverhang -/

/-- the loop body of `AllowOverhang.calculate` L566-571 -/
def allowAdj (prop : Dist) (prev : Seats) : Nat :=
  prev.foldl (fun adj p =>
    let propCand := distGet prop (.cand p.1)
    if propCand < p.2 then adj + (p.2 - propCand) else adj) 0

/-- `AllowOverhang(ev).calculate(votes, n_seats, prev_gains, max_seats)` (core.py L544-571) -/
def allowOverhang (ev : PropEval) (votes : Votes) (n : Nat) (prev caps : Seats) : Except Err Nat := do
  let prop ← ev votes n [] caps
  pure (allowAdj prop prev)

/-! ### LevelOverhang -/

/-- `lowest_allowed` (L620-623) -/
def lowestAllowed (prop : Dist) (prev : Seats) : Dist :=
  prop.map (fun p => (p.1, max (prevGetKey prev p.1) p.2))

/-- `nonprop_drop` (L624-627): direct seats of parties outside the proportional tier -/
def nonpropDrop (lowest : Dist) (prev : Seats) : Nat :=
  prev.foldl (fun acc p => if distHas lowest (.cand p.1) then acc else acc + p.2) 0

/-- the loop condition `any(prop_result.get(party, 0) < minimum for party, minimum in pmins)` (L630-631) -/
def belowMin (prop pmins : Dist) : Bool := pmins.any (fun p => decide (distGet prop p.1 < p.2))

/-- the `while` loop L630-635.  `evAt h` is `self.evaluator.evaluate(votes, h, max_seats=max_seats)`;
    `fuel` bounds the number of evaluator calls made by the loop. -/
def levelLoop (evAt : Nat → Except Err Dist) (pmins : Dist) : Nat → Nat → Dist → Except Err Nat
  | fuel, h, prop =>
    if belowMin prop pmins then
      match fuel with
      | 0 => .error fuelErr
      | fuel' + 1 =>
        match evAt (h + 1) with
        | .ok prop' => levelLoop evAt pmins fuel' (h + 1) prop'
        | .error e => .error e
    else .ok h

/-- `LevelOverhang(ev).calculate(votes, n_seats, prev_gains, max_seats)` (core.py L597-636).
    `adj_count = n_seats - nonprop_drop` is negative when the parties outside the tier hold more than
    `n_seats` direct seats; that input class (direct seats exceeding the house) is outside the model. -/
def levelOverhang (ev : PropEval) (fuel : Nat) (votes : Votes) (n : Nat) (prev caps : Seats) : Except Err Nat := do
  let prop ← ev votes n [] caps
  let lowest := lowestAllowed prop prev
  let drop := nonpropDrop lowest prev
  if n < drop then .error unmodelled else do
  let h ← levelLoop (fun h => ev votes h [] caps) lowest fuel (n - drop) prop
  pure (h + drop - n)

/-! ### AdjustedSeatCount and the two-stage wrapper -/

/-- a `SeatCountCalculator.calculate` -/
abbrev Calc := Votes → Nat → Seats → Seats → Except Err Nat

/-- `AdjustedSeatCount(calc, ev).evaluate(votes, n_seats, prev_gains, max_seats)` (core.py L493-518) -/
def adjustedSeatCount (calcr : Calc) (ev : PropEval) : PropEval := fun votes n prev caps => do
  let adj ← calcr votes n prev caps
  ev votes (n + adj) prev caps

/-- `MultistageDistributor(rounds).evaluate(votes_per_round, n_seats, prev_gains, max_seats)` with depth 1
    (core.py L303-327, L337-339): every round sees the accumulated result as `prev_gains`. -/
def multistage : List (PropEval × Votes) → Nat → Dist → Seats → Except Err Dist
  | [], _, elected, _ => .ok elected
  | (stage, votes) :: rest, n, elected, caps =>
    match distToSeats elected with
    | none => .error unmodelled
    | some prev =>
      match stage votes n prev caps with
      | .ok res => multistage rest n (addDist elected res) caps
      | .error e => .error e

/-- a first stage with a fixed outcome (the `MockEvaluator` of tests/real/test_real_mmp.py L125-127) -/
def mockStage (direct : Seats) : PropEval := fun _ _ _ _ => .ok (seatsToDist direct)

/-! ### LevelOverhangByConstituency -/

abbrev Cty := Nat
/-- votes by constituency -/
abbrev CVotes := List (Cty × Votes)
/-- direct seats by constituency -/
abbrev CSeats := List (Cty × Seats)
/-- a constituency evaluator: `evaluate(votes, n_seats, max_seats={})` -/
abbrev CtyEval := CVotes → Nat → Except Err (List (Cty × Dist))

def ctyPrev (prev : CSeats) (c : Cty) : Seats :=
  match prev.find? (fun p => p.1 = c) with
  | some p => p.2
  | none => []

/-- `VoteTotals().convert` on simple votes by constituency (convert.py L732-742) -/
def setV : Votes → Cand → Rat → Votes
  | [], k, v => [(k, v)]
  | p :: ps, k, v => if p.1 = k then (k, v) :: ps else p :: setV ps k v

def voteTotals (cv : CVotes) : Votes :=
  cv.foldl (fun all d => d.2.foldl (fun acc p => setV acc p.1 (getD acc p.1 0 + p.2)) all) []

/-- the district loop of `ByConstituency.evaluate` (core.py `for district, dvotes in votes.items()`): every
    constituency with its own seat count (`apportionment.get(district, 0)`); constituencies with zero seats get an
    empty result and move to the end of the dict (`no_value_districts`); no preselector, no previous gains. -/
def evalDistricts (ev : PropEval) (seatsOf : Cty → Nat) (cv : CVotes) : Except Err (List (Cty × Dist)) :=
  let step (acc : Except Err (List (Cty × Dist) × List Cty)) (d : Cty × Votes) :
      Except Err (List (Cty × Dist) × List Cty) := do
    let (res, empties) ← acc
    match seatsOf d.1 with
    | 0 => pure (res, empties ++ [d.1])
    | k => do
      let r ← ev d.2 k [] []
      pure (res ++ [(d.1, r)], empties)
  match cv.foldl step (.ok ([], [])) with
  | .error e => .error e
  | .ok (res, empties) => .ok (res ++ empties.map (fun c => (c, [])))

/-- `ByConstituency(ev, apportioner={cty: seats}).evaluate(votes, n_seats)`: the seat counts are pre-set, `n_seats`
    is ignored; a constituency missing from the apportionment counts as zero seats -/
def byConstituencyFixed (ev : PropEval) (app : List (Cty × Nat)) : CtyEval := fun cv _ =>
  evalDistricts ev (fun c => natLookup app c 0) cv

/-- `ByConstituency(ev, apportioner=appEv).evaluate(votes, n_seats)` with an integer `n_seats`: the apportioner
    distributes `n_seats` over the constituencies by their vote totals (`apportion`, core.py); a constituency that only
    appears inside a `Tie` of the apportionment counts as zero seats -/
def byConstituencyApportioned (ev appEv : PropEval) : CtyEval := fun cv n => do
  let app ← appEv (cv.map (fun d => (d.1, sumVals d.2))) n [] []
  evalDistricts ev (fun c => distGet app (.cand c)) cv

/-- the parties of the proportional tier: keys of any constituency result (`prop_parties`) -/
def propParties (cres : List (Cty × Dist)) : List Key := cres.flatMap (fun d => d.2.map (·.1))

/-- one constituency's entry of the dict handed to `VoteTotals` in `lowest_allowed`: for the parties of the
    constituency result and for the tier parties that only hold direct seats there,
    `max(direct seats here, proportional seats here)` -/
def lowestCtyOne (tier : List Key) (res : Dist) (prevc : Seats) : Dist :=
  res.map (fun p => (p.1, max (prevGetKey prevc p.1) p.2)) ++
  prevc.filterMap (fun q =>
    if tier.contains (Key.cand q.1) && !(distHas res (.cand q.1)) then some (Key.cand q.1, max q.2 0) else none)

/-- `lowest_allowed` of the by-constituency variant: the per-constituency minima summed over the
    constituencies by `VoteTotals` -/
def lowestAllowedCty (cres : List (Cty × Dist)) (prev : CSeats) : Dist :=
  cres.foldl (fun all d =>
    (lowestCtyOne (propParties cres) d.2 (ctyPrev prev d.1)).foldl
      (fun acc p => setK acc p.1 (distGet acc p.1 + p.2)) all) []

/-- `nonprop_drop` of the by-constituency variant -/
def nonpropDropCty (lowest : Dist) (prev : CSeats) : Nat :=
  prev.foldl (fun acc d => d.2.foldl (fun a p => if distHas lowest (.cand p.1) then a else a + p.2) acc) 0

def isTieKey : Key → Bool
  | .tie _ => true
  | .cand _ => false

/-- `Tie.any(cty_prop_seats)` for some constituency -/
def hasTieCty (cres : List (Cty × Dist)) : Bool := cres.any (fun d => d.2.any (fun p => isTieKey p.1))

/-- `LevelOverhangByConstituency.calculate(votes, n_seats, prev_gains)` with `max_seats = {}`, for an arbitrary way
    `ovAt h` of obtaining the overall distribution of `h` seats.  Unlike `LevelOverhang`, the first overall evaluation
    is already made at `n_seats - nonprop_drop`. -/
def levelOverhangCtyAt (cev : CtyEval) (ovAt : Nat → Except Err Dist) (fuel : Nat) (cv : CVotes) (n : Nat)
    (prev : CSeats) : Except Err Nat := do
  let cres ← cev cv n
  -- a tie inside a constituency result is refused: a tied seat has no owner, hence no minimum to level against
  if hasTieCty cres then .error .votingSystemError else do
  let lowest := lowestAllowedCty cres prev
  let drop := nonpropDropCty lowest prev
  if n < drop then .error unmodelled else do
  let prop ← ovAt (n - drop)
  let h ← levelLoop ovAt lowest fuel (n - drop) prop
  pure (h + drop - n)

/-- … with `overall_evaluator=ov` given: it evaluates the nationwide vote totals -/
def levelOverhangCty (cev : CtyEval) (ov : PropEval) (fuel : Nat) (cv : CVotes) (n : Nat) (prev : CSeats) :
    Except Err Nat :=
  levelOverhangCtyAt cev (fun h => ov (voteTotals cv) h [] []) fuel cv n prev

/-- `MergedDistributions().convert` of a by-constituency result -/
def mergeDists (r : List (Cty × Dist)) : Dist := r.foldl (fun acc d => addDist acc d.2) []

/-- … with the default `overall_evaluator=None`: `PostConverted(constituency_evaluator, MergedDistributions())` on the
    votes by constituency -/
def levelOverhangCtyDefault (cev : CtyEval) (fuel : Nat) (cv : CVotes) (n : Nat) (prev : CSeats) : Except Err Nat :=
  levelOverhangCtyAt cev (fun h => (cev cv h).map mergeDists) fuel cv n prev

/-! ### ByParty as the distributing evaluator, and the depth-2 two-stage wrapper (DE example) -/

/-- nested result: constituency key -> party key -> seats -/
abbrev NDist := List (Key × Dist)

def ndGet (r : NDist) (k : Key) : Dist :=
  match r.find? (fun p => p.1 = k) with
  | some p => p.2
  | none => []

def ndSet : NDist → Key → Dist → NDist
  | [], k, v => [(k, v)]
  | p :: ps, k, v => if p.1 = k then (k, v) :: ps else p :: ndSet ps k v

/-- votes of one party in a constituency: `sum(SubsettedVotes().convert(cvotes, [party]).values())` (core.py L1171-1175);
    a `Tie` "party" matches no vote -/
def partyVotesIn (vs : Votes) : Key → Rat
  | .cand c => getD vs c 0
  | .tie _ => 0

/-- `{constituency: cg[party] for constituency, cg in prev_gains.items() if party in cg}` (core.py L1177-1180) -/
def partyPrev (prev : CSeats) : Key → Seats
  | .cand c => prev.filterMap (fun d =>
      match d.2.find? (fun q => q.1 = c) with
      | some q => some (d.1, q.2)
      | none => none)
  | .tie _ => []

/-- `results[constituency][party] = cseats` for every constituency of one party's allocation (core.py, last loop of
    `ByParty.evaluate`) -/
def writeParty (party : Key) (allocated : Dist) (res : NDist) : NDist :=
  allocated.foldl (fun res a => ndSet res a.1 (setK (ndGet res a.1) party a.2)) res

/-- one party of the overall result: its votes and previous gains by constituency, the allocator, the rows -/
def byPartyStep (alloc : PropEval) (cv : CVotes) (prev : CSeats) (acc : Except Err NDist) (e : Key × Nat) :
    Except Err NDist := do
  let results ← acc
  let pv : Votes := cv.map (fun d => (d.1, partyVotesIn d.2 e.1))
  let allocated ← alloc pv e.2 (partyPrev prev e.1) []
  pure (writeParty e.1 allocated results)

/-- `for constituency in votes.keys(): if constituency not in results: results[constituency] = {}` -/
def addEmptyRows (cv : CVotes) (results : NDist) : NDist :=
  cv.foldl (fun res d => if res.any (fun p => p.1 = Key.cand d.1) then res else res ++ [(Key.cand d.1, [])]) results

/-- `ByParty(overall_evaluator=ov, allocator=alloc).evaluate(votes, n_seats, prev_gains)` on simple votes,
    `max_seats = {}`: the overall evaluator sees neither previous gains nor caps. -/
def byParty (ov alloc : PropEval) (cv : CVotes) (n : Nat) (prev : CSeats) : Except Err NDist := do
  let overall ← ov (voteTotals cv) n [] []
  let results ← overall.foldl (byPartyStep alloc cv prev) (.ok [])
  pure (addEmptyRows cv results)

/-- a by-constituency `SeatCountCalculator.calculate` -/
abbrev CCalc := CVotes → Nat → CSeats → Except Err Nat

/-- `AdjustedSeatCount(calculator, ByParty(ov', alloc)).evaluate(votes, n, prev_gains)` -/
def adjustedByParty (calcr : CCalc) (ov' alloc : PropEval) (cv : CVotes) (n : Nat) (prev : CSeats) :
    Except Err NDist := do
  let adj ← calcr cv n prev
  byParty ov' alloc cv (n + adj) prev

def cseatsToNDist (s : CSeats) : NDist := s.map (fun d => (Key.cand d.1, seatsToDist d.2))

/-- `_add_stage_results(elected, stage_res, depth=2)` (core.py L337-346), up to the order of the constituencies -/
def addNDist (e r : NDist) : NDist :=
  r.foldl (fun acc d => ndSet acc d.1 (addDist (ndGet acc d.1) d.2)) e

def ndToCSeats : NDist → Option CSeats
  | [] => some []
  | (Key.cand c, d) :: ps =>
    match distToSeats d, ndToCSeats ps with
    | some s, some r => some ((c, s) :: r)
    | _, _ => none
  | (Key.tie _, _) :: _ => none

/-- `MultistageDistributor([stages yielding direct seats by constituency …,
    AdjustedSeatCount(calculator, ByParty)], depth=2).evaluate(votes, n)`: one or more fixed-outcome stages first -/
def multistageDE (directs : List CSeats) (calcr : CCalc) (ov' alloc : PropEval) (cv : CVotes) (n : Nat) :
    Except Err NDist :=
  let elected := directs.foldl (fun e d => addNDist e (cseatsToNDist d)) []
  match ndToCSeats elected with
  | none => .error unmodelled
  | some prev =>
    match adjustedByParty calcr ov' alloc cv n prev with
    | .ok res => .ok (addNDist elected res)
    | .error e => .error e

end VL.OH
