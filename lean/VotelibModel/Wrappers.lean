/-
  VotelibModel.Wrappers — deep embedding of votelib's composition wrappers
  (votelib/evaluate/core.py, votelib/convert.py, votelib/__init__.py) for property C14.

  * `V`      nested Python values (numbers, candidates, ties, None, lists, dicts in insertion order)
  * `Args`   one call `evaluate(votes, n_seats=?, prev_gains=?, max_seats=?, party_lists=?, list_votes=?)`;
             `Option.none` = argument omitted, `some V.none` = explicit `None`
  * `Conv`   converters (convert.py), with an abstract `custom` constructor
  * `Ev`     evaluator trees: one constructor per wrapper, leaves are ABSTRACT (`leaf sig f`)
  * `*Impl`  one combinator per wrapper mirroring the Python method, the signature-based dispatch flags
             (`accepts_seats`, `accepts_prev_gains`) being explicit Boolean parameters
  * `eval`   the interpreter: `*Impl` with the flags computed per constructor as `inspect.signature` does
  * `*Law`   one combinator per wrapper written from the property statement; no dispatch flags
  * `denote` the compositional semantics assembled from the laws

  Import-free apart from VotelibModel.Core.  Ties are kept canonical (members sorted ascending) by the
  leaves, so list equality of members is `frozenset` equality.
-/
import VotelibModel.Core
namespace VL.C14
open VL

/-! ## values -/

inductive V where
  | num (r : Rat)
  | cand (c : Cand)
  | tie (cs : List Cand)
  | none
  | list (l : List V)
  | dict (kvs : List (Key × V))
deriving Inhabited

/-- body of a Python dict with hashable atom keys, insertion order -/
abbrev D := List (Key × V)

def eType : Err := .other "TypeError"
def eAttr : Err := .other "AttributeError"
def eKey  : Err := .other "KeyError"
def eStop : Err := .other "StopIteration"
def eZeroDiv : Err := .other "ZeroDivisionError"

namespace V

/-- `.items()` / `.values()` / `.keys()` / `.get` exist only on dicts -/
def items : V → Except Err D
  | .dict kvs => .ok kvs
  | _ => .error eAttr

def asNum : V → Except Err Rat
  | .num r => .ok r
  | _ => .error eType

/-- a hashable atom used as dict key / list member -/
def toKey? : V → Option Key
  | .cand c => some (.cand c)
  | .tie cs => some (.tie cs)
  | _ => Option.none

def ofKey : Key → V
  | .cand c => .cand c
  | .tie cs => .tie cs

def isTie : V → Bool
  | .tie _ => true
  | _ => false

/-- Python truthiness of the values that occur as `list_votes` -/
def truthy : V → Bool
  | .none => false
  | .dict [] => false
  | .list [] => false
  | .num r => r != 0
  | _ => true

/-- `for x in v` -/
def iter : V → Except Err (List V)
  | .list l => .ok l
  | .dict kvs => .ok (kvs.map (fun p => ofKey p.1))
  | .tie cs => .ok (cs.map V.cand)
  | _ => .error eType

end V

def keyIsTie : Key → Bool
  | .tie _ => true
  | .cand _ => false

namespace D

def get? (d : D) (k : Key) : Option V :=
  match d.find? (fun p => p.1 = k) with
  | some p => some p.2
  | Option.none => Option.none

def has (d : D) (k : Key) : Bool := d.any (fun p => p.1 = k)

/-- `d[k] = v` : in place when the key exists, appended otherwise -/
def set (d : D) (k : Key) (v : V) : D :=
  if d.has k then d.map (fun p => if p.1 = k then (k, v) else p) else d ++ [(k, v)]

def del (d : D) (k : Key) : D := d.filter (fun p => p.1 ≠ k)

end D

/-- `sum(d.values())` -/
def sumVals (d : D) : Except Err Rat :=
  d.foldlM (fun acc p => do let x ← p.2.asNum; pure (acc + x)) 0

/-- util.add_dict_to_dict (util.py L19-23) -/
def addDict (d1 d2 : D) : Except Err D :=
  d2.foldlM (fun acc p => do
    let x ← ((acc.get? p.1).getD (.num 0)).asNum
    let y ← p.2.asNum
    pure (acc.set p.1 (.num (x + y)))) d1

/-- `vote in subset` for the SimpleSubsetter (vote.py L589-597): subset is a list, a Tie or a dict -/
def keyIn (k : Key) : V → Except Err Bool
  | .list l => .ok (l.any (fun x => x.toKey? = some k))
  | .tie cs => .ok (match k with | .cand c => cs.contains c | .tie _ => false)
  | .dict kvs => .ok (D.has kvs k)
  | _ => .error eType

/-- convert.SubsettedVotes(SimpleSubsetter()).convert(votes, subset), depth 0 (convert.py L938-955):
    keeps the entries whose key is in `subset`; `sub[vote] += n` needs numbers -/
def subsetVotes (votes subset : V) : Except Err V := do
  let kvs ← votes.items
  let kept ← kvs.filterMapM (fun p => do
    let b ← keyIn p.1 subset
    if b then do let _ ← p.2.asNum; pure (some p) else pure Option.none)
  pure (.dict kept)

/-- convert.VoteTotals.convert (convert.py L732-743) -/
def voteTotals (v : V) : Except Err V := do
  let kvs ← v.items
  let r ← kvs.foldlM (fun acc p => do let d ← p.2.items; addDict acc d) ([] : D)
  pure (.dict r)

/-- convert.ConstituencyTotals / PartyTotals (convert.py L753-764, L777-788) -/
def constituencyTotals (v : V) : Except Err V := do
  let kvs ← v.items
  let r ← kvs.mapM (fun p => do let d ← p.2.items; let s ← sumVals d; pure (p.1, V.num s))
  pure (.dict r)

/-- convert.MergedDistributions.convert (convert.py L704-721) -/
def mergedDistributions (v : V) : Except Err V := do
  let parts ← match v with
    | .dict kvs => pure (kvs.map (·.2))
    | .list l => pure l
    | _ => throw eType
  let r ← parts.foldlM (fun acc p => do let d ← p.items; addDict acc d) ([] : D)
  pure (.dict r)

/-- convert.SelectionToDistribution.convert (convert.py L648-650): `{cand: amount for cand in elected}` -/
def selectionToDistribution (amount : V) (v : V) : Except Err V := do
  let l ← v.iter
  let r ← l.foldlM (fun (acc : D) x => match x.toKey? with
    | some k => pure (acc.set k amount)
    | Option.none => throw eType) []
  pure (.dict r)

/-- convert.InvertedSimpleVotes.convert (convert.py L520-523) -/
def invertedSimpleVotes (v : V) : Except Err V := do
  let kvs ← v.items
  let r ← kvs.mapM (fun p => do let x ← p.2.asNum; pure (p.1, V.num (-x)))
  pure (.dict r)

/-- `ranks[cand].append(max_rank - i)` on an insertion-ordered dict (convert.MergedSelections._get_ranks) -/
def addRank (acc : List (Key × List Nat)) (k : Key) (r : Nat) : List (Key × List Nat) :=
  if acc.any (fun p => p.1 = k) then acc.map (fun p => if p.1 = k then (p.1, p.2 ++ [r]) else p) else acc ++ [(k, [r])]

/-- stable `sorted(..., key=(-len(ranks), -sum(ranks)))`: `x` goes before the first entry it strictly beats -/
def insertRanked (x : Key × List Nat) : List (Key × List Nat) → List (Key × List Nat)
  | [] => [x]
  | y :: ys =>
      if x.2.length > y.2.length ∨ (x.2.length = y.2.length ∧ x.2.foldl (· + ·) 0 > y.2.foldl (· + ·) 0)
      then x :: y :: ys else y :: insertRanked x ys

/-- convert.MergedSelections.convert (convert.py L663-692): the candidates of all partial selections, ordered by the
    number of selections naming them, then by their summed positions from the end; ties keep the order of first
    appearance, i.e. THE ORDER OF THE PARTIAL RESULTS -/
def mergedSelections (v : V) : Except Err V := do
  let parts ← match v with
    | .dict kvs => pure (kvs.map (·.2))
    | .list l => pure l
    | _ => throw eType
  let ranks ← parts.foldlM (fun acc p => do
    let l ← p.iter        -- `len(clist)`, `enumerate(clist)`: a list, or the keys of an (empty) dict result
    let m := l.length - 1
    (l.zipIdx).foldlM (fun acc xi => match xi.1.toKey? with
      | some k => pure (addRank acc k (m - xi.2))
      | Option.none => throw eType) acc) ([] : List (Key × List Nat))
  pure (.list ((ranks.foldl (fun sorted x => insertRanked x sorted) []).map (fun p => V.ofKey p.1)))

/-! ## converters -/

inductive Conv where
  | voteTotals
  | constituencyTotals
  | mergedDistributions
  | mergedSelections
  | selectionToDistribution (amount : V)
  | invertedSimpleVotes
  | byConstituency (c : Conv)
  | chain (cs : List Conv)
  | custom (f : V → Except Err V)

mutual
/-- `converter.convert(v)` -/
def Conv.run : Conv → V → Except Err V
  | .voteTotals, v => C14.voteTotals v
  | .constituencyTotals, v => C14.constituencyTotals v
  | .mergedDistributions, v => C14.mergedDistributions v
  | .mergedSelections, v => C14.mergedSelections v
  | .selectionToDistribution amount, v => C14.selectionToDistribution amount v
  | .invertedSimpleVotes, v => C14.invertedSimpleVotes v
  | .byConstituency c, v => do            -- convert.py L800-812
      let kvs ← v.items
      let r ← kvs.mapM (fun p => do let x ← Conv.run c p.2; pure (p.1, x))
      pure (.dict r)
  | .chain cs, v => Conv.runChain cs v     -- convert.py L973-977
  | .custom f, v => f v
def Conv.runChain : List Conv → V → Except Err V
  | [], v => pure v
  | c :: cs, v => do let x ← Conv.run c v; Conv.runChain cs x
end

/-! ## calls -/

structure Args where
  votes : V
  n : Option V := Option.none
  prev : Option V := Option.none
  max : Option V := Option.none
  /-- `party_lists` -/
  pl : Option V := Option.none
  /-- `list_votes` -/
  lv : Option V := Option.none
deriving Inhabited

/-- which optional arguments an `evaluate` method can be given without a binding `TypeError` -/
structure Sig where
  seats : Bool
  prev : Bool
  max : Bool
  /-- `party_lists` / `list_votes` -/
  ext : Bool := false
  /-- `n_seats` is a REQUIRED parameter (no default): the evaluator cannot be called without a seat count
      argument (only meaningful when `seats`) -/
  needs : Bool := false
deriving DecidableEq, Repr, Inhabited

abbrev Sem := Args → Except Err V

namespace Args

def fits (a : Args) (s : Sig) : Bool :=
  (a.n.isNone || s.seats) && (a.prev.isNone || s.prev) && (a.max.isNone || s.max)
    && ((a.pl.isNone && a.lv.isNone) || s.ext)

/-- drop the arguments the callee does not take (what one does when calling a part by hand) -/
def restrict (a : Args) (s : Sig) : Args :=
  { votes := a.votes
    n := if s.seats then a.n else Option.none
    prev := if s.prev then a.prev else Option.none
    max := if s.max then a.max else Option.none
    pl := if s.ext then a.pl else Option.none
    lv := if s.ext then a.lv else Option.none }

def noExt (a : Args) : Bool := a.pl.isNone && a.lv.isNone

end Args

/-- Python binds the call against the signature first: an unexpected argument is a `TypeError` -/
def strict (s : Sig) (f : Sem) : Sem := fun a => if a.fits s then f a else .error eType

/-- calling a part by hand: give it what it takes -/
def tol (s : Sig) (f : Sem) : Sem := fun a => f (a.restrict s)

/-! ## evaluator trees -/

/-- the `apportioner` argument of ByConstituency / PreApportioned -/
inductive App (α : Type) where
  | none
  | int (k : Rat)
  | dict (d : D)
  | ev (e : α)

/-- a quota function applied to `(sum of votes, n_seats)`; `n_seats` arrives as a number -/
abbrev QuotaFn := Rat → Rat → Except Err Rat

/-- an open list evaluator: `(list_votes[party], n_party_seats, party_lists[party])` -/
abbrev ListSem := V → V → V → Except Err V

inductive Ev where
  | leaf (sig : Sig) (f : Sem)
  | fixedSeatCount (e : Ev) (n : V)
  | tieBreaking (main tb : Ev)
  | conditioned (elim e : Ev) (depth : Nat)
  | preConverted (c : Conv) (e : Ev)
  | postConverted (e : Ev) (c : Conv)
  | byConstituency (e : Ev) (app : App Ev) (pre : Option Ev)
  | preApportioned (e : Ev) (app : App Ev)
  | removedApportionment (e : Ev)
  | byParty (overall : Ev) (alloc : Option Ev)
  | multistage (rounds : List Ev) (depth : Nat)
  | unusedVotes (rounds : List Ev) (quotas : List QuotaFn) (depth : Nat)
  | partyList (party : Ev) (listEval : Option ListSem) (conv : Option Conv)
  | votingSystem (e : Ev)

/-! ## signature-based dispatch (core.py L1315-1344) — hard-coded per class as `inspect.signature` reports -/

/-- `accepts_seats(evaluator)` after commit e582ee8: class attribute `accepts_seats` (FixedSeatCount:
    False), else a parameter named `n_seats`, else for a generic `*args/**kwargs` signature the answer of
    the attribute `evaluator` / `main` -/
def acceptsSeats : Ev → Bool
  | .leaf sig _ => sig.seats
  | .fixedSeatCount _ _ => false
  | .tieBreaking main _ => acceptsSeats main     -- (votes, *args, **kwargs), attribute `main`
  | .preConverted _ e => acceptsSeats e          -- (votes, *args, **kwargs), attribute `evaluator`
  | .postConverted e _ => acceptsSeats e
  | .votingSystem e => acceptsSeats e            -- (*args, **kwargs)
  | .conditioned _ _ _ => true
  | .byConstituency _ _ _ => true
  | .preApportioned _ _ => true
  | .removedApportionment _ => true
  | .byParty _ _ => true
  | .multistage _ _ => true
  | .unusedVotes _ _ _ => true
  | .partyList _ _ _ => true

/-- `accepts_prev_gains(evaluator)` = `_accepts_keyword(evaluator, 'prev_gains')` after e582ee8: a
    parameter of that name, else for a generic signature the answer of the attribute `evaluator` / `main` /
    `party_eval`, else False -/
def acceptsPrevGains : Ev → Bool
  | .leaf sig _ => sig.prev
  | .fixedSeatCount e _ => acceptsPrevGains e      -- (votes, **kwargs), attribute `evaluator`
  | .tieBreaking main _ => acceptsPrevGains main   -- attribute `main`
  | .preConverted _ e => acceptsPrevGains e
  | .postConverted e _ => acceptsPrevGains e
  | .votingSystem e => acceptsPrevGains e
  | .conditioned _ _ _ => true
  | .byConstituency _ _ _ => true
  | .preApportioned _ _ => true
  | .removedApportionment _ => true
  | .byParty _ _ => true
  | .multistage _ _ => true
  | .unusedVotes _ _ _ => true
  | .partyList p _ _ => acceptsPrevGains p   -- (votes, n_seats, *, party_lists, list_votes, **kwargs): `party_eval`

/-- `accepts_max_seats(evaluator)` = `_accepts_keyword(evaluator, 'max_seats')` (new in e582ee8).
    Conditioned names `prev_gains` but takes `max_seats` only through `**kwargs`: look-through -/
def acceptsMaxSeats : Ev → Bool
  | .leaf sig _ => sig.max
  | .fixedSeatCount e _ => acceptsMaxSeats e
  | .tieBreaking main _ => acceptsMaxSeats main
  | .preConverted _ e => acceptsMaxSeats e
  | .postConverted e _ => acceptsMaxSeats e
  | .votingSystem e => acceptsMaxSeats e
  | .conditioned _ e _ => acceptsMaxSeats e
  | .byConstituency _ _ _ => true
  | .preApportioned _ _ => true
  | .removedApportionment _ => true
  | .byParty _ _ => true
  | .multistage _ _ => true
  | .unusedVotes _ _ _ => true
  | .partyList p _ _ => acceptsMaxSeats p

/-- `seats_optional(evaluator)` (notes/fix_C14_cond_none_seats.diff): the parameter `n_seats` has a default;
    for a generic signature the answer of the attribute `evaluator` / `main`; True when there is no such
    parameter -/
def seatsOptional : Ev → Bool
  | .leaf sig _ => !(sig.seats && sig.needs)
  | .fixedSeatCount e _ => seatsOptional e        -- (votes, **kwargs), attribute `evaluator`
  | .tieBreaking main _ => seatsOptional main
  | .preConverted _ e => seatsOptional e
  | .postConverted e _ => seatsOptional e
  | .votingSystem e => seatsOptional e
  | .conditioned _ _ _ => true                    -- n_seats=None
  | .byConstituency _ _ _ => true
  | .preApportioned _ _ => true
  | .removedApportionment _ => true
  | .byParty _ _ => true
  | .multistage _ _ => false                      -- (votes, n_seats, prev_gains={}, max_seats={})
  | .unusedVotes _ _ _ => false
  | .partyList _ _ _ => false                     -- (votes, n_seats, *, party_lists, …)

/-! ### the flags as they were (kept for the witnesses of the repaired defects only) -/

/-- `accepts_seats` BEFORE commit e582ee8: `'n_seats' in params or _has_generic(params)` -/
def acceptsSeatsOld : Ev → Bool
  | .leaf sig _ => sig.seats
  | .fixedSeatCount _ _ => false
  | _ => true

/-- `accepts_prev_gains` BEFORE commit 904ccca (`'prev_gains' in signature.parameters`) -/
def acceptsPrevGainsOld : Ev → Bool
  | .leaf sig _ => sig.prev
  | .fixedSeatCount _ _ => false
  | .tieBreaking _ _ => false
  | .preConverted _ _ => false
  | .postConverted _ _ => false
  | .votingSystem _ => false
  | .partyList _ _ _ => false
  | _ => true

/-- `accepts_prev_gains` between 904ccca and e582ee8: looks through `evaluator` / `main`, not `party_eval` -/
def acceptsPrevGains904 : Ev → Bool
  | .leaf sig _ => sig.prev
  | .fixedSeatCount e _ => acceptsPrevGains904 e
  | .tieBreaking main _ => acceptsPrevGains904 main
  | .preConverted _ e => acceptsPrevGains904 e
  | .postConverted e _ => acceptsPrevGains904 e
  | .votingSystem e => acceptsPrevGains904 e
  | .partyList _ _ _ => false
  | _ => true

/-! ## shared helpers of the wrapper methods -/

/-- `Conditioned._sum_party_votes` (core.py L867-877); depth 1 is the identity -/
def sumParty : Nat → V → Except Err V
  | 0, v => pure v
  | 1, v => pure v
  | d + 1, v => do
      let kvs ← v.items
      let inner ← kvs.mapM (fun p => do let x ← sumParty d p.2; pure (p.1, x))
      voteTotals (.dict inner)

/-- `Conditioned._elim_party_votes` (core.py L879-894) -/
def elimParty : Nat → V → V → Except Err V
  | 0, v, passed => subsetVotes v passed
  | 1, v, passed => subsetVotes v passed
  | d + 1, v, passed => do
      let kvs ← v.items
      let r ← kvs.mapM (fun p => do let x ← elimParty d p.2 passed; pure (p.1, x))
      pure (.dict r)

/-- `core.apportion` (core.py L1484-1515); `n` is the wrapper's `n_seats` after its default `None` -/
def apportion (app : App Sem) (votes n : V) : Except Err V :=
  match app with
  | .int k => do
      let kvs ← votes.items
      pure (.dict (kvs.map (fun p => (p.1, V.num k))))
  | .dict d => pure (.dict d)
  | .ev ap =>
      match n with
      | .dict _ => pure n
      | _ => do
        let kvs ← votes.items
        let cv ← kvs.mapM (fun p => do let d ← p.2.items; let s ← sumVals d; pure (p.1, V.num s))
        match n with
        | .num _ => ap { votes := .dict cv, n := some n }
        | .none => ap { votes := .dict cv }
        | _ => throw .valueError
  | .none =>
      match n with
      | .dict _ => pure n
      | .num _ => do
        let kvs ← votes.items
        pure (.dict (kvs.map (fun p => (p.1, n))))
      | _ => throw .valueError

/-- `type(first_result)()` -/
def emptyLike : V → V
  | .list _ => .list []
  | .dict _ => .dict []
  | .num _ => .num 0
  | v => v

def isZero : V → Bool
  | .num r => r == 0
  | _ => false

def isNone : V → Bool
  | .none => true
  | _ => false

/-- `MultistageDistributor._copy_nested` (core.py L329-335) -/
def copyNested : Nat → V → Except Err V
  | 0, v => do let d ← v.items; pure (.dict d)
  | 1, v => do let d ← v.items; pure (.dict d)
  | d + 1, v => do
      let kvs ← v.items
      let r ← kvs.mapM (fun p => do let x ← copyNested d p.2; pure (p.1, x))
      pure (.dict r)

/-- `MultistageDistributor._add_stage_results` (core.py L337-346).  For depth > 1 Python walks
    `set(elected) | set(stage_res)` in hash order; the model takes the keys of `elected`, then the new
    ones (only the insertion order of the result depends on it). -/
def addStage : Nat → V → V → Except Err V
  | 0, el, st => do let a ← el.items; let b ← st.items; let r ← addDict a b; pure (.dict r)
  | 1, el, st => do let a ← el.items; let b ← st.items; let r ← addDict a b; pure (.dict r)
  | d + 1, el, st => do
      let a ← el.items
      let b ← st.items
      let ks := a.map (·.1) ++ (b.map (·.1)).filter (fun k => !D.has a k)
      let r ← ks.mapM (fun k => do
        let x ← addStage d ((D.get? a k).getD (.dict [])) ((D.get? b k).getD (.dict []))
        pure (k, x))
      pure (.dict r)

/-- `UnusedVotesDistributor._gained_seats` (core.py L459-470) -/
def gainedSeats : Nat → V → Except Err Rat
  | 0, v => do let d ← v.items; sumVals d
  | 1, v => do let d ← v.items; sumVals d
  | d + 1, v => do
      let kvs ← v.items
      kvs.foldlM (fun acc p => do let x ← gainedSeats d p.2; pure (acc + x)) 0

/-- `UnusedVotesDistributor._subtract_gained_seats` (core.py L443-457) -/
def subtractGained : Nat → V → V → Except Err V
  | depth, .dict nd, el => do
      match depth with
      | 0 => throw eType
      | d + 1 => do
        let eld ← el.items
        let r ← nd.mapM (fun p => do
          let x ← subtractGained d p.2 ((D.get? eld p.1).getD (.dict []))
          pure (p.1, x))
        pure (.dict r)
  | depth, .num n, el => do let g ← gainedSeats depth el; pure (.num (n - g))
  | _, _, _ => throw eType

/-- `UnusedVotesDistributor._use_votes` (core.py L410-441).  For depth > 1 and a non-dict `n_seats` the
    code builds `defaultdict(lambda: n_seats)` and then calls `.get(constituency, 0)`, which never
    consults the default factory: the quota is computed for 0 seats (modelled as written). -/
def useVotes (q : QuotaFn) : Nat → V → V → V → Except Err V
  | 0, _, _, _ => throw eType
  | 1, votes, el, n => do
      let vd ← votes.items
      let eld ← el.items
      let tot ← sumVals vd
      let nn ← n.asNum
      let qv ← q tot nn
      let r ← vd.mapM (fun p => do
        let x ← p.2.asNum
        let g ← ((D.get? eld p.1).getD (.num 0)).asNum
        let sub := qv * g
        if x < sub then throw .votingSystemError else pure (p.1, V.num (x - sub)))
      pure (.dict r)
  | d + 1, votes, el, n => do
      let vd ← votes.items
      let eld ← el.items
      let r ← vd.mapM (fun p => do
        let nd : V := match n with
          | .dict nkv => (D.get? nkv p.1).getD (.num 0)
          | _ => .num 0
        let x ← useVotes q d p.2 ((D.get? eld p.1).getD (.dict [])) nd
        pure (p.1, x))
      pure (.dict r)

/-! ## tie replacement (core.py L1438-1481) -/

/-- `ties[tie] += 1` on an insertion-ordered dict -/
def bumpTie (cs : List Cand) : List (List Cand × Nat) → List (List Cand × Nat)
  | [] => [(cs, 1)]
  | p :: ps => if p.1 = cs then (p.1, p.2 + 1) :: ps else p :: bumpTie cs ps

/-- `TieBreaking._collect_ties` on a selection: each distinct tie with its number of places, in order of
    first appearance -/
def collectSel (l : List V) : List (List Cand × Nat) :=
  l.foldl (fun acc x => match x with
    | .tie cs => bumpTie cs acc
    | _ => acc) []

/-- on a distribution: the Tie keys with their seat counts -/
def collectDist (d : D) : Except Err (List (List Cand × Rat)) :=
  d.filterMapM (fun p => match p.1 with
    | .tie cs => do let n ← p.2.asNum; pure (some (cs, n))
    | .cand _ => pure Option.none)

/-- `result[result.index(tie)] = cand` -/
def replaceFirst (tie : List Cand) (x : V) : List V → Option (List V)
  | [] => Option.none
  | y :: ys =>
      match y with
      | .tie cs => if cs = tie then some (x :: ys) else (replaceFirst tie x ys).map (y :: ·)
      | _ => (replaceFirst tie x ys).map (y :: ·)

/-- `TieBreaking._replace_sel_ties` (core.py L1475-1481) -/
def replaceSel (res : List V) (tie : List Cand) (repl : List V) : Except Err (List V) :=
  repl.foldlM (fun acc x => match replaceFirst tie x acc with
    | some r => pure r
    | Option.none => throw .valueError) res

/-- `TieBreaking._replace_distr_ties` (core.py L1466-1473) -/
def replaceDist (res : D) (tie : List Cand) (repl : List V) : Except Err D :=
  repl.foldlM (fun acc x => match x.toKey? with
    | some k => do
        let cur ← ((acc.get? k).getD (.num 0)).asNum
        pure (acc.set k (.num (cur + 1)))
    | Option.none => throw eType) (res.del (.tie tie))

/-! ## one combinator per wrapper, mirroring the Python method; dispatch flags are parameters -/

/-- FixedSeatCount.evaluate (core.py L1222-1234): `(votes, **kwargs)` -/
def fixedSeatCountImpl (n : V) (part : Sem) : Sem := fun a =>
  if a.n.isSome then .error eType else part { a with n := some n }

/-- TieBreaking.evaluate (core.py L1429-1450) -/
def tieBreakingImpl (main tb : Sem) : Sem := fun a => do
  let r ← main a
  match r with
  | .list l =>
      let ties := collectSel l
      let out ← ties.foldlM (fun res t => do
        let sub ← subsetVotes a.votes (.tie t.1)
        let broken ← tb { votes := sub, n := some (.num t.2) }
        let bl ← broken.iter
        replaceSel res t.1 bl) l
      pure (.list out)
  | .dict d =>
      if d.any (fun p => keyIsTie p.1) then do
        let ties ← collectDist d
        let out ← ties.foldlM (fun res t => do
          let sub ← subsetVotes a.votes (.tie t.1)
          let broken ← tb { votes := sub, n := some (.num t.2) }
          let bl ← broken.iter
          replaceDist res t.1 bl) d
        pure (.dict out)
      else pure r
  | .tie _ => pure r
  | _ => throw eType

/-- how "no seat count" (the wrapper's default `n_seats=None`) is written for a part: not at all, or as None
    if the part's `n_seats` is a required parameter; a given seat count is handed on as it is
    (`_passes_seats`, notes/fix_C14_cond_none_seats.diff) -/
def seatsForm (needs : Bool) (n : V) : Option V :=
  if isNone n then (if needs then some .none else Option.none) else some n

/-- Conditioned.evaluate (core.py L829-864): `(votes, n_seats=None, prev_gains={}, **kwargs)`; the main
    evaluator is called with `n_seats` only if `_passes_seats`: it accepts seats and (`n_seats is not None`
    or not `seats_optional(evaluator)`, flag `evOpt`) -/
def conditionedImpl (elimPrev evSeats evOpt evPrev : Bool) (elim part : Sem) (depth : Nat) : Sem := fun a => do
  let n := a.n.getD .none
  let prev := a.prev.getD (.dict [])
  let sv ← sumParty depth a.votes
  let sp ← sumParty depth prev
  let passed ← if elimPrev then elim { votes := sv, prev := some sp } else elim { votes := sv }
  let ev ← elimParty depth a.votes passed
  part { votes := ev
         n := if evSeats then seatsForm (!evOpt) n else Option.none
         prev := if evPrev then some prev else Option.none
         max := a.max, pl := a.pl, lv := a.lv }

/-- Conditioned.evaluate BEFORE that fix: the default `None` went to the main evaluator (witnesses only) -/
def conditionedImplOld (elimPrev evSeats evPrev : Bool) (elim part : Sem) (depth : Nat) : Sem := fun a => do
  let n := a.n.getD .none
  let prev := a.prev.getD (.dict [])
  let sv ← sumParty depth a.votes
  let sp ← sumParty depth prev
  let passed ← if elimPrev then elim { votes := sv, prev := some sp } else elim { votes := sv }
  let ev ← elimParty depth a.votes passed
  part { votes := ev
         n := if evSeats then some n else Option.none
         prev := if evPrev then some prev else Option.none
         max := a.max, pl := a.pl, lv := a.lv }

/-- PreConverted.evaluate (core.py L783-792) -/
def preConvertedImpl (c : V → Except Err V) (part : Sem) : Sem := fun a => do
  let v ← c a.votes
  part { a with votes := v }

/-- PostConverted.evaluate (core.py L753-763) -/
def postConvertedImpl (part : Sem) (c : V → Except Err V) : Sem := fun a => do
  let r ← part a
  c r

/-- one district of ByConstituency (`_evaluate_district`, core.py L997-1016); `none` = no value.
    `prev_gains` and `max_seats` are passed separately, each where accepted (e582ee8) -/
def districtImpl (evPrev evMax : Bool) (part : Sem) (presel : Option V) (dvotes nd prev max : V) :
    Except Err (Option V) :=
  if isZero nd then pure Option.none
  else do
    let dv ← match presel with
      | some ps => subsetVotes dvotes ps
      | Option.none => pure dvotes
    let r ← part { votes := dv, n := some nd
                   prev := if evPrev then some prev else Option.none
                   max := if evMax then some max else Option.none }
    pure (if isNone r then Option.none else some r)

/-- the results dict: evaluated districts, then the districts without a value with `result_type()` -/
def districtResults (rs : List (Key × Option V)) (kind : V) : V :=
  .dict (rs.filterMap (fun p => p.2.map (fun r => (p.1, r)))
         ++ rs.filterMap (fun p => match p.2 with
              | Option.none => some (p.1, kind)
              | some _ => Option.none))

/-- ByConstituency.evaluate (core.py L940-995, L1018-1028) after 9f4a9df: `apportionment.get(district, 0)`,
    `type(next(iter(results.values()), {}))` -/
def byConstituencyImpl (evPrev evMax preSeats preOpt : Bool) (part : Sem) (app : App Sem) (pre : Option Sem) : Sem :=
  fun a => do
  if !a.noExt then throw eType
  let n := a.n.getD .none
  let prev := a.prev.getD (.dict [])
  let max := a.max.getD (.dict [])
  let appo ← apportion app a.votes n
  let presel ← match pre with
    | Option.none => pure Option.none
    | some p => do
        let nat ← voteTotals a.votes
        let r ← p { votes := nat, n := if preSeats then seatsForm (!preOpt) n else Option.none }
        pure (some r)
  let kvs ← a.votes.items
  let rs ← kvs.mapM (fun p => do
    let ad ← appo.items
    let pd ← prev.items
    let md ← max.items
    let r ← districtImpl evPrev evMax part presel p.2 ((D.get? ad p.1).getD (.num 0))
              ((D.get? pd p.1).getD (.dict [])) ((D.get? md p.1).getD (.dict []))
    pure (p.1, r))
  pure (districtResults rs (match rs.findSome? (·.2) with
    | some first => emptyLike first
    | Option.none => .dict []))

/-- `_evaluate_district` BEFORE e582ee8: `prev_gains` and `max_seats` together (witnesses only) -/
def districtImplOld (evPrev : Bool) (part : Sem) (presel : Option V) (dvotes nd prev max : V) :
    Except Err (Option V) :=
  if isZero nd then pure Option.none
  else do
    let dv ← match presel with
      | some ps => subsetVotes dvotes ps
      | Option.none => pure dvotes
    let r ← if evPrev then part { votes := dv, n := some nd, prev := some prev, max := some max }
            else part { votes := dv, n := some nd }
    pure (if isNone r then Option.none else some r)

/-- ByConstituency.evaluate BEFORE 9f4a9df / e582ee8: `apportionment.get(district)` (None for a district
    the apportionment does not mention), `next(iter(results.values()))` (StopIteration when nothing was
    evaluated) — witnesses only -/
def byConstituencyImplOld (evPrev preSeats : Bool) (part : Sem) (app : App Sem) (pre : Option Sem) : Sem :=
  fun a => do
  if !a.noExt then throw eType
  let n := a.n.getD .none
  let prev := a.prev.getD (.dict [])
  let max := a.max.getD (.dict [])
  let appo ← apportion app a.votes n
  let presel ← match pre with
    | Option.none => pure Option.none
    | some p => do
        let nat ← voteTotals a.votes
        let r ← if preSeats then p { votes := nat, n := some n } else p { votes := nat }
        pure (some r)
  let kvs ← a.votes.items
  let rs ← kvs.mapM (fun p => do
    let ad ← appo.items
    let pd ← prev.items
    let md ← max.items
    let r ← districtImplOld evPrev part presel p.2 ((D.get? ad p.1).getD .none)
              ((D.get? pd p.1).getD (.dict [])) ((D.get? md p.1).getD (.dict []))
    pure (p.1, r))
  match rs.findSome? (·.2) with
  | Option.none => throw eStop
  | some first => pure (districtResults rs (emptyLike first))

/-- PreApportioned.evaluate (core.py L1058-1075) -/
def preApportionedImpl (part : Sem) (app : App Sem) : Sem := fun a => do
  if !a.noExt then throw eType
  let appo ← apportion app a.votes (a.n.getD .none)
  part { votes := a.votes, n := some appo
         prev := some (a.prev.getD (.dict [])), max := some (a.max.getD (.dict [])) }

/-- RemovedApportionment.evaluate (core.py L1092-1106) -/
def removedApportionmentImpl (part : Sem) : Sem := fun a => do
  if !a.noExt then throw eType
  let nd ← (a.n.getD .none).items
  let s ← sumVals nd
  part { votes := a.votes, n := some (.num s)
         prev := some (a.prev.getD (.dict [])), max := some (a.max.getD (.dict [])) }

/-- `{constituency: cg[party] for constituency, cg in gains.items() if party in cg}` -/
def columnEntry (party : Key) (p : Key × V) : Except Err (Option (Key × V)) := do
  let b ← keyIn party p.2
  if b then do
    let cg ← p.2.items
    match D.get? cg party with
    | some x => pure (some (p.1, x))
    | Option.none => throw eKey
  else pure Option.none

def partyColumn (gains : V) (party : Key) : Except Err V := do
  let g ← gains.items
  let r ← g.filterMapM (columnEntry party)
  pure (.dict r)

/-- `results[constituency][party] = cseats` on a defaultdict(dict) -/
def setNested (res : D) (c party : Key) (s : V) : Except Err D := do
  let inner ← ((res.get? c).getD (.dict [])).items
  pure (res.set c (.dict (D.set inner party s)))

/-- ByParty.evaluate (core.py L1140-1200); `overallSeats = accepts_seats(overall_evaluator)` decides whether
    `n_seats` is handed to the overall evaluator (e582ee8); the allocator gets the party's column of
    `prev_gains` / `max_seats` each only if it accepts it (5bf2df2) -/
def byPartyImpl (overallSeats overallOpt allocPrev allocMax : Bool) (overall allocator : Sem) : Sem := fun a => do
  if !a.noExt then throw eType
  let n := a.n.getD .none
  let prev := a.prev.getD (.dict [])
  let max := a.max.getD (.dict [])
  let ov ← voteTotals a.votes
  let ores ← overall { votes := ov, n := if overallSeats then seatsForm (!overallOpt) n else Option.none }
  let od ← ores.items
  let kvs ← a.votes.items
  let res ← od.foldlM (fun (res : D) pk => do
    let pv ← kvs.mapM (fun p => do
      let sub ← subsetVotes p.2 (.list [V.ofKey pk.1])
      let sd ← sub.items
      let s ← sumVals sd
      pure (p.1, V.num s))
    let pp ← if allocPrev then (do let x ← partyColumn prev pk.1; pure (some x)) else pure Option.none
    let pm ← if allocMax then (do let x ← partyColumn max pk.1; pure (some x)) else pure Option.none
    let allocated ← allocator { votes := .dict pv, n := some pk.2, prev := pp, max := pm }
    let ad ← allocated.items
    ad.foldlM (fun res cs => setNested res cs.1 pk.1 cs.2) res) []
  pure (.dict (kvs.foldl (fun res p => if D.has res p.1 then res else res ++ [(p.1, V.dict [])]) res))

/-- ByParty.evaluate BEFORE 5bf2df2 (`prev_gains` and `max_seats` together whenever `prev_gains` is accepted)
    and, with `overallSeats := true`, before e582ee8 — witnesses only -/
def byPartyImplOld (overallSeats allocPrev : Bool) (overall allocator : Sem) : Sem := fun a => do
  if !a.noExt then throw eType
  let n := a.n.getD .none
  let prev := a.prev.getD (.dict [])
  let max := a.max.getD (.dict [])
  let ov ← voteTotals a.votes
  let ores ← if overallSeats then overall { votes := ov, n := some n } else overall { votes := ov }
  let od ← ores.items
  let kvs ← a.votes.items
  let res ← od.foldlM (fun (res : D) pk => do
    let pv ← kvs.mapM (fun p => do
      let sub ← subsetVotes p.2 (.list [V.ofKey pk.1])
      let sd ← sub.items
      let s ← sumVals sd
      pure (p.1, V.num s))
    let allocated ← if allocPrev then do
        let pp ← partyColumn prev pk.1
        let pm ← partyColumn max pk.1
        allocator { votes := .dict pv, n := some pk.2, prev := some pp, max := some pm }
      else allocator { votes := .dict pv, n := some pk.2 }
    let ad ← allocated.items
    ad.foldlM (fun res cs => setNested res cs.1 pk.1 cs.2) res) []
  pure (.dict (kvs.foldl (fun res p => if D.has res p.1 then res else res ++ [(p.1, V.dict [])]) res))

/-- the per-stage votes: one dict for all rounds, or a list of them (core.py L320-322) -/
def stageVotes (k : Nat) : V → Except Err (List V)
  | .dict kvs => pure (List.replicate k (.dict kvs))
  | .list l => pure l
  | _ => throw eType

/-- the stage loop of MultistageDistributor.evaluate (core.py L322-327) -/
def multistageLoop (depth : Nat) (n max : V) : List (Sem × V) → V → Except Err V
  | [], el => pure el
  | (st, sv) :: rest, el => do
      let r ← st { votes := sv, n := some n, prev := some el, max := some max }
      let el' ← addStage depth el r
      multistageLoop depth n max rest el'

/-- MultistageDistributor.evaluate (core.py L303-327): `(votes, n_seats, prev_gains={}, max_seats={})` -/
def multistageImpl (stages : List Sem) (depth : Nat) : Sem := fun a => do
  if !a.noExt then throw eType
  let n ← match a.n with
    | some n => pure n
    | Option.none => throw eType
  let prev := a.prev.getD (.dict [])
  let max := a.max.getD (.dict [])
  let el ← copyNested depth prev
  let vs ← stageVotes stages.length a.votes
  multistageLoop depth n max (stages.zip vs) el

/-- the stage loop of UnusedVotesDistributor.evaluate (core.py L398-408) -/
def unusedLoop (depth : Nat) : List (Sem × Option QuotaFn) → V → V → V → Except Err V
  | [], _, _, el => pure el
  | (st, q) :: rest, votes, n, el => do
      let r ← st { votes := votes, n := some n }
      let el' ← addStage depth el r
      match q with
      | Option.none => unusedLoop depth rest votes n el'
      | some qf => do
          let votes' ← useVotes qf depth votes r n
          let n' ← subtractGained depth n r
          unusedLoop depth rest votes' n' el'

/-- `zip(self.rounds, self.quota_functions + [None])` -/
def zipQuotas : List Sem → List (Option QuotaFn) → List (Sem × Option QuotaFn)
  | s :: ss, q :: qs => (s, q) :: zipQuotas ss qs
  | _, _ => []

/-- UnusedVotesDistributor.evaluate (core.py L389-408) -/
def unusedVotesImpl (stages : List Sem) (quotas : List QuotaFn) (depth : Nat) : Sem := fun a => do
  if !a.noExt then throw eType
  let n ← match a.n with
    | some n => pure n
    | Option.none => throw eType
  let prev := a.prev.getD (.dict [])
  let max := a.max.getD (.dict [])
  let el ← copyNested depth prev          -- caf8ac3: `_copy_nested(prev_gains, depth)`
  if max.truthy then throw .notImplemented
  unusedLoop depth (zipQuotas stages (quotas.map some ++ [Option.none])) a.votes n el

def V.asNat (v : V) : Except Err Nat := do
  let r ← v.asNum
  if r.den = 1 ∧ 0 ≤ r.num then pure r.num.toNat else throw eType

/-- PartyListEvaluator.evaluate (core.py L1271-1312):
    `(votes, n_seats, *, party_lists, list_votes=None, **kwargs)` -/
def partyListImpl (party : Sem) (listEval : Option ListSem) (conv : Option (V → Except Err V)) : Sem :=
  fun a => do
  let n ← match a.n with
    | some n => pure n
    | Option.none => throw eType
  let pl ← match a.pl with
    | some x => pure x
    | Option.none => throw eType
  let lv := a.lv.getD .none
  let pr ← party { votes := a.votes, n := some n, prev := a.prev, max := a.max }
  let prd ← pr.items
  match listEval with
  | Option.none =>
      if lv.truthy then throw .valueError
      else do
        let r ← prd.mapM (fun p => do
          let pld ← match pl with
            | .dict d => pure d
            | _ => throw eType
          let lst ← match D.get? pld p.1 with
            | some (.list l) => pure l
            | some _ => throw eType
            | Option.none => throw eKey
          let k ← p.2.asNat
          pure (p.1, V.list (lst.take k)))
        pure (.dict r)
  | some le =>
      if !lv.truthy then throw .valueError
      else do
        let lv' ← match conv with
          | some c => c lv
          | Option.none => pure lv
        let r ← prd.mapM (fun p => do
          let lvd ← match lv' with
            | .dict d => pure d
            | _ => throw eType
          let pv ← match D.get? lvd p.1 with
            | some x => pure x
            | Option.none => throw eKey
          let pld ← match pl with
            | .dict d => pure d
            | _ => throw eType
          let lst ← match D.get? pld p.1 with
            | some x => pure x
            | Option.none => throw eKey
          let x ← le pv p.2 lst
          pure (p.1, x))
        pure (.dict r)

/-! ## the interpreter -/

mutual
/-- `tree.evaluate(**args)` as core.py computes it -/
def eval : Ev → Sem
  | .leaf sig f => strict sig f
  | .fixedSeatCount e n => fixedSeatCountImpl n (eval e)
  | .tieBreaking main tb => tieBreakingImpl (eval main) (eval tb)
  | .conditioned elim e depth =>
      conditionedImpl (acceptsPrevGains elim) (acceptsSeats e) (seatsOptional e) (acceptsPrevGains e)
        (eval elim) (eval e) depth
  | .preConverted c e => preConvertedImpl c.run (eval e)
  | .postConverted e c => postConvertedImpl (eval e) c.run
  | .byConstituency e app pre =>
      byConstituencyImpl (acceptsPrevGains e) (acceptsMaxSeats e)
        (match pre with | some p => acceptsSeats p | Option.none => false)
        (match pre with | some p => seatsOptional p | Option.none => true)
        (eval e)
        (match app with | .none => .none | .int k => .int k | .dict d => .dict d | .ev ap => .ev (eval ap))
        (match pre with | some p => some (eval p) | Option.none => Option.none)
  | .preApportioned e app =>
      preApportionedImpl (eval e)
        (match app with | .none => .none | .int k => .int k | .dict d => .dict d | .ev ap => .ev (eval ap))
  | .removedApportionment e => removedApportionmentImpl (eval e)
  | .byParty overall alloc =>
      match alloc with
      | some al =>
          byPartyImpl (acceptsSeats overall) (seatsOptional overall) (acceptsPrevGains al) (acceptsMaxSeats al)
            (eval overall) (eval al)
      | Option.none =>
          byPartyImpl (acceptsSeats overall) (seatsOptional overall) (acceptsPrevGains overall)
            (acceptsMaxSeats overall) (eval overall) (eval overall)
  | .multistage rounds depth => multistageImpl (evalList rounds) depth
  | .unusedVotes rounds quotas depth => unusedVotesImpl (evalList rounds) quotas depth
  | .partyList party le conv => partyListImpl (eval party) le (conv.map Conv.run)
  | .votingSystem e => eval e
def evalList : List Ev → List Sem
  | [] => []
  | e :: es => eval e :: evalList es
end

end VL.C14
