/-
  VotelibModel.StvFile — the candidate / ballot section of the STV file format of `votelib/io/stv.py` at TOKEN level
  (C19): nickname generation, candidate lines, the `ballots=` count, unordered ballot lines with multipliers, the `end`
  terminator.

  A text line is abstracted to what the two readers of the module see of it:
    * header phase (`_parse_header_line` L293-302 + the dispatch of `_load_system` L263-290): `HLine`;
    * ballot phase (`_iter_vote_lines` L314-333, `_parse_multiplier` L336-352): `VLine`.
  The harness splits a real text at its first `ballots=` line (as `_load_system` does), classifies the lines with
  Python's own predicates and compares writer and reader with this model.

  The system header (`title` / `method` / `quota` / `seats` / `random`) is modelled too: `dumpSys` mirrors `_dump_system`,
  `_dump_tveval`, `_dump_tiebreaker` (L88-151) on a tree of wrappers, `createSystem` mirrors `_create_system` /
  `_create_evaluator` / `_add_tiebreaker` / `_add_fixed_seats` (L393-485) on the collected header values and returns a
  summary (title, seats, quota, mandatory flag, tie-break) of the system that is built.

  NOT modelled: lexing (`#` comments, strip, split, `str(weight)`, `Fraction()/Decimal()/int()` of a multiplier,
  `str.isdigit` / `int()` of a header value — a value comes with these classifications, the regular expression and
  `str.lower` behind `_name_to_initials` — a candidate comes with its initials), `item.isdecimal()` / `int(item)` of an
  item of an ordered ballot line — the classification `cls` of item texts is a parameter of the reader.

  The ordered ballot format (`order=` header line, `_load_ordered_votes`) IS modelled.

  BLT mode IS modelled: the writer without a system (`method=blt`, `ballots=blt`, then `blt.dump_lines`), the reader
  after a `ballots=blt` line (`blt.load_lines` on the rest of the file, VotelibModel.Blt; seats, candidates and — when the
  header has none — the title of the BLT content replace those of the header, L244-262) and `method=blt`
  (UnknownEvaluator).
  Import-free (core Lean only).
-/
import VotelibModel.Core
import VotelibModel.Blt
namespace VL.StvFile
open VL

/-- the value of a `key=value` line as `_create_evaluator` looks at it: its text, `int(value)` when
    `value.isdecimal()` (`digits`; every decimal string is accepted by `int()`), and `int(value)` alone (`intv`, used
    for seats, which accepts signs) -/
structure SVal where
  text : String
  digits : Option Nat
  intv : Option Int
deriving DecidableEq, Repr, Inhabited

def SVal.word (s : String) : SVal := { text := s, digits := none, intv := none }
def SVal.num (n : Nat) : SVal := { text := toString n, digits := some n, intv := some n }

/-- header-phase view of a line -/
inductive HLine where
  | blank                                            -- empty or comment only
  | invalid                                          -- non-empty without '='
  | cand (withdrawn : Bool) (nick name : String)     -- candidate= / withdrawn= with `value.split(None, 1)` of length 2
  | candBad                                          -- ... of length < 2: refused
  | ballotsN (n : Nat)                               -- ballots=<digits>
  | ballotsBlt                                       -- ballots=blt
  | ballotsBad                                       -- ballots=<anything else>
  | order (nicks : List String)
  | other (key : String) (value : SVal)              -- system header keys
deriving DecidableEq, Repr, Inhabited

/-- first item of a ballot line -/
inductive First where
  | mult (r : Rat)          -- ends with 'X', the rest parses (digits / n.d / p/q)
  | multBad                 -- ends with 'X', the rest is refused (ValueError / InvalidOperation / ZeroDivisionError, all caught)
  | word (s : String)       -- anything else
deriving DecidableEq, Repr, Inhabited

/-- ballot-phase view of a line -/
inductive VLine where
  | blank
  | endLine                                  -- `line.strip() == 'end'`
  | items (first : First) (rest : List String)
deriving DecidableEq, Repr, Inhabited

/-- weight handed to the writer: its value and whether the multiplier written for it (`f'{n_votes}X'`, a Decimal in
    plain notation `format(n_votes, 'f')`) is one `_parse_multiplier` accepts (everything but non-finite Decimals, once
    negative weights are refused) -/
structure Weight where
  val : Rat
  spellable : Bool
deriving DecidableEq, Repr, Inhabited

/-- the candidate / ballot part of an election: candidates (name, withdrawn, initials as `_name_to_initials` gives
    them), ballots as lists of 0-based candidate positions with their weight -/
structure Doc (ω : Type) where
  cands : List (String × Bool × String)
  ballots : List (List Nat × ω)
deriving DecidableEq, Repr

/-! ### nicknames (stv.py L195-222) -/

def letterOf (d : Nat) : Char := Char.ofNat (97 + d % 26)

/-- `nick_letters` of `_ordinal_candidate_nicks` (L216-221): `nLetters` base-26 digits, least significant first -/
def ordinalNick : Nat → Nat → List Char
  | 0, _ => []
  | k + 1, i => letterOf i :: ordinalNick k (i / 26)

/-- `int(math.ceil(math.log(n) / math.log(26)))` for `n ≥ 1`: the least `k` with `26^k ≥ n` (searched up to `fuel`) -/
def nLettersFrom (n : Nat) : Nat → Nat → Nat
  | 0, k => k
  | fuel + 1, k => if 26 ^ k ≥ n then k else nLettersFrom n fuel (k + 1)
def nLetters (n : Nat) : Nat := max 1 (nLettersFrom n n 0)          -- `max(1, ...)`: one candidate still gets a letter

def ordinalNicks (n : Nat) : List String :=
  (List.range n).map (fun i => String.ofList (ordinalNick (nLetters n) i))

/-- the loop of `_candidate_nicks`: the first empty or repeated initials send everybody to ordinal nicks -/
def hasDupFrom : List String → List String → Bool
  | [], _ => false
  | s :: t, seen => if s = "" ∨ s ∈ seen then true else hasDupFrom t (seen ++ [s])

def candidateNicks (initials : List String) : List String :=
  if hasDupFrom initials [] then ordinalNicks initials.length else initials

/-! ### writer (`_dump_ballots` L154-171) -/

def nickAt (nicks : List String) (i : Nat) : String := (nicks[i]?).getD ""

/-- `n_votes != 1 or line in ('', 'end')`: the multiplier is written -/
def needMult (names : List String) (w : Weight) : Bool :=
  w.val ≠ 1 || names.isEmpty || names = ["end"]

/-- a written ballot line as the ballot-phase reader classifies it -/
def voteLine (nicks : List String) (b : List Nat × Weight) : VLine :=
  let names := b.1.map (nickAt nicks)
  if needMult names b.2 then
    VLine.items (if b.2.spellable then First.mult b.2.val else First.multBad) names
  else
    match names with
    | [] => VLine.blank                      -- unreachable: an empty ranking gets a multiplier
    | s :: rest => VLine.items (First.word s) rest

/-- the tie-breaker handed to `TieBreaking` as `_dump_tiebreaker` (L140-151) sees it -/
inductive Tb where
  | order                                   -- InputOrderSelector / CandidateNumberRanker
  | sortitor (seed : Option Nat)
  | pre (simpleConverter : Bool) (inner : Tb)      -- PreConverted(converter, evaluator); converter in RANKED_TO_SIMPLE?
  | unsupported
deriving DecidableEq, Repr, Inhabited

/-- the system handed to the writer, as `_dump_system` (L88-108) takes it apart -/
inductive Sys where
  | voting (name : Option (SVal × Bool)) (e : Sys)
                                            -- VotingSystem(name, evaluator); name None, or its text and whether the
                                            -- format can carry it (no '#', line break, edge whitespace: `_header_text`)
  | fixed (n : Nat) (e : Sys)               -- FixedSeatCount(evaluator, n)
  | tie (main : Sys) (tb : Tb) (defaultSubsetter : Bool := true)
                                            -- TieBreaking(main, tiebreaker, subsetter); is the subsetter the default one?
  | tv (retainerNone elimLast gregory : Bool) (quotaName : Option String) (mandatory : Bool)
       (acceptEqual : Bool := true) (selector : Bool := true)
                                            -- TransferableVoteSelector (selector) / Distributor; quotaName =
                                            -- quota_function.__name__ if any; accept_quota_equal
  | other                                   -- any other evaluator: nothing is written
deriving DecidableEq, Repr, Inhabited

def notSupported : Err := Err.other "NotSupportedInFormat"

/-- `_dump_tiebreaker` (L140-151) -/
def dumpTb : Tb → Except Err (List (String × SVal))
  | .pre ok inner => if ok then dumpTb inner else throw notSupported
  | .order => pure [("random", SVal.word "non")]
  | .sortitor (some n) => pure [("random", SVal.num n)]
  | .sortitor none => pure []
  | .unsupported => throw notSupported

/-- `_dump_tveval` (L111-131) with `output_method=True` -/
def dumpTv (retainerNone elimLast gregory : Bool) (quotaName : Option String) (mandatory : Bool) :
    Except Err (List (String × SVal)) := do
  if !retainerNone then throw notSupported
  if !elimLast then throw notSupported
  if !gregory then throw notSupported
  let q ← (match quotaName with
    | some n => if n = "droop" ∨ n = "hare" then pure [("quota", SVal.word n)] else throw notSupported
    | none => pure [])
  pure ([("method", SVal.word "BC")] ++ q ++ (if mandatory then [("quota", SVal.word "mandatory")] else []))

/-- `_dump_system` (L88-108) -/
def dumpSys : Sys → Except Err (List (String × SVal))
  | .voting none e => dumpSys e
  | .voting (some (name, ok)) e => do
      if !ok then throw notSupported
      let r ← dumpSys e
      pure (("title", name) :: r)
  | .fixed n e => do let r ← dumpSys e; pure (("seats", SVal.num n) :: r)
  | .tie m tb _ => do let r ← dumpSys m; let t ← dumpTb tb; pure (r ++ t)       -- the subsetter is not looked at
  | .tv a b c q m _ _ => dumpTv a b c q m            -- nor accept_quota_equal; a Distributor is written as a Selector (warning)
  | .other => pure []

/-- the `seats=` line for the `n_seats` argument of `dump_lines` (L74-75) -/
def argLines (arg : Option Nat) : List (String × SVal) := match arg with | some n => [("seats", SVal.num n)] | none => []

/-- `dump_lines` with a system (L72-76); `namesOK`: every candidate name is non-empty and can be carried
    (`_header_text(name, allow_empty=False)`); a negative ballot weight is refused (`_dump_ballots` L173-174, since
    7f49a3e).  `dump_lines` is a generator: whichever refusal comes first, `dumps` raises NotSupportedInSTV and returns
    no text. -/
def dumpStv (sys : Sys) (seatsArg : Option Nat) (namesOK : Bool) (d : Doc Weight) :
    Except Err (List HLine × List VLine) := do
  let sl ← dumpSys sys
  let arg := argLines seatsArg
  if !namesOK then throw notSupported
  if d.ballots.any (fun b => decide (b.2.val < 0)) then throw notSupported
  let nicks := candidateNicks (d.cands.map (·.2.2))
  let hdr := (sl ++ arg).map (fun p => HLine.other p.1 p.2)
    ++ (d.cands.zip nicks).map (fun p => HLine.cand p.1.2.1 p.2 p.1.1) ++ [HLine.ballotsN d.ballots.length]
  pure (hdr, d.ballots.map (voteLine nicks) ++ [VLine.endLine])

/-- `dump_lines` without a system (L77-82): `method=blt`, `ballots=blt`, then the BLT writer WITHOUT an election name;
    its refusals (NotSupportedInBLT: negative weight, unlisted candidate) come through -/
def dumpStvBlt (d : Blt.Doc Blt.Weight) : Except Err (List HLine × List Blt.Line) := do
  let ls ← Blt.dumpBlt { d with title := none }
  pure ([HLine.other "method" (SVal.word "blt"), HLine.ballotsBlt], ls)

/-! ### reader -/

/-- `nicks[nick] = cand` on an insertion-ordered dict -/
def nickSet : List (String × Nat) → String → Nat → List (String × Nat)
  | [], k, v => [(k, v)]
  | (k', v') :: t, k, v => if k' = k then (k', v) :: t else (k', v') :: nickSet t k v

/-! ### system header -/

/-- the collected system settings `syscomps`: every key at most once, `quota` at most twice (L300-306; the tuple
    branches of `_create_system` / `_create_evaluator` for other keys are dead code since then) -/
structure Comps where
  title : Option SVal := none
  method : Option SVal := none
  quota : Option (SVal × Option SVal) := none
  seats : Option SVal := none
  random : Option SVal := none
deriving DecidableEq, Repr, Inhabited

/-- L300-308: an unknown key, a repeated key other than quota, a third quota line are refused -/
def compsAdd (c : Comps) (k : String) (v : SVal) : Except Err Comps :=
  if k = "title" then (match c.title with | none => pure { c with title := some v } | some _ => throw Err.parseError)
  else if k = "method" then (match c.method with | none => pure { c with method := some v } | some _ => throw Err.parseError)
  else if k = "seats" then (match c.seats with | none => pure { c with seats := some v } | some _ => throw Err.parseError)
  else if k = "random" then (match c.random with | none => pure { c with random := some v } | some _ => throw Err.parseError)
  else if k = "quota" then
    (match c.quota with
     | none => pure { c with quota := some (v, none) }
     | some (a, none) => pure { c with quota := some (a, some v) }
     | some (_, some _) => throw Err.parseError)
  else throw Err.parseError

inductive Quota where
  | name (s : String)          -- votelib.component.quota.get(name)
  | const (n : Nat)            -- quota.constant(int)
  | unknown                    -- `method=blt`: UnknownEvaluator, which has no quota (a quota line is checked and dropped)
deriving DecidableEq, Repr, Inhabited

/-- what the system `_create_system` builds amounts to -/
structure Summary where
  title : Option String
  seats : Option Int
  quota : Quota
  mandatory : Bool
  random : Option (Option Nat)     -- none: no tie-breaker; some none: `random=non`; some (some n): Sortitor(seed=n)
deriving DecidableEq, Repr, Inhabited

/-- the names in `votelib.component.quota.QUOTAS` (checked against the registry by the harness) -/
def knownQuotas : List String :=
  ["hare", "hare_rounded", "droop", "hagenbach_bischoff", "hagenbach_bischoff_ceil", "hagenbach_bischoff_rounded", "imperiali"]

/-- `_create_system` L399-403 (a repeated title never gets here) -/
def sysTitle (c : Comps) : Option String := c.title.map (·.text)

/-- L415-423 -/
def sysMethod (c : Comps) : Except Err String :=
  match c.method with
  | none => throw Err.parseError                                   -- L420-421 `not method`
  | some v =>
      if v.text = "" then throw Err.parseError
      else if v.text = "BC" ∨ v.text = "GPCA2000" ∨ v.text = "blt" then pure v.text
      else throw Err.notImplemented

/-- L416-417 and L424-433: which quota setting is used, and whether `mandatory` was among them; with two settings
    one must be `mandatory`, the other (if any: `next(..., None)`) is the quota -/
def sysQuotaSel (method : String) (c : Comps) : Except Err (Option SVal × Bool) :=
  let quota0 : Option (SVal × Option SVal) :=
    if method = "GPCA2000" then some (SVal.word "droop", some (SVal.word "mandatory")) else c.quota
  match quota0 with
  | some (a, some b) =>
      let aM := decide (a.text = "mandatory")
      let bM := decide (b.text = "mandatory")
      if aM || bM then
        pure (if !aM then some a else if !bM then some b else none, true)
      else throw Err.parseError
  | some (a, none) => pure (some a, false)
  | none => pure (none, false)

/-- L434-444; with `method=blt` a missing quota is fine and a given one is only checked (L463-475) -/
def sysQuota (blt : Bool) : Option SVal → Except Err Quota
  | none => if blt then pure Quota.unknown else throw Err.parseError          -- 'quota setting not found'
  | some v =>
      match v.digits with
      | some n => pure (if blt then Quota.unknown else Quota.const n)
      | none => if knownQuotas.contains v.text then pure (if blt then Quota.unknown else Quota.name v.text)
                else throw Err.parseError

/-- L453-454, `_add_tiebreaker` (a value classified as decimal is neither empty nor 'non': the tests commute) -/
def sysRandom (c : Comps) : Except Err (Option (Option Nat)) :=
  match c.random with
  | none => pure none
  | some v =>
      match v.digits with
      | some n => pure (some (some n))
      | none => if v.text = "" then pure none
                else if v.text = "non" then pure (some none)
                else throw Err.parseError

/-- L455-456, `_add_fixed_seats` (`int('')` fails, so an empty value has no `intv`) -/
def sysSeats (c : Comps) : Except Err (Option Int) :=
  match c.seats with
  | none => pure none
  | some v =>
      match v.intv with
      | some z => pure (some z)
      | none => if v.text = "" then pure none else throw Err.parseError

/-- `_create_system(**syscomps)` with `_create_evaluator` -/
def createSystem (c : Comps) : Except Err Summary := do
  let method ← sysMethod c
  let (quota1, mandatory) ← sysQuotaSel method c
  let blt := decide (method = "blt")
  let quota ← sysQuota blt quota1
  let random ← sysRandom c
  let seats ← sysSeats c
  pure { title := sysTitle c, seats := seats, quota := quota, mandatory := !blt && mandatory, random := random }

/-- `{nick: nicks[nick] for nick in nick_orders}` (L276-282): the nick table in the order of the `order=` line (a
    repeated nickname keeps its first place); an unknown nickname is refused -/
def reorderNicks (nk : List (String × Nat)) : List String → List (String × Nat) → Except Err (List (String × Nat))
  | [], acc => pure acc
  | s :: t, acc =>
      match nk.lookup s with
      | some i => reorderNicks nk t (nickSet acc s i)
      | none => throw Err.parseError

/-- the `ballots=` branch of `_load_system` before the system is built: with a non-empty `order=` the nick table is
    reordered and the ballots are in the ordered format -/
def applyOrder (nk : List (String × Nat)) (ord : List String) : Except Err (List (String × Nat) × Bool) :=
  if ord.isEmpty then pure (nk, false) else do let nk' ← reorderNicks nk ord []; pure (nk', true)

/-- `_load_system` (L252-290): candidates, nick table, system settings, ballot count (`none`: `ballots=blt`), and
    whether the ballots are in the ordered format; `ord` = the nicknames of the last `order=` line so far -/
def loadHeader : List HLine → List (String × Bool) → List (String × Nat) → Comps → List String →
    Except Err (List (String × Bool) × List (String × Nat) × Summary × Option Nat × Bool)
  | [], _, _, _, _ => throw Err.parseError                                     -- L290: end of file before ballot data
  | .blank :: rest, cs, nk, sc, ord => loadHeader rest cs nk sc ord
  | .invalid :: _, _, _, _, _ => throw Err.parseError                          -- L302
  | .cand w nick name :: rest, cs, nk, sc, ord => loadHeader rest (cs ++ [(name, w)]) (nickSet nk nick cs.length) sc ord
  | .candBad :: _, _, _, _, _ => throw Err.parseError                       -- candidate line without a name
  | .ballotsN n :: _, cs, nk, sc, ord => do                                 -- L271-286: order first, then the system
      let (nk', o) ← applyOrder nk ord
      let sys ← createSystem sc
      pure (cs, nk', sys, some n, o)
  | .ballotsBlt :: _, cs, nk, sc, ord => do
      let (nk', o) ← applyOrder nk ord
      let sys ← createSystem sc
      pure (cs, nk', sys, none, o)
  | .ballotsBad :: _, _, nk, sc, ord => do      -- the order and the system are dealt with first
      let _ ← applyOrder nk ord
      let _ ← createSystem sc
      throw Err.parseError
  | .order l :: rest, cs, nk, sc, _ => loadHeader rest cs nk sc l                 -- L287-288 `nick_orders = value.split()`
  | .other k v :: rest, cs, nk, sc, ord => do let sc' ← compsAdd sc k v; loadHeader rest cs nk sc' ord

/-- `votes[vote] = add_weights(votes[vote], mult)` on a `defaultdict(int)` (io/core.py `add_weights`, since 134a849):
    the first multiplier as it is, every further one added exactly (Decimal through Fraction) — here: Rat -/
def addVote : List (List Nat × Rat) → List Nat → Rat → List (List Nat × Rat)
  | [], b, w => [(b, 0 + w)]
  | (b', w') :: t, b, w => if b' = b then (b', w' + w) :: t else (b', w') :: addVote t b w

/-- `tuple(nicks[item] for item in items)` (L385-388) -/
def lookupNicks (nk : List (String × Nat)) : List String → Except Err (List Nat)
  | [] => pure []
  | s :: t => match nk.lookup s with
    | some i => do let r ← lookupNicks nk t; pure (i :: r)
    | none => throw Err.parseError

/-- `_iter_vote_lines` (L314-333) feeding `_load_unordered_votes` (L378-390); `i` is the line index -/
def loadVotes (nk : List (String × Nat)) (n : Nat) : List VLine → Nat → List (List Nat × Rat) →
    Except Err (List (List Nat × Rat))
  | [], _, _ => throw Err.parseError                                     -- L333: no "end" terminator line
  | .endLine :: _, i, acc => if i ≠ n then throw Err.parseError else pure acc      -- L320-324
  | .blank :: rest, i, acc => loadVotes nk n rest (i + 1) acc
  | .items first more :: rest, i, acc =>
      match first with
      | .mult r => do
          let b ← lookupNicks nk more
          loadVotes nk n rest (i + 1) (addVote acc b r)
      | .multBad => throw Err.parseError
      | .word s => do
          let b ← lookupNicks nk (s :: more)
          loadVotes nk n rest (i + 1) (addVote acc b 1)

/-! ### ordered ballot format (`_load_ordered_votes`) -/

/-- an item of an ordered ballot line as L401-406 look at it: `item.isdecimal()` (with `int(item)`), the item `-`,
    anything else -/
inductive OItem where
  | rank (n : Nat)
  | dash
  | bad
deriving DecidableEq, Repr, Inhabited

/-- the item loop (L401-406): item number `i` ranks the `i`-th candidate of the (reordered) nick table; a number
    beyond the table and anything but `-` is refused -/
def ordItems (cls : String → OItem) (cands : List Nat) : Nat → List String → Except Err (List (Nat × Nat))
  | _, [] => pure []
  | i, s :: t =>
      match cls s, cands[i]? with
      | .rank r, some c => do let rest ← ordItems cls cands (i + 1) t; pure ((c, r) :: rest)
      | .dash, _ => ordItems cls cands (i + 1) t
      | _, _ => throw Err.parseError

/-- `cand_order.sort(key=itemgetter(1))`: stable -/
def insertRank (x : Nat × Nat) : List (Nat × Nat) → List (Nat × Nat)
  | [] => [x]
  | y :: ys => if x.2 < y.2 then x :: y :: ys else y :: insertRank x ys
def sortRank : List (Nat × Nat) → List (Nat × Nat)
  | [] => []
  | x :: xs => insertRank x (sortRank xs)

/-- one ordered ballot line (L399-412): the ranks given must be exactly 1..k -/
def ordVote (cls : String → OItem) (cands : List Nat) (items : List String) : Except Err (List Nat) := do
  let co ← ordItems cls cands 0 items
  let sorted := sortRank co
  if sorted.map (·.2) = (List.range sorted.length).map (· + 1) then pure (sorted.map (·.1))
  else throw Err.parseError

/-- `_iter_vote_lines` feeding `_load_ordered_votes` -/
def loadOrdered (cls : String → OItem) (cands : List Nat) (n : Nat) : List VLine → Nat → List (List Nat × Rat) →
    Except Err (List (List Nat × Rat))
  | [], _, _ => throw Err.parseError
  | .endLine :: _, i, acc => if i ≠ n then throw Err.parseError else pure acc
  | .blank :: rest, i, acc => loadOrdered cls cands n rest (i + 1) acc
  | .items first more :: rest, i, acc =>
      match first with
      | .mult r => do
          let b ← ordVote cls cands more
          loadOrdered cls cands n rest (i + 1) (addVote acc b r)
      | .multBad => throw Err.parseError
      | .word s => do
          let b ← ordVote cls cands (s :: more)
          loadOrdered cls cands n rest (i + 1) (addVote acc b 1)

/-- BLT mode of `load_lines` (L244-262) once the BLT content is read: the title of the content is used when the header
    has none and the content's is not empty, its seat count replaces a `seats=` line, and — since f06b201 — its
    candidates, which the ballots refer to, replace the header's whenever there are any -/
def bltMode (cs : List (String × Bool)) (sys : Summary) (d : Blt.Doc Rat) : Doc Rat × List (String × Bool) × Summary :=
  let cands := if d.cands.isEmpty then cs else d.cands
  ({ cands := cands.map (fun c => (c.1, c.2, "")), ballots := d.ballots }, cands,
   { sys with title := (match sys.title with
                        | some t => some t
                        | none => (match d.title with | some t => if t = "" then none else some t | none => none)),
              seats := some (d.nSeats : Int) })

/-- `load_lines` (L237-266) on a text split at its first `ballots=` line: the rest of the file as the own (unordered)
    ballot formats see it (`votes`; `cls` classifies the items of an ordered line) and as the BLT reader sees it
    (`blt`); only one of the views is looked at -/
def loadStv (cls : String → OItem) (hdr : List HLine) (votes : List VLine) (blt : List Blt.Line) :
    Except Err (Doc Rat × List (String × Bool) × Summary) := do
  let (cs, nk, sys, n?, ordered) ← loadHeader hdr [] [] {} []
  match n? with
  | some n => do
      let bs ← (if ordered then loadOrdered cls (nk.map (·.2)) n votes 0 [] else loadVotes nk n votes 0 [])
      pure ({ cands := cs.map (fun c => (c.1, c.2, "")), ballots := bs }, cs, sys)
  | none =>
      match Blt.loadBlt blt with
      | .error e => throw e                  -- BLTParseError is re-raised as STVParseError (both `Err.parseError`)
      | .ok d => pure (bltMode cs sys d)

/-! ### well-formedness for the round trip -/

def wfStv (d : Doc Weight) : Bool :=
  let nicks := candidateNicks (d.cands.map (·.2.2))
  d.ballots.all (fun b => b.1.all (· < d.cands.length) && decide (0 ≤ b.2.val)
        && (b.2.spellable || !needMult (b.1.map (nickAt nicks)) b.2))     -- the multiplier, where one is written, is readable
  && decide (d.ballots.map (·.1)).Nodup

def eraseDoc (d : Doc Weight) : Doc Rat :=
  { cands := d.cands.map (fun c => (c.1, c.2.1, "")), ballots := d.ballots.map (fun b => (b.1, b.2.val)) }


/-- the system shapes of the round-trip theorem: `VotingSystem(title, FixedSeatCount(TieBreaking(TransferableVoteSelector(
    quota, Gregory, mandatory), PreConverted(RankedToPresenceCounts, tie-breaker)), n))` with every wrapper optional -/
structure SysDoc where
  title : Option SVal              -- None: no title line is written
  seatsFixed : Option Nat
  seatsArg : Option Nat
  random : Option (Option Nat)
  quota : String
  mandatory : Bool
deriving DecidableEq, Repr

def SysDoc.toSys (d : SysDoc) : Sys :=
  let tv := Sys.tv true true true (some d.quota) d.mandatory
  let t := (match d.random with
    | none => tv
    | some none => Sys.tie tv (.pre true .order)
    | some (some n) => Sys.tie tv (.pre true (.sortitor (some n))))
  let f := (match d.seatsFixed with | some n => Sys.fixed n t | none => t)
  Sys.voting (d.title.map (fun v => (v, true))) f

/-- a quota the format names, seats given at most once (by the wrapper or by the argument) -/
def wfSys (d : SysDoc) : Bool :=
  (d.quota = "droop" || d.quota = "hare") && !(d.seatsFixed.isSome && d.seatsArg.isSome)

def SysDoc.summary (d : SysDoc) : Summary :=
  { title := d.title.map (·.text), seats := (d.seatsFixed.orElse (fun _ => d.seatsArg)).map (fun n => (n : Int)),
    quota := Quota.name d.quota, mandatory := d.mandatory, random := d.random }

/-! ### which systems the header carries: refused, unreadable, silently changed, complete

  `_dump_system` walks a chain of wrappers (VotingSystem, FixedSeatCount, TieBreaking) down to a transferable-vote
  evaluator — or to anything else, for which it writes NOTHING.  The functions below read off a tree, structurally, what
  the writer does with it; the theorems (VotelibProofs.Lemmas.StvSys) connect them with `dumpSys` and `createSystem`. -/

/-- `_dump_tiebreaker` raises: a converter outside RANKED_TO_SIMPLE, an evaluator it does not know -/
def tbRefused : Tb → Bool
  | .pre ok inner => !ok || tbRefused inner
  | .unsupported => true
  | _ => false

/-- the `random=` setting a tie-breaker is written as; `none`: nothing is written (a Sortitor without seed) -/
def tbMeaning : Tb → Option (Option Nat)
  | .pre _ inner => tbMeaning inner
  | .order => some none
  | .sortitor (some n) => some (some n)
  | .sortitor none => none
  | .unsupported => none

def rndVal : Option Nat → SVal
  | none => SVal.word "non"
  | some n => SVal.num n

def tbLines (tb : Tb) : List (String × SVal) := ((tbMeaning tb).toList).map (fun r => ("random", rndVal r))

/-- `_dump_tveval` raises: a retainer, an elimination step other than -1, a transferer other than Gregory, a named
    quota function other than droop / hare -/
def tvRefused (retainerNone elimLast gregory : Bool) (q : Option String) : Bool :=
  !retainerNone || !elimLast || !gregory || (match q with | some n => !(n = "droop" || n = "hare") | none => false)

/-- **refused**: `_dump_system` raises NotSupportedInSTV -/
def sysRefused : Sys → Bool
  | .voting none e => sysRefused e
  | .voting (some (_, ok)) e => !ok || sysRefused e
  | .fixed _ e => sysRefused e
  | .tie m tb _ => sysRefused m || tbRefused tb
  | .tv a b c q _ _ _ => tvRefused a b c q
  | .other => false

/-- the header lines of a system that is not refused -/
def linesOf : Sys → List (String × SVal)
  | .voting none e => linesOf e
  | .voting (some (t, _)) e => ("title", t) :: linesOf e
  | .fixed n e => ("seats", SVal.num n) :: linesOf e
  | .tie m tb _ => linesOf m ++ tbLines tb
  | .tv _ _ _ q m _ _ =>
      [("method", SVal.word "BC")] ++ (match q with | some n => [("quota", SVal.word n)] | none => [])
        ++ (if m then [("quota", SVal.word "mandatory")] else [])
  | .other => []

def titlesOf : Sys → List SVal
  | .voting none e => titlesOf e
  | .voting (some (t, _)) e => t :: titlesOf e
  | .fixed _ e => titlesOf e
  | .tie m _ _ => titlesOf m
  | _ => []

def seatsOf : Sys → List Nat
  | .voting _ e => seatsOf e
  | .fixed n e => n :: seatsOf e
  | .tie m _ _ => seatsOf m
  | _ => []

/-- the `random=` lines, innermost tie-breaker first -/
def randomsOf : Sys → List (Option Nat)
  | .voting _ e => randomsOf e
  | .fixed _ e => randomsOf e
  | .tie m tb _ => randomsOf m ++ (tbMeaning tb).toList
  | _ => []

/-- quota name and mandatory flag of the transferable-vote evaluator at the bottom, if there is one with a named quota -/
def leafQuota : Sys → Option (String × Bool)
  | .voting _ e => leafQuota e
  | .fixed _ e => leafQuota e
  | .tie m _ _ => leafQuota m
  | .tv _ _ _ (some q) m _ _ => some (q, m)
  | _ => none

/-- **readable**: the file written for a system that is not refused is one `_load_system` / `_create_system` accept —
    no setting twice (two titles; two seat counts, the `n_seats` argument included; two tie-breakers that are both
    written) and, at the bottom, a transferable-vote evaluator with a named quota (anything else leaves no `method=`
    line, a quota function without a name no `quota=` line) -/
def sysReadable (sys : Sys) (arg : Option Nat) : Bool :=
  decide ((titlesOf sys).length ≤ 1) && decide ((seatsOf sys ++ arg.toList).length ≤ 1)
    && decide ((randomsOf sys).length ≤ 1) && (leafQuota sys).isSome

/-- **silently changed**: a setting of the system that no header line stands for — a TieBreaking with a subsetter of
    its own, a Sortitor without seed (the tie-breaker disappears), `accept_quota_equal=False`, a
    TransferableVoteDistributor (read back as a Selector; the writer warns) -/
def lossy : Sys → Bool
  | .voting _ e => lossy e
  | .fixed _ e => lossy e
  | .tie m tb dflt => lossy m || !dflt || (tbMeaning tb).isNone
  | .tv _ _ _ _ _ acceptEqual selector => !acceptEqual || !selector
  | .other => false

/-- the settings the reader builds a system from, read off the tree -/
def summaryOf (sys : Sys) (arg : Option Nat) : Summary :=
  { title := (titlesOf sys).head?.map (·.text),
    seats := (seatsOf sys ++ arg.toList).head?.map (fun n => (n : Int)),
    quota := (match leafQuota sys with | some (q, _) => Quota.name q | none => Quota.unknown),
    mandatory := (match leafQuota sys with | some (_, m) => m | none => false),
    random := (randomsOf sys).head? }

/-- **written completely**: not refused, readable, nothing lost -/
def sysComplete (sys : Sys) (arg : Option Nat) : Bool := !sysRefused sys && sysReadable sys arg && !lossy sys

/-- the loaded settings `s` stand for all of the system -/
def Faithful (sys : Sys) (arg : Option Nat) (s : Summary) : Prop := s = summaryOf sys arg ∧ lossy sys = false

/-- the collected system settings, `syscomps`, of header lines -/
def collect : List (String × SVal) → Comps → Except Err Comps
  | [], c => pure c
  | p :: t, c => do let c' ← compsAdd c p.1 p.2; collect t c'

/-- what `load_lines` makes of the system lines `dump_lines` writes (with the `n_seats` argument) -/
def reloadSys (sys : Sys) (arg : Option Nat) : Except Err Summary := do
  let ls ← dumpSys sys
  let c ← collect (ls ++ argLines arg) {}
  createSystem c

end VL.StvFile
