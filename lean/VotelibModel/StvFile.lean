/-
  VotelibModel.StvFile — the candidate / ballot section of the STV file format of `votelib/io/stv.py` at TOKEN level
  (C19): nickname generation, candidate lines, the `ballots=` count, unordered ballot lines with multipliers, the `end`
  terminator.

  A text line is abstracted to what the two readers of the module see of it:
    * header phase (`_parse_header_line` L293-302 + the dispatch of `_load_system` L263-290): `HLine`;
    * ballot phase (`_iter_vote_lines` L314-333, `_parse_multiplier` L336-352): `VLine`.
  The harness splits a real text at its first `ballots=` line (as `_load_system` does), classifies the lines with
  Python's own predicates and compares writer and reader with this model.

  NOT modelled: lexing (`#` comments, strip, split, `str(weight)`, `Fraction()/Decimal()/int()` of a multiplier, the
  regular expression and `str.lower` behind `_name_to_initials` — a candidate comes with its initials), the system
  header (`title`/`method`/`quota`/`seats`/`random` and `_create_system`), BLT mode (`ballots=blt`, see
  VotelibModel.Blt) and the ordered ballot format (`order=`): these answer `Err.other "unmodelled"`.
  Import-free.
-/
import VotelibModel.Core
namespace VL.StvFile
open VL

/-- header-phase view of a line -/
inductive HLine where
  | blank                                            -- empty or comment only
  | invalid                                          -- non-empty without '='
  | cand (withdrawn : Bool) (nick name : String)     -- candidate= / withdrawn= with `value.split(None, 1)` of length 2
  | candBad                                          -- ... of length < 2: ValueError (unpacking)
  | ballotsN (n : Nat)                               -- ballots=<digits>
  | ballotsBlt                                       -- ballots=blt
  | ballotsBad                                       -- ballots=<anything else>
  | order (nicks : List String)
  | other (key value : String)                       -- system header keys
deriving DecidableEq, Repr, Inhabited

/-- first item of a ballot line -/
inductive First where
  | mult (r : Rat)          -- ends with 'X', the rest parses (digits / n.d / p/q)
  | multBad                 -- ends with 'X', the rest is refused: STVParseError
  | multZero                -- ends with 'X', the rest is 'p/0': ZeroDivisionError
  | word (s : String)       -- anything else
deriving DecidableEq, Repr, Inhabited

/-- ballot-phase view of a line -/
inductive VLine where
  | blank
  | endLine                                  -- `line.strip() == 'end'`
  | items (first : First) (rest : List String)
deriving DecidableEq, Repr, Inhabited

/-- weight handed to the writer: its value and whether `f'{n_votes}X'` is a multiplier `_parse_multiplier` accepts
    (non-negative int, Fraction, Decimal written with a point — not exponent notation, not negative ints) -/
structure Weight where
  val : Rat
  spellable : Bool
deriving DecidableEq, Repr, Inhabited

/-- the candidate / ballot part of an election: candidates (name, withdrawn, initials as `_name_to_initials` gives
    them), ballots as lists of 0-based candidate positions with their weight -/
structure Doc (ω : Type) where
  cands : List (String × Bool × String)
  ballots : List (List Nat × ω)
deriving DecidableEq, Repr

/-! ### nicknames (stv.py L195-222) -/

def letterOf (d : Nat) : Char := Char.ofNat (97 + d % 26)

/-- `nick_letters` of `_ordinal_candidate_nicks` (L216-221): `nLetters` base-26 digits, least significant first -/
def ordinalNick : Nat → Nat → List Char
  | 0, _ => []
  | k + 1, i => letterOf i :: ordinalNick k (i / 26)

/-- `int(math.ceil(math.log(n) / math.log(26)))` for `n ≥ 1`: the least `k` with `26^k ≥ n` (searched up to `fuel`) -/
def nLettersFrom (n : Nat) : Nat → Nat → Nat
  | 0, k => k
  | fuel + 1, k => if 26 ^ k ≥ n then k else nLettersFrom n fuel (k + 1)
def nLetters (n : Nat) : Nat := nLettersFrom n n 0

def ordinalNicks (n : Nat) : List String :=
  (List.range n).map (fun i => String.ofList (ordinalNick (nLetters n) i))

/-- the loop of `_candidate_nicks` (L196-203): the first repeated initials send everybody to ordinal nicks -/
def hasDupFrom : List String → List String → Bool
  | [], _ => false
  | s :: t, seen => if s ∈ seen then true else hasDupFrom t (seen ++ [s])

def candidateNicks (initials : List String) : List String :=
  if hasDupFrom initials [] then ordinalNicks initials.length else initials

/-! ### writer (`_dump_ballots` L154-171) -/

def nickAt (nicks : List String) (i : Nat) : String := (nicks[i]?).getD ""

/-- a written ballot line as the ballot-phase reader classifies it -/
def voteLine (nicks : List String) (b : List Nat × Weight) : VLine :=
  let names := b.1.map (nickAt nicks)
  if b.2.val ≠ 1 then
    VLine.items (if b.2.spellable then First.mult b.2.val else First.multBad) names
  else
    match names with
    | [] => VLine.blank                      -- the empty string is written
    | s :: rest => if s = "end" ∧ rest = [] then VLine.endLine else VLine.items (First.word s) rest

def dumpStv (d : Doc Weight) : List HLine × List VLine :=
  let nicks := candidateNicks (d.cands.map (·.2.2))
  let hdr := (d.cands.zip nicks).map (fun p => HLine.cand p.1.2.1 p.2 p.1.1) ++ [HLine.ballotsN d.ballots.length]
  (hdr, d.ballots.map (voteLine nicks) ++ [VLine.endLine])

/-! ### reader -/

def unmodelled : Err := Err.other "unmodelled"

/-- `nicks[nick] = cand` on an insertion-ordered dict -/
def nickSet : List (String × Nat) → String → Nat → List (String × Nat)
  | [], k, v => [(k, v)]
  | (k', v') :: t, k, v => if k' = k then (k', v) :: t else (k', v') :: nickSet t k v

/-- `_load_system` (L252-290) as far as the section goes: candidates, nick table, ballot count -/
def loadHeader : List HLine → List (String × Bool) → List (String × Nat) →
    Except Err (List (String × Bool) × List (String × Nat) × Nat)
  | [], _, _ => throw Err.parseError                                     -- L290: end of file before ballot data
  | .blank :: rest, cs, nk => loadHeader rest cs nk
  | .invalid :: _, _, _ => throw Err.parseError                          -- L302
  | .cand w nick name :: rest, cs, nk => loadHeader rest (cs ++ [(name, w)]) (nickSet nk nick cs.length)
  | .candBad :: _, _, _ => throw (Err.other "ValueError")                -- L278
  | .ballotsN n :: _, cs, nk => pure (cs, nk, n)
  | .ballotsBlt :: _, _, _ => throw unmodelled
  | .ballotsBad :: _, _, _ => throw Err.parseError                       -- L311
  | .order _ :: _, _, _ => throw unmodelled
  | .other _ _ :: rest, cs, nk => loadHeader rest cs nk                  -- system settings: not modelled

/-- `votes[vote] += mult` on a `defaultdict(int)` -/
def addVote : List (List Nat × Rat) → List Nat → Rat → List (List Nat × Rat)
  | [], b, w => [(b, 0 + w)]
  | (b', w') :: t, b, w => if b' = b then (b', w' + w) :: t else (b', w') :: addVote t b w

/-- `tuple(nicks[item] for item in items)` (L385-388) -/
def lookupNicks (nk : List (String × Nat)) : List String → Except Err (List Nat)
  | [] => pure []
  | s :: t => match nk.lookup s with
    | some i => do let r ← lookupNicks nk t; pure (i :: r)
    | none => throw Err.parseError

/-- `_iter_vote_lines` (L314-333) feeding `_load_unordered_votes` (L378-390); `i` is the line index -/
def loadVotes (nk : List (String × Nat)) (n : Nat) : List VLine → Nat → List (List Nat × Rat) →
    Except Err (List (List Nat × Rat))
  | [], _, _ => throw Err.parseError                                     -- L333: no "end" terminator line
  | .endLine :: _, i, acc => if i ≠ n then throw Err.parseError else pure acc      -- L320-324
  | .blank :: rest, i, acc => loadVotes nk n rest (i + 1) acc
  | .items first more :: rest, i, acc =>
      match first with
      | .mult r => do
          let b ← lookupNicks nk more
          loadVotes nk n rest (i + 1) (addVote acc b r)
      | .multBad => throw Err.parseError
      | .multZero => throw (Err.other "ZeroDivisionError")
      | .word s => do
          let b ← lookupNicks nk (s :: more)
          loadVotes nk n rest (i + 1) (addVote acc b 1)

/-- `load_lines` (L225-249) on a text split at its first `ballots=` line, own (unordered) format -/
def loadStv (hdr : List HLine) (votes : List VLine) : Except Err (Doc Rat × List (String × Bool)) := do
  let (cs, nk, n) ← loadHeader hdr [] []
  let bs ← loadVotes nk n votes 0 []
  pure ({ cands := cs.map (fun c => (c.1, c.2, "")), ballots := bs }, cs)

/-! ### well-formedness for the round trip -/

def wfStv (d : Doc Weight) : Bool :=
  let nicks := candidateNicks (d.cands.map (·.2.2))
  nicks.all (· ≠ "")                       -- (lexing) an empty nickname cannot be read back from `candidate= name`
  && d.ballots.all (fun b => b.1.all (· < d.cands.length)
        && (b.2.spellable || b.2.val = 1)
        && !(b.2.val = 1 && b.1.isEmpty)                                   -- an empty line is skipped by the reader
        && !(b.2.val = 1 && b.1.map (nickAt nicks) = ["end"]))              -- would be read as the terminator
  && decide (d.ballots.map (·.1)).Nodup

def eraseDoc (d : Doc Weight) : Doc Rat :=
  { cands := d.cands.map (fun c => (c.1, c.2.1, "")), ballots := d.ballots.map (fun b => (b.1, b.2.val)) }

end VL.StvFile
