/-
  VotelibModel.Convert — the vote converters of `votelib/convert.py` (C13), with the helpers they use from
  `votelib/util.py` (`all_rankings`, `all_ranked_candidates`, `add_dict_to_dict`, `descending_dict`),
  the four vote subsetters of `votelib/vote.py` and the rank scorers of `votelib/component/rankscore.py`
  (score lists come from the GENERATED `VotelibModel.Gen.RankScore`).

  Conventions.  A Python `dict` is an insertion-ordered association list (`Dict κ`); a `frozenset` of
  candidates is its canonical form, the strictly increasing list of ids (`canonSet`), because set iteration
  order is not observable through the protocol (outputs compare as maps).  Ranked ballots are
  `List RankItem` (a candidate or a shared-rank set), score ballots are lists of (candidate, score).
  Everything the code rejects is an `Except Err` outcome (ValueError of Borda, ZeroDivisionError of the
  split approval converter, KeyError/IndexError of the positional converter under a foreign universe).

  Everything lives in namespace `VL.Convert`.
-/
import VotelibModel.Core
import VotelibModel.Py
import VotelibModel.Gen.RankScore
namespace VL.Convert
open VL

/-! ## vote types -/

/-- one place of a ranked ballot: a candidate, or a `frozenset` of candidates sharing the rank -/
inductive RankItem where
  | one (c : Cand)
  | shared (cs : List Cand)
deriving DecidableEq, Repr, Inhabited

/-- ranked ballot (a Python tuple) -/
abbrev Ballot := List RankItem
/-- a Python dict key -> number in insertion order -/
abbrev Dict (κ : Type) := List (κ × Rat)
/-- approval ballot: a frozenset of candidates in canonical form -/
abbrev Approval := List Cand
/-- score ballot: a frozenset of (candidate, score) pairs -/
abbrev ScoreBallot := List (Cand × Rat)
abbrev RProfile := Dict Ballot
abbrev AProfile := Dict Approval
abbrev SProfile := Dict ScoreBallot

/-- the candidates standing at one place (`for cand in positioned` / the single candidate) -/
def RankItem.cands : RankItem → List Cand
  | .one c => [c]
  | .shared cs => cs

/-- all candidates of a ballot in rank order, with repetitions (`ranked` of convert.py L406-414) -/
def ballotCands (b : Ballot) : List Cand := b.flatMap RankItem.cands

/-! ## dictionaries -/

/-- `d[k] = d.get(k, 0) + v`, i.e. `defaultdict(int)[k] += v`: in place when present, appended otherwise -/
def addTo {κ : Type} [DecidableEq κ] : Dict κ → κ → Rat → Dict κ
  | [], k, v => [(k, v)]
  | (k', v') :: t, k, v => if k' = k then (k', v' + v) :: t else (k', v') :: addTo t k v

/-- `d[k] = v` -/
def setTo {κ ν : Type} [DecidableEq κ] : List (κ × ν) → κ → ν → List (κ × ν)
  | [], k, v => [(k, v)]
  | (k', v') :: t, k, v => if k' = k then (k', v) :: t else (k', v') :: setTo t k v

/-- a dict comprehension / `dict(pairs)`: later pairs overwrite earlier ones with an equal key -/
def dictOf {κ ν : Type} [DecidableEq κ] (l : List (κ × ν)) : List (κ × ν) :=
  l.foldl (fun d kv => setTo d kv.1 kv.2) []

/-- `d[k] += v` on a plain dict: KeyError when the key is missing -/
def addExisting {κ : Type} [DecidableEq κ] : Dict κ → κ → Rat → Except Err (Dict κ)
  | [], _, _ => .error (.other "KeyError")
  | (k', v') :: t, k, v =>
    if k' = k then .ok ((k', v' + v) :: t)
    else match addExisting t k v with
      | .ok t' => .ok ((k', v') :: t')
      | .error e => .error e

/-- `util.add_dict_to_dict(d1, d2)` (util.py L19-23) -/
def addDictToDict {κ : Type} [DecidableEq κ] (d1 d2 : Dict κ) : Dict κ :=
  d2.foldl (fun d kv => addTo d kv.1 kv.2) d1

/-- the merged normal form of a list of weighted ballots: the dict in which equal ballots are summed
    (what the harness builds for `A + B`; `util.sum_dicts`) -/
def mergeDict {κ : Type} [DecidableEq κ] (p : Dict κ) : Dict κ := addDictToDict [] p

/-- `sum(d.values())` -/
def sumValues {κ : Type} (d : Dict κ) : Rat := d.foldl (fun acc kv => acc + kv.2) 0

/-! ## canonical sets -/

/-- insert into a strictly `le`-increasing list without duplicating -/
def insertSet {α : Type} [DecidableEq α] (le : α → α → Bool) (x : α) : List α → List α
  | [] => [x]
  | y :: ys => if x = y then y :: ys else if le x y then x :: y :: ys else y :: insertSet le x ys

/-- canonical form of `frozenset(l)` under the order `le` -/
def canonBy {α : Type} [DecidableEq α] (le : α → α → Bool) (l : List α) : List α :=
  l.foldr (insertSet le) []

/-- `frozenset` of candidates -/
def canonSet (l : List Cand) : List Cand := canonBy Nat.ble l

/-! ## util.py -/

/-- number of rank positions visited by `all_rankings`: the loop runs while some ballot is longer than
    `rank_i` (util.py L73-88) -/
def maxLen (p : RProfile) : Nat := p.foldl (fun m bw => max m bw.1.length) 0

/-- what one ballot yields at rank `i` (util.py L77-84) -/
def rankingsAt (i : Nat) (bw : Ballot × Rat) : List (Cand × Nat × Rat) :=
  match bw.1[i]? with
  | some it => it.cands.map (fun c => (c, i, bw.2))
  | none => []

/-- `util.all_rankings(votes)` (util.py L71-88): rank-major, ballots in dict order inside a rank -/
def allRankings (p : RProfile) : List (Cand × Nat × Rat) :=
  (List.range (maxLen p)).flatMap (fun i => p.flatMap (rankingsAt i))

/-- `util.all_ranked_candidates(votes)` (util.py L38-54): first-occurrence order -/
def allRankedCandidates (p : RProfile) : List Cand :=
  (allRankings p).foldl (fun out t => if t.1 ∈ out then out else out ++ [t.1]) []

/-! ## simple aggregators -/

/-- `ApprovalToSimpleVotes(split).convert` (convert.py L70-80).  `Fraction(n_votes, len(bulk))` raises
    ZeroDivisionError for an empty approval set when `split`. -/
def approvalToSimple (split : Bool) (p : AProfile) : Except Err (Dict Cand) :=
  p.foldlM (fun agg bw =>
    if split then
      if bw.1.length = 0 then .error (.other "ZeroDivisionError")
      else .ok (bw.1.foldl (fun agg c => addTo agg c (bw.2 / (bw.1.length : Rat))) agg)
    else .ok (bw.1.foldl (fun agg c => addTo agg c bw.2) agg)) []

/-- `RankedToFirstPreference.convert` (convert.py L262-270); the key is `ranking[0]` whatever it is -/
def rankedToFirstPreference (p : RProfile) : Dict RankItem :=
  p.foldl (fun out bw => match bw.1 with
    | [] => out
    | it :: _ => addTo out it bw.2) []

/-- Python slice `l[:n]` for an arbitrary int `n` -/
def pyTake {α : Type} (n : Int) (l : List α) : List α :=
  if 0 ≤ n then l.take n.toNat else l.take (l.length - n.natAbs)

/-- `RankedToFirstNPreferences(n_first).convert` (convert.py L282-295): the approval set of the candidates
    standing at the first `n_first` places, shared ranks flattened -/
def rankedToFirstN (n : Int) (p : RProfile) : AProfile :=
  p.foldl (fun out bw => match bw.1 with
    | [] => out
    | _ :: _ => addTo out (canonSet (ballotCands (pyTake n bw.1))) bw.2) []

/-- `RankedToPresenceCounts.convert` (convert.py L301-308) -/
def rankedToPresenceCounts (p : RProfile) : Dict Cand :=
  (allRankings p).foldl (fun out t => addTo out t.1 t.2.2) []

/-- `RankedToApprovalVotes.convert` (convert.py L318-331) -/
def rankedToApproval (p : RProfile) : Dict Approval :=
  p.foldl (fun approval bw => addTo approval (canonSet (ballotCands bw.1)) bw.2) []

/-! ## rank scorers (component/rankscore.py) -/

inductive Scorer where
  | borda (base : Int)
  | dowdall
  | geometric (base : Nat)
  | modifiedBorda
  | fixedTop (top : Int)
  | sequence (seq : List Rat)
deriving DecidableEq, Repr

/-- `rankscore.select_padded(sequence, n)` (rankscore.py L16-25) with `pad_with = 0` -/
def selectPadded (sequence : List Rat) (n : Nat) : List Rat :=
  let selected := sequence.take n
  if n > selected.length then selected ++ List.replicate (n - selected.length) 0 else selected

/-- `scorer.scores(n_ranked)` after `set_n_candidates(nCand)` where the scorer has it.
    Borda: rankscore.py L83-103 (ValueError when more ranks than candidates);
    Geometric with base 0 divides by zero from the second rank on. -/
def Scorer.scores (sc : Scorer) (nCand : Nat) (nRanked : Nat) : Except Err (List Rat) :=
  match sc with
  | .borda base =>
    if nRanked > nCand then .error .valueError
    else .ok (selectPadded (Gen.RankScore.borda_scores base nCand) nRanked)
  | .dowdall => .ok (Gen.RankScore.dowdall_scores nRanked)
  | .geometric base =>
    if base = 0 ∧ nRanked ≥ 2 then .error (.other "ZeroDivisionError")
    else .ok (Gen.RankScore.geometric_scores base nRanked)
  | .modifiedBorda => .ok (Gen.RankScore.modified_borda_scores nRanked)
  | .fixedTop top => .ok (Gen.RankScore.fixed_top_scores top nRanked)
  | .sequence seq => .ok (selectPadded seq nRanked)

/-- the inner loop of `RankedToPositionalVotes.convert` (convert.py L374-380) from rank `rank` on -/
def positionalBallot (scores : List Rat) (w : Rat) : Nat → Ballot → Dict Cand → Except Err (Dict Cand)
  | _, [], agg => .ok agg
  | rank, it :: rest, agg =>
    match scores[rank]? with
    | none => .error (.other "IndexError")
    | some s =>
      match it.cands.foldlM (fun agg c => addExisting agg c (s * w)) agg with
      | .ok agg' => positionalBallot scores w (rank + 1) rest agg'
      | .error e => .error e

/-- `RankedToPositionalVotes(scorer).convert` (convert.py L359-381) with `all_candidates = U` -/
def positionalU (sc : Scorer) (U : List Cand) (p : RProfile) : Except Err (Dict Cand) :=
  match p.foldlM (fun agg bw =>
      match sc.scores U.length bw.1.length with
      | .ok scores => positionalBallot scores bw.2 0 bw.1 agg
      | .error e => .error e) (U.map (fun c => (c, (0 : Rat)))) with
  | .ok agg => .ok (sortDesc agg)          -- util.descending_dict
  | .error e => .error e

def rankedToPositional (sc : Scorer) (p : RProfile) : Except Err (Dict Cand) :=
  positionalU sc (allRankedCandidates p) p

/-! ## pairwise counts -/

/-- the (upper, lower) pairs one ballot counts, in the order of the loops of convert.py L417-428;
    `unranked` is empty when `unranked_at_bottom` is off -/
def condorcetPairs (unranked : List Cand) : Ballot → List (Cand × Cand)
  | [] => []
  | it :: rest =>
    it.cands.flatMap (fun u => (ballotCands rest).map (fun l => (u, l)) ++ unranked.map (fun x => (u, x)))
      ++ condorcetPairs unranked rest

/-- `all_cands.difference(ranked)` (convert.py L415-416) -/
def unrankedOf (U : List Cand) (atBottom : Bool) (b : Ballot) : List Cand :=
  if atBottom then U.filter (fun c => c ∉ ballotCands b) else []

/-- `RankedToCondorcetVotes(unranked_at_bottom).convert` (convert.py L399-429) with `all_cands = U` -/
def condorcetU (atBottom : Bool) (U : List Cand) (p : RProfile) : Dict (Cand × Cand) :=
  p.foldl (fun counts bw =>
    (condorcetPairs (unrankedOf U atBottom bw.1) bw.1).foldl (fun counts k => addTo counts k bw.2) counts) []

def rankedToCondorcet (atBottom : Bool) (p : RProfile) : Dict (Cand × Cand) :=
  condorcetU atBottom (canonSet (allRankedCandidates p)) p

/-! ## score votes -/

/-- the candidates scored on any ballot (convert.py L458-460): a frozenset -/
def allScoredCandidates (p : SProfile) : List Cand :=
  canonSet (p.flatMap (fun bw => bw.1.map (·.1)))

/-- `itertools.groupby(sorted_iter, key=score)`: maximal runs of equal scores -/
def groupRuns : ScoreBallot → List (Rat × List Cand)
  | [] => []
  | (c, s) :: rest =>
    match groupRuns rest with
    | (s', cs) :: gs => if s = s' then (s, c :: cs) :: gs else (s, [c]) :: (s', cs) :: gs
    | [] => [(s, [c])]

/-- `ScoreToRankedVotes.convert_one` (convert.py L467-486) -/
def scoreToRankedOne (unscoredValue : Option Rat) (U : List Cand) (vote : ScoreBallot) : Ballot :=
  let vote' := match unscoredValue with
    | none => vote
    | some uv => vote ++ (U.filter (fun c => c ∉ vote.map (·.1))).map (fun c => (c, uv))
  let ranked := (groupRuns (sortAsc vote')).map (fun g => match g.2 with
    | [c] => RankItem.one c
    | cs => RankItem.shared (canonSet cs))
  ranked.reverse

/-- `ScoreToRankedVotes(unscored_value).convert` (convert.py L451-465) with `all_candidates = U` -/
def scoreToRankedU (unscoredValue : Option Rat) (U : List Cand) (p : SProfile) : RProfile :=
  p.foldl (fun output bw => addTo output (scoreToRankedOne unscoredValue U bw.1) bw.2) []

def scoreToRanked (unscoredValue : Option Rat) (p : SProfile) : RProfile :=
  scoreToRankedU unscoredValue (allScoredCandidates p) p

/-- the approved set of one score ballot (convert.py L504-506) -/
def approvedAt (threshold : Rat) (vote : ScoreBallot) : Approval :=
  canonSet ((vote.filter (fun cs => decide (threshold ≤ cs.2))).map (·.1))

/-- `ScoreToApprovalVotesThreshold(threshold).convert` (convert.py L499-509) -/
def scoreToApproval (threshold : Rat) (p : SProfile) : AProfile :=
  p.foldl (fun approvals bw =>
    match approvedAt threshold bw.1 with
    | [] => approvals
    | a :: as => addTo approvals (a :: as) bw.2) []

/-! ## inverters -/

/-- `InvertedSimpleVotes.convert` (convert.py L520-523): a dict comprehension -/
def invertedSimple {κ : Type} [DecidableEq κ] (p : Dict κ) : Dict κ :=
  dictOf (p.map (fun cw => (cw.1, -cw.2)))

/-- all candidates approved on any ballot (convert.py L539) -/
def allApproved (p : AProfile) : List Cand := canonSet (p.flatMap (·.1))

def invertedApprovalU (U : List Cand) (p : AProfile) : AProfile :=
  dictOf (p.map (fun bw => (canonSet (U.filter (fun c => c ∉ bw.1)), bw.2)))

/-- `InvertedApprovalVotes.convert` (convert.py L536-543) -/
def invertedApproval (p : AProfile) : AProfile := invertedApprovalU (allApproved p) p

/-! ## parties -/

/-- what `IndividualToPartyMapper.__call__` returns: a party, `None`, or the candidate itself -/
inductive PKey where
  | party (n : Nat)
  | none
  | indep (c : Cand)
deriving DecidableEq, Repr, Inhabited

inductive Independents where
  | error | keep | aggregate | ignore
deriving DecidableEq, Repr

/-- `IndividualToPartyMapper.__call__` (candidate.py L272-288); `aff c` is the candidate's attribute
    (`candidacy_for` or `membership`); result `none` is the `IGNORE` marker -/
def mapParty (aff : Cand → Option Nat) (ind : Independents) (c : Cand) : Except Err (Option PKey) :=
  match aff c with
  | some party => .ok (some (.party party))
  | none => match ind with
    | .error => .error .candidateError
    | .keep => .ok (some (.indep c))
    | .aggregate => .ok (some .none)
    | .ignore => .ok none

/-- `IndividualToPartyVotes(mapper).convert` (convert.py L562-571) -/
def individualToParty (aff : Cand → Option Nat) (ind : Independents) (p : Dict Cand) : Except Err (Dict PKey) :=
  p.foldlM (fun agg cw =>
    match mapParty aff ind cw.1 with
    | .ok (some party) => .ok (addTo agg party cw.2)
    | .ok none => .ok agg
    | .error e => .error e) []

/-- `aggregated.setdefault(party, {})[cand] = n` -/
def setNested : List (PKey × Dict Cand) → PKey → Cand → Rat → List (PKey × Dict Cand)
  | [], k, c, v => [(k, [(c, v)])]
  | (k', d) :: t, k, c, v => if k' = k then (k', setTo d c v) :: t else (k', d) :: setNested t k c v

/-- `GroupVotesByParty(mapper).convert` (convert.py L622-631) -/
def groupByParty (aff : Cand → Option Nat) (ind : Independents) (p : Dict Cand) :
    Except Err (List (PKey × Dict Cand)) :=
  p.foldlM (fun agg cw =>
    match mapParty aff ind cw.1 with
    | .ok (some party) => .ok (setNested agg party cw.1 cw.2)
    | .ok none => .ok agg
    | .error e => .error e) []

/-! ## constituencies -/

/-- `VoteTotals.convert` (convert.py L732-742); district keys are ignored -/
def voteTotals {δ κ : Type} [DecidableEq κ] (p : List (δ × Dict κ)) : Dict κ :=
  p.foldl (fun all dv => addDictToDict all dv.2) []

/-- add one district's votes to a nested dict (`merged[d] = sum_dicts(merged.get(d, {}), dv)`) -/
def addNested {δ κ : Type} [DecidableEq δ] [DecidableEq κ] :
    List (δ × Dict κ) → δ → Dict κ → List (δ × Dict κ)
  | [], d, dv => [(d, addDictToDict [] dv)]
  | (d', dv') :: t, d, dv => if d' = d then (d', addDictToDict dv' dv) :: t else (d', dv') :: addNested t d dv

/-- the merged normal form of a list of (district, votes): the nested dict `A + B` of the harness -/
def mergeNested {δ κ : Type} [DecidableEq δ] [DecidableEq κ] (p : List (δ × Dict κ)) : List (δ × Dict κ) :=
  p.foldl (fun acc dv => addNested acc dv.1 dv.2) []

/-- `ConstituencyTotals.convert` (convert.py L753-763) -/
def constituencyTotals {δ κ : Type} [DecidableEq δ] (p : List (δ × Dict κ)) : Dict δ :=
  dictOf (p.map (fun dv => (dv.1, sumValues dv.2)))

/-! ## subsetting (vote.py L588-664, convert.py L925-954) -/

/-- `SimpleSubsetter.subset` -/
def subsetSimple (subset : List Cand) (vote : Cand) : Option Cand :=
  if vote ∈ subset then some vote else none

/-- `ApprovalSubsetter.subset`: never None -/
def subsetApproval (subset : List Cand) (vote : Approval) : Option Approval :=
  some (vote.filter (fun c => c ∈ subset))

/-- `RankedSubsetter.subset` (vote.py L620-643): never None -/
def subsetRankedOne (subset : List Cand) (vote : Ballot) : Ballot :=
  vote.filterMap (fun rank => match rank with
    | .shared cs =>
      match cs.filter (fun c => c ∈ subset) with
      | [] => none
      | [c] => some (.one c)
      | sub => some (.shared sub)
    | .one c => if c ∈ subset then some (.one c) else none)

def subsetRanked (subset : List Cand) (vote : Ballot) : Option Ballot := some (subsetRankedOne subset vote)

/-- `ScoreSubsetter.subset`: never None -/
def subsetScore (subset : List Cand) (vote : ScoreBallot) : Option ScoreBallot :=
  some (vote.filter (fun cs => cs.1 ∈ subset))

/-- `SubsettedVotes(subsetter, depth=0).convert(votes, subset)` (convert.py L943-949) -/
def subsetted {κ : Type} [DecidableEq κ] (sub : κ → Option κ) (p : Dict κ) : Dict κ :=
  p.foldl (fun acc bw => match sub bw.1 with
    | none => acc
    | some k => addTo acc k bw.2) []

/-- `SubsettedVotes(subsetter, depth=1)`: one nesting level (a dict comprehension over the districts) -/
def subsettedNested {δ κ : Type} [DecidableEq δ] [DecidableEq κ] (sub : κ → Option κ)
    (p : List (δ × Dict κ)) : List (δ × Dict κ) :=
  dictOf (p.map (fun dv => (dv.1, subsetted sub dv.2)))

/-! ## SubsettedVotes at any depth (convert.py L938-954) -/

/-- a nested vote dictionary: the votes themselves, or a dict of nested dictionaries keyed by
    constituency-like ids -/
inductive NDict (κ : Type) where
  | leaf (d : Dict κ)
  | node (children : List (Nat × NDict κ))

def shapeMismatch {α : Type} : Except Err α := .error (.other "ShapeMismatch")

/-- `SubsettedVotes(subsetter, depth)._convert(votes, subset, depth)`: depth 0 subsets the votes, a positive
    depth is a dict comprehension over the nesting keys.  A dictionary that is not nested `depth` deep is a
    `ShapeMismatch` (the harness never builds one). -/
def subsettedDeep {κ : Type} [DecidableEq κ] (sub : κ → Option κ) : Nat → NDict κ → Except Err (NDict κ)
  | 0, .leaf d => .ok (.leaf (subsetted sub d))
  | n + 1, .node cs =>
    match cs.mapM (fun kc => match subsettedDeep sub n kc.2 with
        | .ok c => Except.ok (kc.1, c)
        | .error e => .error e) with
    | .ok l => .ok (.node (dictOf l))
    | .error e => .error e
  | _, _ => shapeMismatch

/-- the empty dictionary of a given depth -/
def emptyN {κ : Type} : Nat → NDict κ
  | 0 => .leaf []
  | _ + 1 => .node []

/-- `merged[d] = merge(merged.get(d, {}), c)` -/
def insertChild {κ : Type} (m : NDict κ → NDict κ → NDict κ) (emp : NDict κ) :
    List (Nat × NDict κ) → Nat → NDict κ → List (Nat × NDict κ)
  | [], d, c => [(d, m emp c)]
  | (d', c') :: t, d, c => if d' = d then (d', m c' c) :: t else (d', c') :: insertChild m emp t d c

/-- the nested dict `A + B` of the harness at depth `n` (key-wise recursive sum) -/
def mergeN {κ : Type} [DecidableEq κ] : Nat → NDict κ → NDict κ → NDict κ
  | 0, .leaf a, .leaf b => .leaf (addDictToDict a b)
  | n + 1, .node as, .node bs =>
    .node (bs.foldl (fun acc kc => insertChild (mergeN n) (emptyN n) acc kc.1 kc.2) as)
  | _, a, _ => a

/-- structural equality of nested dictionaries of depth `n` -/
def beqN {κ : Type} [DecidableEq κ] : Nat → NDict κ → NDict κ → Bool
  | 0, .leaf a, .leaf b => decide (a = b)
  | n + 1, .node as, .node bs =>
    as.length == bs.length && (as.zip bs).all (fun p => p.1.1 == p.2.1 && beqN n p.1.2 p.2.2)
  | _, _, _ => false

/-! ## rounding -/

/-- `Decimal.quantize(10^-decimals, ROUND_HALF_UP)`: ties away from zero -/
def roundHalfUp (decimals : Nat) (x : Rat) : Rat :=
  let scale : Rat := ((10 ^ decimals : Nat) : Rat)
  let s := x * scale
  let r : Int := if 0 ≤ s then (s + 1/2).floor else -((-s + 1/2).floor)
  (r : Rat) / scale

/-- the rounding modes of Python's `decimal` module -/
inductive RoundMode where
  | halfUp | halfDown | halfEven | down | up | ceiling | floor | r05up
deriving DecidableEq, Repr

/-- `Decimal.quantize(10^-decimals, mode)` on the scaled value `s = x * 10^decimals`: the integer it rounds to -/
def roundInt (mode : RoundMode) (s : Rat) : Int :=
  let fl : Int := s.floor
  let ce : Int := s.ceil
  let trunc : Int := if 0 ≤ s then fl else ce          -- toward zero
  let away : Int := if 0 ≤ s then ce else fl           -- away from zero
  let d : Rat := s - (fl : Rat)                        -- fractional part in [0, 1)
  match mode with
  | .halfUp => if 0 ≤ s then (s + 1/2).floor else -((-s + 1/2).floor)
  | .halfDown => if d < 1/2 then fl else if (1:Rat)/2 < d then ce else trunc
  | .halfEven => if d < 1/2 then fl else if (1:Rat)/2 < d then ce else (if fl % 2 = 0 then fl else ce)
  | .down => trunc
  | .up => away
  | .ceiling => ce
  | .floor => fl
  | .r05up => if trunc % 5 = 0 then away else trunc

/-- rounding of one count with an arbitrary mode -/
def roundWith (mode : RoundMode) (decimals : Nat) (x : Rat) : Rat :=
  let scale : Rat := ((10 ^ decimals : Nat) : Rat)
  (roundInt mode (x * scale) : Rat) / scale

/-- `RoundedVotes(decimals, round_method).convert` (convert.py L889-900) -/
def roundedVotesWith {κ : Type} [DecidableEq κ] (mode : RoundMode) (decimals : Nat) (p : Dict κ) : Dict κ :=
  dictOf (p.map (fun kv => (kv.1, roundWith mode decimals kv.2)))

/-- `RoundedVotes(decimals).convert` (convert.py L889-900) with the default rounding method -/
def roundedVotes {κ : Type} [DecidableEq κ] (decimals : Nat) (p : Dict κ) : Dict κ :=
  dictOf (p.map (fun kv => (kv.1, roundHalfUp decimals kv.2)))

/-! ## Chain -/

/-- the vote dictionaries that travel between converters -/
inductive Val where
  | simple (d : Dict Cand)
  | items (d : Dict RankItem)
  | approval (d : AProfile)
  | ranked (d : RProfile)
  | score (d : SProfile)
  | pairs (d : Dict (Cand × Cand))
  | party (d : Dict PKey)
  | grouped (d : List (PKey × Dict Cand))
  | nested (d : List (Nat × Dict Cand))
  | nestedR (d : List (Nat × RProfile))     -- constituency -> ranked votes ("votes of any type")
  | nestedA (d : List (Nat × AProfile))     -- constituency -> approval votes
  | districts (d : Dict Nat)
  | deep (t : NDict Cand)

/-- a configured converter -/
inductive Conv where
  | approvalToSimple (split : Bool)
  | rankedToFirstPreference
  | rankedToFirstN (n : Int)
  | rankedToPresenceCounts
  | rankedToApproval
  | rankedToPositional (sc : Scorer)
  | rankedToCondorcet (atBottom : Bool)
  | scoreToRanked (unscored : Option Rat)
  | scoreToApproval (threshold : Rat)
  | invertedSimple
  | invertedApproval
  | individualToParty (aff : List (Cand × Nat)) (ind : Independents)
  | groupByParty (aff : List (Cand × Nat)) (ind : Independents)
  | voteTotals
  | constituencyTotals
  | subsetted (kind : Nat) (subset : List Cand)     -- 0 simple, 1 approval, 2 ranked, 3 score
  | subsettedNested (subset : List Cand)
  | subsettedDeep (depth : Nat) (subset : List Cand)
  | rounded (decimals : Nat)
  | roundedWith (mode : RoundMode) (decimals : Nat)
  | invalid (e : Err)      -- a constructor call the class refuses (RoundedVotes(decimals < 0): ValueError, convert.py L866-868)
  | chain (cs : List Conv)

def affOf (aff : List (Cand × Nat)) (c : Cand) : Option Nat :=
  match aff.find? (fun p => p.1 = c) with
  | some p => some p.2
  | none => none

/-- a dict whose keys are single candidates is a simple-vote dict -/
def itemsToSimple : Dict RankItem → Option (Dict Cand)
  | [] => some []
  | (.one c, v) :: t => (itemsToSimple t).map (fun t' => (c, v) :: t')
  | (.shared _, _) :: _ => none

def typeMismatch {α : Type} : Except Err α := .error (.other "TypeMismatch")

mutual
/-- `conv.convert(votes)`; value/convertor combinations the harness never builds are `TypeMismatch` -/
def applyConv : Conv → Val → Except Err Val
  | .approvalToSimple split, .approval d => (approvalToSimple split d).map Val.simple
  | .rankedToFirstPreference, .ranked d => .ok (.items (rankedToFirstPreference d))
  | .rankedToFirstN n, .ranked d => .ok (.approval (rankedToFirstN n d))
  | .rankedToPresenceCounts, .ranked d => .ok (.simple (rankedToPresenceCounts d))
  | .rankedToApproval, .ranked d => .ok (.approval (rankedToApproval d))
  | .rankedToPositional sc, .ranked d => (rankedToPositional sc d).map Val.simple
  | .rankedToCondorcet ab, .ranked d => .ok (.pairs (rankedToCondorcet ab d))
  | .scoreToRanked uv, .score d => .ok (.ranked (scoreToRanked uv d))
  | .scoreToApproval thr, .score d => .ok (.approval (scoreToApproval thr d))
  | .invertedSimple, .simple d => .ok (.simple (invertedSimple d))
  | .invertedSimple, .items d => .ok (.items (invertedSimple d))
  | .invertedApproval, .approval d => .ok (.approval (invertedApproval d))
  | .individualToParty aff ind, .simple d => (individualToParty (affOf aff) ind d).map Val.party
  | .individualToParty aff ind, .items d =>
    match itemsToSimple d with
    | some s => (individualToParty (affOf aff) ind s).map Val.party
    | none => typeMismatch
  | .groupByParty aff ind, .simple d => (groupByParty (affOf aff) ind d).map Val.grouped
  | .voteTotals, .nested d => .ok (.simple (voteTotals d))
  | .voteTotals, .nestedR d => .ok (.ranked (voteTotals d))
  | .voteTotals, .nestedA d => .ok (.approval (voteTotals d))
  | .constituencyTotals, .nestedR d => .ok (.districts (constituencyTotals d))
  | .constituencyTotals, .nestedA d => .ok (.districts (constituencyTotals d))
  | .constituencyTotals, .nested d => .ok (.districts (constituencyTotals d))
  | .subsetted 0 s, .simple d => .ok (.simple (subsetted (subsetSimple s) d))
  | .subsetted 1 s, .approval d => .ok (.approval (subsetted (subsetApproval s) d))
  | .subsetted 2 s, .ranked d => .ok (.ranked (subsetted (subsetRanked s) d))
  | .subsetted 3 s, .score d => .ok (.score (subsetted (subsetScore s) d))
  | .subsettedNested s, .nested d => .ok (.nested (subsettedNested (subsetSimple s) d))
  | .subsettedDeep n s, .deep t => (subsettedDeep (subsetSimple s) n t).map Val.deep
  | .rounded k, .simple d => .ok (.simple (roundedVotes k d))
  | .rounded k, .approval d => .ok (.approval (roundedVotes k d))
  | .rounded k, .ranked d => .ok (.ranked (roundedVotes k d))
  | .roundedWith m k, .simple d => .ok (.simple (roundedVotesWith m k d))
  | .roundedWith m k, .approval d => .ok (.approval (roundedVotesWith m k d))
  | .roundedWith m k, .ranked d => .ok (.ranked (roundedVotesWith m k d))
  | .rounded k, .items d => .ok (.items (roundedVotes k d))
  | .rounded k, .pairs d => .ok (.pairs (roundedVotes k d))
  | .roundedWith m k, .items d => .ok (.items (roundedVotesWith m k d))
  | .roundedWith m k, .pairs d => .ok (.pairs (roundedVotesWith m k d))
  | .invalid e, _ => .error e
  | .chain cs, v => applyChain cs v
  | _, _ => typeMismatch
/-- `Chain(converters).convert(votes)` (convert.py L973-977) -/
def applyChain : List Conv → Val → Except Err Val
  | [], v => .ok v
  | c :: cs, v => match applyConv c v with
    | .ok v' => applyChain cs v'
    | .error e => .error e
end

end VL.Convert
