/-
  VotelibModel.Score — the score (cardinal) family, code-shaped:
    convert.py  ScoreToSimpleVotes L82-252 (corrected_scores, aggregate, _correct_candidate_scores, _subtract_lowest L28-39)
    util.py     exact_mean L163-168; statistics.median_low; builtins sum / min
    cardinal.py ScoreVoting L27-75, MajorityJudgment L78-252, STAR L255-379 (run-off by condorcet.Schulze L262-313 over
                convert.ScoreToRankedVotes L433-486 and RankedToCondorcetVotes L385-429),
                AllocatedScoreDistributor L373-560 / AllocatedScoreSelector L563-586
  and the defining computations (`…Spec`) they are proved equal to in VotelibProofs/Props/C12.lean.

  Reading.  A score ballot (frozenset of (candidate, grade) pairs) is a list of pairs sorted by candidate id, each
  candidate at most once; a profile is the dict ballot -> count in insertion order.  Counts are `Int` (Python `int`;
  `range(count)` of a negative count is empty), grades and aggregates exact numbers (`Rat`).  Inside the allocated-score
  loop ballot weights become `Fraction`s (`Rat`).  Sets of candidates iterate in ascending id order (see Approval.lean).
-/
import VotelibModel.Core
import VotelibModel.Py
import VotelibModel.Approval
namespace VL.Score
open VL

abbrev SBallot := List (Cand × Rat)
abbrev SProfile := List (SBallot × Int)
/-- `Dict[score, count]` in insertion order -/
abbrev CScores := List (Rat × Int)
/-- `Dict[candidate, Dict[score, count]]` in insertion order -/
abbrev ScoreTable := List (Cand × CScores)

inductive Agg where
  | mean | sum | medianLow
deriving DecidableEq, Repr

/-- `unscored_value`: `None`, a number, or the builtin `min` (given by name) -/
inductive Unscored where
  | none | value (v : Rat) | min
deriving DecidableEq, Repr

/-- `truncation`: 0, a fraction strictly between 0 and 1, or a positive integer count (the documented domain) -/
inductive Trunc where
  | off | frac (r : Rat) | count (k : Nat)
deriving DecidableEq, Repr

structure Cfg where
  fn : Agg
  unscored : Unscored
  minCount : Int
  trunc : Trunc
  bottom : Rat
deriving Repr

/-! ### dict primitives -/

def getCount (d : CScores) (s : Rat) : Int :=
  match d.find? (fun p => p.1 = s) with
  | some p => p.2
  | none => 0

/-- `d[s] = n` (in place if present, appended otherwise) -/
def setCount : CScores → Rat → Int → CScores
  | [], s, n => [(s, n)]
  | (k, v) :: rest, s, n => if k = s then (k, n) :: rest else (k, v) :: setCount rest s n

/-- `d[s] += n` on a `defaultdict(int)` -/
def addCount (d : CScores) (s : Rat) (n : Int) : CScores := setCount d s (getCount d s + n)

def delKey (d : CScores) (s : Rat) : CScores := d.filter (fun p => p.1 ≠ s)

/-- `scores[cand][score] += n` on a `defaultdict(lambda: defaultdict(int))` -/
def addScore : ScoreTable → Cand → Rat → Int → ScoreTable
  | [], c, s, n => [(c, addCount [] s n)]
  | (k, cs) :: rest, c, s, n => if k = c then (k, addCount cs s n) :: rest else (k, cs) :: addScore rest c s n

def tableGet (t : ScoreTable) (c : Cand) : Option CScores :=
  match t.find? (fun p => p.1 = c) with
  | some p => some p.2
  | none => none

def totalCount (cs : CScores) : Int := (cs.map (·.2)).sum

/-- `[score for score, count in cscores.items() for i in range(count)]` (convert.py L215-217, L229-232) -/
def expand (cs : CScores) : List Rat := cs.flatMap (fun p => List.replicate p.2.toNat p.1)

/-! ### aggregation functions -/

/-- `sorted(data)` for numbers: stable ascending insertion sort -/
def insertR (x : Rat) : List Rat → List Rat
  | [] => [x]
  | y :: ys => if y ≤ x then y :: insertR x ys else x :: y :: ys

def sortR : List Rat → List Rat
  | [] => []
  | x :: xs => insertR x (sortR xs)

/-- `statistics.median_low` -/
def medianLow (l : List Rat) : Except Err Rat :=
  let s := sortR l
  let n := s.length
  if n = 0 then .error (.other "StatisticsError")
  else
    let i := if n % 2 = 1 then n / 2 else n / 2 - 1
    match s[i]? with
    | some v => .ok v
    | none => .error (.other "IndexError")      -- unreachable (proved: `medianLow_eq_some`)

/-- `util.exact_mean` (L163-168): `Fraction(sum(values), len(values))` -/
def exactMean (l : List Rat) : Except Err Rat :=
  if l.length = 0 then .error (.other "ZeroDivisionError") else .ok (l.sum / ((l.length : Nat) : Rat))

/-- builtin `min` of a list -/
def listMin : List Rat → Except Err Rat
  | [] => .error .valueError
  | x :: xs => .ok (xs.foldl (fun m y => if y < m then y else m) x)

def aggFn : Agg → List Rat → Except Err Rat
  | .mean, l => exactMean l
  | .sum, l => .ok l.sum
  | .medianLow, l => medianLow l

/-! ### ScoreToSimpleVotes -/

/-- convert.py L188-191: the double loop filling `scores` -/
def rawScores (votes : SProfile) : ScoreTable :=
  votes.foldl (fun t bn => bn.1.foldl (fun t cs => addScore t cs.1 cs.2 bn.2) t) []

def totalVotes (votes : SProfile) : Int := (votes.map (·.2)).sum

/-- `_subtract_lowest` (convert.py L28-39); `scores` is a `defaultdict(int)`, so a missing key reads as 0 (and is
    deleted again at once) -/
def subtractLowest (cs : CScores) (keys : List Rat) (cutoff : Int) : CScores :=
  go cs keys 0
where
  go (cs : CScores) : List Rat → Int → CScores
    | [], _ => cs
    | s :: rest, cut =>
      if getCount cs s ≤ cutoff - cut then go (delKey cs s) rest (cut + getCount cs s)
      else setCount cs s (getCount cs s - (cutoff - cut))

/-- `_correct_candidate_scores` (convert.py L219-252); `n_votes` is always given by `corrected_scores` -/
def correctOne (cfg : Cfg) (scores : CScores) (nVotes : Int) : Except Err CScores := do
  let nScores := totalCount scores
  if nScores < cfg.minCount then
    pure [(cfg.bottom, cfg.minCount)]
  else
    let scores1 ← match cfg.unscored with
      | .none => pure scores
      | .value u => pure (setCount scores u (nVotes - nScores + getCount scores u))
      | .min => do
        let u ← listMin (expand scores)
        pure (setCount scores u (nVotes - nScores + getCount scores u))
    match cfg.trunc with
    | .off => pure scores1
    | .frac r =>
      let cutoff := Py.pyInt ((((if nVotes ≠ 0 then nVotes else nScores) : Int) : Rat) * r)
      let keys := sortR (scores1.map (·.1))
      pure (subtractLowest (subtractLowest scores1 keys cutoff) keys.reverse cutoff)
    | .count k =>
      let cutoff : Int := k
      let keys := sortR (scores1.map (·.1))
      pure (subtractLowest (subtractLowest scores1 keys cutoff) keys.reverse cutoff)

/-- `corrected_scores` (convert.py L170-196) -/
def correctedScores (cfg : Cfg) (votes : SProfile) : Except Err ScoreTable :=
  let nVotes := totalVotes votes
  (rawScores votes).mapM (fun p => do
    let cs ← correctOne cfg p.2 nVotes
    pure (p.1, cs))

/-- `aggregate_one` (convert.py L213-217) -/
def aggregateOne (fn : Agg) (cs : CScores) : Except Err Rat := aggFn fn (expand cs)

/-- `aggregate` (convert.py L198-211) -/
def aggregate (fn : Agg) (t : ScoreTable) : Except Err Votes :=
  t.mapM (fun p => do
    let v ← aggregateOne fn p.2
    pure (p.1, v))

/-- `ScoreToSimpleVotes.convert` -/
def convert (cfg : Cfg) (votes : SProfile) : Except Err Votes := do
  let t ← correctedScores cfg votes
  aggregate cfg.fn t

/-- `ScoreVoting.evaluate` (cardinal.py L63-75) -/
def scoreVoting (cfg : Cfg) (votes : SProfile) (n : Nat) : Except Err (List Slot) := do
  let agg ← convert cfg votes
  pure (getNBest agg n)

/-! ### Majority judgment -/

/-- `_counts_over_score(..., strict=False)` for one candidate (cardinal.py L242-252) -/
def countGe (cs : CScores) (thr : Rat) : Int := ((cs.filter (fun p => decide (p.1 > thr) || decide (p.1 = thr))).map (·.2)).sum
def countGt (cs : CScores) (thr : Rat) : Int := ((cs.filter (fun p => decide (p.1 > thr))).map (·.2)).sum

/-- `math.ceil(abs(x))` of an exact number -/
def ceilAbs (x : Rat) : Int := Py.pyCeil (if x < 0 then -x else x)

/-- `_closest_median_change` (cardinal.py L199-219); `none` is `float('inf')` -/
def closestChange (scores : ScoreTable) (medians : Votes) : Option Int :=
  scores.foldl (fun acc p =>
    let half : Rat := ((totalCount p.2 : Int) : Rat) / 2
    let cur := getD medians p.1 0
    let lower : Rat := ((countGe p.2 cur : Int) : Rat)
    let upper : Rat := ((countGt p.2 cur : Int) : Rat)
    let a := ceilAbs (lower - half)
    let b := ceilAbs (upper - half)
    let candClosest := if b < a then b else a
    match acc with
    | none => some candClosest
    | some c => if candClosest < c then some candClosest else some c) none

/-- index of the first tie object in a selection -/
def firstTie : List Slot → Option Nat
  | [] => none
  | Slot.tie _ :: _ => some 0
  | Slot.cand _ :: rest => (firstTie rest).map (· + 1)

/-- `_tiebreak_default` (cardinal.py L164-197).  `fuel` bounds the number of loop iterations plus recursive calls; each
    iteration removes at least one grade from every candidate and each recursive call drops a candidate, so
    `Σ counts + #candidates + 1` suffices (the driver passes that). -/
def tiebreakDefault : Nat → ScoreTable → Nat → Except Err (List Slot)
  | 0, _, _ => .error (.other "Fuel")
  | fuel + 1, scores, n =>
    match scores with
    | [] => .error .valueError                       -- max() of an empty sequence
    | p0 :: _ =>
      let mx := (scores.map (fun p => totalCount p.2)).foldl (fun m x => if m < x then x else m) (totalCount p0.2)
      if mx = 0 then .error .votingSystemError       -- L195-197
      else do
        let medians ← aggregate .medianLow scores
        let best := getNBest medians n
        match firstTie best with
        | none => pure best
        | some (i + 1) =>
          let winners := best.take (i + 1)
          let wc := Appr.slotCands winners
          let rest ← tiebreakDefault fuel (scores.filter (fun p => !(wc.contains p.1))) (n - (i + 1))
          pure (winners ++ rest)
        | some 0 =>
          let cc : Int := match closestChange scores medians with
            | some 0 => 1
            | some c => c
            | none => 0
          tiebreakDefault fuel (scores.map (fun p =>
            let m := getD medians p.1 0
            (p.1, setCount p.2 m (getCount p.2 m - cc)))) n

/-- **Majority-judgment tie-break by definition** (Balinski-Laraki): as long as the tied candidates' medians do not
    separate a group of winners, remove ONE median grade from every candidate and look again.  Same control structure as
    `_tiebreak_default`, with the removal step fixed to one grade. -/
def tiebreakOneByOne : Nat → ScoreTable → Nat → Except Err (List Slot)
  | 0, _, _ => .error (.other "Fuel")
  | fuel + 1, scores, n =>
    match scores with
    | [] => .error .valueError
    | p0 :: _ =>
      let mx := (scores.map (fun p => totalCount p.2)).foldl (fun m x => if m < x then x else m) (totalCount p0.2)
      if mx = 0 then .error .votingSystemError
      else do
        let medians ← aggregate .medianLow scores
        let best := getNBest medians n
        match firstTie best with
        | none => pure best
        | some (i + 1) =>
          let winners := best.take (i + 1)
          let wc := Appr.slotCands winners
          let rest ← tiebreakOneByOne fuel (scores.filter (fun p => !(wc.contains p.1))) (n - (i + 1))
          pure (winners ++ rest)
        | some 0 =>
          tiebreakOneByOne fuel (scores.map (fun p =>
            let m := getD medians p.1 0
            (p.1, setCount p.2 m (getCount p.2 m - 1)))) n

/-- `_tiebreak_plus` (cardinal.py L221-240) -/
def tiebreakPlus (scores : ScoreTable) (n : Nat) : Except Err (List Slot) :=
  match scores with
  | [] => .error (.other "StopIteration")
  | p :: _ => do
    let m ← aggregateOne .medianLow p.2
    pure (getNBest (scores.map (fun q => (q.1, ((countGe q.2 m : Int) : Rat)))) n)

inductive TieBreaking where
  | default | plus
deriving DecidableEq, Repr

def tableFuel (t : ScoreTable) : Nat := ((t.map (fun p => (totalCount p.2).toNat)).sum) + t.length + 1

/-- `MajorityJudgment.evaluate` (cardinal.py L142-162) -/
def majorityJudgment (tb : TieBreaking) (cfg : Cfg) (votes : SProfile) (n : Nat) : Except Err (List Slot) := do
  let corrected ← correctedScores { cfg with fn := .medianLow } votes
  let agg ← aggregate .medianLow corrected
  let order := getNBest agg n
  match order.getLast? with
  | none => .error (.other "IndexError")
  | some (Slot.cand _) => pure order
  | some (Slot.tie T) =>
    let k := order.count (Slot.tie T)
    let tied : ScoreTable := (Appr.sortDedup T).filterMap (fun c => (tableGet corrected c).map (fun cs => (c, cs)))
    let broken ← match tb with
      | .default => tiebreakDefault (tableFuel tied) tied k
      | .plus => tiebreakPlus tied k
    pure (order.take (order.length - k) ++ broken)

/-! ### STAR -/

abbrev PairCounts := List ((Cand × Cand) × Int)

def getPair (d : PairCounts) (a b : Cand) : Int :=
  match d.find? (fun p => p.1 = (a, b)) with
  | some p => p.2
  | none => 0

def setPair : PairCounts → Cand → Cand → Int → PairCounts
  | [], a, b, n => [((a, b), n)]
  | (k, v) :: rest, a, b, n => if k = (a, b) then (k, n) :: rest else (k, v) :: setPair rest a b n

def addPair (d : PairCounts) (a b : Cand) (n : Int) : PairCounts := setPair d a b (getPair d a b + n)

/-- first occurrences, in order -/
def firstOccR : List Rat → List Rat
  | [] => []
  | x :: xs => x :: (firstOccR xs).filter (· != x)

/-- distinct grades of a ballot, descending -/
def gradesDesc (b : SBallot) : List Rat := (firstOccR (sortR (b.map (·.2)))).reverse
/-- `ScoreToRankedVotes.convert_one` (convert.py L467-486): groups of candidates by grade, best grade first -/
def convertOne (unscored : Option Rat) (allC : List Cand) (b : SBallot) : List (List Cand) :=
  let b' : SBallot := match unscored with
    | none => b
    | some u => b ++ ((allC.filter (fun c => !((b.map (·.1)).contains c))).map (fun c => (c, u)))
  (gradesDesc b').map (fun g => (b'.filter (fun p => p.2 = g)).map (·.1))

/-- `RankedToCondorcetVotes.convert` (convert.py L399-429) for one ranking with weight `n`, unranked at bottom -/
def addRanking (allC : List Cand) (d : PairCounts) (ranking : List (List Cand)) (n : Int) : PairCounts :=
  let ranked := ranking.flatten
  let unranked := allC.filter (fun c => !(ranked.contains c))
  let rec go (d : PairCounts) : List (List Cand) → PairCounts
    | [] => d
    | upper :: lowerItems =>
      let d1 := upper.foldl (fun d u =>
        let d2 := lowerItems.flatten.foldl (fun d l => addPair d u l n) d
        unranked.foldl (fun d x => addPair d u x n) d2) d
      go d1 lowerItems
  go d ranking

/-- the pairwise counts STAR derives from the score votes (cardinal.py L362-366) -/
def pairCounts (unscored : Option Rat) (votes : SProfile) : PairCounts :=
  let allC := Appr.sortDedup (votes.flatMap (fun bn => bn.1.map (·.1)))
  votes.foldl (fun d bn => addRanking allC d (convertOne unscored allC bn.1) bn.2) []

/-- `Schulze.widest_paths` (condorcet.py L291-313) -/
def widestPaths (counts : PairCounts) : PairCounts × List Cand :=
  let allC := Appr.sortDedup (counts.flatMap (fun p => [p.1.1, p.1.2]))
  let paths0 : PairCounts := counts.foldl (fun d p =>
    if getPair counts p.1.2 p.1.1 < p.2 then setPair d p.1.1 p.1.2 p.2 else d) []
  let paths := allC.foldl (fun d c1 =>
    allC.foldl (fun d c2 =>
      if c1 ≠ c2 then
        allC.foldl (fun d ca =>
          if ca ≠ c1 ∧ ca ≠ c2 then
            let a := getPair d c2 ca
            let m := let x := getPair d c2 c1; let y := getPair d c1 ca; if y < x then y else x
            setPair d c2 ca (if a < m then m else a)
          else d) d
      else d) d) paths0
  (paths, allC)

/-- the path-win counts of `Schulze.evaluate` (condorcet.py L281-288) -/
def schulzeScores (counts : PairCounts) : Votes :=
  let (paths, _) := widestPaths counts
  let scores0 : Votes := counts.foldl (fun d p => Appr.addVote (Appr.addVote d p.1.1 0) p.1.2 0) []
  paths.foldl (fun d p =>
    if getPair paths p.1.2 p.1.1 < p.2 then Appr.addVote (Appr.addVote d p.1.1 1) p.1.2 0 else d) scores0

/-- `Schulze.evaluate` (condorcet.py L269-289) -/
def schulze (counts : PairCounts) (n : Nat) : List Slot := getNBest (schulzeScores counts) n

/-- the run-off size and the unscored value `STAR.evaluate` works with (cardinal.py L353-357, L323-325) -/
def starSize (addedCount : Nat) (addedFraction : Rat) (n : Nat) : Nat :=
  ((n : Int) + addedCount + Py.pyCeil (addedFraction * ((n : Nat) : Rat))).toNat

def starUnscored (cfg : Cfg) : Option Rat :=
  match cfg.unscored with
  | .value u => some u
  | _ => none

/-- `members.extend(cand for cand in tied if cand not in members)` for one place of the run-off selection
    (cardinal.py L361-367): a candidate, or all members of a tie object in iteration order -/
def extendMembers (ms : List Cand) : Slot → List Cand
  | Slot.cand c => if ms.contains c then ms else ms ++ [c]
  | Slot.tie T => (Appr.sortDedup T).foldl (fun ms c => if ms.contains c then ms else ms ++ [c]) ms

/-- the run-off members: candidates tied at the boundary all enter (cardinal.py L361-367) -/
def starMembers (slots : List Slot) : List Cand := slots.foldl extendMembers []

/-- every ordered pair of run-off members, a pair nobody ranked counting 0 (cardinal.py L374-377) -/
def memberPairs (all : PairCounts) (members : List Cand) : PairCounts :=
  members.flatMap (fun c1 => (members.filter (fun c2 => c1 != c2)).map (fun c2 => ((c1, c2), getPair all c1 c2)))

/-- members and run-off table of `STAR.evaluate` (cardinal.py L352-377) -/
def starRunoff (addedCount : Nat) (addedFraction : Rat) (cfg : Cfg) (votes : SProfile) (n : Nat) :
    Except Err (List Cand × PairCounts) := do
  let agg ← convert { cfg with fn := .sum } votes
  let members := starMembers (getNBest agg (starSize addedCount addedFraction n))
  pure (members, memberPairs (pairCounts (starUnscored cfg) votes) members)

/-- `STAR.evaluate` (cardinal.py L343-378) with the default Schulze run-off -/
def star (addedCount : Nat) (addedFraction : Rat) (cfg : Cfg) (votes : SProfile) (n : Nat) : Except Err (List Slot) := do
  let r ← starRunoff addedCount addedFraction cfg votes n
  if r.1.length ≤ 1 then pure ((r.1.take n).map Slot.cand)       -- L368-369
  else pure (schulze r.2 n)

/-- `STAR.evaluate` as it was BEFORE fix commit 03ef346 (kept only to state what the fix repaired): tie objects of the
    run-off selection never equal a candidate, and only pairwise entries somebody expressed reach the evaluator -/
def starPreFix (addedCount : Nat) (addedFraction : Rat) (cfg : Cfg) (votes : SProfile) (n : Nat) : Except Err (List Slot) := do
  let agg ← convert { cfg with fn := .sum } votes
  let members := Appr.slotCands (getNBest agg (starSize addedCount addedFraction n))
  let pairwin := (pairCounts (starUnscored cfg) votes).filter (fun p => members.contains p.1.1 && members.contains p.1.2)
  pure (schulze pairwin n)

/-! ### Allocated score -/

/-- `current_votes`: ballot -> remaining weight -/
abbrev WProfile := List (SBallot × Rat)

def addWeight : WProfile → SBallot → Rat → WProfile
  | [], b, w => [(b, 0 + w)]
  | (k, v) :: rest, b, w => if k = b then (k, v + w) :: rest else (k, v) :: addWeight rest b w

/-- `_sum_scores` (cardinal.py L455-465) -/
def sumScores (cv : WProfile) : Votes :=
  cv.foldl (fun d bw => bw.1.foldl (fun d cs => Appr.addVote d cs.1 (cs.2 * bw.2)) d) []

def ballotScore (b : SBallot) (c : Cand) : Option Rat :=
  match b.find? (fun p => p.1 = c) with
  | some p => some p.2
  | none => none

/-- `_find_best_votes` (cardinal.py): the ballots grading `cand` highest; `best_score = None` until the first ballot
    that grades `cand` (fix PENDING: before, the scan was bootstrapped with the minimum over all grades of all ballots
    and raised ValueError for an empty dict or an empty ballot).  Never raises. -/
def findBestVotes (cv : WProfile) (cand : Cand) : Except Err (List SBallot) :=
  let r := cv.foldl (fun (acc : List SBallot × Option Rat) bw =>
    match ballotScore bw.1 cand with
    | none => acc
    | some s =>
      match acc.2 with
      | none => ([bw.1], some s)
      | some b => if s > b then ([bw.1], some s) else if s = b then (acc.1 ++ [bw.1], some b) else acc) ([], none)
  pure r.1

def weightOf (cv : WProfile) (b : SBallot) : Rat :=
  match cv.find? (fun p => p.1 = b) with
  | some p => p.2
  | none => 0

/-- `_fraction_out_elected` (cardinal.py L499-536); `fuel` ≥ number of ballots + 1 -/
def fractionOut : Nat → WProfile → Cand → Rat → Except Err WProfile
  | 0, _, _, _ => .error (.other "Fuel")
  | fuel + 1, cv, cand, size =>
    if size > 0 then do
      let best ← findBestVotes cv cand
      let cur := (best.map (weightOf cv)).sum
      if cur = 0 then pure cv
      else if cur > size then
        let f := (cur - size) / cur
        pure (cv.map (fun bw => if best.contains bw.1 then (bw.1, bw.2 * f) else bw))
      else
        fractionOut fuel (cv.filter (fun bw => !(best.contains bw.1))) cand (size - cur)
    else pure cv

/-- `_subtract_votes` (cardinal.py L467-497) with `max_seats = 1` for everybody and no previous gains (the selector):
    `gained == max_seats` holds exactly when the candidate has just won its first seat -/
def subtractVotes (cv : WProfile) (cand : Cand) (gained : Nat) (quota : Rat) : Except Err WProfile := do
  let cv1 ← fractionOut (cv.length + 1) cv cand quota
  if gained = 1 then
    pure (cv1.foldl (fun d bw => addWeight d (bw.1.filter (fun p => p.1 ≠ cand)) bw.2) [])
  else pure cv1

/-- the elimination step of `_subtract_votes` (L484-495): the candidate's grades leave the ballots; ballots that become
    equal are merged -/
def removeCand (cv : WProfile) (cand : Cand) : WProfile :=
  cv.foldl (fun d bw => addWeight d (bw.1.filter (fun p => p.1 ≠ cand)) bw.2) []

abbrev Elected := List (Key × Nat)

def bump : Elected → Key → Nat → Elected
  | [], k, n => [(k, 0 + n)]
  | (k', v) :: rest, k, n => if k' = k then (k', v + n) :: rest else (k', v) :: bump rest k n

def electedOf (e : Elected) (c : Cand) : Nat :=
  match e.find? (fun p => p.1 = Key.cand c) with
  | some p => p.2
  | none => 0

/-- the `while rem_seats > 0` loop of `AllocatedScoreDistributor.evaluate` (cardinal.py L420-453) -/
def allocLoop (quota : Rat) : Nat → WProfile → Elected → Nat → Except Err Elected
  | 0, _, elected, rem => if rem = 0 then .ok elected else .error (.other "Fuel")
  | fuel + 1, cv, elected, rem =>
    if rem = 0 then .ok elected
    else
      match getNBest (sumScores cv) 1 with
      | [] => .error .votingSystemError       -- `if not agg_scores: raise VotingSystemError('ballots exhausted …')`
      | Slot.cand best :: _ => do
        let elected1 := bump elected (Key.cand best) 1
        let cv1 ← subtractVotes cv best (electedOf elected1 best) quota
        allocLoop quota fuel cv1 elected1 (rem - 1)
      | Slot.tie T :: _ =>
        let members := Appr.sortDedup T
        if rem ≥ members.length then do
          let r ← members.foldlM (fun (st : WProfile × Elected) c => do
            let e1 := bump st.2 (Key.cand c) 1
            let cv1 ← subtractVotes st.1 c (electedOf e1 c) quota
            pure (cv1, e1)) (cv, elected)
          allocLoop quota fuel r.1 r.2 (rem - members.length)
        else .ok (bump elected (Key.tie members) rem)

/-- `AllocatedScoreSelector.evaluate`: every key of the distributor's result as often as it won seats — a Tie key once
    per seat it contests (fix 4ae6629; before, `list(result)` listed each key once) -/
def allocatedSelector (quota : Rat → Nat → Rat) (votes : SProfile) (n : Nat) : Except Err (List Key) := do
  let cv : WProfile := votes.map (fun bn => (bn.1, ((bn.2 : Int) : Rat)))
  let q := quota (((totalVotes votes : Int)) : Rat) n
  let e ← allocLoop q n cv [] n
  pure (e.flatMap (fun p => List.replicate p.2 p.1))

/-- the selector on ballots with arbitrary exact weights (`int` or `Fraction` counts) -/
def allocatedSelectorW (quota : Rat → Nat → Rat) (cv : WProfile) (n : Nat) : Except Err (List Key) := do
  let q := quota ((cv.map (·.2)).sum) n
  let e ← allocLoop q n cv [] n
  pure (e.flatMap (fun p => List.replicate p.2 p.1))

/-! ### Allocated score by definition (tie-free rounds, no ballot running out)

  Each seat: the candidate with the strictly greatest weighted score sum `Σ grade · weight`; one quota of its strongest
  supporters is spent — grade group by grade group from the highest grade down, whole groups while they fit, the last one
  scaled uniformly —; then the winner's grades leave the ballots.  The definition is partial: it gives `none` as soon as
  a round has no strict winner — the code's tie branches, or nobody graded on any remaining ballot (the code then refuses
  with VotingSystemError) —, so `(allocSpec …).isSome` is the decidable hypothesis "every round has a strict winner". -/

/-- weighted score sum of a candidate over the remaining ballots -/
def scoreSum (cv : WProfile) (c : Cand) : Rat :=
  (cv.map (fun bw => match ballotScore bw.1 c with
    | some g => g * bw.2
    | none => 0)).sum

/-- the candidates graded on some remaining ballot -/
def gradedCands (cv : WProfile) : List Cand := Appr.sortDedup (cv.flatMap (fun bw => bw.1.map (·.1)))

/-- greatest entry of a list -/
def listMax? : List Rat → Option Rat
  | [] => none
  | x :: xs => some (xs.foldl (fun m y => if m < y then y else m) x)

/-- the highest grade any remaining ballot gives `c` -/
def maxGrade? (cv : WProfile) (c : Cand) : Option Rat := listMax? (cv.filterMap (fun bw => ballotScore bw.1 c))

/-- weight of the ballots grading `c` exactly `m` -/
def gradeWeight (cv : WProfile) (c : Cand) (m : Rat) : Rat :=
  ((cv.filter (fun bw => ballotScore bw.1 c = some m)).map (·.2)).sum

/-- spend (at most) `q` of ballot weight on `c`, strongest supporters first -/
def spendSpec : Nat → WProfile → Cand → Rat → Option WProfile
  | 0, _, _, _ => none
  | fuel + 1, cv, c, q =>
    if q ≤ 0 then some cv
    else match maxGrade? cv c with
      | none => some cv
      | some m =>
        let size := gradeWeight cv c m
        if size > q then
          some (cv.map (fun bw => if ballotScore bw.1 c = some m then (bw.1, bw.2 * ((size - q) / size)) else bw))
        else spendSpec fuel (cv.filter (fun bw => !decide (ballotScore bw.1 c = some m))) c (q - size)

/-- the rounds; the first argument is the number of seats still to fill -/
def allocSpecGo (q : Rat) : Nat → WProfile → List Cand → Option (List Cand)
  | 0, _, el => some el
  | rem + 1, cv, el =>
    let cands := gradedCands cv
    match cands.filter (fun c => cands.all (fun d => decide (scoreSum cv d ≤ scoreSum cv c))) with
    | [c] =>
      match spendSpec (cv.length + 1) cv c q with
      | some cv1 => allocSpecGo q rem (removeCand cv1 c) (el ++ [c])
      | none => none
    | _ => none

/-- allocated score (selector) by definition -/
def allocSpec (quota : Rat → Nat → Rat) (votes : SProfile) (n : Nat) : Option (List Cand) :=
  allocSpecGo (quota (((totalVotes votes : Int)) : Rat) n) n (votes.map (fun bn => (bn.1, ((bn.2 : Int) : Rat)))) []

end VL.Score
