/-
  VotelibModel.Blt — the BLT ballot-file writer and parser of `votelib/io/blt.py` at TOKEN level (C19).

  A text line is abstracted to what the two lexers of the module (`_parse_numline` L246-264 after
  `_clean_line` L223-231, and the quoted-string test of `_parse_strings` L195-203) can see of it:

    * `Line.blank`        — empty after stripping / comment removal;
    * `Line.quoted s`     — starts and ends with a double quote (inner text `s`); as a number line its first
                            whitespace-separated item starts with `"`, so it is a `Tok.bad` first item;
    * `Line.toks ts`      — any other non-empty line, as its whitespace-separated items, each classified by
                            what Python does with it: `nat n` (`str.isdigit()` and `int()` succeed),
                            `udigit` (`isdigit()` holds but `int()` raises ValueError, e.g. '²'),
                            `dec r` (not all digits; `Decimal()`, or `Fraction()` when the item contains '/',
                            gives the finite value r), `nan` (`Decimal()` gives a NaN),
                            `bad` (`Decimal()` / `Fraction()` raises: InvalidOperation, ValueError, ZeroDivisionError).

  Lexing itself (strip, split, '#' comments, quotes, `str(weight)`, `Decimal(text)`) is NOT modelled: the
  harness tokenises real text with Python's own predicates and compares writer and parser with this model on the
  resulting token lines.  Everything after lexing is mirrored line by line, quirks included.
  Import-free.
-/
import VotelibModel.Core
namespace VL.Blt
open VL

inductive Tok where
  | nat (n : Nat)
  | dec (r : Rat)
  | nan
  | udigit
  | bad
deriving DecidableEq, Repr, Inhabited

inductive Line where
  | blank
  | quoted (s : String)
  | toks (ts : List Tok)
deriving DecidableEq, Repr, Inhabited

/-- a ballot weight handed to the writer: Python int, Decimal (value, and whether `str(d)` is all digits),
    Fraction -/
inductive Weight where
  | int (z : Int)
  | decimal (r : Rat) (digits : Bool)
  | fraction (r : Rat)
deriving DecidableEq, Repr, Inhabited

def Weight.val : Weight → Rat
  | .int z => (z : Rat)
  | .decimal r _ => r
  | .fraction r => r

/-- an election as the writer receives it / the parser returns it: seats, candidates (name, withdrawn) in list
    order, ballots as lists of 0-based candidate positions with their weight (dict insertion order), title -/
structure Doc (ω : Type) where
  nSeats : Nat
  cands : List (String × Bool)
  ballots : List (List Nat × ω)
  title : Option String
deriving DecidableEq, Repr

/-! ### writer (blt.py L37-88) -/

/-- the item `str(weight)` produces, as the parser will classify it (L84 / L256-263) -/
def weightTok : Weight → Tok
  | .int z => if 0 ≤ z then .nat z.toNat else .dec (z : Rat)
  | .decimal r digits => if digits then .nat r.num.toNat else .dec r
  | .fraction r => if r.den = 1 ∧ 0 ≤ r.num then .nat r.num.toNat else .dec r      -- 'p/q' is read back by Fraction()

/-- `_get_withdrawn_inds` (L64-68) -/
def wdFrom : Nat → List (String × Bool) → List Nat
  | _, [] => []
  | i, c :: t => if c.2 then i :: wdFrom (i + 1) t else wdFrom (i + 1) t
def withdrawnInds (cands : List (String × Bool)) : List Nat := wdFrom 0 cands

/-- `_dump_vote` (L72-85) when it does not refuse: `[n_votes] + [index+1 ...] + [0]` -/
def dumpVote (b : List Nat × Weight) : Line :=
  .toks (weightTok b.2 :: (b.1.map (fun i => Tok.nat (i + 1)) ++ [Tok.nat 0]))

/-- the lines of `dump_lines` (L37-58) with an explicit candidate list, when no ballot is refused -/
def dumpLines (d : Doc Weight) : List Line :=
  [Line.toks [.nat d.cands.length, .nat d.nSeats]]
  ++ (withdrawnInds d.cands).map (fun (i : Nat) => Line.toks [.dec (-((i : Rat) + 1))])
  ++ d.ballots.map dumpVote
  ++ [Line.toks [.nat 0]]
  ++ d.cands.map (fun c => Line.quoted c.1)
  ++ (match d.title with | some t => [Line.quoted t] | none => [])

def notSupported : Err := Err.other "NotSupportedInFormat"

/-- what `_dump_vote` refuses with NotSupportedInBLT: a negative weight (L76-78, since 7f49a3e: a line starting with a
    negative number marks withdrawn candidates) and a ballot naming somebody who is not in the candidate list
    (`candidates.index` fails, L79-82; a position outside the list stands for such a candidate) -/
def voteRefused (nCands : Nat) (b : List Nat × Weight) : Bool :=
  decide (b.2.val < 0) || b.1.any (fun i => decide (nCands ≤ i))

/-- `dump_lines` / `dumps`: the generator raises at the first refused ballot, so no text is produced at all -/
def dumpBlt (d : Doc Weight) : Except Err (List Line) :=
  if d.ballots.any (voteRefused d.cands.length) then throw notSupported else pure (dumpLines d)

/-! ### parser (blt.py L91-264) -/

/-- a parsed item of a number line -/
inductive Num where
  | nat (n : Nat)
  | dec (r : Rat)              -- Decimal or Fraction: only the value matters below (`add_weights` adds exactly)
deriving DecidableEq, Repr, Inhabited

def Num.val : Num → Rat
  | .nat n => (n : Rat)
  | .dec r => r

/-- the item loop of `_parse_numline` (L265-279); `i0` = "this is item 0".  Every refusal of `int()`, `Decimal()`,
    `Fraction()` and a NaN (`num != num`) is caught and re-raised as BLTParseError. -/
def parseItems (allowDec : Bool) : Bool → List Tok → Except Err (List Num)
  | _, [] => pure []
  | i0, t :: ts => do
      let x ← (match t with
        | .nat n => pure (Num.nat n)
        | .udigit => throw Err.parseError                      -- isdigit() but int() refuses: ValueError, caught
        | .dec r => if i0 && allowDec then pure (Num.dec r) else throw Err.parseError
        | .nan => throw Err.parseError                         -- `num != num`
        | .bad => throw Err.parseError)
      let xs ← parseItems allowDec false ts
      pure (x :: xs)

/-- `_parse_numline` (L246-264) -/
def parseNumline (allowDec : Bool) : Line → Except Err (List Num)
  | .blank => pure []
  | .quoted _ => throw Err.parseError                  -- its first item starts with '"': never a number
  | .toks ts => parseItems allowDec true ts

/-- `_parse_header` (L144-155) -/
def parseHeader (l : Line) : Except Err (Nat × Nat) := do
  match ← parseNumline false l with
  | [.nat a, .nat b] => pure (a, b)
  | _ => throw Err.parseError

/-- ballots under construction: index tuples (1-based, as read) with the running weight -/
abbrev RawBallots := List (List Nat × Rat)

/-- `ballots[ballot] = add_weights(ballots[ballot], weight)` with the `= 0` initialisation (L188-192; io/core.py
    `add_weights`, since 134a849): the first weight is taken as it is, every further one is added EXACTLY (a Decimal
    goes through Fraction, so nothing is rounded to the Decimal context and Decimal meets Fraction) — here: Rat -/
def addBallot : RawBallots → List Nat → Rat → RawBallots
  | [], b, w => [(b, 0 + w)]
  | (b', w') :: t, b, w => if b' = b then (b', w' + w) :: t else (b', w') :: addBallot t b w

/-- items after the first are `nat` (parseItems guarantees it); their values -/
def natsOf : List Num → List Nat
  | [] => []
  | .nat n :: t => n :: natsOf t
  | _ :: t => natsOf t

/-- `_parse_body` (L158-186): returns ballots, the withdrawn set (as the list of numbers added to it) and the
    unread rest of the lines -/
def parseBody (oneplus : Bool) : List Line → RawBallots → List Rat → Bool → Except Err (RawBallots × List Rat × List Line)
  | [], _, _, _ => throw Err.parseError                                 -- L185: EOF before terminator
  | l :: rest, ballots, withdrawn, seen => do
      let result ← parseNumline true l
      match result with
      | [] => parseBody oneplus rest ballots withdrawn seen              -- L166-167
      | first :: more =>
        if more.isEmpty && first.val = 0 then                            -- L168: result == [0]
          pure (ballots, withdrawn, rest)
        else if first.val < 0 then                                       -- L171-176
          if seen then throw Err.parseError
          else parseBody oneplus rest ballots (withdrawn ++ result.map (fun n => -n.val)) seen
        else                                                             -- L177-184, `_parse_ballot` L234-243
          match result.getLast? with
          | some last =>
            if last.val ≠ 0 then throw Err.parseError
            else
              let body := result.dropLast
              match body with
              | [] => throw Err.parseError         -- unreachable: a single 0 is the terminator, a single non-zero fails above
              | w :: idx =>
                  if oneplus && decide (w.val < 1) then throw Err.parseError      -- L186-187 `oneplus_weights` (BLTParseError since 6e1811c)
                  else parseBody oneplus rest (addBallot ballots (natsOf idx) w.val) withdrawn true
          | none => throw Err.parseError           -- unreachable

/-- the line loop of `_parse_strings` (L192-203) -/
def collectStrings : List Line → Bool → List String → Except Err (List String)
  | [], _, acc => pure acc
  | .quoted s :: rest, emptySeen, acc =>
      if emptySeen then throw Err.parseError else collectStrings rest emptySeen (acc ++ [s])
  | .blank :: rest, _, acc => collectStrings rest true acc
  | .toks _ :: _, _, _ => throw Err.parseError

/-- `_parse_strings` (L189-220) -/
def parseStrings (ls : List Line) (nCands : Nat) : Except Err (Option (List String) × Option String) := do
  let parsed ← collectStrings ls false []
  if parsed.isEmpty then pure (none, none)
  else if parsed.length = 1 then
    (if nCands = 1 then pure (some parsed, none) else pure (none, parsed.head?))
  else if parsed.length < nCands then throw Err.parseError
  else if parsed.length = nCands then pure (some parsed, none)
  else if parsed.length = nCands + 1 then pure (some parsed.dropLast, parsed.getLast?)
  else throw Err.parseError

/-- `_numeric_candidates` (L118-119) -/
def numericCandidates (n : Nat) : List String := (List.range n).map (fun i => toString (i + 1))

/-- `_form_candidate_objects` (L122-132): `withdrawn=(i+1 in withdrawn)` -/
def formFrom (withdrawn : List Rat) : Nat → List String → List (String × Bool)
  | _, [] => []
  | i, s :: t => (s, decide (((i : Rat) + 1) ∈ withdrawn)) :: formFrom withdrawn (i + 1) t
def formCandidates (names : List String) (withdrawn : List Rat) : List (String × Bool) :=
  formFrom withdrawn 0 names

/-- `all(1 <= i <= len(cands) for i in ballot)` for every ballot (L139-141) -/
def allInRange (n : Nat) (bs : List (List Nat × Rat)) : Bool :=
  bs.all (fun b => b.1.all (fun i => decide (1 ≤ i) && decide (i ≤ n)))

/-- dict-comprehension assignment: a later equal key overwrites the value, keeps the first position -/
def setBallot : List (List Nat × Rat) → List Nat → Rat → List (List Nat × Rat)
  | [], b, w => [(b, w)]
  | (b', w') :: t, b, w => if b' = b then (b', w) :: t else (b', w') :: setBallot t b w

/-- the dict comprehension of `_deindex_ballots` (L142-145), after the range check: `cands[i-1]` -/
def deindexAll : RawBallots → List (List Nat × Rat) → List (List Nat × Rat)
  | [], acc => acc
  | (b, w) :: t, acc => deindexAll t (setBallot acc (b.map (· - 1)) w)

/-- `_deindex_ballots` (L135-145) -/
def deindex (n : Nat) (bs : RawBallots) : Except Err (List (List Nat × Rat)) :=
  if allInRange n bs then pure (deindexAll bs []) else throw Err.parseError

/-- `load_lines` (L91-112) -/
def loadBltWith (oneplus : Bool) : List Line → Except Err (Doc Rat)
  | [] => throw Err.parseError                                          -- L96-97 empty file
  | h :: rest => do
      let (nCands, nSeats) ← parseHeader h
      let (ballots, withdrawn, rest') ← parseBody oneplus rest [] [] false
      let (names?, title) ← parseStrings rest' nCands
      let names := names?.getD (numericCandidates nCands)
      let cands := formCandidates names withdrawn
      let trueBallots ← deindex cands.length ballots
      pure { nSeats := nSeats, cands := cands, ballots := trueBallots, title := title }

/-- `load_lines` with the default `oneplus_weights=False` -/
def loadBlt (ls : List Line) : Except Err (Doc Rat) := loadBltWith false ls

/-! ### well-formedness of a document handed to the writer -/

def weightOK : Weight → Bool
  | .int z => 0 ≤ z
  | .decimal r digits => 0 ≤ r && (!digits || r.den = 1)
  | .fraction r => 0 ≤ r

/-- ballots name listed candidates, are pairwise different (dict keys), weights are non-negative -/
def WFdoc (d : Doc Weight) : Bool :=
  d.ballots.all (fun b => b.1.all (· < d.cands.length) && weightOK b.2)
  && decide (d.ballots.map (·.1)).Nodup

/-- what holds of every election handed to the writer, by the way it is represented here: the ballots are the keys of
    a dict (pairwise different), and a Decimal whose `str()` is all digits is a non-negative whole number -/
def reprOK : Weight → Bool
  | .decimal r digits => !digits || (r.den = 1 && decide (0 ≤ r))
  | _ => true

def WFrepr (d : Doc Weight) : Bool :=
  d.ballots.all (fun b => reprOK b.2) && decide (d.ballots.map (·.1)).Nodup

def eraseDoc (d : Doc Weight) : Doc Rat :=
  { nSeats := d.nSeats, cands := d.cands, ballots := d.ballots.map (fun b => (b.1, b.2.val)), title := d.title }


/-! ### where a comment starts (`_clean_line`, blt.py L233-241) — character level

  The token model above takes lines as already cleaned.  This part models the cleaning itself: a `#` comment starts at
  the first hash sign at or after the LAST double quote of the (stripped) line — at the first hash sign anywhere if
  the line has no quote — and the line is cut there and right-stripped.  White space is Python's `str.strip()` set
  restricted to ASCII (9-13, 28-32); other Unicode space characters are not modelled. -/

def isWs (c : Char) : Bool :=
  (9 ≤ c.val && c.val ≤ 13) || (28 ≤ c.val && c.val ≤ 32)

def lstrip : List Char → List Char
  | [] => []
  | c :: t => if isWs c then lstrip t else c :: t

def rstrip (l : List Char) : List Char := (lstrip l.reverse).reverse

def strip (l : List Char) : List Char := rstrip (lstrip l)

/-- `blt_line.rfind('"')`, if any -/
def lastQuoteIdx : List Char → Option Nat
  | [] => none
  | c :: t => match lastQuoteIdx t with
    | some i => some (i + 1)
    | none => if c = '"' then some 0 else none

/-- `blt_line[start:].find('#')` -/
def hashIdx : List Char → Option Nat
  | [] => none
  | c :: t => if c = '#' then some 0 else (hashIdx t).map (· + 1)

/-- the comment cut on a stripped line (L236-241) -/
def cutComment (l : List Char) : List Char :=
  let start := (lastQuoteIdx l).getD 0
  match hashIdx (l.drop start) with
  | none => l
  | some k => rstrip (l.take (start + k))

/-- `_clean_line` -/
def cleanLineL (l : List Char) : List Char := cutComment (strip l)
def cleanLine (s : String) : String := String.ofList (cleanLineL s.toList)

/-- the line `_dump_strline` writes for a name or title (L87-88) -/
def strLine (name : List Char) : List Char := '"' :: name ++ ['"']

end VL.Blt
