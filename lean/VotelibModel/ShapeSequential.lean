/-
  VotelibModel.ShapeSequential — multi-seat models of the two public evaluators of
  `votelib/evaluate/sequential.py` that had none: `Baldwin` (L732-782) and `PreferenceAddition`
  (Bucklin / Oklahoma, L495-624), for property C08 (result shape).

  The converters are those of VotelibModel.Convert (C13): `rankedToPositional (.borda 0)` is the default
  `RankedToPositionalVotes(Borda(base=0))` of Baldwin, `subsetted (subsetRanked S)` is
  `RANKED_SUBSETTER.convert(votes, S)` (L627-629: ballots that become empty stay in the dict as `()`).
  `get_n_best` is `VL.getNBest` (core.py L104-140), `Tie.reconcile` is modelled here (core.py L41-64).

  Conventions as in Convert.lean: a shared rank is the list of its members in canonical (protocol) order;
  where Python iterates a frozenset the model iterates that list.
-/
import VotelibModel.Core
import VotelibModel.Convert
namespace VL.ShapeSeq
open VL VL.Convert

/-! ## Baldwin (sequential.py L732-782) -/

/-- `Baldwin._compute_negative_scores` (sequential.py L776-782) with the default converter
    `RankedToPositionalVotes(Borda(base=0))` (L735-740): a dict comprehension over the converter's result, whose
    insertion order is that of `util.descending_dict`.  The converter's ValueError (Borda refusing a ballot with
    more ranks than candidates) propagates. -/
def negScores (p : RProfile) : Except Err Votes :=
  match rankedToPositional (.borda 0) p with
  | .ok d => .ok (d.map (fun e => (e.1, -e.2)))
  | .error e => .error e

/-- `RANKED_SUBSETTER.convert(votes, subset)` (sequential.py L627-629, convert.py L943-949, vote.py L620-643) -/
def rankedSubset (p : RProfile) (subset : List Cand) : RProfile := subsetted (subsetRanked subset) p

/-- the `while len(neg_scores) > n_seats` loop of `Baldwin.evaluate` (sequential.py L747-774).
    Every round removes at least one key of `neg_scores`, so `len(neg_scores) + 1` rounds of fuel are never
    used up (proved: `baldwin_fuel`). -/
def baldwinLoop (n : Nat) : Nat → RProfile → Votes → Except Err (List Slot)
  | 0, _, _ => .error (.other "fuel")
  | f + 1, cur, neg =>
    if neg.length > n then                                               -- L747
      match getNBest neg 1 with                                          -- L748 `get_n_best(neg_scores, 1)[0]`
      | [] => .error (.other "IndexError")
      | Slot.tie T :: _ =>                                               -- L749
        let remaining := (keys neg).filter (fun c => c ∉ T)              -- L750
        let nRem := neg.length - T.length                                -- L751
        if nRem < n then                                                 -- L752
          let nTies := n - nRem                                          -- L753
          match negScores (rankedSubset cur remaining) with              -- L756-758
          | .ok rs => .ok (getNBest rs (n - nTies) ++ List.replicate nTies (Slot.tie T))   -- L759-764
          | .error e => .error e
        else
          let cur' := rankedSubset cur remaining                         -- L772
          match negScores cur' with                                      -- L773
          | .ok neg' => baldwinLoop n f cur' neg'
          | .error e => .error e
      | Slot.cand c :: _ =>
        let remaining := (keys neg).filter (fun x => x ≠ c)              -- L771
        let cur' := rankedSubset cur remaining                           -- L772
        match negScores cur' with                                        -- L773
        | .ok neg' => baldwinLoop n f cur' neg'
        | .error e => .error e
    else .ok (getNBest neg n)                                            -- L774

/-- `Baldwin().evaluate(votes, n_seats)` (sequential.py L742-774) -/
def baldwin (p : RProfile) (n : Nat) : Except Err (List Slot) :=
  match negScores p with                                                 -- L746
  | .ok neg => baldwinLoop n (neg.length + 1) p neg
  | .error e => .error e

/-! ## PreferenceAddition (sequential.py L495-624) -/

/-- every element of a list together with the others, in order -/
def picks {α : Type} : List α → List (α × List α)
  | [] => []
  | x :: xs => (x, xs) :: (picks xs).map (fun yr => (yr.1, x :: yr.2))

/-- `itertools.permutations(l)`: lexicographic in the positions (`fuel` = `len(l)`) -/
def permsLexAux : Nat → List Cand → List (List Cand)
  | 0, _ => [[]]
  | f + 1, l =>
    match l with
    | [] => [[]]
    | _ :: _ => (picks l).flatMap (fun xr => (permsLexAux f xr.2).map (fun q => xr.1 :: q))

def permsLex (l : List Cand) : List (List Cand) := permsLexAux l.length l

def isShared : RankItem → Bool
  | .shared _ => true
  | .one _ => false

/-- `equal_rank_tuples` (sequential.py L570-573): the shared ranks of a ballot with their indices, from index `i` on -/
def sharedRanks : Nat → Ballot → List (Nat × List Cand)
  | _, [] => []
  | i, .one _ :: rest => sharedRanks (i + 1) rest
  | i, .shared cs :: rest => (i, cs) :: sharedRanks (i + 1) rest

/-- `itertools.product(*factors)`: the first factor varies slowest -/
def product {α : Type} : List (List α) → List (List α)
  | [] => [[]]
  | f :: rest => f.flatMap (fun x => (product rest).map (fun t => x :: t))

/-- the inner loop L587-594 building one variant ballot: `var_vote[:i+offset] + var_part + var_vote[i+offset+1:]`,
    then `offset += len(var_part) - 1` (after fix c2fec8e: the substitution lengthens the ballot by one less than the
    length of the permuted rank).  The offset is a Python int (`-1` per empty shared rank); `i + offset` is never
    negative, as at most `i` ranks precede rank `i`. -/
def substitute : Ballot → Int → List (Nat × List Cand) → Ballot
  | var, _, [] => var
  | var, offset, (i, part) :: rest =>
    let k := ((i : Int) + offset).toNat
    substitute (var.take k ++ part.map RankItem.one ++ var.drop (k + 1)) (offset + (part.length : Int) - 1) rest

/-- the variant ballots of one ballot (sequential.py L570-594), in the order of `itertools.product` over
    `itertools.permutations` of the shared ranks -/
def variants (b : Ballot) : List Ballot :=
  let eq := sharedRanks 0 b
  (product (eq.map (fun ir => permsLex ir.2))).map (fun variant => substitute b 0 ((eq.map (·.1)).zip variant))

/-- the loop as it was BEFORE fix c2fec8e (`offset += len(var_part)`): from the second shared rank on the slice hit the
    place AFTER the shared rank — that place was dropped, the shared rank itself stayed on the ballot (as a set), and
    its permutation was inserted behind it.  Kept only for the `prefix_…_witness` theorem. -/
def substitutePreFix : Ballot → Nat → List (Nat × List Cand) → Ballot
  | var, _, [] => var
  | var, offset, (i, part) :: rest =>
    substitutePreFix (var.take (i + offset) ++ part.map RankItem.one ++ var.drop (i + offset + 1)) (offset + part.length) rest

def variantsPreFix (b : Ballot) : List Ballot :=
  let eq := sharedRanks 0 b
  (product (eq.map (fun ir => permsLex ir.2))).map (fun variant => substitutePreFix b 0 ((eq.map (·.1)).zip variant))

/-- `PreferenceAddition._decouple_equal_rankings` (sequential.py L565-598): `new_votes = votes.copy()`; for every
    ballot with a shared rank `del new_votes[ballot]` and every variant receives `n_votes / len(variants)`, added
    to what the variant holds already -/
def decouple (p : RProfile) : RProfile :=
  p.foldl (fun nv bw =>
    if bw.1.any isShared then
      let vars := variants bw.1
      vars.foldl (fun nv v => addTo nv v (bw.2 / (vars.length : Rat))) (nv.filter (fun e => e.1 ≠ bw.1))
    else nv) p

/-- `PreferenceAddition._add_round_votes` (sequential.py L600-616) with `coef = _get_coefficient(pref_i)`:
    every member of the place `pref_i` that is not in `elected` (a list of candidates and Tie objects: a candidate
    never equals a Tie) receives `n_votes * coef` in the `defaultdict(int)` -/
def addRound (coef : Rat) (p : RProfile) (i : Nat) (elected : List Slot) (tot : Votes) : Votes :=
  p.foldl (fun t bw => match bw.1[i]? with
    | some it => it.cands.foldl (fun t c => if Slot.cand c ∈ elected then t else addTo t c (bw.2 * coef)) t
    | none => t) tot

/-- the `for pref_i in range(max_pref_len)` loop of `PreferenceAddition.evaluate` (sequential.py L542-562):
    `fuel` rounds are left, `i` is `pref_i` -/
def paLoop (coef : Nat → Rat) (p : RProfile) (quota : Rat) (n : Nat) : Nat → Nat → Votes → List Slot → List Slot
  | 0, _, _, elected => elected
  | f + 1, i, tot, elected =>
    let tot' := addRound (coef i) p i elected tot                                      -- L544
    let majority := (sortDesc tot').filter (fun e => decide (quota < e.2))            -- L546-550
    let best := getNBest majority (n - elected.length)                                -- L551-554
    let elected' := elected ++ best                                                   -- L555
    if elected'.length = n then elected'                                              -- L556-557
    else paLoop coef p quota n f (i + 1) (tot'.filter (fun e => Slot.cand e.1 ∉ best)) elected'   -- L559-561

/-- `n_places` of `Tie.reconcile` (core.py L50-55); the `defaultdict(float)` sums are exact here -/
def nPlaces (elected : List Slot) : Votes :=
  elected.foldl (fun np s => match s with
    | .tie T => T.foldl (fun np c => addTo np c (1 / (T.length : Rat))) np
    | .cand _ => np) []

/-- `Tie.reconcile(elected)` (core.py L41-64): `Fraction(1, len(result))` divides by zero for an empty Tie;
    some candidate with a whole place raises NotImplementedError; otherwise no change -/
def reconcile (elected : List Slot) : Except Err (List Slot) :=
  if elected.any (fun s => s == Slot.tie []) then .error (.other "ZeroDivisionError")
  else if (nPlaces elected).any (fun e => decide (1 ≤ e.2)) then .error .notImplemented
  else .ok elected

/-- `PreferenceAddition(coefficients, split_equal_rankings).evaluate(votes, n_seats)` (sequential.py L525-563).
    `coef i` is `_get_coefficient(i)` (L618-624).  `max()` over no ballots is a ValueError (L538-540). -/
def preferenceAddition (coef : Nat → Rat) (split : Bool) (p : RProfile) (n : Nat) : Except Err (List Slot) :=
  let votes := if split then decouple p else p                                        -- L534-535
  if votes.isEmpty then .error .valueError                                            -- L538
  else reconcile (paLoop coef votes (sumValues votes / 2) n (maxLen votes) 0 [] [])   -- L536-563

/-- coefficients `[1]` (the default: Bucklin) -/
def coefBucklin : Nat → Rat := fun _ => 1
/-- `lambda i: Fraction(1, i + 1)` (Oklahoma) -/
def coefOklahoma : Nat → Rat := fun i => 1 / ((i + 1 : Nat) : Rat)

end VL.ShapeSeq
