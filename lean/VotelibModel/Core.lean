/-
  VotelibModel.Core — shared data types and the port of
  `votelib.util.sorted_votes` and `votelib.evaluate.core.get_n_best`.
  Import-free (core Lean only) so that it links into the native driver.
-/
namespace VL

/-- candidates are numbered by the harness (protocol ids) -/
abbrev Cand := Nat

/-- one place of a selection result: a candidate, or a `Tie` object (its members) -/
inductive Slot where
  | cand (c : Cand)
  | tie (cs : List Cand)
deriving DecidableEq, Repr, Inhabited

/-- key of a distribution result -/
inductive Key where
  | cand (c : Cand)
  | tie (cs : List Cand)
deriving DecidableEq, Repr, Inhabited

/-- a Python `dict` of candidate -> number, in insertion order -/
abbrev Votes := List (Cand × Rat)

/-- outcome enum of the protocol: the exceptions the library declares, and the rest -/
inductive Err where
  | votingSystemError
  | notImplemented
  | valueError
  | voteError
  | candidateError
  | parseError
  | other (name : String)
deriving DecidableEq, Repr, Inhabited

/-- `util.sorted_votes(votes, descending=True)`: Python's `sorted(..., reverse=True)` is stable,
    i.e. items with equal values keep their insertion order. -/
def insertDesc (x : Cand × Rat) : Votes → Votes
  | [] => [x]
  | y :: ys => if x.2 < y.2 then y :: insertDesc x ys else x :: y :: ys

def sortDesc : Votes → Votes
  | [] => []
  | x :: xs => insertDesc x (sortDesc xs)

/-- `util.sorted_votes(votes, descending=False)` (stable ascending) -/
def insertAsc (x : Cand × Rat) : Votes → Votes
  | [] => [x]
  | y :: ys => if y.2 < x.2 then y :: insertAsc x ys else x :: y :: ys

def sortAsc : Votes → Votes
  | [] => []
  | x :: xs => insertAsc x (sortAsc xs)

/-- port of `votelib.evaluate.core.get_n_best` (core.py L104-140), for `n ≥ 1`.
    `s[n-1]`/`s[n]` exist in the first branch; the `| _, _ => []` arm is unreachable
    (proved: `getNBest_eq_spec` covers every input with `1 ≤ n`). -/
def getNBest (votes : Votes) (n : Nat) : List Slot :=
  let s := sortDesc votes
  if s.length > n then
    match s[n-1]?, s[n]? with
    | some a, some b =>
      if b.2 = a.2 then
        let thr := a.2
        let tied := (s.filter (fun p => p.2 = thr)).map (·.1)
        let nUntied := (s.takeWhile (fun p => p.2 ≠ thr)).length
        (s.take nUntied).map (fun p => Slot.cand p.1) ++ List.replicate (n - nUntied) (Slot.tie tied)
      else (s.take n).map (fun p => Slot.cand p.1)
    | _, _ => []
  else s.map (fun p => Slot.cand p.1)

/-- value lookup in a dict (first match; WF dicts have distinct keys) -/
def lookup (votes : Votes) (c : Cand) : Option Rat :=
  match votes.find? (fun p => p.1 = c) with
  | some p => some p.2
  | none => none

def getD (votes : Votes) (c : Cand) (d : Rat) : Rat := (lookup votes c).getD d

def sumVals (votes : Votes) : Rat := votes.foldl (fun acc p => acc + p.2) 0

def keys (votes : Votes) : List Cand := votes.map (·.1)

end VL
