/-
  VotelibModel.PSC — proportionality for solid coalitions as a decidable check on an STV outcome (C04).
  This is a specification-side checker (there is no such function in votelib); it is applied by the driver
  to the outcomes of the model and of the implementation, and proved sound and complete for the statement
  quantified over all candidate subsets in VotelibProofs/Props/C04.lean.
-/
import VotelibModel.STV
namespace VL.STV
open VL

/-- same candidates, as sets -/
def sameSet (l1 l2 : List Cand) : Bool := l1.all (fun c => decide (c ∈ l2)) && l2.all (fun c => decide (c ∈ l1))

/-- the candidates in the first `j` ranks of a ballot -/
def prefixCands (b : Ballot) (j : Nat) : List Cand := ballotCands (b.take j)

/-- the ballot ranks exactly the candidates `S` above everyone else: some prefix of its ranks holds exactly `S` -/
def solidFor (b : Ballot) (S : List Cand) : Bool :=
  (List.range (b.length + 1)).any (fun j => sameSet (prefixCands b j) S)

/-- votes of the ballots solid for `S` -/
def support (votes : Profile) (S : List Cand) : Rat :=
  ((votes.filter (fun bw => solidFor bw.1 S)).map (·.2)).sum

/-- members of `S` among the elected -/
def electedIn (elected S : List Cand) : Nat := (S.filter (fun c => decide (c ∈ elected))).length

/-- the coalition `S` holding `⌊support/q⌋` quotas has at least that many (or all) of its members elected -/
def pscHolds (votes : Profile) (q : Rat) (elected S : List Cand) : Bool :=
  decide (min (support votes S / q).floor.toNat S.length ≤ electedIn elected S)

/-- check only the coalitions that are a prefix set of some ballot (all others have no solid support) -/
def pscCheck (votes : Profile) (q : Rat) (elected : List Cand) : Bool :=
  votes.all (fun bw => (List.range (bw.1.length + 1)).all (fun j =>
    let S := dedupFirst (prefixCands bw.1 j)
    S.isEmpty || pscHolds votes q elected S))

/-- first-preference votes of `c`: ballots whose first rank is the single candidate `c` -/
def firstPrefTotal (votes : Profile) (c : Cand) : Rat := pileTotal (votes.filter (firstIs c))

end VL.STV
