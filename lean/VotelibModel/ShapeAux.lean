/-
  VotelibModel.ShapeAux — the auxiliary selectors of `votelib/evaluate/auxiliary.py` whose order comes from OUTSIDE the votes
  (a seeded random generator, an md5 chain, candidacy numbers).  The source of order is a PARAMETER of the model (as the
  draws of the Hare transferer in C03): the harness records what the real generator / hash chain / candidate objects
  deliver during the run of the implementation and sends it along (`draws`, `numbers`); the model mirrors the
  arithmetic the code does with these values.

    `selectNRandomInt`      util.py L129-150   (`_select_n_random_int`; `draws` = the values of `random.randrange`)
    `selectNRandom`         util.py L110-126   (`select_n_random`, the integer branch)
    `sortitor`              auxiliary.py L84-96   Sortitor.evaluate
    `randomBallot`          auxiliary.py L55-65   RandomUnrankedBallotSelector.evaluate
    `rfc3797`               auxiliary.py L171-184 RFC3797Selector.evaluate (`draws` = the values of `_random_value(i)`)
    `candidateNumberRanker` auxiliary.py L125-136 CandidateNumberRanker.evaluate

  Import-free apart from VotelibModel.*.
-/
import VotelibModel.Core
import VotelibModel.Threshold
namespace VL.ShapeAux
open VL

def noDraw : Err := .other "Model:NoDraw"
def badDraw : Err := .other "Model:BadDraw"
def indexErr : Err := .other "IndexError"
def typeErr : Err := .other "TypeError"
def zeroDiv : Err := .other "ZeroDivisionError"

/-- `bisect.bisect_left(cum, r)` on a non-decreasing list (cumulative sums of non-negative counts): the number of
    entries below `r` -/
def bisectLeft (cum : List Rat) (r : Rat) : Nat := (cum.takeWhile (fun w => decide (w < r))).length

/-- `itertools.accumulate(weights)` -/
def accumulate : Rat → List Rat → List Rat
  | _, [] => []
  | acc, w :: ws => (acc + w) :: accumulate (acc + w) ws

/-- the `while len(chosen) < n` loop of `_select_n_random_int` (util.py L136-149), `k` rounds to go.
    One round: `random.randrange(1, cum[-1] + 1)` (ValueError "empty range" when the remaining weight is below 1) —
    its value is the next draw, which must lie in that range —, `bisect_left`, `candidates.pop(i)`, `cum.pop(i)` and the
    remaining cumulative weights lowered by the weight of the chosen candidate. -/
def selectLoop : Nat → List Cand → List Rat → List Rat → List Cand → Except Err (List Cand)
  | 0, _, _, _, chosen => .ok chosen
  | k + 1, cands, cum, draws, chosen =>
    match cum.getLast? with
    | none => .error indexErr                                   -- `cum_weights[-1]` of an empty list
    | some total =>
      if total < 1 then .error .valueError                      -- `randrange(1, total + 1)`: empty range
      else
        match draws with
        | [] => .error noDraw
        | r :: rest =>
          if r < 1 ∨ total < r ∨ r.den ≠ 1 then .error badDraw   -- not a value `randrange(1, total + 1)` can return
          else
            let i := bisectLeft cum r
            match cands[i]?, cum[i]? with
            | some c, some ci =>
              let w := if i ≠ 0 then ci - cum.getD (i - 1) 0 else ci          -- L143-145
              selectLoop k (cands.eraseIdx i) (cum.take i ++ (cum.drop (i + 1)).map (fun x => x - w)) rest (chosen ++ [c])
            | _, _ => .error indexErr                           -- `candidates.pop(len)`

/-- `_select_n_random_int(candidates, cum_weights, n)` (util.py L129-150) -/
def selectNRandomInt (cands : List Cand) (cum : List Rat) (n : Nat) (draws : List Rat) : Except Err (List Cand) :=
  if n > cands.length then .ok cands else selectLoop n cands cum draws []

/-- `select_n_random(votes, n)` (util.py L110-126) for integer counts: candidates by non-increasing count (`sorted_votes`,
    stable); `zip(*[])` of an empty dict raises ValueError -/
def selectNRandom (votes : Votes) (n : Nat) (draws : List Rat) : Except Err (List Cand) :=
  let s := sortDesc votes
  if s.isEmpty then .error .valueError
  else selectNRandomInt (s.map (·.1)) (accumulate 0 (s.map (·.2))) n draws

/-- `Sortitor.evaluate` (auxiliary.py L84-96): `select_n_random({cand: 1 for cand, n_votes in sorted_votes(votes)}, n)` -/
def sortitor (votes : Votes) (n : Nat) (draws : List Rat) : Except Err (List Cand) :=
  selectNRandom ((sortDesc votes).map (fun p => (p.1, (1 : Rat)))) n draws

/-- `RandomUnrankedBallotSelector.evaluate` (auxiliary.py L55-65): `select_n_random(votes, n)` -/
def randomBallot (votes : Votes) (n : Nat) (draws : List Rat) : Except Err (List Cand) :=
  selectNRandom votes n draws

/-- the loop of `RFC3797Selector.evaluate` (L180-183): `selected.append(cands.pop(rand_int % len(cands)))`; the draws are
    the values of `_random_value(i)` (md5 of the seed string between the two-byte counters) -/
def rfcLoop : Nat → List Cand → List Nat → List Cand → Except Err (List Cand)
  | 0, _, _, selected => .ok selected
  | k + 1, cands, draws, selected =>
    match draws with
    | [] => .error noDraw
    | r :: rest =>
      if cands.length = 0 then .error zeroDiv                   -- `rand_int % 0`
      else
        let i := r % cands.length
        match cands[i]? with
        | some c => rfcLoop k (cands.eraseIdx i) rest (selected ++ [c])
        | none => .error indexErr

/-- `RFC3797Selector.evaluate` (auxiliary.py L171-184): `cands = list(votes.keys())` -/
def rfc3797 (votes : Votes) (n : Nat) (draws : List Nat) : Except Err (List Cand) :=
  rfcLoop n (keys votes) draws []

/-- `CandidateNumberRanker.evaluate` (auxiliary.py L125-136, after fix fb7088f):
    `sorted(votes.keys(), key=operator.attrgetter('number'))[:n_seats]` — the first `n` candidates by increasing candidacy
    number, equal numbers in dictionary order (`sorted` is stable).  `number` is `Optional[int]`: as soon as two candidates
    are compared and one of them has `number = None`, `None < int` (also `None < None`) raises TypeError — every element of
    a list of at least two takes part in a comparison; a lone candidate is returned without any comparison.
    (History: before fb7088f the key function was passed positionally and EVERY call raised
    `TypeError: sorted expected 1 argument, got 2` — fixed finding C08-candidate-number-ranker-typeerror.) -/
def candidateNumberRanker (numbers : Cand → Option Int) (votes : Votes) (n : Nat) : Except Err (List Cand) :=
  let ks := keys votes
  if 2 ≤ ks.length ∧ ks.any (fun c => (numbers c).isNone) then .error typeErr
  else .ok ((sortBy (fun a b => decide ((numbers a).getD 0 < (numbers b).getD 0)) ks).take n)

end VL.ShapeAux
