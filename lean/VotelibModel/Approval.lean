/-
  VotelibModel.Approval — votelib/evaluate/approval.py: ProportionalApproval (L22-118) and
  SequentialProportionalApproval (L121-168), code-shaped, plus the *defining* computations
  (`pavSpec`, `spavSpec`) they are proved equal to in VotelibProofs/Props/C12.lean.

  Reading.  An approval ballot (a Python `frozenset` of candidates) is a duplicate-free list of candidate ids;
  a profile is the `dict` ballot -> weight in insertion order; weights are exact numbers (`Rat` covers
  int/Fraction).  A *set of candidates* is iterated in ascending id order (the harness uses candidate
  objects that hash to their id, which is what CPython then does); every theorem about the result is
  independent of that order except for the order among equal sort keys.
-/
import VotelibModel.Core
namespace VL.Appr
open VL

abbrev Ballot := List Cand
abbrev Profile := List (Ballot × Rat)

/-- `sum(Fraction(1, k + 1) for k in range(n))` (approval.py L60) -/
def harmonic : Nat → Rat
  | 0 => 0
  | k + 1 => harmonic k + 1 / (((k + 1 : Nat)) : Rat)

/-- approval.py L58-62: the coefficient cache `self._coefs` is extended up to index `n_seats` -/
def extendCoefs (coefs : List Rat) (n : Nat) : List Rat :=
  if coefs.length < n + 1 then
    coefs ++ (List.range' coefs.length (n + 1 - coefs.length)).map harmonic
  else coefs

/-- the individually elected candidates of a selection (tie objects skipped) -/
def slotCands : List Slot → List Cand
  | [] => []
  | Slot.cand c :: rest => c :: slotCands rest
  | Slot.tie _ :: rest => slotCands rest

/-- `len(alt & alternative)` (approval.py L116) -/
def interLen (b alt : List Cand) : Nat := (b.filter (fun c => alt.contains c)).length

/-- `self._coefs[k]` — a Python list index -/
def coefAt (coefs : List Rat) (k : Nat) : Except Err Rat :=
  match coefs[k]? with
  | some c => .ok c
  | none => .error (.other "IndexError")

/-- `_satisfaction` (approval.py L113-118).  Exact addition is associative, so the summation order is immaterial. -/
def satisfaction (coefs : List Rat) (votes : Profile) (alt : List Cand) : Except Err Rat := do
  let terms ← votes.mapM (fun bw => do
    let c ← coefAt coefs (interLen bw.1 alt)
    pure (c * bw.2))
  pure terms.sum

/-- insertion into an ascending duplicate-free list -/
def insertNat (x : Nat) : List Nat → List Nat
  | [] => [x]
  | y :: ys => if x < y then x :: y :: ys else if x = y then y :: ys else y :: insertNat x ys

/-- a set of candidates in iteration order (ascending ids, no duplicates) -/
def sortDedup : List Nat → List Nat
  | [] => []
  | x :: xs => insertNat x (sortDedup xs)

/-- `frozenset(cand for alt in votes.keys() for cand in alt)` (approval.py L98-100) -/
def allCands (votes : Profile) : List Cand := sortDedup (votes.flatMap (·.1))

/-- `itertools.combinations(l, n)` in its own (lexicographic by position) order -/
def combos : List Cand → Nat → List (List Cand)
  | _, 0 => [[]]
  | [], _ + 1 => []
  | x :: xs, n + 1 => (combos xs n).map (x :: ·) ++ combos xs (n + 1)

/-- one pass of the scan L104-110; `best_score = -inf` is `none` -/
def bestStep (acc : List (List Cand) × Option Rat) (p : List Cand × Rat) : List (List Cand) × Option Rat :=
  match acc.2 with
  | none => ([p.1], some p.2)
  | some bs =>
    if p.2 > bs then ([p.1], some p.2)
    else if p.2 = bs then (acc.1 ++ [p.1], some bs)
    else acc

/-- `_get_best_alternatives` (approval.py L92-111).  An exception of `_satisfaction` aborts the scan wherever it
    occurs, so computing all satisfactions first is observationally the same. -/
def bestAlts (coefs : List Rat) (votes : Profile) (cands : List Cand) (n : Nat) : Except Err (List (List Cand)) := do
  let scored ← (combos cands n).mapM (fun alt => do
    let s ← satisfaction coefs votes alt
    pure (alt, s))
  pure (scored.foldl bestStep ([], none)).1

/-- the sort keys of `_order_by_score` (approval.py L83-86): minus the satisfaction without the candidate -/
def dropKeys (coefs : List Rat) (votes : Profile) (alt : List Cand) : Except Err Votes :=
  alt.mapM (fun c => do
    let s ← satisfaction coefs votes (alt.filter (· != c))
    pure (c, -s))

/-- `_order_by_score` (approval.py L72-90) -/
def orderByScore (coefs : List Rat) (votes : Profile) (alt : List Cand) : Except Err (List Slot) := do
  let drops ← dropKeys coefs votes alt
  pure (getNBest drops alt.length)

/-- `ProportionalApproval.evaluate` (approval.py L46-70) as a state transformer on the coefficient cache:
    returns the outcome and the cache afterwards (the cache is extended before anything can raise). -/
def pavStep (coefs : List Rat) (votes : Profile) (n : Nat) : Except Err (List Slot) × List Rat :=
  let coefs' := extendCoefs coefs n
  ((do
    let best ← bestAlts coefs' votes (allCands votes) n
    match best with
    | [a] => orderByScore coefs' votes a
    | _ => .error .notImplemented), coefs')

/-- a fresh instance: `self._coefs = [0]` (approval.py L43-44) -/
def freshCoefs : List Rat := [0]

/-- one call on a fresh instance -/
def pav (votes : Profile) (n : Nat) : Except Err (List Slot) := (pavStep freshCoefs votes n).1

/-- a sequence of calls on ONE instance -/
def pavSeq (votes : Profile) : List Rat → List Nat → List (Except Err (List Slot))
  | _, [] => []
  | coefs, n :: ns => let r := pavStep coefs votes n; r.1 :: pavSeq votes r.2 ns

/-! ### SPAV -/

/-- `round_votes[cand] += x` on a `defaultdict(int)` -/
def addVote (d : Votes) (c : Cand) (x : Rat) : Votes :=
  match d with
  | [] => [(c, 0 + x)]
  | (k, v) :: rest => if k = c then (k, v + x) :: rest else (k, v) :: addVote rest c x

/-- approval.py L153-159 -/
def roundVotes (votes : Profile) (elected : List Cand) : Votes :=
  votes.foldl (fun d bw =>
    bw.1.foldl (fun d c => addVote d c (bw.2 / (((interLen bw.1 elected + 1 : Nat)) : Rat))) d) []

/-- the `while len(elected) < n_seats` loop (approval.py L152-168); the first argument is `n_seats - len(elected)` -/
def spavGo (votes : Profile) : Nat → List Cand → Except Err (List Cand)
  | 0, elected => .ok elected
  | k + 1, elected =>
    let rv := (roundVotes votes elected).filter (fun p => !(elected.contains p.1))   -- L160-161 `del`
    match getNBest rv 1 with
    | [] => .ok elected                                 -- L163-164
    | Slot.tie _ :: _ => .error .notImplemented         -- L166-167
    | Slot.cand c :: _ => spavGo votes k (elected ++ [c])

/-- `SequentialProportionalApproval.evaluate` -/
def spav (votes : Profile) (n : Nat) : Except Err (List Cand) := spavGo votes n []

/-! ### The defining computations (specifications) -/

/-- harmonic satisfaction of a committee: Σ_ballots w · H(|ballot ∩ committee|) -/
def satH (votes : Profile) (alt : List Cand) : Rat :=
  (votes.map (fun bw => harmonic (interLen bw.1 alt) * bw.2)).sum

/-- the committees of size `n` whose satisfaction no other committee of size `n` exceeds -/
def maximisers (votes : Profile) (cands : List Cand) (n : Nat) : List (List Cand) :=
  (combos cands n).filter (fun a => (combos cands n).all (fun b => decide (satH votes b ≤ satH votes a)))

/-- PAV by definition: the unique `n`-subset maximising the harmonic satisfaction; refusal when there is none or
    more than one -/
def pavSpec (votes : Profile) (n : Nat) : Option (List Cand) :=
  match maximisers votes (allCands votes) n with
  | [a] => some a
  | _ => none

/-- the order PAV reports a committee in: by decreasing drop of satisfaction when the member is left out -/
def pavOrder (votes : Profile) (a : List Cand) : List Slot :=
  getNBest (a.map (fun c => (c, -(satH votes (a.filter (· != c)))))) a.length

/-- reweighted approval of a candidate: Σ_{ballots approving c} w / (1 + |ballot ∩ elected|) -/
def reweighted (votes : Profile) (elected : List Cand) (c : Cand) : Rat :=
  (votes.map (fun bw => if bw.1.contains c then bw.2 / (((interLen bw.1 elected + 1 : Nat)) : Rat) else 0)).sum

/-- SPAV by definition: each round the candidate with the strictly greatest reweighted approval among those not yet
    elected; refusal when the greatest value is shared; stops early when nobody is left -/
def spavSpecGo (votes : Profile) : Nat → List Cand → Except Err (List Cand)
  | 0, elected => .ok elected
  | k + 1, elected =>
    let rest := (allCands votes).filter (fun c => !(elected.contains c))
    match rest with
    | [] => .ok elected
    | _ =>
      match rest.filter (fun c => rest.all (fun d => decide (reweighted votes elected d ≤ reweighted votes elected c))) with
      | [c] => spavSpecGo votes k (elected ++ [c])
      | _ => .error .notImplemented

def spavSpec (votes : Profile) (n : Nat) : Except Err (List Cand) := spavSpecGo votes n []

end VL.Appr
