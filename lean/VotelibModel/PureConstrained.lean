/-
  VotelibModel.PureConstrained — the adapter `_PureConstrained` of harness/families.py (family
  `pure_proportionality_constrained`): `PureProportionality` (model of C11: VotelibModel/PureProportionality.lean) with a cap
  on the (unique) largest party one seat below the floor of its exact share and previous seats for the (unique) smallest party
  equal to its exact share rounded up, both read off the vote VALUES.  Owned by C10.

  The adapter is harness code, not votelib: it sorts the values and compares the two largest / two smallest
  (`vals[-1] != vals[-2]`, `vals[0] != vals[1]`, with at least three parties); the model states the same condition as
  "exactly one party holds the maximal / minimal value" (`maxQ` of VotelibModel/HighestAverages.lean).
-/
import VotelibModel.Core
import VotelibModel.Py
import VotelibModel.HighestAverages
import VotelibModel.PureProportionality
namespace VL.PureC
open VL VL.Pure

/-- `[c for c, v in votes.items() if v == x][0]` -/
def firstWith (votes : Votes) (x : Rat) : Option Cand :=
  match votes.find? (fun p => p.2 = x) with
  | some p => some p.1
  | none => none

def countWith (votes : Votes) (x : Rat) : Nat := (votes.filter (fun p => p.2 = x)).length

/-- the smallest value: minus the largest negated value -/
def minQ (votes : Votes) : Option Rat := (maxQ (votes.map (fun p => (p.1, -p.2)))).map (fun x => -x)

/-- `caps`: the unique largest party -> `max(floor(v * n / total) - 1, 0)` -/
def capsOf (votes : Votes) (n : Nat) : IMap :=
  let total := sumVals votes
  if 0 < total ∧ 3 ≤ votes.length then
    match maxQ votes with
    | some mx =>
      if countWith votes mx = 1 then
        match firstWith votes mx with
        | some top => [(top, max (Py.pyFloor (mx * (n : Rat) / total) - 1) 0)]
        | none => []
      else []
    | none => []
  else []

/-- `prev`: the unique smallest party -> `ceil(v * n / total)` -/
def prevOf (votes : Votes) (n : Nat) : IMap :=
  let total := sumVals votes
  if 0 < total ∧ 3 ≤ votes.length then
    match minQ votes with
    | some mn =>
      if countWith votes mn = 1 then
        match firstWith votes mn with
        | some low => [(low, Py.pyCeil (mn * (n : Rat) / total))]
        | none => []
      else []
    | none => []
  else []

/-- `_PureConstrained().evaluate(votes, n_seats)` -/
def pureConstrained (votes : Votes) (n : Nat) : Except Err Votes :=
  pureProportionality votes n (prevOf votes n) (capsOf votes n)

end VL.PureC
