/-
  VotelibModel.ShapeCompose — the composed evaluators of property C08 that no other property models as one
  function: `PreConverted(converter, evaluator).evaluate(votes, n_seats)` (core.py L783-792:
  `self.evaluator.evaluate(self.converter.convert(votes), n_seats)`) for
    * positional voting  = RankedToPositionalVotes(rank scorer) + Plurality,
    * approval voting    = ApprovalToSimpleVotes(split) + Plurality   (AV, SAV),
  and the one-line `InputOrderSelector`.
  Import-free apart from VotelibModel.*; the converters are C13's models, the evaluators C09's / C05's.
-/
import VotelibModel.Simple
import VotelibModel.Convert
namespace VL.Shape
open VL VL.Convert

/-- `PreConverted.evaluate` (core.py L783-792): an exception of the converter propagates -/
def preConverted {α β γ : Type} (conv : α → Except Err β) (ev : β → Nat → Except Err γ) (votes : α) (n : Nat) :
    Except Err γ :=
  match conv votes with
  | .ok v => ev v n
  | .error e => .error e

/-- positional voting: `PreConverted(RankedToPositionalVotes(scorer), Plurality())` -/
def positionalPlurality (sc : Scorer) (p : RProfile) (n : Nat) : Except Err (List Slot) :=
  preConverted (rankedToPositional sc) (fun v n => .ok (plurality v n)) p n

/-- approval voting (AV: `split = false`, satisfaction approval voting SAV: `split = true`):
    `PreConverted(ApprovalToSimpleVotes(split), Plurality())` -/
def approvalPlurality (split : Bool) (p : AProfile) (n : Nat) : Except Err (List Slot) :=
  preConverted (approvalToSimple split) (fun v n => .ok (plurality v n)) p n

/-- `InputOrderSelector.evaluate` (auxiliary.py L107-118): the first `n_seats` keys of the votes dictionary -/
def inputOrderSelector (votes : Votes) (n : Nat) : List Slot := ((keys votes).take n).map Slot.cand

end VL.Shape
