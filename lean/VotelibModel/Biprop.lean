/-
  VotelibModel.Biprop — C07.

  Part A: the two certificate checkers (`bipropCheck`, `infeasibleCheck`) that the harness runs, through the
          driver, on EVERY output / refusal of the real `BiproportionalEvaluator`.  They are stated over
          index functions with explicit dimensions `m` (districts) × `n` (parties); the list front ends
          (`bipropCheckL`, `infeasibleCheckL`) are what the driver calls.
  Part B: a line-for-line fuelled port of `BiproportionalEvaluator.evaluate` (tie-and-transfer) including the
          `HighestAverages` evaluations it performs (votelib/evaluate/proportional.py).

  Import-free (core Lean only).  Districts and parties are positions (row / column index) of a full
  `m × n` matrix (`List (List _)`, row = district).  A zero cell is an explicit `0` entry or a party key missing
  from the district's dict: since fix ac330c6 `_labeled` reads `quotients[d].get(party, 0)` (L723/L733), as
  `_initial_solution` and `_initial_party_coefs` always did, so both spellings have quotient 0 and are the same
  matrix here.
-/
import VotelibModel.Core
import VotelibModel.Py
import VotelibModel.Gen.Divisor
namespace VL.Biprop
open VL

/-! ## Part A — verified certificate checkers -/

/-- `Σ_{k<n} f k` -/
def sumN (f : Nat → Nat) : Nat → Nat
  | 0 => 0
  | k+1 => sumN f k + f k

/-- `∀ k<n, p k` -/
def allN (p : Nat → Bool) : Nat → Bool
  | 0 => true
  | k+1 => allN p k && p k

/-- `x` is a rounding of `t` under the stationary signpost sequence `s(k) = k − q`
    (`q = 0` D'Hondt / rounding down, `q = 1/2` Sainte-Laguë / standard rounding):
    `s(x) ≤ t ≤ s(x+1)`; the lower bound is vacuous for `x = 0` (Pukelsheim: `s(0) = 0` resp. no bound). -/
def isRounding (q t : Rat) (x : Nat) : Prop :=
  (x = 0 ∨ (x : Rat) - q ≤ t) ∧ t ≤ (x : Rat) + 1 - q

instance (q t : Rat) (x : Nat) : Decidable (isRounding q t x) := by
  unfold isRounding; exact inferInstance

/-- certificate check of a biproportional result: `x` has row sums `rowT`, column sums `colT`, no seat in a
    zero-vote cell, multipliers `ρ` (districts) and `γ` (parties) are positive and every cell is a rounding of
    `votes · ρ · γ`. -/
def bipropCheck (m n : Nat) (q : Rat) (votes : Nat → Nat → Rat) (rowT colT : Nat → Nat)
    (x : Nat → Nat → Nat) (ρ γ : Nat → Rat) : Bool :=
  allN (fun i => sumN (fun j => x i j) n == rowT i) m
  && allN (fun j => sumN (fun i => x i j) m == colT j) n
  && allN (fun i => decide (0 < ρ i)) m
  && allN (fun j => decide (0 < γ j)) n
  && allN (fun i => allN (fun j =>
        (!(votes i j == 0) || x i j == 0) && decide (isRounding q (votes i j * ρ i * γ j) (x i j))) n) m

/-- Hall-type cut certificate of infeasibility.  `S` marks districts, `T` marks parties.
    Either the districts in `S` have votes only for parties in `T` and need more seats than `T` holds,
    or the parties in `T` have votes only in districts of `S` and hold more seats than `S` may take. -/
def infeasibleCheck (m n : Nat) (votes : Nat → Nat → Rat) (rowT colT : Nat → Nat) (S T : Nat → Bool) : Bool :=
  (allN (fun i => allN (fun j => !(S i) || T j || votes i j == 0) n) m
     && decide (sumN (fun j => if T j then colT j else 0) n < sumN (fun i => if S i then rowT i else 0) m))
  || (allN (fun i => allN (fun j => S i || !(T j) || votes i j == 0) n) m
     && decide (sumN (fun i => if S i then rowT i else 0) m < sumN (fun j => if T j then colT j else 0) n))

abbrev Mat (α : Type) := List (List α)

def mget (M : Mat Nat) (i j : Nat) : Nat := (M.getD i []).getD j 0
def vget (V : Mat Rat) (i j : Nat) : Rat := (V.getD i []).getD j 0

/-- all rows have length `n` and there are `m` of them -/
def shapeOk {α : Type} (M : Mat α) (m n : Nat) : Bool := M.length == m && M.all (fun r => r.length == n)

/-- list front end of `bipropCheck` (what the driver runs): dimensions are read off the marginals, every
    argument must have the matching shape. -/
def bipropCheckL (q : Rat) (votes : Mat Rat) (rowT colT : List Nat) (x : Mat Nat) (ρ γ : List Rat) : Bool :=
  let m := rowT.length
  let n := colT.length
  shapeOk votes m n && shapeOk x m n && ρ.length == m && γ.length == n
  && bipropCheck m n q (vget votes) (fun i => rowT.getD i 0) (fun j => colT.getD j 0) (mget x)
       (fun i => ρ.getD i 0) (fun j => γ.getD j 0)

/-- list front end of `infeasibleCheck`; `S`, `T` are lists of district / party indices -/
def infeasibleCheckL (votes : Mat Rat) (rowT colT : List Nat) (S T : List Nat) : Bool :=
  let m := rowT.length
  let n := colT.length
  shapeOk votes m n
  && infeasibleCheck m n (vget votes) (fun i => rowT.getD i 0) (fun j => colT.getD j 0)
       (fun i => S.contains i) (fun j => T.contains j)

/-! ## Part B — port of the evaluator -/

/-- result of one `HighestAverages.evaluate(votes, n)` call without previous gains and caps:
    seats per position, and the `Tie` key if the last batch did not fit: (tied positions ascending, number of
    seats credited to the `Tie` object). -/
structure HARes where
  seats : List Nat
  tie : Option (List Nat × Nat) := none
deriving Repr

def maxRat : List Rat → Option Rat
  | [] => none
  | x :: xs => match maxRat xs with
    | none => some x
    | some y => some (if x < y then y else x)

/-- the `while rem_seats > 0 and quotients` loop of `HighestAverages.evaluate` (proportional.py L435-459).
    The sorted quotient list with `bisect` re-insertion is modelled as the pool of current quotients from
    which the batch of maximal ones is taken (every candidate is in the pool exactly once between
    iterations: the default cap `n_seats` can only bind when no seat is left). -/
def haLoop (div : Nat → Rat) (votes : List Rat) : Nat → Nat → List Nat → HARes
  | 0, _, seats => { seats }
  | fuel+1, rem, seats =>
    if rem = 0 then { seats } else
    let quots := List.zipWith (fun v s => v / div s) votes seats
    match maxRat quots with
    | none => { seats }
    | some mx =>
      let batch := (List.range quots.length).filter (fun k => quots.getD k 0 == mx)
      if batch.length > rem then { seats, tie := some (batch, rem) }
      else haLoop div votes fuel (rem - batch.length)
             (List.zipWith (fun s qv => if qv == mx then s + 1 else s) seats quots)

/-- `HighestAverages(div).evaluate(votes, n)` (proportional.py L407-464) with `prev_gains = max_seats = {}`
    and a divisor function that is positive at 0 (both rules in scope).  With `n = 0` (or no candidate) the
    quotient dictionary is empty and the `zip(*...)` unpacking raises `ValueError`. -/
def haEvaluate (div : Nat → Rat) (votes : List Rat) (n : Nat) : Except Err HARes :=
  if votes.isEmpty || n == 0 then .error (.other "ValueError")
  else .ok (haLoop div votes n n (votes.map fun _ => 0))

def sumRat (l : List Rat) : Rat := l.foldl (· + ·) 0
def colOf (V : Mat Rat) (j : Nat) : List Rat := V.map (fun r => r.getD j 0)
def nCols (V : Mat Rat) : Nat := (V.headD []).length

/-- proportional.py L820-824: the `Tie` of a per-party allocation hands one seat to each of the first `k`
    tied districts in the order of the input dict (`[d for d in votes if d in district][:k]` after the repair of
    C07-O2, `sorted(district)[:k]` before): the harness inserts districts by ascending index = positions ascending -/
def tieSpread (seats : List Nat) (batch : List Nat) (k : Nat) : List Nat :=
  let sel := batch.take k
  (List.range seats.length).map (fun i => seats.getD i 0 + (if sel.contains i then 1 else 0))

/-- one column of `_initial_solution` (proportional.py L810-826) -/
def initialColumn (div : Nat → Rat) (V : Mat Rat) (j k : Nat) : Except Err (List Nat) :=
  if k = 0 then .ok (V.map fun _ => 0)
  else match haEvaluate div (colOf V j) k with
    | .error e => .error e
    | .ok r => .ok (match r.tie with
        | none => r.seats
        | some (b, c) => tieSpread r.seats b c)

/-- `VoteTotals().convert(votes)` for a full matrix: column sums -/
def colTotals (V : Mat Rat) : List Rat := (List.range (nCols V)).map (fun j => sumRat (colOf V j))
/-- `{c: sum(c_votes.values())}`: row sums -/
def rowTotals (V : Mat Rat) : List Rat := V.map sumRat

/-- upper apportionment of parties, `self._eval.evaluate(VoteTotals, total)`; a `Tie` key is outside the
    domain of the property (tie-free marginals) and reported as such, never defaulted -/
def partySeats (div : Nat → Rat) (V : Mat Rat) (total : Nat) : Except Err (List Nat) :=
  match haEvaluate div (colTotals V) total with
  | .error e => .error e
  | .ok r => if r.tie.isSome then .error (.other "MarginalTie") else .ok r.seats

/-- `_initial_solution` (proportional.py L797-827); result row = district -/
def initialSolution (div : Nat → Rat) (V : Mat Rat) (total : Nat) : Except Err (Mat Nat) :=
  match partySeats div V total with
  | .error e => .error e
  | .ok ps =>
    match (List.range (nCols V)).mapM (fun j => initialColumn div V j (ps.getD j 0)) with
    | .error e => .error e
    | .ok cols => .ok ((List.range V.length).map (fun i => cols.map (fun c => c.getD i 0)))

/-- `core.apportion(votes, n_seats, self._eval)` for an integer total (core.py L1499-1505): highest averages
    over the district totals; a `Tie` is outside the domain -/
def districtSeats (div : Nat → Rat) (V : Mat Rat) (total : Nat) : Except Err (List Nat) :=
  match haEvaluate div (rowTotals V) total with
  | .error e => .error e
  | .ok r => if r.tie.isSome then .error (.other "MarginalTie") else .ok r.seats

/-- one party of `_initial_party_coefs` (proportional.py L842-867): `(max lowcoef, min highcoef)` over the
    districts where the party has votes; `none` stands for `INF` -/
def coefBounds (q : Rat) (vcol : List Rat) (xcol : List Nat) : Rat × Option Rat :=
  (List.zip vcol xcol).foldl (fun (acc : Rat × Option Rat) (vx : Rat × Nat) =>
    if vx.1 = 0 then acc else
      let lo := ((vx.2 : Rat) - q) / vx.1
      let hi := ((vx.2 : Rat) + 1 - q) / vx.1
      (if lo > acc.1 then lo else acc.1,
       match acc.2 with
       | none => some hi
       | some h => some (if hi < h then hi else h))) (0, none)

def initialPartyCoef (q : Rat) (vcol : List Rat) (xcol : List Nat) : Rat :=
  match coefBounds q vcol xcol with
  | (_, none) => 1
  | (lo, some hi) => (lo + hi) / 2

def initialPartyCoefs (q : Rat) (V : Mat Rat) (x : Mat Nat) : List Rat :=
  (List.range (nCols V)).map (fun j => initialPartyCoef q (colOf V j) (x.map (fun r => r.getD j 0)))

/-- state of the tie-and-transfer loop (proportional.py L559-569): seat matrix, district and party multipliers -/
structure State where
  x : Mat Nat
  dc : List Rat
  pc : List Rat
deriving Repr

/-- `_calc_quots` (proportional.py L761-775) as a function of the cell -/
def quot (V : Mat Rat) (s : State) (i j : Nat) : Rat := vget V i j * s.dc.getD i 0 * s.pc.getD j 0

/-- `_is_upgradable` (proportional.py L745-750) -/
def isUp (q qt : Rat) (seats : Nat) : Bool :=
  ((Py.pyInt qt : Int) : Rat) == qt - q && ((seats : Rat) + 1 - q == qt)

/-- `_is_downgradable` (proportional.py L752-758) -/
def isDown (q qt : Rat) (seats : Nat) : Bool :=
  ((Py.pyInt qt : Int) : Rat) == qt - q && ((seats : Rat) - q == qt) && decide (seats ≥ 1)

/-- labelled districts in insertion order with the party that labelled them (`none` for the start set
    `districts_over`); labelled parties with the district that labelled them.  The Python sets have at most
    one element because a key is only added while absent. -/
abbrev LabD := List (Nat × Option Nat)
abbrev LabP := List (Nat × Nat)

def hasKey {α : Type} (l : List (Nat × α)) (k : Nat) : Bool := l.any (fun e => e.1 == k)
def lookupKey {α : Type} (l : List (Nat × α)) (k : Nat) : Option α :=
  match l.find? (fun e => e.1 == k) with
  | some e => some e.2
  | none => none

/-- `all_parties` of `_labeled` (proportional.py, after the repair of C07-O2): the parties in order of FIRST
    APPEARANCE in the input, `dict.fromkeys(p for dqs in quotients.values() for p in dqs)` — the districts in the order
    of the outer dict, inside each district the party keys in the order of that district's dict, a party listed where
    it is met first.  `present i j` says that district `i`'s dict has a key for party `j`.  For a full matrix (every
    district lists every party in the same order) this is `0, 1, …, n-1`.  For SPARSE dicts (a zero cell given as a
    missing key) with keys inserted by ascending index, as the harness builds them, it is: the parties present in
    district 0 by ascending index, then those met first in district 1 by ascending index, and so on; a party that
    no district lists does not occur at all (it has no votes anywhere and can never be labelled). -/
def firstAppearance (present : List (List Bool)) : List Nat :=
  present.foldl (fun acc row =>
    (List.range row.length).foldl (fun acc j => if row.getD j false && !acc.contains j then acc ++ [j] else acc) acc) []

/-- the order covers every party that has votes somewhere (decidable hypothesis of the refusal theorems; the driver
    evaluates it on every case) -/
def ordCovers (ord : List Nat) (V : Mat Rat) : Bool :=
  V.all (fun r => (List.range r.length).all (fun j => r.getD j 0 == 0 || ord.contains j))

/-- a presence mask fits a vote matrix: same shape, and every cell with votes is present -/
def maskOk (present : List (List Bool)) (V : Mat Rat) : Bool :=
  present.length == V.length &&
  (List.range V.length).all (fun i => (present.getD i []).length == (V.getD i []).length &&
    (List.range (V.getD i []).length).all (fun j => (V.getD i []).getD j 0 == 0 || (present.getD i []).getD j false))

/-- first inner loop of `_labeled` (`for d in labeled_districts: for party in all_parties`); `qt d p` is
    `quotients[d].get(party, 0)`; `ord` is `all_parties` (see `firstAppearance`), entries outside the matrix are ignored -/
def phase1 (q : Rat) (qt : Nat → Nat → Rat) (x : Mat Nat) (n : Nat) (ord : List Nat) (labD : LabD) (labP : LabP) : LabP :=
  labD.foldl (fun lp e =>
    (ord.filter (fun p => decide (p < n))).foldl (fun lp p =>
      if !hasKey lp p && isDown q (qt e.1 p) (mget x e.1 p) then lp ++ [(p, e.1)] else lp) lp) labP

/-- second inner loop of `_labeled` (`for party in labeled_parties: for d in quotients.keys()`): labelled parties in
    labelling order, districts in the order of the input dict (= row index) -/
def phase2 (q : Rat) (qt : Nat → Nat → Rat) (x : Mat Nat) (m : Nat) (labD : LabD) (labP : LabP) : LabD :=
  labP.foldl (fun ld e =>
    (List.range m).foldl (fun ld d =>
      if !hasKey ld d && isUp q (qt d e.1) (mget x d e.1) then ld ++ [(d, some e.1)] else ld) ld) labD

/-- the `while prev_n_labelings < n_labelings` loop of `_labeled` (proportional.py L717-742) -/
def labelLoop (q : Rat) (qt : Nat → Nat → Rat) (x : Mat Nat) (m n : Nat) (ord : List Nat) (under : List Nat) :
    Nat → LabD → LabP → LabD × LabP
  | 0, ld, lp => (ld, lp)
  | f+1, ld, lp =>
    let lp' := phase1 q qt x n ord ld lp
    let ld' := phase2 q qt x m ld lp'
    if under.any (hasKey ld') then (ld', lp')
    else if lp'.length + ld'.length = lp.length + ld.length then (ld', lp')
    else labelLoop q qt x m n ord under f ld' lp'

/-- `_labeled` (proportional.py L696-743); at most `m + n` productive rounds exist -/
def labeled (q : Rat) (qt : Nat → Nat → Rat) (x : Mat Nat) (m n : Nat) (ord : List Nat) (under over : List Nat) :
    LabD × LabP :=
  labelLoop q qt x m n ord under (m + n + 2) (over.map (fun d => (d, none))) []

/-- path construction of `_augment_result` (proportional.py L635-642): triples `(d, p, d')` meaning one seat
    more in cell `(d, p)` and one seat less in cell `(d', p)`.  Popping an empty (default) set is a `KeyError`;
    a path that runs in a cycle pops an emptied set, modelled by running out of fuel.
    The end test `not in districts_over` is applied to district nodes only.  The Python loop (as of 636e21e) also
    applies it to the party nodes, which is the same thing exactly when no party bears the name of a district in
    `districts_over`; with clashing names the path is cut short there (finding C07-F4, repair
    notes/fix_C07_party_district_name_clash.diff makes the code test district nodes only, as modelled here). -/
def augPath (labD : LabD) (labP : LabP) (over : List Nat) : Nat → Nat → Except Err (List (Nat × Nat × Nat))
  | 0, _ => .error (.other "KeyError")
  | f+1, d =>
    if over.contains d then .ok []
    else match lookupKey labD d with
      | some (some p) =>
        match lookupKey labP p with
        | some d' =>
          match augPath labD labP over f d' with
          | .ok rest => .ok ((d, p, d') :: rest)
          | .error e => .error e
        | none => .error (.other "KeyError")
      | _ => .error (.other "KeyError")

def madd1 (M : Mat Nat) (i j : Nat) : Mat Nat := M.modify i (fun r => r.modify j (· + 1))
def msub1 (M : Mat Nat) (i j : Nat) : Mat Nat := M.modify i (fun r => r.modify j (· - 1))

/-- the update loop of `_augment_result` (proportional.py L643-653); taking a seat from a cell without
    seats is the `KeyError` of `result[district][party] -= 1` on a missing key -/
def applyPath : List (Nat × Nat × Nat) → Mat Nat → Except Err (Mat Nat)
  | [], x => .ok x
  | (d, p, d') :: rest, x =>
    let x1 := madd1 x d p
    if mget x1 d' p = 0 then .error (.other "KeyError")
    else applyPath rest (msub1 x1 d' p)

def augment (x : Mat Nat) (labD : LabD) (labP : LabP) (start : Nat) (over : List Nat) (fuel : Nat) :
    Except Err (Mat Nat) :=
  match augPath labD labP over fuel start with
  | .error e => .error e
  | .ok path => applyPath path x

def cells (m n : Nat) : List (Nat × Nat) :=
  (List.range m).flatMap (fun i => (List.range n).map (fun j => (i, j)))

/-- cells that bound the shrink factor from below on the labelled-district side: `(signpost, quotient)` -/
def alphaCells (q : Rat) (qt : Nat → Nat → Rat) (x : Mat Nat) (m n : Nat) (labD : LabD) (labP : LabP) :
    List (Rat × Rat) :=
  (cells m n).filterMap (fun c =>
    if hasKey labD c.1 && !hasKey labP c.2 && decide ((mget x c.1 c.2 : Rat) - q > 0)
    then some ((mget x c.1 c.2 : Rat) - q, qt c.1 c.2) else none)

/-- cells that bound it on the labelled-party side: `(signpost + 1, quotient)` -/
def betaCells (q : Rat) (qt : Nat → Nat → Rat) (x : Mat Nat) (m n : Nat) (labD : LabD) (labP : LabP) :
    List (Rat × Rat) :=
  (cells m n).filterMap (fun c =>
    if !hasKey labD c.1 && hasKey labP c.2 && decide (qt c.1 c.2 > 0)
    then some ((mget x c.1 c.2 : Rat) - q + 1, qt c.1 c.2) else none)

def maxFold (init : Rat) (l : List Rat) : Rat := l.foldl (fun a b => if b > a then b else a) init
def minFold : List Rat → Option Rat
  | [] => none
  | b :: rest => some (rest.foldl (fun a c => if c < a then c else a) b)

/-- `_adj_coef` (proportional.py L655-694).  `signpost / 0` is a `ZeroDivisionError`. -/
def adjCoef (q : Rat) (qt : Nat → Nat → Rat) (x : Mat Nat) (m n : Nat) (labD : LabD) (labP : LabP) :
    Except Err Rat :=
  let ac := alphaCells q qt x m n labD labP
  if ac.any (fun c => c.2 == 0) then .error (.other "ZeroDivisionError")
  else
    let alpha := maxFold 0 (ac.map (fun c => c.1 / c.2))
    match minFold ((betaCells q qt x m n labD labP).map (fun c => c.1 / c.2)) with
    | none => .ok alpha
    | some beta => .ok (if alpha ≥ 1 / beta then alpha else 1 / beta)

def rowSum (x : Mat Nat) (i : Nat) : Nat := (x.getD i []).sum

/-- what one pass through the `while True` body does -/
inductive Step where
  | done                      -- biproportionality achieved, `return result`
  | transfer (s : State)      -- `_augment_result`
  | update (s : State) (c : Rat)  -- multipliers adjusted by `c`
deriving Repr

/-- one iteration of the `while True` loop (proportional.py L571-618).
    `_districts_unsat` iterates a frozenset; for the integer district keys of the correspondence this is
    ascending order, which is what `under` / `over` are here.  The district that receives the transferred seat is the
    first under-represented labelled district IN THE ORDER OF THE INPUT DICT (`[d for d in votes if …][0]`, after the
    repair of C07-O2; before: `sorted(…)[0]`) — the harness inserts districts by ascending index, so that is the
    smallest row index.  `ord` is the party order `all_parties` (`firstAppearance`). -/
def step (q : Rat) (ord : List Nat) (V : Mat Rat) (tgt : List Nat) (s : State) : Except Err Step :=
  let m := V.length
  let n := nCols V
  let under := (List.range m).filter (fun i => decide (rowSum s.x i < tgt.getD i 0))
  let over := (List.range m).filter (fun i => decide (rowSum s.x i > tgt.getD i 0))
  if under.isEmpty && over.isEmpty then .ok .done
  else
    let qt := quot V s
    let (labD, labP) := labeled q qt s.x m n ord under over
    match under.filter (hasKey labD) with
    | start :: _ =>
      match augment s.x labD labP start over (m + n + 2) with
      | .error e => .error e
      | .ok x' => .ok (.transfer { s with x := x' })
    | [] =>
      match adjCoef q qt s.x m n labD labP with
      | .error e => .error e
      | .ok c =>
        if c = 0 || c ≥ 1 then .error .votingSystemError
        else .ok (.update
          { s with dc := (List.range m).map (fun i => if hasKey labD i then s.dc.getD i 0 * c else s.dc.getD i 0),
                   pc := (List.range n).map (fun j => if hasKey labP j then s.pc.getD j 0 / c else s.pc.getD j 0) } c)

/-- final outcome with the trace statistics the correspondence compares -/
structure Outcome where
  final : State
  transfers : Nat
  updates : List Rat      -- the adjustment coefficients in order
deriving Repr

/-- the `while True` loop with fuel; running out of fuel is reported, never defaulted -/
def run (q : Rat) (ord : List Nat) (V : Mat Rat) (tgt : List Nat) : Nat → State → Nat → List Rat → Except Err Outcome
  | 0, _, _, _ => .error (.other "OutOfFuel")
  | f+1, s, nt, ups =>
    match step q ord V tgt s with
    | .error e => .error e
    | .ok .done => .ok { final := s, transfers := nt, updates := ups.reverse }
    | .ok (.transfer s') => run q ord V tgt f s' (nt + 1) ups
    | .ok (.update s' c) => run q ord V tgt f s' nt (c :: ups)

/-- the state before the loop (proportional.py L559-569) -/
def initState (div : Nat → Rat) (q : Rat) (V : Mat Rat) (total : Nat) : Except Err State :=
  match initialSolution div V total with
  | .error e => .error e
  | .ok x0 => .ok { x := x0, dc := V.map (fun _ => 1), pc := initialPartyCoefs q V x0 }

/-- `BiproportionalEvaluator(div, apportioner).evaluate(votes, n_seats)` (proportional.py L547-618).
    `total` is the number of seats the parties are apportioned (`n_seats` or the sum of the per-district
    dictionary); `rows = none` means "districts apportioned by the same divisor rule", `some l` is an explicit
    per-district dictionary / the result of a custom apportioner. -/
def evaluate (div : Nat → Rat) (q : Rat) (ord : List Nat) (V : Mat Rat) (total : Nat) (rows : Option (List Nat))
    (fuel : Nat) :
    Except Err Outcome :=
  match initState div q V total with
  | .error e => .error e
  | .ok s0 =>
    match (match rows with
           | some l => Except.ok l
           | none => districtSeats div V total) with
    | .error e => .error e
    | .ok tgt => run q ord V tgt fuel s0 0 []

/-! ## decidable hypotheses of the partial-correctness theorems (evaluated by the driver on every case) -/

/-- well-formed vote matrix: rectangular and non-negative -/
def votesOk (V : Mat Rat) : Bool := shapeOk V V.length (nCols V) && V.all (fun r => r.all (fun v => decide (0 ≤ v)))

/-- somebody voted -/
def hasVotes (V : Mat Rat) : Bool := V.any (fun r => r.any (fun v => decide (0 < v)))

/-- decidable form of the loop invariant: the seat matrix has the shape of the vote matrix, the multipliers are
    positive and every cell lies between its signposts under them -/
def stateOk (q : Rat) (V : Mat Rat) (s : State) : Bool :=
  shapeOk s.x V.length (nCols V)
  && allN (fun i => decide (0 < s.dc.getD i 0)) V.length
  && allN (fun j => decide (0 < s.pc.getD j 0)) (nCols V)
  && allN (fun i => allN (fun j => decide (isRounding q (quot V s i j) (mget s.x i j))) (nCols V)) V.length

end VL.Biprop
