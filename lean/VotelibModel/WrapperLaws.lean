/-
  VotelibModel.WrapperLaws — the LAWS of the composition wrappers (property C14), written from the
  property statement, and the compositional semantics `denote` assembled from them.

  No definition in this file mentions `acceptsSeats` / `acceptsPrevGains` (the signature-based dispatch
  of core.py) and no part is ever refused an argument: a law hands every part everything that is known
  (votes, seats, previous gains, caps, lists) and the part takes what it takes (`tol`).

  Two layers:
  * `…Law`    the wrapper equals the explicit composition of its parts — for EVERY call
  * `…Ideal`  the reading of the property statement where it is more demanding than the code's own
              conventions (an omitted seat count stays omitted, a constituency the apportionment does
              not mention has no seats, constituencies without seats have empty results even when no
              constituency is evaluated, tie places are filled in order).  `Props/C14.lean` proves
              Law = Ideal under explicit decidable conditions on the call and gives witnesses outside.
-/
import VotelibModel.Wrappers
namespace VL.C14
open VL

/-! ## what a tree takes (from its composition, not from any signature) -/

def allSig : Sig := { seats := true, prev := true, max := true, ext := false }

/-- the optional arguments a tree can be given when it is called by hand -/
def takes : Ev → Sig
  | .leaf sig _ => sig
  | .fixedSeatCount e _ => { seats := false, prev := (takes e).prev, max := (takes e).max, ext := (takes e).ext }
  | .tieBreaking main _ => takes main
  | .conditioned _ e _ => { seats := true, prev := true, max := (takes e).max, ext := (takes e).ext }
  | .preConverted _ e => takes e
  | .postConverted e _ => takes e
  | .votingSystem e => takes e
  | .byConstituency _ _ _ => allSig
  | .preApportioned _ _ => allSig
  | .removedApportionment _ => allSig
  | .byParty _ _ => allSig
  | .multistage _ _ => allSig
  | .unusedVotes _ _ _ => allSig
  | .partyList p _ _ => { seats := true, prev := (takes p).prev, max := (takes p).max, ext := true }

/-- `n_seats` is a required parameter of this tree's `evaluate`: it cannot be called without a seat count
    argument ("no seat count" is written None for it) -/
def needsSeats : Ev → Bool
  | .leaf sig _ => sig.seats && sig.needs
  | .fixedSeatCount _ _ => false
  | .tieBreaking main _ => needsSeats main
  | .preConverted _ e => needsSeats e
  | .postConverted e _ => needsSeats e
  | .votingSystem e => needsSeats e
  | .conditioned _ _ _ => false
  | .byConstituency _ _ _ => false
  | .preApportioned _ _ => false
  | .removedApportionment _ => false
  | .byParty _ _ => false
  | .multistage _ _ => true
  | .unusedVotes _ _ _ => true
  | .partyList _ _ _ => true

/-- the signature-based dispatch flags of core.py tell the truth about this tree -/
def DispatchFaithful (e : Ev) : Bool :=
  acceptsSeats e == (takes e).seats && acceptsPrevGains e == (takes e).prev
    && acceptsMaxSeats e == (takes e).max

def takesAll (e : Ev) : Bool := (takes e).seats && (takes e).prev && (takes e).max

/-! ## laws -/

/-- a fixed seat count equals passing that count -/
def fixedSeatCountLaw (n : V) (part : Sem) : Sem := fun a => part { a with n := some n }

/-- pre-conversion equals converting, then evaluating -/
def preConvertedLaw (c : V → Except Err V) (part : Sem) : Sem := fun a => do
  let v ← c a.votes
  part { a with votes := v }

/-- post-conversion equals evaluating, then converting -/
def postConvertedLaw (part : Sem) (c : V → Except Err V) : Sem := fun a => do
  let r ← part a
  c r

/-- conditioning equals evaluating on the votes restricted to the candidates the eliminator passed;
    the eliminator sees the totals over the nesting levels; "no seat count" (omitted or None) stays no
    seat count for the part, written in the form the part takes it (`seatsForm needs`: not at all, or None
    for a part whose seat count is a required argument) -/
def conditionedLaw (needs : Bool) (elim part : Sem) (depth : Nat) : Sem := fun a => do
  let prev := a.prev.getD (.dict [])
  let totals ← sumParty depth a.votes
  let prevTotals ← sumParty depth prev
  let passed ← elim { votes := totals, prev := some prevTotals }
  let restricted ← elimParty depth a.votes passed
  part { a with votes := restricted, n := seatsForm needs (a.n.getD .none), prev := some prev }

/-- the seats of every constituency: a fixed number, a fixed table, the table given as `n_seats`, or the
    apportioner's distribution of the total over the constituencies' vote totals -/
def apportionLaw (app : App Sem) (votes n : V) : Except Err V :=
  match app with
  | .int k => do
      let kvs ← votes.items
      pure (.dict (kvs.map (fun p => (p.1, V.num k))))
  | .dict d => pure (.dict d)
  | .ev ap =>
      match n with
      | .dict _ => pure n
      | .num _ => do
          let cv ← constituencyTotals votes
          ap { votes := cv, n := some n }
      | .none => do
          let cv ← constituencyTotals votes
          ap { votes := cv }
      | _ => do
          let _ ← constituencyTotals votes
          throw .valueError
  | .none =>
      match n with
      | .dict _ => pure n
      | .num _ => do
          let kvs ← votes.items
          pure (.dict (kvs.map (fun p => (p.1, n))))
      | _ => throw .valueError

/-- one constituency evaluated separately with its seats, its previous gains and its caps -/
def districtLaw (part : Sem) (allowed : Option V) (dvotes seats prev max : V) : Except Err (Option V) :=
  if isZero seats then pure Option.none
  else do
    let dv ← match allowed with
      | some ps => subsetVotes dvotes ps
      | Option.none => pure dvotes
    let r ← part { votes := dv, n := some seats, prev := some prev, max := some max }
    pure (if isNone r then Option.none else some r)

/-- the candidates a preselector allows, judged on the national totals -/
def allowedLaw (needs : Bool) (pre : Option Sem) (votes n : V) : Except Err (Option V) :=
  match pre with
  | Option.none => pure Option.none
  | some p => do
      let nat ← voteTotals votes
      let r ← p { votes := nat, n := seatsForm needs n }
      pure (some r)

/-- every constituency separately; `missing` is the seat entry of a constituency the table does not mention -/
def districtsLaw (part : Sem) (allowed : Option V) (seats prev max missing : V) (kvs : D) :
    Except Err (List (Key × Option V)) :=
  kvs.mapM (fun p => do
    let sd ← seats.items
    let pd ← prev.items
    let md ← max.items
    let r ← districtLaw part allowed p.2 ((D.get? sd p.1).getD missing)
              ((D.get? pd p.1).getD (.dict [])) ((D.get? md p.1).getD (.dict []))
    pure (p.1, r))

/-- evaluated constituencies, then the ones without a value with the empty result `kind` -/
def assemble (rs : List (Key × Option V)) (kind : V) : V :=
  .dict (rs.filterMap (fun p => p.2.map (fun r => (p.1, r)))
         ++ rs.filterMap (fun p => match p.2 with
              | Option.none => some (p.1, kind)
              | some _ => Option.none))

/-- per-constituency evaluation equals evaluating each constituency separately with its apportioned
    seats; a constituency the apportionment does not mention has no seats; constituencies without seats
    get the empty result of the kind of the evaluated ones (an empty distribution when none is) -/
def byConstituencyLaw (preNeeds : Bool) (part : Sem) (app : App Sem) (pre : Option Sem) : Sem := fun a => do
  let n := a.n.getD .none
  let seats ← apportionLaw app a.votes n
  let allowed ← allowedLaw preNeeds pre a.votes n
  let kvs ← a.votes.items
  let rs ← districtsLaw part allowed seats (a.prev.getD (.dict [])) (a.max.getD (.dict [])) (.num 0) kvs
  pure (assemble rs (match rs.findSome? (·.2) with
    | some first => emptyLike first
    | Option.none => .dict []))

/-- pre-apportionment equals apportioning, then evaluating with the table of seats -/
def preApportionedLaw (part : Sem) (app : App Sem) : Sem := fun a => do
  let seats ← apportionLaw app a.votes (a.n.getD .none)
  part { votes := a.votes, n := some seats
         prev := some (a.prev.getD (.dict [])), max := some (a.max.getD (.dict [])) }

/-- removing the apportionment equals evaluating with the total of the table -/
def removedApportionmentLaw (part : Sem) : Sem := fun a => do
  let nd ← (a.n.getD .none).items
  let s ← sumVals nd
  part { votes := a.votes, n := some (.num s)
         prev := some (a.prev.getD (.dict [])), max := some (a.max.getD (.dict [])) }

/-- one party's seats split over the constituencies: the allocator sees the party's votes in every constituency,
    the party's seats, and the party's columns of the previous gains and of the caps -/
def partyAllocation (allocator : Sem) (kvs : D) (prev max : V) (pk : Key × V) : Except Err D := do
  let pv ← kvs.mapM (fun p => do
    let sub ← subsetVotes p.2 (.list [V.ofKey pk.1])
    let sd ← sub.items
    let s ← sumVals sd
    pure (p.1, V.num s))
  let pp ← partyColumn prev pk.1
  let pm ← partyColumn max pk.1
  let allocated ← allocator { votes := .dict pv, n := some pk.2, prev := some pp, max := some pm }
  allocated.items

/-- a party's allocation written into the table constituency -> party -> seats -/
def enterAllocation (party : Key) (res : D) (ad : D) : Except Err D :=
  ad.foldlM (fun res cs => setNested res cs.1 party cs.2) res

/-- constituencies nobody was seated in get an empty entry -/
def fillEmpty (kvs : D) (res : D) : D :=
  kvs.foldl (fun res p => if D.has res p.1 then res else res ++ [(p.1, V.dict [])]) res

/-- the overall evaluator on the national totals decides the seats of each party; the allocator splits a
    party's seats over the constituencies by the party's votes, previous gains and caps there -/
def byPartyLaw (overallNeeds : Bool) (overall allocator : Sem) : Sem := fun a => do
  let prev := a.prev.getD (.dict [])
  let max := a.max.getD (.dict [])
  let ov ← voteTotals a.votes
  let ores ← overall { votes := ov, n := seatsForm overallNeeds (a.n.getD .none) }
  let od ← ores.items
  let kvs ← a.votes.items
  let res ← od.foldlM (fun (res : D) pk => do
    let ad ← partyAllocation allocator kvs prev max pk
    enterAllocation pk.1 res ad) []
  pure (.dict (fillEmpty kvs res))

/-- multi-stage distribution equals chaining the stages with accumulated previous gains -/
def chainStages (depth : Nat) (n max : V) : List (Sem × V) → V → Except Err V
  | [], acc => pure acc
  | (stage, sv) :: rest, acc => do
      let r ← stage { votes := sv, n := some n, prev := some acc, max := some max }
      let acc' ← addStage depth acc r
      chainStages depth n max rest acc'

def multistageLaw (stages : List Sem) (depth : Nat) : Sem := fun a => do
  let n ← match a.n with
    | some n => pure n
    | Option.none => throw eType
  let acc ← copyNested depth (a.prev.getD (.dict []))
  let vs ← stageVotes stages.length a.votes
  chainStages depth n (a.max.getD (.dict [])) (stages.zip vs) acc

/-- the stages in turn, each on the votes not yet used and the seats not yet filled -/
def chainUnused (depth : Nat) : List (Sem × Option QuotaFn) → V → V → V → Except Err V
  | [], _, _, acc => pure acc
  | (stage, q) :: rest, votes, n, acc => do
      let r ← stage { votes := votes, n := some n }
      let acc' ← addStage depth acc r
      match q with
      | Option.none => chainUnused depth rest votes n acc'
      | some qf => do
          let votes' ← useVotes qf depth votes r n
          let n' ← subtractGained depth n r
          chainUnused depth rest votes' n' acc'

def unusedVotesLaw (stages : List Sem) (quotas : List QuotaFn) (depth : Nat) : Sem := fun a => do
  let n ← match a.n with
    | some n => pure n
    | Option.none => throw eType
  let acc ← copyNested depth (a.prev.getD (.dict []))
  if (a.max.getD (.dict [])).truthy then throw .notImplemented
  chainUnused depth (zipQuotas stages (quotas.map some ++ [Option.none])) a.votes n acc

/-! ### tie-breaking: replaces each tie by the tiebreaker's choice among exactly the tied candidates and
    changes nothing else -/

/-- the places of `tie` are filled, in order, with the chosen candidates; every other place is kept.
    `none` when more candidates were chosen than there are places. -/
def fillTie (tie : List Cand) : List V → List V → Option (List V)
  | res, [] => some res
  | [], _ :: _ => Option.none
  | x :: xs, c :: cs =>
      match x with
      | .tie t => if t = tie then (fillTie tie xs cs).map (c :: ·)
                  else (fillTie tie xs (c :: cs)).map (x :: ·)
      | _ => (fillTie tie xs (c :: cs)).map (x :: ·)

/-- number of places of `tie` -/
def tiePlaces (tie : List Cand) (l : List V) : Nat :=
  (l.filter (fun x => match x with | .tie t => t = tie | _ => false)).length

/-- the distinct ties of a selection in order of first appearance -/
def distinctTies : List V → List (List Cand)
  | [] => []
  | .tie t :: rest => t :: (distinctTies rest).filter (· ≠ t)
  | _ :: rest => distinctTies rest

/-- the tiebreaker's choice: it sees the votes of exactly the tied candidates and the number of places -/
def tieChoice (tb : Sem) (votes : V) (tie : List Cand) (places : Rat) : Except Err (List V) := do
  let among ← subsetVotes votes (.tie tie)
  let chosen ← tb { votes := among, n := some (.num places) }
  chosen.iter

/-- seats added to the chosen candidates, one per choice -/
def addChosen (d : D) (chosen : List V) : Except Err D :=
  chosen.foldlM (fun acc x => match x.toKey? with
    | some k => do
        let cur ← ((acc.get? k).getD (.num 0)).asNum
        pure (acc.set k (.num (cur + 1)))
    | Option.none => throw eType) d

/-- the ties of a selection with their numbers of places, in order of first appearance; of a
    distribution with their seats -/
def tieBreakingLaw (main tb : Sem) : Sem := fun a => do
  let r ← main a
  match r with
  | .list l => do
      let out ← (collectSel l).foldlM (fun res t => do
        let chosen ← tieChoice tb a.votes t.1 t.2
        replaceSel res t.1 chosen) l
      pure (.list out)
  | .dict d => do
      let ties ← collectDist d
      let out ← ties.foldlM (fun res t => do
        let chosen ← tieChoice tb a.votes t.1 t.2
        addChosen (res.del (.tie t.1)) chosen) d
      pure (.dict out)
  | .tie _ => pure r
  | _ => throw eType

/-- the same with the places of a tie filled strictly in order (`fillTie`): differs from the code only
    if a tiebreaker answers with the very tie it was asked to break next to other candidates -/
def tieBreakingIdeal (main tb : Sem) : Sem := fun a => do
  let r ← main a
  match r with
  | .list l => do
      let out ← (collectSel l).foldlM (fun res t => do
        let chosen ← tieChoice tb a.votes t.1 t.2
        match fillTie t.1 res chosen with
        | some r => pure r
        | Option.none => throw .valueError) l
      pure (.list out)
  | .dict d => do
      let ties ← collectDist d
      let out ← ties.foldlM (fun res t => do
        let chosen ← tieChoice tb a.votes t.1 t.2
        addChosen (res.del (.tie t.1)) chosen) d
      pure (.dict out)
  | .tie _ => pure r
  | _ => throw eType

/-- closed lists: the first `k` candidates of the party's list, `k` the seats the party won -/
def closedList (pl : V) (p : Key × V) : Except Err (Key × V) := do
  let pld ← match pl with
    | .dict d => pure d
    | _ => throw eType
  let lst ← match D.get? pld p.1 with
    | some (.list l) => pure l
    | some _ => throw eType
    | Option.none => throw eKey
  let k ← p.2.asNat
  pure (p.1, V.list (lst.take k))

/-- `x` is not the tie `t` itself -/
def notTie (t : List Cand) (x : V) : Bool :=
  match x with
  | .tie cs => decide (cs ≠ t)
  | _ => true

/-- no tiebreaker answer contains the very tie it was asked to break (decidable: the ties of the main
    result are finitely many and `tieChoice` is computed) -/
def choicesClean (tb : Sem) (votes : V) (l : List V) : Bool :=
  (collectSel l).all (fun t => match tieChoice tb votes t.1 t.2 with
    | .ok chosen => chosen.all (notTie t.1)
    | .error _ => true)

/-- the answer of a tiebreaker names candidates (or other ties) first and the very tie it was asked to
    break only at the end — as every selector built on `get_n_best` does -/
def tiesLast (t : List Cand) (chosen : List V) : Bool :=
  (chosen.dropWhile (notTie t)).all (fun x => !notTie t x)

/-- along the run of the tie loop (the selection `res` changes from tie to tie): every answer is `tiesLast`
    and names at most as many entries as the tie still has places (decidable by evaluation) -/
def answersTiesLast (tb : Sem) (votes : V) : List (List Cand × Nat) → List V → Bool
  | [], _ => true
  | t :: ts, res =>
      match tieChoice tb votes t.1 t.2 with
      | .error _ => true
      | .ok chosen =>
          tiesLast t.1 chosen && decide (chosen.length ≤ tiePlaces t.1 res)
            && (match replaceSel res t.1 chosen with
                | .ok res' => answersTiesLast tb votes ts res'
                | .error _ => true)

/-- open lists: the list evaluator's choice for one party, from the party's list votes, its seats and its list -/
def openList (le : ListSem) (lv pl : V) (p : Key × V) : Except Err (Key × V) := do
  let lvd ← match lv with
    | .dict d => pure d
    | _ => throw eType
  let pv ← match D.get? lvd p.1 with
    | some x => pure x
    | Option.none => throw eKey
  let pld ← match pl with
    | .dict d => pure d
    | _ => throw eType
  let lst ← match D.get? pld p.1 with
    | some x => pure x
    | Option.none => throw eKey
  let x ← le pv p.2 lst
  pure (p.1, x)

/-- party-list evaluation seats exactly as many list candidates as the party won (closed lists: from
    the top of the list; open lists: the list evaluator's choice of that many) -/
def partyListLaw (party : Sem) (listEval : Option ListSem) (conv : Option (V → Except Err V)) : Sem :=
  fun a => do
  let n ← match a.n with
    | some n => pure n
    | Option.none => throw eType
  let pl ← match a.pl with
    | some x => pure x
    | Option.none => throw eType
  let lv := a.lv.getD .none
  let won ← party { votes := a.votes, n := some n, prev := a.prev, max := a.max }
  let wd ← won.items
  match listEval with
  | Option.none =>
      if lv.truthy then throw .valueError
      else do
        let r ← wd.mapM (closedList pl)
        pure (.dict r)
  | some le =>
      if !lv.truthy then throw .valueError
      else do
        let lv' ← match conv with
          | some c => c lv
          | Option.none => pure lv
        let r ← wd.mapM (openList le lv' pl)
        pure (.dict r)

/-! ## the compositional semantics -/

mutual
/-- the tree evaluated as the composition of its parts -/
def denote : Ev → Sem
  | .leaf sig f => tol sig f
  | .fixedSeatCount e n => fixedSeatCountLaw n (denote e)
  | .tieBreaking main tb => tieBreakingLaw (denote main) (denote tb)
  | .conditioned elim e depth => conditionedLaw (needsSeats e) (denote elim) (denote e) depth
  | .preConverted c e => preConvertedLaw c.run (denote e)
  | .postConverted e c => postConvertedLaw (denote e) c.run
  | .byConstituency e app pre =>
      byConstituencyLaw (match pre with | some p => needsSeats p | Option.none => false) (denote e)
        (match app with | .none => .none | .int k => .int k | .dict d => .dict d | .ev ap => .ev (denote ap))
        (match pre with | some p => some (denote p) | Option.none => Option.none)
  | .preApportioned e app =>
      preApportionedLaw (denote e)
        (match app with | .none => .none | .int k => .int k | .dict d => .dict d | .ev ap => .ev (denote ap))
  | .removedApportionment e => removedApportionmentLaw (denote e)
  | .byParty overall alloc =>
      match alloc with
      | some al => byPartyLaw (needsSeats overall) (denote overall) (denote al)
      | Option.none => byPartyLaw (needsSeats overall) (denote overall) (denote overall)
  | .multistage rounds depth => multistageLaw (denoteList rounds) depth
  | .unusedVotes rounds quotas depth => unusedVotesLaw (denoteList rounds) quotas depth
  | .partyList party le conv => partyListLaw (denote party) le (conv.map Conv.run)
  | .votingSystem e => denote e
def denoteList : List Ev → List Sem
  | [] => []
  | e :: es => denote e :: denoteList es
end

/-! ## static well-formedness of a tree: every part can take what its wrapper hands it UNCONDITIONALLY
    (a tiebreaker and a district evaluator are handed a seat count, the stages of a multi-stage distributor
    seats, previous gains and caps, …).  Nothing about the dispatch flags is assumed any more: since
    e582ee8 they are the truth for every tree (`acceptsSeats_faithful`, `acceptsPrevGains_faithful`,
    `acceptsMaxSeats_faithful` in Props/C14.lean). -/

def appOK (okE : Ev → Bool) : App Ev → Bool
  | .ev ap => okE ap && (takes ap).seats
  | _ => true

mutual
def WellFormed : Ev → Bool
  | .leaf _ _ => true
  | .fixedSeatCount e _ => WellFormed e && (takes e).seats
  | .tieBreaking main tb => WellFormed main && WellFormed tb && (takes tb).seats
  | .conditioned elim e _ => WellFormed elim && WellFormed e
  | .preConverted _ e => WellFormed e
  | .postConverted e _ => WellFormed e
  | .votingSystem e => WellFormed e
  | .byConstituency e app pre =>
      WellFormed e && (takes e).seats
      && (match app with | .ev ap => WellFormed ap && (takes ap).seats | _ => true)
      && (match pre with | some p => WellFormed p | Option.none => true)
  | .preApportioned e app =>
      WellFormed e && takesAll e && (match app with | .ev ap => WellFormed ap && (takes ap).seats | _ => true)
  | .removedApportionment e => WellFormed e && takesAll e
  | .byParty overall alloc =>
      WellFormed overall
      && (match alloc with
          | some al => WellFormed al && takesAll al
          | Option.none => takesAll overall)
  | .multistage rounds _ => WellFormedList rounds true
  | .unusedVotes rounds _ _ => WellFormedList rounds false
  | .partyList party _ _ => WellFormed party && (takes party).seats
def WellFormedList : List Ev → Bool → Bool
  | [], _ => true
  | e :: es, gains =>
      WellFormed e && (if gains then takesAll e else (takes e).seats) && WellFormedList es gains
end

end VL.C14
