/-
  VotelibModel.ShapeTieBreak — `core.TieBreaking(main, InputOrderSelector())` (core.py L1480-1542) around the selection /
  distribution evaluators of C08, as a composition of the owners' models: the main result, then every `Tie` of it broken by
  `InputOrderSelector` on the votes subsetted to the tie (`SubsettedVotes(SimpleSubsetter)`: the tied candidates in the
  dictionary order of the votes), i.e. by the first `k` members of the tie in dictionary order.
  Import-free apart from VotelibModel.*.
-/
import VotelibModel.Simple
import VotelibModel.QuotaDist
import VotelibModel.HighestAverages
namespace VL.ShapeTB
open VL

/-- `InputOrderSelector().evaluate(SubsettedVotes(...).convert(votes, tie), k)`: the first `k` tied candidates in the
    dictionary order of the votes -/
def brokenByInputOrder (votes : Votes) (T : List Cand) (k : Nat) : List Cand :=
  ((keys votes).filter (fun c => T.contains c)).take k

/-- `result[result.index(tie)] = cand` (core.py L1540-1541); `list.index` of an absent tie raises ValueError -/
def replaceFirst : List Slot → List Cand → Cand → Except Err (List Slot)
  | [], _, _ => .error .valueError
  | s :: rest, T, c =>
    if s = Slot.tie T then .ok (Slot.cand c :: rest)
    else match replaceFirst rest T c with
      | .ok r => .ok (s :: r)
      | .error e => .error e

def tieOf : Slot → Option (List Cand)
  | .tie T => some T
  | .cand _ => none

/-- `TieBreaking.evaluate` on a selection result (core.py L1498-1510, `_collect_ties` L1513-1524, `_replace_sel_ties`):
    the distinct ties in order of first occurrence, each with the number of places it holds -/
def tieBreakSel (votes : Votes) (main : List Slot) : Except Err (List Slot) :=
  (main.filterMap tieOf).eraseDups.foldlM (fun res T =>
    (brokenByInputOrder votes T (main.count (Slot.tie T))).foldlM (fun r c => replaceFirst r T c) res) main

/-- `_replace_distr_ties` (core.py L1527-1533): `del result[tie]`, then one seat per winner of the tie-break -/
def replaceDist (res : QD.Sel) (T : List Cand) (repl : List Cand) : QD.Sel :=
  repl.foldl (fun r c => QD.setK r (.cand c) (QD.getK r (.cand c) 0 + 1)) (QD.delK res (.tie T))

/-- `TieBreaking.evaluate` on a distribution result: every `Tie` key with its seats -/
def tieBreakDist (votes : Votes) (main : QD.Sel) : QD.Sel :=
  (main.filterMap (fun p => match p.1 with | .tie T => some (T, p.2) | .cand _ => none)).foldl
    (fun res tk => replaceDist res tk.1 (brokenByInputOrder votes tk.1 tk.2.toNat)) main

/-- `TieBreaking(Plurality(), InputOrderSelector()).evaluate(votes, n)` -/
def tbPlurality (votes : Votes) (n : Nat) : Except Err (List Slot) := tieBreakSel votes (plurality votes n)

/-- `TieBreaking(LargestRemainder(quota), InputOrderSelector()).evaluate(votes, n)` -/
def tbLargestRemainder (cfg : QD.Cfg) (votes : Votes) (n : Nat) : Except Err QD.Sel :=
  match QD.largestRemainder cfg votes n [] [] with
  | .ok r => .ok (tieBreakDist votes r)
  | .error e => .error e

/-- `TieBreaking(HighestAverages(divisor), InputOrderSelector()).evaluate(votes, n)` -/
def tbHighestAverages (cfg : HACfg) : Except Err QD.Sel :=
  match highestAverages cfg with
  | .ok r => .ok (tieBreakDist cfg.votes (r.map (fun p => (p.1, (p.2 : Int)))))
  | .error e => .error e

end VL.ShapeTB
