/-
  VotelibModel.Purity — state-machine models of the components of votelib that carry state between calls (C18).

  A Lean function is pure by construction; what can be stated and proved is that a component which HAS state
  (an attribute written outside `__init__`, the process-wide `random` generator) gives, for every call, an
  output that does not depend on the calls made before.  Each component is a machine
      step : State → Call → State × Out
  mirroring the Python method, including the condition under which the cache is extended exactly as written.

    * `pavStep`        ProportionalApproval._coefs                         approval.py L43-126
    * `bordaStep`      rankscore.Borda.n_candidates / _scores, written by
                       RankedToPositionalVotes.convert through set_n_candidates   rankscore.py L59-103, convert.py L359-381
    * `seededStep`     components that call `random.seed(self.seed)` before every draw from the global
                       generator (transfer.Hare L246-283, auxiliary.Sortitor / RandomUnrankedBallotSelector L57-97)
    * `rankValStep`    RankedVoteValidator.rank_vote_count_checkers (a defaultdict that materialises a checker
                       for every rank it is asked about)                    vote.py L304-370 (explicit checker dicts are wrapped in a defaultdict too, L328-333)
    * `scoreValStep`   ScoreVoteValidator.sum_checkers (same mechanism)      vote.py L374-432, L495-512, L575-590
-/
import VotelibModel.Core
import VotelibModel.Gen.RankScore
namespace VL.Purity
open VL

/-! ## running a machine over a call history -/

/-- the outputs of a call sequence on ONE instance that starts in state `s` -/
def run {σ κ ο : Type} (step : σ → κ → σ × ο) : σ → List κ → σ × List ο
  | s, [] => (s, [])
  | s, c :: cs =>
    let r := step s c
    let r' := run step r.1 cs
    (r'.1, r.2 :: r'.2)

/-- the output of the last call of a history (`none` for the empty history) -/
def lastOut {σ κ ο : Type} (step : σ → κ → σ × ο) (s : σ) (h : List κ) : Option ο :=
  (run step s h).2.getLast?

/-- two objects side by side: each call goes to one of them and touches only that object's attributes -/
def prodStep {σ τ κ κ' ο ο' : Type} (sa : σ → κ → σ × ο) (sb : τ → κ' → τ × ο') :
    σ × τ → κ ⊕ κ' → (σ × τ) × (ο ⊕ ο')
  | (a, b), .inl c => let r := sa a c; ((r.1, b), .inl r.2)
  | (a, b), .inr c => let r := sb b c; ((a, r.1), .inr r.2)

/-! ## ProportionalApproval: the coefficient cache `_coefs` -/

/-- approval votes: `Dict[FrozenSet[Candidate], int]` (members of a ballot are distinct) -/
abbrev ApprovalProfile := List (List Cand × Rat)

structure PavCall where
  votes : ApprovalProfile
  nSeats : Nat
deriving Repr, DecidableEq

/-- `sum(Fraction(1, k + 1) for k in range(n))` (approval.py L60) -/
def harmonic (n : Nat) : Rat := ((List.range n).map (fun k => (1 : Rat) / (((k + 1 : Nat) : Rat)))).sum

/-- approval.py L58-62 as it is NOW:
    `if len(self._coefs) < n_seats + 1: self._coefs += [H(n) for n in range(len(self._coefs), n_seats + 1)]` -/
def pavExtend (coefs : List Rat) (nSeats : Nat) : List Rat :=
  if coefs.length < nSeats + 1 then
    coefs ++ (List.range' coefs.length (nSeats + 1 - coefs.length)).map harmonic
  else coefs

/-- the condition before commit c5ab27b: `if len(self._coefs) < n_seats:` -/
def pavExtendOld (coefs : List Rat) (nSeats : Nat) : List Rat :=
  if coefs.length < nSeats then
    coefs ++ (List.range' coefs.length (nSeats + 1 - coefs.length)).map harmonic
  else coefs

/-- `len(alt & alternative)` for a ballot `alt` and a candidate set `alternative` -/
def interCount (ballot alternative : List Cand) : Nat :=
  (alternative.filter (fun c => ballot.contains c)).length

/-- `_satisfaction` (approval.py L119-126): `sum(self._coefs[len(alt & alternative)] * n_votes for ...)`;
    `none` = IndexError (the cache is too short).  Exact rational addition, so the order of summation is immaterial. -/
def satisfaction (coefs : List Rat) (alternative : List Cand) : ApprovalProfile → Option Rat
  | [] => some 0
  | (b, w) :: rest =>
    match coefs[interCount b alternative]? with
    | none => none
    | some c =>
      match satisfaction coefs alternative rest with
      | none => none
      | some r => some (c * w + r)

/-- the same sum with the harmonic numbers themselves: the cache-free specification -/
def satisfactionH (alternative : List Cand) : ApprovalProfile → Rat
  | [] => 0
  | (b, w) :: rest => harmonic (interCount b alternative) * w + satisfactionH alternative rest

/-- first-occurrence de-duplication -/
def dedup : List Cand → List Cand
  | [] => []
  | x :: xs => x :: (dedup xs).filter (fun y => y != x)

/-- `frozenset(cand for alt in votes.keys() for cand in alt)` (L101-103); the iteration order of the frozenset is
    modelled as first-occurrence order (the observable is order-independent up to ties, see the harness) -/
def allCands (votes : ApprovalProfile) : List Cand := dedup (votes.flatMap (·.1))

/-- `itertools.combinations(pool, n)` in its order -/
def combos : List Cand → Nat → List (List Cand)
  | _, 0 => [[]]
  | [], _ + 1 => []
  | x :: xs, n + 1 => (combos xs n).map (x :: ·) ++ combos xs (n + 1)

/-- the loop of `_get_best_alternatives` (L104-115); `sc = none` is `-inf`; result `none` = the satisfaction raised -/
def bestAltsGo (sat : List Cand → Option Rat) :
    List (List Cand) → List (List Cand) → Option Rat → Option (List (List Cand))
  | [], best, _ => some best
  | alt :: rest, best, sc =>
    match sat alt with
    | none => none
    | some s =>
      match sc with
      | none => bestAltsGo sat rest [alt] (some s)
      | some b =>
        if b < s then bestAltsGo sat rest [alt] (some s)
        else if s = b then bestAltsGo sat rest (best ++ [alt]) sc
        else bestAltsGo sat rest best sc

/-- the dict comprehension of `_order_by_score` (L80-83): `{cand: -satisfaction(alternative - {cand})}` -/
def dropsGo (sat : List Cand → Option Rat) (alternative : List Cand) : List Cand → Option Votes
  | [] => some []
  | c :: cs =>
    match sat (alternative.filter (fun x => x != c)) with
    | none => none
    | some s =>
      match dropsGo sat alternative cs with
      | none => none
      | some r => some ((c, -s) :: r)

/-- `evaluate` after the cache extension (L63-68) for a satisfaction function -/
def pavEvalWith (sat : List Cand → Option Rat) (votes : ApprovalProfile) (nSeats : Nat) : Except Err (List Slot) :=
  match bestAltsGo sat (combos (allCands votes) nSeats) [] none with
  | none => .error (.other "IndexError")
  | some [alt] =>
    match dropsGo sat alt alt with
    | none => .error (.other "IndexError")
    | some drops => .ok (getNBest drops alt.length)
  | some _ => .error .notImplemented

def pavEval (coefs : List Rat) (votes : ApprovalProfile) (nSeats : Nat) : Except Err (List Slot) :=
  pavEvalWith (fun alt => satisfaction coefs alt votes) votes nSeats

/-- Proportional approval voting without any cache: the specification -/
def pavSpec (votes : ApprovalProfile) (nSeats : Nat) : Except Err (List Slot) :=
  pavEvalWith (fun alt => some (satisfactionH alt votes)) votes nSeats

/-- `ProportionalApproval.__init__`: `self._coefs = [0]` -/
def pavInit : List Rat := [0]

/-- `ProportionalApproval.evaluate` as a step of the machine -/
def pavStep (coefs : List Rat) (c : PavCall) : List Rat × Except Err (List Slot) :=
  let coefs' := pavExtend coefs c.nSeats
  (coefs', pavEval coefs' c.votes c.nSeats)

/-- the step before c5ab27b -/
def pavStepOld (coefs : List Rat) (c : PavCall) : List Rat × Except Err (List Slot) :=
  let coefs' := pavExtendOld coefs c.nSeats
  (coefs', pavEval coefs' c.votes c.nSeats)

/-- the satisfaction drops of the winning alternative (driver only: lets the harness compare the implementation's
    order up to candidates with equal drops, whose order is the hash order of a frozenset) -/
def pavDrops (coefs : List Rat) (votes : ApprovalProfile) (nSeats : Nat) : Option Votes :=
  let sat := fun alt => satisfaction coefs alt votes
  match bestAltsGo sat (combos (allCands votes) nSeats) [] none with
  | some [alt] => dropsGo sat alt alt
  | _ => none

/-! ## Borda scorer state written by RankedToPositionalVotes.convert -/

inductive RankItem where
  | one (c : Cand)
  | shared (cs : List Cand)
deriving Repr, DecidableEq

abbrev Ballot := List RankItem
abbrev RankedProfile := List (Ballot × Rat)

def RankItem.cands : RankItem → List Cand
  | .one c => [c]
  | .shared cs => cs

/-- `Borda.n_candidates`, `Borda._scores`; both `None` after `__init__` (rankscore.py L59-62) -/
structure BordaState where
  nCands : Option Nat
  scores : Option (List Rat)
deriving Repr, DecidableEq

def bordaInit : BordaState := ⟨none, none⟩

/-- `set_n_candidates` (L64-78); the score list is the translated comprehension -/
def bordaSet (base : Int) (n : Nat) : BordaState := ⟨some n, some (Gen.RankScore.borda_scores base n)⟩

/-- `select_padded` (L16-25) -/
def selectPadded (l : List Rat) (n : Nat) : List Rat :=
  let s := l.take n
  if n > s.length then s ++ List.replicate (n - s.length) 0 else s

/-- `Borda.scores` (L82-103): `None` attributes make the comparison / slice raise TypeError -> RuntimeError -/
def bordaScores (s : BordaState) (nRanked : Nat) : Except Err (List Rat) :=
  match s.nCands, s.scores with
  | some n, some sc => if nRanked > n then .error .valueError else .ok (selectPadded sc nRanked)
  | _, _ => .error (.other "RuntimeError")

def maxLen (votes : RankedProfile) : Nat := votes.foldl (fun m p => max m p.1.length) 0

/-- one pass of `all_rankings` (util.py L69-87) at rank `i` -/
def rankedAt (votes : RankedProfile) (i : Nat) : List Cand :=
  votes.flatMap (fun p => match p.1[i]? with
    | some it => it.cands
    | none => [])

/-- `util.all_ranked_candidates` (L37-53) -/
def allRanked (votes : RankedProfile) : List Cand :=
  dedup ((List.range (maxLen votes)).flatMap (rankedAt votes))

def addTo (agg : Votes) (c : Cand) (x : Rat) : Votes :=
  agg.map (fun p => if p.1 = c then (p.1, p.2 + x) else p)

/-- the inner `for rank, positioned in enumerate(ranked)` (convert.py L373-379); `scores` has exactly `len(ranked)`
    entries (`select_padded`), so enumerate = zip -/
def addBallot (agg : Votes) (w : Rat) : List (RankItem × Rat) → Votes
  | [] => agg
  | (it, sc) :: rest => addBallot (it.cands.foldl (fun a c => addTo a c (sc * w)) agg) w rest

/-- the ballot loop (L368-379) for a scorer -/
def positionalGo (scoresFn : Nat → Except Err (List Rat)) : Votes → RankedProfile → Except Err Votes
  | agg, [] => .ok agg
  | agg, (b, w) :: rest =>
    match scoresFn b.length with
    | .error e => .error e
    | .ok sc => positionalGo scoresFn (addBallot agg w (b.zip sc)) rest

/-- `RankedToPositionalVotes.convert` (L359-381) with a Borda scorer, as a step of the machine -/
def bordaStep (base : Int) (_s : BordaState) (votes : RankedProfile) : BordaState × Except Err Votes :=
  let all := allRanked votes
  let s' := bordaSet base all.length
  (s', (positionalGo (bordaScores s') (all.map (fun c => (c, (0 : Rat)))) votes).map sortDesc)

/-- the positional conversion with NO scorer object: the Borda scores are computed from the number of candidates of the
    profile at hand (the stateless specification) -/
def positionalSpec (base : Int) (votes : RankedProfile) : Except Err Votes :=
  let all := allRanked votes
  let n := all.length
  (positionalGo (fun k => if k > n then .error .valueError else .ok (selectPadded (Gen.RankScore.borda_scores base n) k))
    (all.map (fun c => (c, (0 : Rat)))) votes).map sortDesc

/-- a variant that initialises the scorer only once (`if self.n_candidates is None`) -/
def bordaStepSetOnce (base : Int) (s : BordaState) (votes : RankedProfile) : BordaState × Except Err Votes :=
  let all := allRanked votes
  let s' := match s.nCands with
    | none => bordaSet base all.length
    | some _ => s
  (s', (positionalGo (bordaScores s') (all.map (fun c => (c, (0 : Rat)))) votes).map sortDesc)

/-- the scorer used directly: `scores(n)` without the converter (documented to need `set_n_candidates` first) -/
inductive ScorerCall where
  | setN (n : Nat)
  | scores (nRanked : Nat)
deriving Repr, DecidableEq

def scorerStep (base : Int) (s : BordaState) : ScorerCall → BordaState × Except Err (List Rat)
  | .setN n => (bordaSet base n, .ok [])
  | .scores k => (s, bordaScores s k)

/-! ## seeded random components: the process-wide generator is reseeded before every draw -/

/-- the global `random` generator, abstractly: any state type, any deterministic reseeding and drawing -/
structure RngModel (G Req Out : Type) where
  reseed : Nat → G
  draw : G → Req → Out × G

/-- one call in the life of the process-wide generator: a seeded component (its seed, and the draws it makes, grouped in
    BLOCKS: the component reseeds at the start of every block and draws sequentially within it), or ANY other code that
    uses or reseeds the generator in an arbitrary way (unseeded components, other libraries).
    Sortitor / RandomUnrankedBallotSelector.evaluate: one block (`random.seed(self.seed)` L64/L93, then `n_seats` calls of
    `randrange` in `util._select_n_random_int` L129-149).  Hare: one block of one draw per `_subtract` (L252-255,
    `random.sample`) and per `_distribute_equal_ranking` (L276-280), many blocks per STV evaluation. -/
inductive RngCall (G Req : Type) where
  | seeded (seed : Nat) (blocks : List (List Req))
  | other (f : G → G)

/-- sequential draws from the current generator state, no reseeding in between -/
def drawsSeq {G Req Out : Type} (M : RngModel G Req Out) : G → List Req → G × List Out
  | g, [] => (g, [])
  | g, r :: rs =>
    let d := M.draw g r
    let rest := drawsSeq M d.2 rs
    (rest.1, d.1 :: rest.2)

/-- `random.seed(self.seed)` at the start of every block -/
def blocksReseeding {G Req Out : Type} (M : RngModel G Req Out) (seed : Nat) : G → List (List Req) → G × List (List Out)
  | g, [] => (g, [])
  | _, b :: bs =>
    let d := drawsSeq M (M.reseed seed) b
    let rest := blocksReseeding M seed d.1 bs
    (rest.1, d.2 :: rest.2)

def seededStep {G Req Out : Type} (M : RngModel G Req Out) (g : G) : RngCall G Req → G × List (List Out)
  | .seeded seed blocks => blocksReseeding M seed g blocks
  | .other f => (f g, [])

/-- a component that draws WITHOUT reseeding (what the code would be without the `random.seed` line) -/
def blocksNoReseed {G Req Out : Type} (M : RngModel G Req Out) : G → List (List Req) → G × List (List Out)
  | g, [] => (g, [])
  | g, b :: bs =>
    let d := drawsSeq M g b
    let rest := blocksNoReseed M d.1 bs
    (rest.1, d.2 :: rest.2)

def unseededStep {G Req Out : Type} (M : RngModel G Req Out) (g : G) : RngCall G Req → G × List (List Out)
  | .seeded _ blocks => blocksNoReseed M g blocks
  | .other f => (f g, [])

/-- a concrete toy generator for the witness: a linear congruential generator on `Nat` -/
def lcg : RngModel Nat Nat Nat where
  reseed := fun s => s % 97
  draw := fun g k => let g' := (g * 5 + 3) % 97; (g' % (k + 1), g')

/-! ## validators: `collections.defaultdict` of magnitude checkers filled in on demand -/

/-- `VoteMagnitudeChecker` (vote.py L129-180): inclusive bounds, `None` = unchecked -/
structure Bounds where
  lo : Option Rat
  hi : Option Rat
deriving Repr, DecidableEq

/-- `is_valid` (L158-163) -/
def Bounds.valid (b : Bounds) (v : Rat) : Bool :=
  (match b.lo with | none => true | some l => decide (l ≤ v)) &&
  (match b.hi with | none => true | some h => decide (v ≤ h))

/-- `__bool__` (L154-156) -/
def Bounds.active (b : Bounds) : Bool := b.lo.isSome || b.hi.isSome

/-- the contents of the defaultdict, in insertion order -/
abbrev CheckerStore := List (Nat × Bounds)

/-- `store[k]` on a `defaultdict(lambda: dflt)`: a missing key is INSERTED -/
def ddGet (dflt : Bounds) (st : CheckerStore) (k : Nat) : CheckerStore × Bounds :=
  match st.find? (fun p => p.1 == k) with
  | some p => (st, p.2)
  | none => (st ++ [(k, dflt)], dflt)

structure RankValCfg where
  total : Bounds                -- total_count_checker
  explicit : CheckerStore       -- rank_vote_count_bounds given as a dict
  dflt : Bounds                 -- the default factory's checker
deriving Repr

/-- the item loop of `RankedVoteValidator.validate` (L356-366) for candidates the nominator accepts;
    accumulates the total and the candidates seen -/
def rankValLoop (cfg : RankValCfg) : CheckerStore → Nat → Ballot → Nat → List Cand →
    CheckerStore × Except Err (Nat × List Cand)
  | st, _, [], tot, seen => (st, .ok (tot, seen))
  | st, i, it :: rest, tot, seen =>
    let r := ddGet cfg.dflt st (i + 1)
    let size := it.cands.length
    if r.2.valid (size : Rat) then rankValLoop cfg r.1 (i + 1) rest (tot + size) (seen ++ it.cands)
    else (r.1, .error (.other "VoteMagnitudeError"))

/-- `RankedVoteValidator.validate` (L339-370) as a step of the machine -/
def rankValStep (cfg : RankValCfg) (st : CheckerStore) (vote : Ballot) : CheckerStore × Except Err Unit :=
  let r := rankValLoop cfg st 0 vote 0 []
  match r.2 with
  | .error e => (r.1, .error e)
  | .ok (tot, seen) =>
    if !cfg.total.valid (tot : Rat) then (r.1, .error (.other "VoteMagnitudeError"))
    else if (dedup seen).length < tot then (r.1, .error .voteError)
    else (r.1, .ok ())

/-- what the subclasses check after `super().validate` -/
inductive ScorePost where
  | none
  | range (b : Bounds)          -- RangeVoteValidator (L588-590)
  | enum (levels : List Rat)    -- EnumScoreVoteValidator (L508-512)
deriving Repr

structure ScoreValCfg where
  nScorings : Bounds
  explicit : CheckerStore
  dflt : Bounds
  post : ScorePost
deriving Repr

abbrev ScoreVote := List (Cand × Rat)

/-- `ScoreVoteValidator.validate` (L408-432, numeric scores) + subclass checks, for well-formed pairs and accepted candidates -/
def scoreValStep (cfg : ScoreValCfg) (st : CheckerStore) (vote : ScoreVote) : CheckerStore × Except Err Unit :=
  let n := vote.length
  if !cfg.nScorings.valid (n : Rat) then (st, .error (.other "VoteMagnitudeError"))
  else if (dedup (vote.map (·.1))).length < n then (st, .error .voteError)
  else
    let r := ddGet cfg.dflt st n
    if r.2.active && !r.2.valid ((vote.map (·.2)).sum) then (r.1, .error (.other "VoteMagnitudeError"))
    else match cfg.post with
      | .none => (r.1, .ok ())
      | .range b => if vote.all (fun p => b.valid p.2) then (r.1, .ok ()) else (r.1, .error (.other "VoteMagnitudeError"))
      | .enum ls => if vote.all (fun p => ls.contains p.2) then (r.1, .ok ()) else (r.1, .error (.other "VoteValueError"))

/-! ## evaluator dispatch: which keywords a (wrapped) evaluator takes (core.py `_accepts_keyword`, `accepts_prev_gains`,
    `accepts_max_seats`) — and a module-level cache of the answers, which the code does NOT have -/

/-- an evaluator as dispatch sees it: a leaf class whose `evaluate` signature names the keywords it takes, or a
    pass-through wrapper class (`evaluate(self, votes, *args, **kwargs)`: TieBreaking, PostConverted, PreConverted,
    FixedSeatCount, PartyListEvaluator) around another evaluator -/
inductive Ev where
  | leaf (cls : Nat) (takes : List Nat)
  | wrap (cls : Nat) (inner : Ev)
deriving Repr, DecidableEq

def Ev.cls : Ev → Nat
  | .leaf c _ => c
  | .wrap c _ => c

/-- `_accepts_keyword(evaluator, name)`: the signature names it, or the wrapper asks the wrapped evaluator -/
def acceptsKw : Ev → Nat → Bool
  | .leaf _ takes, k => takes.contains k
  | .wrap _ inner, k => acceptsKw inner k

/-- module-level state a dispatch cache would have: (class, keyword) ↦ remembered answer -/
abbrev KwCache := List ((Nat × Nat) × Bool)

/-- the dispatch of the code as it is: no module-level state is read or written -/
def dispatchStep (cache : KwCache) (q : Ev × Nat) : KwCache × Bool := (cache, acceptsKw q.1 q.2)

/-- dispatch with the answer remembered per evaluator CLASS -/
def dispatchStepCached (cache : KwCache) (q : Ev × Nat) : KwCache × Bool :=
  match cache.find? (fun p => p.1 == (q.1.cls, q.2)) with
  | some p => (cache, p.2)
  | none => let b := acceptsKw q.1 q.2; (cache ++ [((q.1.cls, q.2), b)], b)

end VL.Purity
