/-
  VotelibModel.Threshold — port of votelib/evaluate/threshold.py (whole file):
  AbsoluteThreshold, RelativeThreshold, CoalitionMemberBracketer, PropertyBracketer,
  AlternativeThresholds, PreviousGainThreshold, and the selector tree `Sel` that composes them.
  Import-free (core Lean only).
-/
import VotelibModel.Core
import VotelibModel.Gen.Threshold
namespace VL

/-! ### generic Python list primitives used by threshold.py / openlist.py / core.py -/

/-- Python `sorted(l, key=k)` / `l.sort(key=k)` (stable): `lt a b` is `k a < k b`.
    `reverse=True` (which keeps stability) is obtained with `lt a b := k b < k a`.
    Insertion from the right: the head stood before everything in the tail, so it is placed in front of
    the first element that is not strictly smaller. -/
def insertBy {α : Type} (lt : α → α → Bool) (x : α) : List α → List α
  | [] => [x]
  | y :: ys => if lt y x then y :: insertBy lt x ys else x :: y :: ys

def sortBy {α : Type} (lt : α → α → Bool) : List α → List α
  | [] => []
  | x :: xs => insertBy lt x (sortBy lt xs)

/-- members of a `set`/`frozenset` built from a sequence: first occurrences kept -/
def dedupKeep : List Cand → List Cand
  | [] => []
  | x :: xs => x :: (dedupKeep xs).filter (fun y => y != x)

/-- the comparison `n_votes > threshold or accept_equal and n_votes == threshold` as used (hand-written) by QuotaSelector
    (VotelibModel/Simple.lean writes it out); the two threshold classes and the open-list jump condition use the
    conditions generated from their source instead -/
def passes (eq : Bool) (t v : Rat) : Bool := decide (t < v) || (eq && decide (v = t))

/-- a seatless selector called as `evaluate(votes)` -/
abbrev Seatless := Votes → Except Err (List Cand)

/-- `AbsoluteThreshold.evaluate` (threshold.py L39-52).  The filter condition of the comprehension is
    `Gen.Threshold.abs_threshold_passes`, regenerated from the source by harness/translate.py on every run. -/
def absoluteThreshold (t : Rat) (eq : Bool) (votes : Votes) : List Cand :=
  ((sortDesc votes).filter (fun p => Gen.Threshold.abs_threshold_passes t eq p.2)).map (·.1)

/-- `RelativeThreshold.evaluate` (threshold.py L77-92).  `Fraction(n_votes, total)` raises
    `ZeroDivisionError` when the total is zero (and the comprehension is entered at all).  The filter condition
    is `Gen.Threshold.rel_threshold_passes`, regenerated from the source on every run. -/
def relativeThreshold (t : Rat) (eq : Bool) (votes : Votes) : Except Err (List Cand) :=
  let total := sumVals votes
  if votes.isEmpty then .ok []
  else if total = 0 then .error (.other "ZeroDivisionError")
  else .ok (((sortDesc votes).filter (fun p => Gen.Threshold.rel_threshold_passes t eq total p.2)).map (·.1))

/-! ### AlternativeThresholds (threshold.py L224-255) -/

/-- `sum(res.index(cand) if cand in res else len(res) for res in partial_results)` -/
def rankSum (results : List (List Cand)) (c : Cand) : Nat :=
  (results.map (fun r => r.idxOf c)).sum

/-- `mean_rank(cand)` (L246-253) -/
def meanRank (results : List (List Cand)) (c : Cand) : Rat :=
  (rankSum results c : Rat) / (results.length : Rat)

/-- L242-255: the union of the partial results, sorted by mean rank.  `all_results` is a `frozenset`;
    its iteration order (which decides the order among candidates of equal mean rank, the sort being
    stable) is hash order in Python and order of first appearance here — compared up to that. -/
def alternativeCombine (results : List (List Cand)) : List Cand :=
  sortBy (fun a b => decide (meanRank results a < meanRank results b)) (dedupKeep results.flatten)

/-- `AlternativeThresholds.evaluate`: partial selectors are called in order (first exception wins) -/
def alternativeThresholds (partials : List Seatless) (votes : Votes) : Except Err (List Cand) := do
  let results ← partials.mapM (fun p => p votes)
  pure (alternativeCombine results)

/-! ### CoalitionMemberBracketer (threshold.py L118-142) -/

/-- `dict.get(key, default)` on an insertion-ordered dict -/
def dictGet {β : Type} (d : List (Nat × β)) (k : Nat) (dflt : β) : β :=
  match d.find? (fun e => e.1 == k) with
  | some e => e.2
  | none => dflt

/-- ascending list of the distinct values (iteration of a `frozenset` of small ints) -/
def insertDistinct (k : Nat) : List Nat → List Nat
  | [] => [k]
  | y :: ys => if k < y then k :: y :: ys else if k = y then y :: ys else y :: insertDistinct k ys

def sortedDistinct : List Nat → List Nat
  | [] => []
  | x :: xs => insertDistinct x (sortedDistinct xs)

/-- `members c` = `cand.get_n_coalition_members() if cand.is_coalition else 1` -/
def coalitionBracketer (members : Cand → Nat) (evs : List (Nat × Seatless)) (dflt : Seatless)
    (votes : Votes) : Except Err (List Cand) := do
  let order := (sortDesc votes).map (·.1)                       -- keys of n_member_dict
  let variants := sortedDistinct (order.map members)            -- n_member_variants
  let passed ← variants.mapM (fun k => do                       -- L133-138
    let r ← (dictGet evs k dflt) votes
    pure (k, r))
  pure (order.filter (fun c => (dictGet passed (members c) []).contains c))   -- L139-142

/-! ### PropertyBracketer (threshold.py L178-203) -/

/-- value of the `variants` cache for a property value: the partial evaluator's result, or every
    candidate when the evaluator is `None` (L196-200).  `none` as property value is `NotImplemented`. -/
def propertyVariant (evs : List (Nat × Option Seatless)) (dflt : Option Seatless) (votes : Votes)
    (v : Option Nat) : Except Err (List Cand) :=
  let ev := match v with
    | some k => dictGet evs k dflt
    | none => dflt
  match ev with
  | some e => e votes
  | none => .ok (keys votes)

def propertyLoop (prop : Cand → Option Nat) (evs : List (Nat × Option Seatless)) (dflt : Option Seatless)
    (votes : Votes) : List Cand → List (Option Nat × List Cand) → Except Err (List Cand)
  | [], _ => .ok []
  | c :: cs, cache =>
    let v := prop c
    match cache.find? (fun e => e.1 == v) with
    | some e => do
      let rest ← propertyLoop prop evs dflt votes cs cache
      pure (if e.2.contains c then c :: rest else rest)
    | none => do
      let r ← propertyVariant evs dflt votes v
      let rest ← propertyLoop prop evs dflt votes cs ((v, r) :: cache)
      pure (if r.contains c then c :: rest else rest)

def propertyBracketer (prop : Cand → Option Nat) (evs : List (Nat × Option Seatless))
    (dflt : Option Seatless) (votes : Votes) : Except Err (List Cand) :=
  propertyLoop prop evs dflt votes ((sortDesc votes).map (·.1)) []

/-! ### the tree of seatless selectors -/

/-- configuration of a seatless selector object -/
inductive Sel where
  | abs (t : Rat) (eq : Bool)
  | rel (t : Rat) (eq : Bool)
  | alt (parts : List Sel)
  | coalition (evs : List (Nat × Sel)) (dflt : Sel)
  | property (evs : List (Nat × Option Sel)) (dflt : Option Sel)
  | prevGain (inner : Sel)

/-- candidate attributes read by the bracketers -/
structure Attrs where
  members : Cand → Nat
  prop : Cand → Option Nat

/-- `core.accepts_prev_gains(selector)` (core.py L1324-1334): 'prev_gains' is a parameter of
    `AlternativeThresholds.evaluate` and `PreviousGainThreshold.evaluate` only -/
def Sel.acceptsPrev : Sel → Bool
  | .alt _ => true
  | .prevGain _ => true
  | _ => false

/-- `sel.evaluate(votes)` (`prev = none`) or `sel.evaluate(votes, prev_gains=prev)`.
    Recursion on `fuel` (an upper bound of the nesting depth of the tree). -/
def Sel.eval (a : Attrs) : Nat → Sel → Votes → Option Votes → Except Err (List Cand)
  | 0, _, _, _ => .error (.other "fuel")
  | fuel + 1, s, votes, prev =>
    -- a call `x.evaluate(votes)` made by a bracketer or by PreviousGainThreshold
    let call1 : Sel → Seatless := fun x v => Sel.eval a fuel x v none
    match s, prev with
    | .abs t eq, none => .ok (absoluteThreshold t eq votes)
    | .rel t eq, none => relativeThreshold t eq votes
    | .coalition evs d, none =>
        coalitionBracketer a.members (evs.map (fun e => (e.1, call1 e.2))) (call1 d) votes
    | .property evs d, none =>
        propertyBracketer a.prop (evs.map (fun e => (e.1, e.2.map call1))) (d.map call1) votes
    | .alt parts, prev =>
        -- L236-241; the default of `prev_gains` is `{}`
        let pg := prev.getD []
        alternativeThresholds
          (parts.map (fun x v => Sel.eval a fuel x v (if x.acceptsPrev then some pg else none))) votes
    | .prevGain inner, some pg => call1 inner pg            -- L288
    | .prevGain _, none => .error (.other "TypeError")      -- missing argument prev_gains
    | _, some _ => .error (.other "TypeError")              -- unexpected keyword argument

/-- the way `AlternativeThresholds` (and the harness) calls a selector -/
def Sel.run (a : Attrs) (fuel : Nat) (s : Sel) (votes : Votes) (prev : Votes) : Except Err (List Cand) :=
  Sel.eval a fuel s votes (if s.acceptsPrev then some prev else none)

end VL
