/-
  VotelibModel.PureProportionality — `votelib.evaluate.proportional.PureProportionality.evaluate`
  (proportional.py L32-87): exact proportional (fractional) seat shares with previous gains as floors and `max_seats` as
  caps, by the fixing loop `while len(fixed) != prev_len_fixed`.  Import-free apart from VotelibModel.Core.
  (Owner: C11 / x11; reused by C10.)

  Conventions: `votes` is a `Votes` dict (insertion order), `prev_gains` / `max_seats` are dicts candidate -> int,
  `result` is a dict candidate -> number (`Rat`: the code keeps ints where the share is integral, `int(x) == x`, which is
  the same number).  `Fraction(budget, 0)` is the ZeroDivisionError outcome (zero total of the parties still in play,
  in particular when every party has been fixed).  `max_seats.get(cand, INF)`: absent = no cap.
-/
import VotelibModel.Core
namespace VL.Pure
open VL

abbrev IMap := List (Cand × Int)

/-- `d.get(c, dflt)` -/
def getI (m : IMap) (c : Cand) (d : Int) : Int :=
  match m.find? (fun p => p.1 = c) with
  | some p => p.2
  | none => d

/-- `max_seats.get(c, INF)`; `none` = INF -/
def getCap (m : IMap) (c : Cand) : Option Int :=
  match m.find? (fun p => p.1 = c) with
  | some p => some p.2
  | none => none

/-- `result[c] = x` (in place when present, appended otherwise) -/
def setR : Votes → Cand → Rat → Votes
  | [], c, x => [(c, x)]
  | (d, y) :: rest, c, x => if d = c then (d, x) :: rest else (d, y) :: setR rest c x

/-- loop state: (`fixed`, `result`) -/
abbrev St := List Cand × Votes

/-- body of `for cand, n_votes in current_votes.items()` (L68-83) -/
def passStep (spv : Rat) (prev maxS : IMap) (st : St) (p : Cand × Rat) : St :=
  let give : Rat := p.2 * spv                                   -- L69 (L70-71 keep the number)
  let has : Rat := ((getI prev p.1 0 : Int) : Rat)              -- L72
  if has < give then                                            -- L74
    match getCap maxS p.1 with                                  -- L73
    | some m =>
      if ((m : Int) : Rat) < give then (st.1 ++ [p.1], setR st.2 p.1 ((m : Int) : Rat))   -- L75-79
      else (st.1, setR st.2 p.1 give)
    | none => (st.1, setR st.2 p.1 give)
  else (st.1 ++ [p.1], setR st.2 p.1 has)                        -- L80-83

def zeroDiv : Err := .other "ZeroDivisionError"

/-- the `while len(fixed) != prev_len_fixed` loop (L56-83); `prevLen` is `prev_len_fixed` (initially -1).
    Every pass that does not end the loop fixes at least one more party: `len(votes) + 2` passes of fuel suffice. -/
def pureLoop (votes : Votes) (n : Nat) (prev maxS : IMap) : Nat → List Cand → Votes → Int → Except Err Votes
  | 0, _, _, _ => .error (.other "fuel")
  | f + 1, fixed, result, prevLen =>
    if (fixed.length : Int) = prevLen then .ok result
    else
      let result1 := result.filter (fun e => decide (e.1 ∈ fixed))                 -- L58-61
      let budget : Rat := (n : Rat) - sumVals result1                               -- L62
      let cur := votes.filter (fun p => decide (p.1 ∉ fixed))                       -- L63-66
      let tot := sumVals cur
      if tot = 0 then .error zeroDiv                                                -- L67 `Fraction(budget, 0)`
      else
        let st := cur.foldl (passStep (budget / tot) prev maxS) (fixed, result1)    -- L67-83
        pureLoop votes n prev maxS f st.1 st.2 (fixed.length : Int)

/-- `PureProportionality().evaluate(votes, n_seats, prev_gains, max_seats)` (L37-87) -/
def pureProportionality (votes : Votes) (n : Nat) (prev maxS : IMap) : Except Err Votes :=
  match pureLoop votes n prev maxS (votes.length + 2) [] [] (-1) with
  | .ok result => .ok (result.map (fun e => (e.1, e.2 - ((getI prev e.1 0 : Int) : Rat))))   -- L84-87
  | .error e => .error e

end VL.Pure
