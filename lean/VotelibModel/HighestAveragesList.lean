/-
  VotelibModel.HighestAveragesList — `HighestAverages.evaluate` (proportional.py L421-478) with the data structure the
  code really uses: an ASCENDING sorted list of (candidate, quotient), the maximal run taken from its tail, each member
  popped from the end and re-inserted at `bisect_left`.  `VotelibProofs/Lemmas/HAList.lean` proves that this list
  machine and the pool machine of `HighestAverages.lean` run in lock-step up to the order of the pool, which removes
  the pool abstraction from the trusted base of C01.
-/
import VotelibModel.HighestAverages
namespace VL

/-- `bisect.bisect_left(quotients, q)` on an ascending list: the first index whose quotient is not below `q` -/
def bisectLeft (l : List (Cand × Rat)) (q : Rat) : Nat := (l.takeWhile (fun p => decide (p.2 < q))).length

/-- `list.insert(i, x)` -/
def insertAt (l : List (Cand × Rat)) (i : Nat) (x : Cand × Rat) : List (Cand × Rat) := l.take i ++ x :: l.drop i

/-- L449-453: `n_elect` — length of the run of quotients equal to the last one, scanned from the end -/
def nElect (l : List (Cand × Rat)) : Nat :=
  match l.reverse with
  | [] => 0
  | p :: r => 1 + (r.takeWhile (fun x => decide (x.2 = p.2))).length

structure HALState where
  tot : Cand → Nat
  /-- `candidates` / `quotients` zipped, ascending by quotient -/
  lst : List (Cand × Rat)
  rem : Nat
  tie : Option (List Cand × Nat)

/-- L463-472: `n` times: pop the last entry; if its party is still below its cap, re-insert it with its new quotient
    at `bisect_left` (the totals were already raised for the whole batch) -/
def popLoop (cfg : HACfg) (tot' : Cand → Nat) : Nat → List (Cand × Rat) → List (Cand × Rat)
  | 0, l => l
  | k+1, l =>
    match l.getLast? with
    | none => l
    | some p =>
      let l0 := l.dropLast
      let l1 := if tot' p.1 < cfg.capOf p.1 then
          insertAt l0 (bisectLeft l0 (cfg.quot p.1 (tot' p.1))) (p.1, cfg.quot p.1 (tot' p.1))
        else l0
      popLoop cfg tot' k l1

/-- one iteration of the while loop, list version -/
def halStep (cfg : HACfg) (s : HALState) : HALState :=
  if s.lst = [] then s else
  let n := nElect s.lst
  let toElect := (s.lst.drop (s.lst.length - n)).map (·.1)
  if n > s.rem then
    { s with tie := some (toElect, s.rem), rem := 0 }
  else
    let tot' := bumpAll s.tot toElect
    { tot := tot', lst := popLoop cfg tot' n s.lst, rem := s.rem - n, tie := none }

def halLoop (cfg : HACfg) : Nat → HALState → HALState
  | 0, s => s
  | fuel+1, s => if s.rem = 0 ∨ s.lst = [] then s else halLoop cfg fuel (halStep cfg s)

/-- L443-447: the initial pool, sorted ascending (stable) -/
def halInit (cfg : HACfg) : HALState :=
  { tot := cfg.prevOf, lst := sortAsc (haInit cfg).pool, rem := (haInit cfg).rem, tie := none }

def halRun (cfg : HACfg) : HALState := halLoop cfg (halInit cfg).rem (halInit cfg)

def halResult (cfg : HACfg) : List (Key × Nat) :=
  let s := halRun cfg
  (haCands cfg).filterMap (fun c =>
    if s.tot c > cfg.prevOf c then some (Key.cand c, s.tot c - cfg.prevOf c) else none)
  ++ (match s.tie with
      | some (T, m) => if m > 0 then [(Key.tie T, m)] else []
      | none => [])

def highestAveragesList (cfg : HACfg) : Except Err (List (Key × Nat)) :=
  if (haInit cfg).pool = [] then .error .valueError else .ok (halResult cfg)

end VL
