/-
  VotelibModel.Condorcet — pairwise-count dictionaries and the set selectors of
  `votelib/evaluate/condorcet.py`: `pairwise_wins`, `beat_counts`, `Copeland.scores`,
  `CondorcetWinner`, `_smith_schwartz_set` (`SmithSet`, `SchwartzSet`).
  Shared by C05 and C06.  Import-free apart from VotelibModel.Core.

  A pairwise dictionary `{(upper, lower): count}` is a list of `((upper, lower), count)` in
  insertion order; an absent pair counts as 0 (`votes.get(pair, 0)`).
-/
import VotelibModel.Core
namespace VL.Condorcet
open VL

abbrev Pair := Cand × Cand
/-- a Python `dict` pair -> number, in insertion order -/
abbrev Pairwise := List (Pair × Rat)

/-- `votes.get(pair, 0)` -/
def pget (v : Pairwise) (p : Pair) : Rat :=
  match v.find? (fun e => e.1 = p) with
  | some e => e.2
  | none => 0

/-- first occurrences, in order (`list(dict.fromkeys(xs))`) -/
def uniq : List Cand → List Cand
  | [] => []
  | x :: xs => x :: (uniq xs).filter (fun y => y != x)

/-- `cand for pair in votes for cand in pair` -/
def flatCands (v : Pairwise) : List Cand := v.flatMap (fun e => [e.1.1, e.1.2])

/-- all candidates named in a key, in order of first appearance
    (condorcet.py L73 `list(dict.fromkeys(cand for pair in votes for cand in pair))`; the same
    enumeration seeds the score dictionaries of Copeland L220, Schulze L283-285, minimax L418-420) -/
def candidates (v : Pairwise) : List Cand := uniq (flatCands v)

/-- `pairwise_wins(votes, include_ties)` (condorcet.py L32-52) -/
def pairwiseWins (v : Pairwise) (includeTies : Bool) : List Pair :=
  (v.filter (fun e =>
    let anti := pget v (e.1.2, e.1.1)
    decide (anti < e.2) || (includeTies && decide (anti = e.2)))).map (·.1)

/-- `d[c] += k` on a `defaultdict(int)`: in place if present, else appended -/
def incr : Votes → Cand → Rat → Votes
  | [], c, k => [(c, k)]
  | (d, x) :: rest, c, k => if d = c then (d, x + k) :: rest else (d, x) :: incr rest c k

/-- `beat_counts(votes)` (condorcet.py L55-67): candidate -> number of pairwise wins, in order of
    first win; candidates without a win are absent -/
def beatCounts (v : Pairwise) : Votes :=
  (pairwiseWins v false).foldl (fun d w => incr d w.1 1) []

/-- `CondorcetWinner.evaluate` (condorcet.py L132-148) -/
def condorcetWinner (v : Pairwise) : List Cand :=
  let nRequired : Rat := ((candidates v).length : Rat) - 1
  match (beatCounts v).find? (fun p => p.2 = nRequired) with
  | some p => [p.1]
  | none => []

/-- `Copeland.scores(wins)` (condorcet.py L228-235): a `defaultdict(int)` -/
def copelandScoresRaw (wins : List Pair) : Votes :=
  wins.foldl (fun d w => incr (incr d w.1 1) w.2 (-1)) []

/-- `scores = {cand: 0 for pair in votes for cand in pair}; scores.update(raw)` (L75-76, L220-221):
    every key of `raw` is a candidate, so `update` never appends and the order is that of `candidates`. -/
def seededScores (v : Pairwise) (raw : Votes) : Votes :=
  (candidates v).map (fun c => (c, getD raw c 0))

/-- initial `reach` (condorcet.py L80-87): `upper ≠ lower` and (`upper` beats `lower`, or — Smith —
    `lower` does not beat `upper`) -/
def reach0 (cands : List Cand) (wins : List Pair) (ties : Bool) : List Pair :=
  (cands.flatMap (fun u => cands.map (fun l => (u, l)))).filter
    (fun p => p.1 != p.2 && (wins.contains p || (ties && !wins.contains (p.2, p.1))))

/-- innermost loop L91-93 -/
def closeLower (mid upper : Cand) (reach : List Pair) (cands : List Cand) : List Pair :=
  cands.foldl (fun r lower =>
    if upper != lower && r.contains (mid, lower) then (upper, lower) :: r else r) reach

/-- loop L89-93 -/
def closeUpper (mid : Cand) (cands : List Cand) (reach : List Pair) : List Pair :=
  cands.foldl (fun r upper =>
    if r.contains (upper, mid) then closeLower mid upper r cands else r) reach

/-- transitive closure loop L88-93 (`mid` outermost) -/
def closure (cands : List Cand) (reach : List Pair) : List Pair :=
  cands.foldl (fun r mid => closeUpper mid cands r) reach

/-- `_smith_schwartz_set(votes, ties)` (condorcet.py L70-107) -/
def smithSchwartz (v : Pairwise) (ties : Bool) : List Cand :=
  let cands := candidates v
  let wins := pairwiseWins v false
  let scores := seededScores v (copelandScoresRaw wins)
  let ordering := (sortDesc scores).map (·.1)
  let reach := closure cands (reach0 cands wins ties)
  if ties then
    ordering.filter (fun c => cands.all (fun o => o == c || reach.contains (c, o)))
  else
    ordering.filter (fun c => cands.all (fun o => !reach.contains (o, c) || reach.contains (c, o)))

/-- `SmithSet().evaluate` (L158-168) -/
def smithSet (v : Pairwise) : List Cand := smithSchwartz v true
/-- `SchwartzSet().evaluate` (L178-188) -/
def schwartzSet (v : Pairwise) : List Cand := smithSchwartz v false

end VL.Condorcet
