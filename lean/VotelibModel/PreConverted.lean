/-
  VotelibModel.PreConverted — `votelib.evaluate.core.PreConverted(converter, evaluator).evaluate(votes, n)`
  (core.py L783-792: `conv_votes = self.converter.convert(votes); return self.evaluator.evaluate(conv_votes, n)`)
  for the converter / evaluator pairs of the family table harness/families.py.  Pure composition of the models of
  C13 (Convert.lean), C09 (Core.lean `getNBest` = `Plurality.evaluate`) and C05/C06 (Condorcet*.lean); no logic of its own.
  Owned by C10.
-/
import VotelibModel.Convert
import VotelibModel.CondorcetEval
import VotelibModel.CondorcetRanked
namespace VL.PreConv
open VL VL.Convert

/-- `PreConverted(RankedToPositionalVotes(scorer), Plurality())` -/
def positionalRule (sc : Scorer) (p : RProfile) (n : Nat) : Except Err (List Slot) :=
  match rankedToPositional sc p with
  | .ok d => .ok (getNBest d n)
  | .error e => .error e

/-- `PreConverted(ApprovalToSimpleVotes(split), Plurality())` -/
def approvalRule (split : Bool) (p : AProfile) (n : Nat) : Except Err (List Slot) :=
  match approvalToSimple split p with
  | .ok d => .ok (getNBest d n)
  | .error e => .error e

/-- `PreConverted(RankedToCondorcetVotes(), evaluator)` for an evaluator of pairwise counts taking seats;
    `RankedToCondorcetVotes()` has `unranked_at_bottom=True` (convert.py L402) -/
def condorcetRule {α : Type} (ev : Condorcet.Pairwise → Nat → α) (p : RProfile) (n : Nat) : α :=
  ev (rankedToCondorcet true p) n

/-- the same for a seatless selector of pairwise counts (CondorcetWinner, SmithSet, SchwartzSet) -/
def condorcetSeatless {α : Type} (ev : Condorcet.Pairwise → α) (p : RProfile) : α :=
  ev (rankedToCondorcet true p)

/-- `PreConverted(RankedToCondorcetVotes(unranked_at_bottom=ab), evaluator)`: both modes of the converter.  With
    `ab = false` truncated ballots leave pairs of candidates that never share a ballot without an entry (an incomplete
    pairwise dictionary); `condorcetRule = condorcetRuleAt true` by definition. -/
def condorcetRuleAt {α : Type} (ab : Bool) (ev : Condorcet.Pairwise → Nat → α) (p : RProfile) (n : Nat) : α :=
  ev (rankedToCondorcet ab p) n

def condorcetSeatlessAt {α : Type} (ab : Bool) (ev : Condorcet.Pairwise → α) (p : RProfile) : α :=
  ev (rankedToCondorcet ab p)

/-- `Benham().evaluate(votes, n_seats)` for any `n_seats` (sequential.py L724-741): the evaluator starts with
    `assert n_seats == 1`; with one seat it is the one-seat model of C05 (`Condorcet.benham`) -/
def benhamN (p : Condorcet.Profile) (n : Nat) : Except Err (List Slot) :=
  if n = 1 then Condorcet.benham p else .error (.other "AssertionError")

end VL.PreConv
