/-
  VotelibModel.Py — named primitives for Python semantics that differ from Lean's.
  Validated against CPython by harness/corr/pyprims.py (exhaustive small grid + random big rationals).
-/
namespace VL.Py

/-- `int(x)` for a rational: truncation toward zero -/
def pyInt (r : Rat) : Int := if 0 ≤ r then r.floor else r.ceil

/-- `math.ceil(x)` -/
def pyCeil (r : Rat) : Int := r.ceil

/-- `math.floor(x)` / `x // 1` -/
def pyFloor (r : Rat) : Int := r.floor

/-- `round(x)` for a `Fraction`: round half to even -/
def pyRound (r : Rat) : Int :=
  let f := r.floor
  let d := r - (f : Rat)
  if d < 1/2 then f
  else if (1:Rat)/2 < d then f + 1
  else if f % 2 = 0 then f else f + 1

/-- `x.limit_denominator(k) == x` for a reduced fraction: true iff its denominator is at most `k` -/
def denLe (r : Rat) (k : Nat) : Bool := decide (r.den ≤ k)

/-- Python `max(a, b)` on numbers (returns the first on ties; equal as numbers) -/
def pyMax (a b : Rat) : Rat := if a < b then b else a

end VL.Py
