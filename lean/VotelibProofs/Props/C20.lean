/-
  C20 — vote validators accept exactly the ballots their rules describe.
  Namespace VL.C20.  The declarative validity predicates (`Admits`, `Within`, `ValidSimple`,
  `ValidApproval`, `ValidRanked`, `ValidEnumScore`, `ValidRange`) are written from the property statement;
  the theorems relate them to the executable model of votelib/vote.py (VotelibModel/Validate.lean),
  for every value of the grammar `Obj` and every configuration.

  All statements are full strength: the four deviations found earlier (TypeError leaks of the score
  validators, CandidateError escaping the filter, mutable set at a rank, KeyError of explicit checker
  dictionaries) were repaired in /repo by e8da0bf, e8d1cd6, e5359c9, 84faad8 and the model follows.
-/
import VotelibProofs.Lemmas.Validate
import Mathlib.Algebra.BigOperators.Group.List.Basic
import Mathlib.Data.List.Nodup
namespace VL.C20
open VL.Validate

/-! ## the declarative rule -/

/-- inclusive bounds; `None` = unbounded -/
def Within (b : Bounds) (x : Rat) : Prop := (∀ l ∈ b.lo, l ≤ x) ∧ (∀ h ∈ b.hi, x ≤ h)

instance (b : Bounds) (x : Rat) : Decidable (Within b x) :=
  inferInstanceAs (Decidable ((∀ l ∈ b.lo, l ≤ x) ∧ (∀ h ∈ b.hi, x ≤ h)))

/-- the candidates a nominator admits (class docstrings of candidate.py):
    Basic — any string or candidate object, blank votes only if allowed;
    Person — physical persons (independents only if allowed), blank votes if allowed;
    Party — parties, coalitions if allowed, blank votes if allowed. -/
def Admits : Nominator → Obj → Prop
  | .basic _, .str _ => True
  | .basic allowBlank, .cand k _ => k = .blank → allowBlank = true
  | .person _ _, .cand .personParty _ => True
  | .person allowIndep _, .cand .personIndep _ => allowIndep = true
  | .person _ allowBlank, .cand .blank _ => allowBlank = true
  | .party _ _, .cand .party _ => True
  | .party allowCoal _, .cand .coalition _ => allowCoal = true
  | .party _ allowBlank, .cand .blank _ => allowBlank = true
  | _, _ => False

instance (n : Nominator) (c : Obj) : Decidable (Admits n c) := by
  unfold Admits; split <;> infer_instance

/-- a simple vote is one admitted candidate -/
def ValidSimple (nom : Nominator) (v : Obj) : Prop := Admits nom v

/-- an approval vote is a frozenset of admitted candidates, none twice, their number within bounds -/
def ValidApproval (cfg : ApprovalCfg) : Obj → Prop
  | .fset xs => (∀ c ∈ xs, Admits cfg.nom c) ∧ xs.Nodup ∧ Within cfg.count xs.length
  | _ => False

/-- candidates named at a rank of a ranked vote: the members of a frozenset, else the item itself -/
def rankCands : Obj → List Obj
  | .fset xs => xs
  | x => [x]

/-- a ranked vote is a tuple of ranks; every candidate named is admitted (so a rank that is neither a
    frozenset nor a candidate is invalid), none is named twice, the total number named and the number at
    every rank (1-indexed) are within bounds -/
def ValidRanked (cfg : RankedCfg) : Obj → Prop
  | .tuple ranks =>
    (∀ c ∈ ranks.flatMap rankCands, Admits cfg.nom c) ∧ (ranks.flatMap rankCands).Nodup ∧
    Within cfg.total (ranks.flatMap rankCands).length ∧
    ∀ p ∈ ranks.zipIdx, Within (cfg.rank.get (p.2 + 1)) (rankCands p.1).length
  | _ => False

/-- the common rule of score votes: a frozenset of (candidate, score) pairs, candidates admitted, none
    scored twice, number of scorings within bounds, and — if a sum bound is configured for this number of
    scorings — the scores are numbers whose sum is within it -/
def ValidScoreBase (cfg : ScoreCfg) (items : List Obj) : Prop :=
  (∀ it ∈ items, it.asPair.isSome = true) ∧
  (∀ c ∈ candsOf items, Admits cfg.nom c) ∧ (candsOf items).Nodup ∧
  Within cfg.nScorings items.length ∧
  ((cfg.sum.get items.length).active = true →
    (∀ s ∈ scoresOf items, s.isNum = true) ∧
    Within (cfg.sum.get items.length) ((scoresOf items).map Obj.numVal).sum)

instance (cfg : ScoreCfg) (items : List Obj) : Decidable (ValidScoreBase cfg items) := by
  unfold ValidScoreBase; infer_instance

/-- enumerated scores: every score is one of the levels -/
def ValidEnumScore (cfg : EnumCfg) : Obj → Prop
  | .fset items => ValidScoreBase cfg.base items ∧ ∀ s ∈ scoresOf items, s ∈ cfg.levels
  | _ => False

/-- a score respects a range: if any bound is configured it is a number within it -/
def ScoreInRange (b : Bounds) (s : Obj) : Prop :=
  b.active = true → s.isNum = true ∧ Within b s.numVal

instance (b : Bounds) (s : Obj) : Decidable (ScoreInRange b s) := by
  unfold ScoreInRange; infer_instance

def ValidRange (cfg : RangeCfg) : Obj → Prop
  | .fset items => ValidScoreBase cfg.base items ∧ ∀ s ∈ scoresOf items, ScoreInRange cfg.range s
  | _ => False

instance (cfg : ApprovalCfg) (v : Obj) : Decidable (ValidApproval cfg v) := by
  unfold ValidApproval; split <;> infer_instance
instance (cfg : RankedCfg) (v : Obj) : Decidable (ValidRanked cfg v) := by
  unfold ValidRanked; split <;> infer_instance
instance (cfg : EnumCfg) (v : Obj) : Decidable (ValidEnumScore cfg v) := by
  unfold ValidEnumScore; split <;> infer_instance
instance (cfg : RangeCfg) (v : Obj) : Decidable (ValidRange cfg v) := by
  unfold ValidRange; split <;> infer_instance

/-! ## nominators -/

/-- a nominator passes exactly the candidates it admits -/
theorem nominate_ok_iff_admits (n : Nominator) (c : Obj) : nominate n c = .ok () ↔ Admits n c := by
  cases n <;> cases c <;> (try rename_i k _; cases k) <;>
    simp [nominate, Admits, Obj.isStr, Obj.isCandObj, Obj.isBlank, Obj.isIndividual, Obj.isElectionParty,
      Obj.isCoalition, Obj.hasCandidacy]

/-- and reports every other value of the grammar as a CandidateError -/
theorem nominate_rejects_with_candidateError (n : Nominator) (c : Obj) (h : ¬ Admits n c) :
    nominate n c = .error .candidateError := by
  rcases res_cases (nominate n c) with h1 | ⟨e, h1⟩
  · exact absurd ((nominate_ok_iff_admits n c).1 h1) h
  · rw [h1, nominate_err h1]

/-! ## the inclusive range checker -/

theorem bounds_check_iff_within (b : Bounds) (x : Rat) : b.check x = .ok () ↔ Within b x := check_ok_iff

/-- both bounds are inclusive -/
theorem bounds_inclusive (lo hi x : Rat) :
    (Bounds.mk (some lo) (some hi)).check x = .ok () ↔ lo ≤ x ∧ x ≤ hi := by
  simp [check_ok_iff]

/-- in particular the two end points pass whenever the interval is non-empty -/
theorem bounds_inclusive_ends (lo hi : Rat) (h : lo ≤ hi) :
    (Bounds.mk (some lo) (some hi)).check lo = .ok () ∧ (Bounds.mk (some lo) (some hi)).check hi = .ok () := by
  simp [bounds_inclusive, h]

/-- one-sided bounds -/
theorem bounds_one_sided (b x : Rat) :
    ((Bounds.mk (some b) none).check x = .ok () ↔ b ≤ x) ∧
    ((Bounds.mk none (some b)).check x = .ok () ↔ x ≤ b) := by
  simp [check_ok_iff]

/-- crossing bounds reject every value, with a VoteError -/
theorem bounds_crossing_rejects_all (lo hi x : Rat) (h : hi < lo) :
    (Bounds.mk (some lo) (some hi)).check x = .error .voteError := by
  rcases res_cases ((Bounds.mk (some lo) (some hi)).check x) with h1 | ⟨e, h1⟩
  · rw [bounds_inclusive] at h1
    linarith [h1.1, h1.2]
  · rw [h1, check_err h1]

/-- `(None, None)` checks nothing -/
theorem bounds_none_accepts_all (x : Rat) : Bounds.none.check x = .ok () := by
  simp [check_ok_iff, Bounds.none]

private theorem lookup_none_of_not_mem (m : List (Nat × Bounds)) (k : Nat) (h : ∀ p ∈ m, p.1 ≠ k) :
    m.lookup k = none := by
  induction m with
  | nil => rfl
  | cons p m ih =>
    obtain ⟨a, b⟩ := p
    have h1 : a ≠ k := h (a, b) List.mem_cons_self
    have h1' : (k == a) = false := by simpa using fun e => h1 e.symm
    rw [List.lookup_cons, h1']
    exact ih (fun p hp => h p (List.mem_cons_of_mem _ hp))

/-- a bound tuple applies to every key; a bound dictionary (or an explicit plain dictionary of checkers)
    leaves unlisted keys unconstrained; an explicit defaultdict gives unlisted keys its factory's checker;
    a listed key gets its own bounds -/
theorem boundMap_get_default :
    (∀ b k, (BoundMap.all b).get k = b) ∧
    (∀ m k, (∀ p ∈ m, p.1 ≠ k) → (BoundMap.byKey m).get k = Bounds.none) ∧
    (∀ m k b, (BoundMap.byKey ((k, b) :: m)).get k = b) ∧
    (∀ m d k, (∀ p ∈ m, p.1 ≠ k) → (BoundMap.withDefault m d).get k = d) ∧
    (∀ m d k b, (BoundMap.withDefault ((k, b) :: m) d).get k = b) := by
  refine ⟨fun _ _ => rfl, ?_, ?_, ?_, ?_⟩
  · intro m k h
    simp [BoundMap.get, lookup_none_of_not_mem m k h]
  · intro m k b
    simp [BoundMap.get]
  · intro m d k h
    simp [BoundMap.get, lookup_none_of_not_mem m k h]
  · intro m d k b
    simp [BoundMap.get]

/-- an empty explicit mapping: a plain `{}` constrains nothing, an empty defaultdict constrains every key by
    its factory -/
theorem boundMap_empty (d : Bounds) (k : Nat) :
    (BoundMap.byKey []).get k = Bounds.none ∧ (BoundMap.withDefault [] d).get k = d := ⟨rfl, rfl⟩

/-! ## acceptance = validity -/

/-- **Simple votes.** -/
theorem validate_iff_valid_simple (nom : Nominator) (v : Obj) :
    validateSimple nom v = .ok () ↔ ValidSimple nom v := nominate_ok_iff_admits nom v

/-- **Approval votes**, for every Python value (a real frozenset holds distinct members: `v.wf`). -/
theorem validate_iff_valid_approval (cfg : ApprovalCfg) (v : Obj) (hwf : v.wf = true) :
    validateApproval cfg v = .ok () ↔ ValidApproval cfg v := by
  cases v with
  | fset xs =>
    have hnd : xs.Nodup := by
      simp only [Obj.wf, Bool.and_eq_true] at hwf
      exact nodupB_iff.1 hwf.2
    simp only [validateApproval, ValidApproval]
    rw [bind_ok_iff, forEach_ok_iff, check_ok_iff]
    simp only [nominate_ok_iff_admits, Within, hnd, true_and]
  | _ => simp [validateApproval, ValidApproval]

private theorem rankCands_eq : rankCands = rankMembers := by
  funext r; cases r <;> rfl

/-- **Ranked votes**, for every value and every configuration (a shared rank is a frozenset; a mutable
    set, list or tuple at a rank is an inadmissible candidate). -/
theorem validate_iff_valid_ranked (cfg : RankedCfg) (v : Obj) :
    validateRanked cfg v = .ok () ↔ ValidRanked cfg v := by
  cases v with
  | tuple items =>
    simp only [validateRanked, ValidRanked, rankCands_eq]
    have key := rankedLoop_ok_iff cfg items 0 0 []
    -- admission of everything named implies what the loop demands rank by rank
    have hitem : (∀ c ∈ items.flatMap rankMembers, Admits cfg.nom c) → ∀ r ∈ items, rankItemOk cfg.nom r := by
      intro hA r hr
      unfold rankItemOk
      cases hs : r.asSet with
      | some xs =>
        simp only
        rw [hashableL_iff]
        intro x hx
        have : x ∈ items.flatMap rankMembers :=
          List.mem_flatMap.2 ⟨r, hr, by simp [rankMembers, hs, hx]⟩
        exact nominate_ok_hashable ((nominate_ok_iff_admits _ _).2 (hA x this))
      | none =>
        simp only
        have : r ∈ items.flatMap rankMembers :=
          List.mem_flatMap.2 ⟨r, hr, by simp [rankMembers, hs]⟩
        exact (nominate_ok_iff_admits _ _).2 (hA r this)
    cases hloop : rankedLoop cfg 0 items 0 [] with
    | ok ta =>
      obtain ⟨t, a⟩ := ta
      obtain ⟨h1, h2, rfl, rfl⟩ := (key t a).1 hloop
      simp only [Nat.zero_add, List.nil_append]
      rw [bind_ok_iff, check_ok_iff]
      by_cases hd : (dedup (items.flatMap rankMembers)).length < (items.flatMap rankMembers).length
      · have hnd := (dedup_length_lt_iff _).1 hd
        simp only [hd, if_true, reduceCtorEq, and_false, false_iff]
        intro h; exact hnd h.2.1
      · have hnd := (dedup_length_not_lt_iff _).1 hd
        simp only [hd, if_false, forEach_ok_iff, mem_dedup, nominate_ok_iff_admits]
        constructor
        · rintro ⟨hT, hA⟩
          exact ⟨hA, hnd, hT, fun p hp => check_ok_iff.1 (h1 p hp)⟩
        · rintro ⟨hA, _, hT, _⟩
          exact ⟨hT, hA⟩
    | error e =>
      simp only [reduceCtorEq, false_iff]
      rintro ⟨hA, _, _, hR⟩
      have := (key (0 + (items.flatMap rankMembers).length) ([] ++ items.flatMap rankMembers)).2
        ⟨fun p hp => check_ok_iff.2 (hR p hp), hitem hA, rfl, rfl⟩
      rw [hloop] at this
      cases this
  | _ => simp [validateRanked, ValidRanked]

/-- the ballot that was accepted before e5359c9: `({'a','b'}, 'c')` with a mutable set at a rank is invalid
    and is rejected with a CandidateError -/
theorem ranked_mutable_set_rank_rejected :
    ¬ ValidRanked ⟨Bounds.none, .all ⟨some 1, some 2⟩, .basic true⟩ (.tuple [.mset [.str 0, .str 1], .str 2]) ∧
    validateRanked ⟨Bounds.none, .all ⟨some 1, some 2⟩, .basic true⟩ (.tuple [.mset [.str 0, .str 1], .str 2])
      = .error .candidateError := by
  decide +kernel

/-- non-vacuity: a well-formed approval ballot on the upper bound, and a ranked ballot with a shared
    rank and no mutable set, are valid and accepted -/
example : (Obj.fset [.str 0, .cand .blank 1]).wf = true ∧
    ValidApproval ⟨⟨some 1, some 2⟩, .basic true⟩ (.fset [.str 0, .cand .blank 1]) := by decide +kernel
example :
    ValidRanked ⟨⟨some 3, some 3⟩, .byKey [(1, ⟨some 2, some 2⟩)], .basic true⟩
      (.tuple [.fset [.str 0, .str 1], .str 2]) ∧
    ¬ ValidRanked ⟨⟨some 3, some 3⟩, .byKey [(1, ⟨some 2, some 2⟩)], .basic true⟩
      (.tuple [.fset [.str 0, .str 1], .str 0]) := by decide +kernel

/-! ## score votes -/

private theorem mem_candsOf {items : List Obj} {c : Obj} :
    c ∈ candsOf items ↔ ∃ s, Obj.tuple [c, s] ∈ items := by
  simp only [candsOf, pairsOf, List.mem_map, List.mem_filterMap]
  constructor
  · rintro ⟨⟨c', s⟩, ⟨it, hit, hp⟩, rfl⟩
    exact ⟨s, by rw [← asPair_eq_some.1 hp]; exact hit⟩
  · rintro ⟨s, hs⟩
    exact ⟨(c, s), ⟨_, hs, rfl⟩, rfl⟩

private theorem scoreItems_ok_iff_spec {nom : Nominator} {items : List Obj} :
    scoreItems nom items = .ok () ↔
      (∀ it ∈ items, it.asPair.isSome = true) ∧ (∀ c ∈ candsOf items, Admits nom c) := by
  rw [scoreItems_ok_iff]
  constructor
  · intro h
    refine ⟨?_, ?_⟩
    · intro it hit
      obtain ⟨c, s, rfl, _⟩ := h it hit
      rfl
    · intro c hc
      obtain ⟨s, hs⟩ := mem_candsOf.1 hc
      obtain ⟨c', s', he, hn⟩ := h _ hs
      cases he
      exact (nominate_ok_iff_admits _ _).1 hn
  · rintro ⟨h1, h2⟩ it hit
    have := h1 it hit
    cases hp : it.asPair with
    | none => rw [hp] at this; cases this
    | some p =>
      obtain ⟨c, s⟩ := p
      have he := asPair_eq_some.1 hp
      subst he
      exact ⟨c, s, rfl, (nominate_ok_iff_admits _ _).2 (h2 c (mem_candsOf.2 ⟨s, hit⟩))⟩

/-- the parent-class check accepts exactly the ballots satisfying the common rule of score votes -/
theorem validateScoreBase_iff (cfg : ScoreCfg) (items : List Obj) :
    validateScoreBase cfg (.fset items) = .ok () ↔ ValidScoreBase cfg items := by
  simp only [validateScoreBase, ValidScoreBase]
  rw [bind_ok_iff, bind_ok_iff, check_ok_iff, scoreItems_ok_iff_spec]
  constructor
  · rintro ⟨hN, ⟨hP, hA⟩, h⟩
    have hh : hashableL (candsOf items) = true :=
      hashableL_iff.2 (fun c hc => nominate_ok_hashable ((nominate_ok_iff_admits _ _).2 (hA c hc)))
    have hlen : (candsOf items).length = items.length := by
      simp only [candsOf, pairsOf, List.length_map]
      clear h hh hA hN
      induction items with
      | nil => rfl
      | cons it rest ih =>
        have h1 := hP it List.mem_cons_self
        cases hp : it.asPair with
        | none => rw [hp] at h1; cases h1
        | some p =>
          simp only [List.filterMap_cons, hp, List.length_cons]
          rw [ih (fun x hx => hP x (List.mem_cons_of_mem _ hx))]
    simp only [hh, Bool.not_true, Bool.false_eq_true, if_false] at h
    by_cases hd : (dedup (candsOf items)).length < items.length
    · simp [hd] at h
    · simp only [hd, if_false] at h
      have hnd : (candsOf items).Nodup := (dedup_length_not_lt_iff _).1 (by rwa [hlen])
      refine ⟨hP, hA, hnd, hN, ?_⟩
      intro hact
      simp only [hact, if_true] at h
      cases hs : sumScores (scoresOf items) with
      | none => rw [hs] at h; cases h
      | some s =>
        rw [hs] at h
        obtain ⟨h1, rfl⟩ := sumScores_eq_some.1 hs
        exact ⟨h1, check_ok_iff.1 h⟩
  · rintro ⟨hP, hA, hnd, hN, hS⟩
    refine ⟨hN, ⟨hP, hA⟩, ?_⟩
    have hh : hashableL (candsOf items) = true :=
      hashableL_iff.2 (fun c hc => nominate_ok_hashable ((nominate_ok_iff_admits _ _).2 (hA c hc)))
    have hlen : (candsOf items).length = items.length := by
      simp only [candsOf, pairsOf, List.length_map]
      clear hh hA hN hnd hS
      induction items with
      | nil => rfl
      | cons it rest ih =>
        have h1 := hP it List.mem_cons_self
        cases hp : it.asPair with
        | none => rw [hp] at h1; cases h1
        | some p =>
          simp only [List.filterMap_cons, hp, List.length_cons]
          rw [ih (fun x hx => hP x (List.mem_cons_of_mem _ hx))]
    have hd : ¬ (dedup (candsOf items)).length < items.length := by
      rw [← hlen]; exact (dedup_length_not_lt_iff _).2 hnd
    simp only [hh, Bool.not_true, Bool.false_eq_true, if_false, hd]
    by_cases hact : (cfg.sum.get items.length).active = true
    · obtain ⟨h1, h2⟩ := hS hact
      have := sumScores_eq_some.2 ⟨h1, rfl⟩
      simp only [hact, if_true, this]
      exact check_ok_iff.2 h2
    · simp [hact]

/-- **Enumerated score votes**, for every value and configuration. -/
theorem validate_iff_valid_enumscore (cfg : EnumCfg) (v : Obj) :
    validateEnumScore cfg v = .ok () ↔ ValidEnumScore cfg v := by
  unfold validateEnumScore
  rw [bind_ok_iff]
  cases v with
  | fset items =>
    simp only [ValidEnumScore, validateScoreBase_iff, forEach_ok_iff]
    constructor
    · rintro ⟨h1, h2⟩
      refine ⟨h1, fun s hs => ?_⟩
      have := h2 s hs
      by_contra hn
      simp [hn] at this
    · rintro ⟨h1, h2⟩
      exact ⟨h1, fun s hs => by simp [h2 s hs]⟩
  | _ => simp [validateScoreBase, ValidEnumScore]

private theorem checkObj_ok_iff (b : Bounds) (s : Obj) : b.checkObj s = .ok () ↔ ScoreInRange b s := by
  unfold ScoreInRange
  cases s with
  | num x =>
    simp only [Bounds.checkObj, check_ok_iff, Obj.isNum, Obj.numVal, true_and]
    constructor
    · intro h _; exact h
    · intro h
      by_cases ha : b.active = true
      · exact h ha
      · obtain ⟨lo, hi⟩ := b
        cases lo <;> cases hi <;> simp_all [Bounds.active]
  | _ =>
    simp only [Bounds.checkObj, Obj.isNum]
    by_cases ha : b.active = true <;> simp [ha]

/-- **Range votes**, for every value and configuration. -/
theorem validate_iff_valid_range (cfg : RangeCfg) (v : Obj) :
    validateRange cfg v = .ok () ↔ ValidRange cfg v := by
  unfold validateRange
  rw [bind_ok_iff]
  cases v with
  | fset items => simp only [ValidRange, validateScoreBase_iff, forEach_ok_iff, checkObj_ok_iff]
  | _ => simp [validateScoreBase, ValidRange]

/-! ## rejections are library errors -/

private theorem library_of_ne (r : Res) (h : r ≠ .error .typeError) :
    r = .ok () ∨ r = .error .voteError ∨ r = .error .candidateError := by
  rcases res_cases r with h1 | ⟨e, h1⟩
  · exact Or.inl h1
  · cases e
    · exact Or.inr (Or.inl h1)
    · exact Or.inr (Or.inr h1)
    · exact absurd h1 h

/-- **Simple votes**: accepted, or CandidateError (every value, every nominator). -/
theorem rejections_are_library_errors_simple (nom : Nominator) (v : Obj) :
    validateSimple nom v = .ok () ∨ validateSimple nom v = .error .candidateError := by
  rcases res_cases (validateSimple nom v) with h | ⟨e, h⟩
  · exact Or.inl h
  · right; rw [h, nominate_err h]

/-- **Approval votes**: accepted, VoteError or CandidateError (every value, every configuration). -/
theorem rejections_are_library_errors_approval (cfg : ApprovalCfg) (v : Obj) :
    validateApproval cfg v = .ok () ∨ validateApproval cfg v = .error .voteError ∨
      validateApproval cfg v = .error .candidateError := by
  apply library_of_ne
  intro h
  cases v with
  | fset xs =>
    simp only [validateApproval] at h
    rcases bind_err_iff.1 h with h1 | ⟨_, h1⟩
    · obtain ⟨x, _, hx⟩ := forEach_err h1
      cases nominate_err hx
    · cases check_err h1
  | _ => simp [validateApproval] at h

/-- **Ranked votes**: accepted, VoteError or CandidateError, for every Python value (`v.wf`: members of a
    real set are hashable) and every configuration.  This is what commit bf6d9dd established: a single
    item at a rank passes the nominator before it is hashed. -/
theorem rejections_are_library_errors_ranked (cfg : RankedCfg) (v : Obj) (hwf : v.wf = true) :
    validateRanked cfg v = .ok () ∨ validateRanked cfg v = .error .voteError ∨
      validateRanked cfg v = .error .candidateError := by
  apply library_of_ne
  intro h
  cases v with
  | tuple items =>
    simp only [validateRanked] at h
    cases hloop : rankedLoop cfg 0 items 0 [] with
    | error e =>
      rw [hloop] at h
      simp only [Except.error.injEq] at h
      subst h
      rcases rankedLoop_err cfg items 0 0 [] _ hloop with h1 | h1 | ⟨_, r, hr, xs, hs, hx⟩
      · cases h1
      · cases h1
      · have hrw : r.wf = true := wfL_iff.1 (by simpa [Obj.wf] using hwf) r hr
        cases r <;> simp only [Obj.asSet, Option.some.injEq, reduceCtorEq] at hs
        all_goals
          subst hs
          simp only [Obj.wf, Bool.and_eq_true] at hrw
          rw [hrw.1.2] at hx
          cases hx
    | ok ta =>
      obtain ⟨t, a⟩ := ta
      rw [hloop] at h
      simp only at h
      rcases bind_err_iff.1 h with h1 | ⟨_, h1⟩
      · cases check_err h1
      · split at h1
        · cases h1
        · obtain ⟨x, _, hx⟩ := forEach_err h1
          cases nominate_err hx
  | _ => simp [validateRanked] at h

/-- the parent-class check of the score validators never leaks a TypeError (since e8da0bf a score that
    cannot be summed is reported as a VoteValueError) -/
theorem scoreBase_no_typeError (cfg : ScoreCfg) (v : Obj) :
    validateScoreBase cfg v ≠ .error .typeError := by
  intro h
  cases v with
  | fset items =>
    simp only [validateScoreBase] at h
    rcases bind_err_iff.1 h with h1 | ⟨_, h1⟩
    · cases check_err h1
    · rcases bind_err_iff.1 h1 with h2 | ⟨hok, h2⟩
      · rcases scoreItems_err h2 with h3 | h3 <;> cases h3
      · have hA := (scoreItems_ok_iff_spec.1 hok).2
        have hh : hashableL (candsOf items) = true :=
          hashableL_iff.2 (fun c hc => nominate_ok_hashable ((nominate_ok_iff_admits _ _).2 (hA c hc)))
        simp only [hh, Bool.not_true, Bool.false_eq_true, if_false] at h2
        split at h2
        · cases h2
        · split at h2
          · cases hs : sumScores (scoresOf items) with
            | none => rw [hs] at h2; cases h2
            | some s => rw [hs] at h2; cases check_err h2
          · cases h2
  | _ => simp [validateScoreBase] at h

/-- **Enumerated score votes**: accepted, VoteError or CandidateError (every value, every configuration). -/
theorem rejections_are_library_errors_enumscore (cfg : EnumCfg) (v : Obj) :
    validateEnumScore cfg v = .ok () ∨ validateEnumScore cfg v = .error .voteError ∨
      validateEnumScore cfg v = .error .candidateError := by
  apply library_of_ne
  intro h
  unfold validateEnumScore at h
  rcases bind_err_iff.1 h with h1 | ⟨_, h1⟩
  · exact scoreBase_no_typeError _ _ h1
  · cases v with
    | fset items =>
      simp only at h1
      obtain ⟨s, _, hs⟩ := forEach_err h1
      split at hs <;> cases hs
    | _ => simp at h1

private theorem checkObj_err {b : Bounds} {s : Obj} {e : Rej} (h : b.checkObj s = .error e) :
    e = .voteError := by
  cases s with
  | num x => exact check_err (by simpa [Bounds.checkObj] using h)
  | _ =>
    simp only [Bounds.checkObj] at h
    split at h <;> cases h
    rfl

/-- **Range votes**: accepted, VoteError or CandidateError (every value, every configuration). -/
theorem rejections_are_library_errors_range (cfg : RangeCfg) (v : Obj) :
    validateRange cfg v = .ok () ∨ validateRange cfg v = .error .voteError ∨
      validateRange cfg v = .error .candidateError := by
  apply library_of_ne
  intro h
  unfold validateRange at h
  rcases bind_err_iff.1 h with h1 | ⟨_, h1⟩
  · exact scoreBase_no_typeError _ _ h1
  · cases v with
    | fset items =>
      simp only at h1
      obtain ⟨s, _, he⟩ := forEach_err h1
      cases checkObj_err he
    | _ => simp at h1

/-- the two ballots that leaked a TypeError before e8da0bf are rejected with a VoteError:
    `EnumScoreVoteValidator(['x','y'], sum_bounds=(0,5)).validate(frozenset({('a','x')}))` and
    `RangeVoteValidator(range=(0,5)).validate(frozenset({('a','x')}))` -/
theorem nonnumeric_score_under_bound_is_voteError :
    validateEnumScore ⟨⟨Bounds.none, .all ⟨some 0, some 5⟩, .basic true⟩, [.str 6, .str 7]⟩
      (.fset [.tuple [.str 0, .str 6]]) = .error .voteError ∧
    validateRange ⟨⟨Bounds.none, .all Bounds.none, .basic true⟩, ⟨some 0, some 5⟩⟩
      (.fset [.tuple [.str 0, .str 6]]) = .error .voteError := by
  decide +kernel

/-! ## the invalid-vote filter -/

/-- validity under any of the five validators -/
def Valid : Validator → Obj → Prop
  | .simple nom => ValidSimple nom
  | .approval cfg => ValidApproval cfg
  | .ranked cfg => ValidRanked cfg
  | .enumScore cfg => ValidEnumScore cfg
  | .range cfg => ValidRange cfg

instance (val : Validator) (v : Obj) : Decidable (Valid val v) := by
  cases val <;> unfold Valid <;> (unfold ValidSimple; infer_instance)

/-- for every Python value each of the five validators accepts exactly the valid ballots -/
theorem validate_iff_valid_key (val : Validator) (v : Obj) (hwf : v.wf = true) :
    val.validate v = .ok () ↔ Valid val v := by
  cases val with
  | simple nom => exact validate_iff_valid_simple nom v
  | approval cfg => exact validate_iff_valid_approval cfg v hwf
  | ranked cfg => exact validate_iff_valid_ranked cfg v
  | enumScore cfg => exact validate_iff_valid_enumscore cfg v
  | range cfg => exact validate_iff_valid_range cfg v

/-- and never leaks anything but a VoteError or a CandidateError -/
theorem validator_no_typeError (val : Validator) (v : Obj) (hwf : v.wf = true) :
    val.validate v ≠ .error .typeError := by
  intro h
  cases val with
  | simple nom => rcases rejections_are_library_errors_simple nom v with h1 | h1 <;> (rw [Validator.validate, h1] at h; cases h)
  | approval cfg =>
    rcases rejections_are_library_errors_approval cfg v with h1 | h1 | h1 <;> (rw [Validator.validate, h1] at h; cases h)
  | ranked cfg =>
    rcases rejections_are_library_errors_ranked cfg v hwf with h1 | h1 | h1 <;> (rw [Validator.validate, h1] at h; cases h)
  | enumScore cfg =>
    rcases rejections_are_library_errors_enumscore cfg v with h1 | h1 | h1 <;> (rw [Validator.validate, h1] at h; cases h)
  | range cfg =>
    rcases rejections_are_library_errors_range cfg v with h1 | h1 | h1 <;> (rw [Validator.validate, h1] at h; cases h)

/-- a dictionary of ballots: keys are real hashable Python values -/
def KeysWF (votes : List (Obj × Rat)) : Prop := ∀ p ∈ votes, p.1.wf = true ∧ p.1.hashable = true

/-- **The invalid-vote filter removes exactly the rejected ballots and keeps the order and the counts of
    all others**, for every dictionary of ballots and every validator. -/
theorem eliminator_removes_exactly_rejected (val : Validator) (votes : List (Obj × Rat)) (hk : KeysWF votes) :
    eliminate val.validate votes = .ok (votes.filter (fun p => decide (Valid val p.1))) := by
  rw [eliminate_of_library_errors (fun p hp => validator_no_typeError val p.1 (hk p hp).1)]
  congr 1
  apply List.filter_congr
  intro p hp
  simp only [validate_iff_valid_key val p.1 (hk p hp).1]

/-- in particular it never raises -/
theorem eliminator_never_raises (val : Validator) (votes : List (Obj × Rat)) (hk : KeysWF votes) (e : Rej) :
    eliminate val.validate votes ≠ .error e := by
  rw [eliminator_removes_exactly_rejected val votes hk]
  intro h; cases h

/-- the kept ballots are a sub-dictionary of the input: same order, same counts -/
theorem eliminator_keeps_counts (val : Validator) (votes out : List (Obj × Rat))
    (h : eliminate val.validate votes = .ok out) : out.Sublist votes := by
  rw [(eliminate_ok h).1]
  exact List.filter_sublist

/-- non-vacuity: a dictionary of ranked ballots of which the duplicate one (VoteError) and the one naming a
    non-candidate (CandidateError) are removed; and the dictionary on which the filter raised before e8d1cd6 -/
example :
    KeysWF [(.tuple [.str 0, .str 1], 3), (.tuple [.str 0, .str 0], 5), (.tuple [.num 1], 2),
            (.tuple [.fset [.str 2, .str 3]], 7/2)] ∧
    eliminate (Validator.ranked ⟨Bounds.none, .all ⟨some 1, some 2⟩, .basic true⟩).validate
      [(.tuple [.str 0, .str 1], 3), (.tuple [.str 0, .str 0], 5), (.tuple [.num 1], 2),
       (.tuple [.fset [.str 2, .str 3]], 7/2)]
      = .ok [(.tuple [.str 0, .str 1], 3), (.tuple [.fset [.str 2, .str 3]], 7/2)] ∧
    eliminate (Validator.simple (.person true true)).validate [(.cand .personIndep 0, 2), (.str 0, 1)]
      = .ok [(.cand .personIndep 0, 2)] := by
  unfold KeysWF
  decide +kernel

/-! ## which error class comes out -/

/-- approval votes: CandidateError iff a frozenset with a member that is not admitted (the nominator is
    consulted before the count) -/
theorem approval_candidateError_iff (cfg : ApprovalCfg) (v : Obj) :
    validateApproval cfg v = .error .candidateError ↔
      ∃ xs, v = .fset xs ∧ ∃ c ∈ xs, ¬ Admits cfg.nom c := by
  cases v with
  | fset xs =>
    simp only [validateApproval, Obj.fset.injEq, exists_eq_left']
    rw [bind_err_iff]
    constructor
    · rintro (h | ⟨_, h⟩)
      · obtain ⟨x, hx, he⟩ := forEach_err h
        exact ⟨x, hx, fun ha => by rw [(nominate_ok_iff_admits _ _).2 ha] at he; cases he⟩
      · cases check_err h
    · rintro ⟨c, hc, hn⟩
      left
      rcases res_cases (forEach (nominate cfg.nom) xs) with h | ⟨e, h⟩
      · exact absurd ((nominate_ok_iff_admits _ _).1 (forEach_ok_iff.1 h c hc)) hn
      · obtain ⟨x, _, he⟩ := forEach_err h
        rw [h, nominate_err he]
  | _ => simp [validateApproval]

/-- approval votes: VoteError iff not a frozenset, or all members admitted and the count out of bounds -/
theorem approval_voteError_iff (cfg : ApprovalCfg) (v : Obj) :
    validateApproval cfg v = .error .voteError ↔
      (∀ xs, v ≠ .fset xs) ∨ ∃ xs, v = .fset xs ∧ (∀ c ∈ xs, Admits cfg.nom c) ∧ ¬ Within cfg.count xs.length := by
  cases v with
  | fset xs =>
    simp only [validateApproval, ne_eq, Obj.fset.injEq, forall_eq', false_or, exists_eq_left']
    rw [bind_err_iff, forEach_ok_iff]
    simp only [nominate_ok_iff_admits]
    constructor
    · rintro (h | ⟨h1, h⟩)
      · obtain ⟨x, _, he⟩ := forEach_err h
        cases nominate_err he
      · exact ⟨h1, fun hw => by rw [check_ok_iff.2 hw] at h; cases h⟩
    · rintro ⟨h1, h2⟩
      right
      refine ⟨h1, ?_⟩
      rcases res_cases (cfg.count.check (xs.length : Nat)) with h | ⟨e, h⟩
      · exact absurd (check_ok_iff.1 h) h2
      · rw [h, check_err h]
  | _ => simp [validateApproval]

/-! ## acceptance does not depend on the iteration order of a set -/

theorem valid_approval_perm (cfg : ApprovalCfg) {xs ys : List Obj} (h : xs.Perm ys) :
    ValidApproval cfg (.fset xs) ↔ ValidApproval cfg (.fset ys) := by
  simp only [ValidApproval, h.mem_iff, h.nodup_iff, h.length_eq]

theorem validScoreBase_perm (cfg : ScoreCfg) {xs ys : List Obj} (h : xs.Perm ys) :
    ValidScoreBase cfg xs ↔ ValidScoreBase cfg ys := by
  have hp : (pairsOf xs).Perm (pairsOf ys) := h.filterMap _
  have hc : (candsOf xs).Perm (candsOf ys) := hp.map _
  have hs : (scoresOf xs).Perm (scoresOf ys) := hp.map _
  have hsum : ((scoresOf xs).map Obj.numVal).sum = ((scoresOf ys).map Obj.numVal).sum := (hs.map _).sum_eq
  simp only [ValidScoreBase, h.mem_iff, hc.mem_iff, hc.nodup_iff, h.length_eq, hs.mem_iff, hsum]

theorem valid_enumscore_perm (cfg : EnumCfg) {xs ys : List Obj} (h : xs.Perm ys) :
    ValidEnumScore cfg (.fset xs) ↔ ValidEnumScore cfg (.fset ys) := by
  have hs : (scoresOf xs).Perm (scoresOf ys) := (h.filterMap _).map _
  simp only [ValidEnumScore, validScoreBase_perm cfg.base h, hs.mem_iff]

theorem valid_range_perm (cfg : RangeCfg) {xs ys : List Obj} (h : xs.Perm ys) :
    ValidRange cfg (.fset xs) ↔ ValidRange cfg (.fset ys) := by
  have hs : (scoresOf xs).Perm (scoresOf ys) := (h.filterMap _).map _
  simp only [ValidRange, validScoreBase_perm cfg.base h, hs.mem_iff]

/-- hence the verdict of the score validators is the same whatever order the hash table yields (only the
    class of the error of a rejected ballot can depend on it) -/
theorem accept_order_independent (cfg : RangeCfg) (ecfg : EnumCfg) {xs ys : List Obj} (h : xs.Perm ys) :
    (validateRange cfg (.fset xs) = .ok () ↔ validateRange cfg (.fset ys) = .ok ()) ∧
    (validateEnumScore ecfg (.fset xs) = .ok () ↔ validateEnumScore ecfg (.fset ys) = .ok ()) := by
  simp only [validate_iff_valid_range, validate_iff_valid_enumscore, valid_range_perm cfg h,
    valid_enumscore_perm ecfg h, and_self]

/-- non-vacuity: the error class does depend on the order — a non-tuple item and a non-admitted candidate -/
example :
    validateRange ⟨⟨Bounds.none, .all Bounds.none, .basic true⟩, Bounds.none⟩
      (.fset [.str 0, .tuple [.num 1, .num 1]]) = .error .voteError ∧
    validateRange ⟨⟨Bounds.none, .all Bounds.none, .basic true⟩, Bounds.none⟩
      (.fset [.tuple [.num 1, .num 1], .str 0]) = .error .candidateError := by decide +kernel

/-- non-vacuity of the score theorems: a valid range ballot on both boundaries of range and sum, an
    invalid one (sum one half above) -/
example :
    ValidRange ⟨⟨⟨some 2, some 2⟩, .byKey [(2, ⟨some 0, some (7/2)⟩)], .basic true⟩, ⟨some 0, some 3⟩⟩
      (.fset [.tuple [.str 0, .num 3], .tuple [.str 1, .num (1/2)]]) ∧
    ¬ ValidRange ⟨⟨⟨some 2, some 2⟩, .byKey [(2, ⟨some 0, some (7/2)⟩)], .basic true⟩, ⟨some 0, some 3⟩⟩
      (.fset [.tuple [.str 0, .num 3], .tuple [.str 1, .num 1]]) ∧
    ValidEnumScore ⟨⟨Bounds.none, .all Bounds.none, .party false true⟩, [.str 8, .str 9]⟩
      (.fset [.tuple [.cand .party 0, .str 8], .tuple [.cand .blank 0, .str 9]]) := by decide +kernel

/-- non-vacuity of `v.wf`: real nested values are well-formed; a frozenset "holding" a list is not a value -/
example :
    (Obj.tuple [.fset [.str 0, .tuple [.str 1]], .mset [.str 2], .list [.str 3]]).wf = true ∧
    (Obj.tuple [.fset [.str 0, .list [.str 1]]]).wf = false := by decide +kernel

/-! ### ranked votes: the order inside a shared rank is immaterial -/

/-- two ranks that differ at most in the iteration order of a set -/
inductive RankPerm : Obj → Obj → Prop
  | refl (r : Obj) : RankPerm r r
  | fset {xs ys : List Obj} : xs.Perm ys → RankPerm (.fset xs) (.fset ys)

private theorem rankPerm_cands {r r' : Obj} (h : RankPerm r r') :
    (rankCands r).Perm (rankCands r') := by
  cases h with
  | refl => exact List.Perm.refl _
  | fset h => exact h

private theorem rankPerm_flat {rs rs' : List Obj} (h : List.Forall₂ RankPerm rs rs') :
    (rs.flatMap rankCands).Perm (rs'.flatMap rankCands) := by
  induction h with
  | nil => exact List.Perm.refl _
  | cons h _ ih =>
    simp only [List.flatMap_cons]
    exact (rankPerm_cands h).append ih

private theorem rankPerm_ranks {rs rs' : List Obj} (h : List.Forall₂ RankPerm rs rs')
    (P : Nat → Nat → Prop) (i : Nat) :
    (∀ p ∈ rs.zipIdx i, P p.2 (rankCands p.1).length) ↔
      (∀ p ∈ rs'.zipIdx i, P p.2 (rankCands p.1).length) := by
  induction h generalizing i with
  | nil => simp
  | cons h _ ih =>
    simp only [List.zipIdx_cons, List.mem_cons, forall_eq_or_imp, (rankPerm_cands h).length_eq, ih (i + 1)]

theorem valid_ranked_perm (cfg : RankedCfg) {rs rs' : List Obj} (h : List.Forall₂ RankPerm rs rs') :
    ValidRanked cfg (.tuple rs) ↔ ValidRanked cfg (.tuple rs') := by
  have hf := rankPerm_flat h
  have hr := rankPerm_ranks h (fun i n => Within (cfg.rank.get (i + 1)) (n : Nat)) 0
  simp only [ValidRanked, hf.mem_iff, hf.nodup_iff, hf.length_eq]
  exact and_congr Iff.rfl (and_congr Iff.rfl (and_congr Iff.rfl hr))

/-- the verdict on a ranked ballot does not depend on the iteration order of its shared ranks -/
theorem accept_ranked_order_independent (cfg : RankedCfg) {rs rs' : List Obj}
    (h : List.Forall₂ RankPerm rs rs') :
    validateRanked cfg (.tuple rs) = .ok () ↔ validateRanked cfg (.tuple rs') = .ok () := by
  rw [validate_iff_valid_ranked, validate_iff_valid_ranked, valid_ranked_perm cfg h]

/-! ## sanity of the rule itself -/

/-- with the constructor defaults (no total bound, exactly one candidate per rank, basic nominator) a
    tuple of names is a valid ranked vote iff no name repeats — and that is what the validator accepts -/
theorem ranked_default_names (names : List Nat) :
    validateRanked ⟨Bounds.none, .all ⟨some 1, some 1⟩, .basic true⟩ (.tuple (names.map .str)) = .ok ()
      ↔ names.Nodup := by
  rw [validate_iff_valid_ranked]
  have hflat : (names.map Obj.str).flatMap rankCands = names.map Obj.str := by
    induction names with
    | nil => rfl
    | cons n ns ih => simp only [List.map_cons, List.flatMap_cons, rankCands, ih, List.singleton_append]
  have hinj : Function.Injective Obj.str := fun a b h => by cases h; rfl
  simp only [ValidRanked, hflat, List.nodup_map_iff hinj]
  constructor
  · exact fun h => h.2.1
  · intro h
    refine ⟨?_, h, ?_, ?_⟩
    · intro c hc
      obtain ⟨n, _, rfl⟩ := List.mem_map.1 hc
      trivial
    · simp [Within, Bounds.none]
    · intro p hp
      obtain ⟨n, _, hn⟩ := List.mem_map.1 (List.fst_mem_of_mem_zipIdx hp)
      rw [← hn]
      simp [Within, BoundMap.get, rankCands]

/-- an approval vote for a set of distinct names is accepted iff their number is within the bounds -/
theorem approval_names (lo hi : Option Rat) (names : List Nat) :
    validateApproval ⟨⟨lo, hi⟩, .basic true⟩ (.fset (names.map .str)) = .ok ()
      ↔ (∀ l ∈ lo, l ≤ names.length) ∧ (∀ h ∈ hi, (names.length : Rat) ≤ h) := by
  have hinj : Function.Injective Obj.str := fun a b h => by cases h; rfl
  simp only [validateApproval]
  rw [bind_ok_iff, forEach_ok_iff, check_ok_iff]
  simp only [List.mem_map, forall_exists_index, and_imp, forall_apply_eq_imp_iff₂, List.length_map]
  constructor
  · exact fun h => h.2
  · exact fun h => ⟨fun n _ => by simp [nominate, Obj.isStr, Obj.isBlank], h⟩

end VL.C20
