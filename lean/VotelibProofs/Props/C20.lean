/-
  C20 — vote validators accept exactly the ballots their rules describe.
  Namespace VL.C20.  The declarative validity predicates (`Admits`, `Within`, `ValidSimple`,
  `ValidApproval`, `ValidRanked`, `ValidEnumScore`, `ValidRange`) are written from the property statement;
  the theorems relate them to the executable model of votelib/vote.py (VotelibModel/Validate.lean),
  for every value of the grammar `Obj` and every configuration.

  Where the code deviates from the property the full statement is kept in a comment, the provable part
  is named `…_partial` and the deviation is proved on a concrete input (`…_witness`).
-/
import VotelibProofs.Lemmas.Validate
namespace VL.C20
open VL.Validate

/-! ## the declarative rule -/

/-- inclusive bounds; `None` = unbounded -/
def Within (b : Bounds) (x : Rat) : Prop := (∀ l ∈ b.lo, l ≤ x) ∧ (∀ h ∈ b.hi, x ≤ h)

instance (b : Bounds) (x : Rat) : Decidable (Within b x) :=
  inferInstanceAs (Decidable ((∀ l ∈ b.lo, l ≤ x) ∧ (∀ h ∈ b.hi, x ≤ h)))

/-- the candidates a nominator admits (class docstrings of candidate.py):
    Basic — any string or candidate object, blank votes only if allowed;
    Person — physical persons (independents only if allowed), blank votes if allowed;
    Party — parties, coalitions if allowed, blank votes if allowed. -/
def Admits : Nominator → Obj → Prop
  | .basic _, .str _ => True
  | .basic allowBlank, .cand k _ => k = .blank → allowBlank = true
  | .person _ _, .cand .personParty _ => True
  | .person allowIndep _, .cand .personIndep _ => allowIndep = true
  | .person _ allowBlank, .cand .blank _ => allowBlank = true
  | .party _ _, .cand .party _ => True
  | .party allowCoal _, .cand .coalition _ => allowCoal = true
  | .party _ allowBlank, .cand .blank _ => allowBlank = true
  | _, _ => False

instance (n : Nominator) (c : Obj) : Decidable (Admits n c) := by
  unfold Admits; split <;> infer_instance

/-- a simple vote is one admitted candidate -/
def ValidSimple (nom : Nominator) (v : Obj) : Prop := Admits nom v

/-- an approval vote is a frozenset of admitted candidates, none twice, their number within bounds -/
def ValidApproval (cfg : ApprovalCfg) : Obj → Prop
  | .fset xs => (∀ c ∈ xs, Admits cfg.nom c) ∧ xs.Nodup ∧ Within cfg.count xs.length
  | _ => False

/-- candidates named at a rank of a ranked vote: the members of a frozenset, else the item itself -/
def rankCands : Obj → List Obj
  | .fset xs => xs
  | x => [x]

/-- the reading under which a mutable set is also taken as a shared rank (what the code does) -/
def rankCandsAnySet : Obj → List Obj
  | .fset xs => xs
  | .mset xs => xs
  | x => [x]

/-- a ranked vote is a tuple of ranks; every candidate named is admitted (so a rank that is neither a
    frozenset nor a candidate is invalid), none is named twice, the total number named and the number at
    every rank (1-indexed) are within bounds -/
def ValidRankedWith (cands : Obj → List Obj) (cfg : RankedCfg) : Obj → Prop
  | .tuple ranks =>
    (∀ c ∈ ranks.flatMap cands, Admits cfg.nom c) ∧ (ranks.flatMap cands).Nodup ∧
    Within cfg.total (ranks.flatMap cands).length ∧
    ∀ p ∈ ranks.zipIdx, Within (cfg.rank.get (p.2 + 1)) (cands p.1).length
  | _ => False

def ValidRanked := ValidRankedWith rankCands
def ValidRankedAnySet := ValidRankedWith rankCandsAnySet

/-- the common rule of score votes: a frozenset of (candidate, score) pairs, candidates admitted, none
    scored twice, number of scorings within bounds, and — if a sum bound is configured for this number of
    scorings — the scores are numbers whose sum is within it -/
def ValidScoreBase (cfg : ScoreCfg) (items : List Obj) : Prop :=
  (∀ it ∈ items, it.asPair.isSome = true) ∧
  (∀ c ∈ candsOf items, Admits cfg.nom c) ∧ (candsOf items).Nodup ∧
  Within cfg.nScorings items.length ∧
  ((cfg.sum.get items.length).active = true →
    (∀ s ∈ scoresOf items, s.isNum = true) ∧
    Within (cfg.sum.get items.length) ((scoresOf items).map Obj.numVal).sum)

instance (cfg : ScoreCfg) (items : List Obj) : Decidable (ValidScoreBase cfg items) := by
  unfold ValidScoreBase; infer_instance

/-- enumerated scores: every score is one of the levels -/
def ValidEnumScore (cfg : EnumCfg) : Obj → Prop
  | .fset items => ValidScoreBase cfg.base items ∧ ∀ s ∈ scoresOf items, s ∈ cfg.levels
  | _ => False

/-- a score respects a range: if any bound is configured it is a number within it -/
def ScoreInRange (b : Bounds) (s : Obj) : Prop :=
  b.active = true → s.isNum = true ∧ Within b s.numVal

instance (b : Bounds) (s : Obj) : Decidable (ScoreInRange b s) := by
  unfold ScoreInRange; infer_instance

def ValidRange (cfg : RangeCfg) : Obj → Prop
  | .fset items => ValidScoreBase cfg.base items ∧ ∀ s ∈ scoresOf items, ScoreInRange cfg.range s
  | _ => False

instance (cfg : ApprovalCfg) (v : Obj) : Decidable (ValidApproval cfg v) := by
  unfold ValidApproval; split <;> infer_instance
instance (f : Obj → List Obj) (cfg : RankedCfg) (v : Obj) : Decidable (ValidRankedWith f cfg v) := by
  unfold ValidRankedWith; split <;> infer_instance
instance (cfg : RankedCfg) (v : Obj) : Decidable (ValidRanked cfg v) :=
  inferInstanceAs (Decidable (ValidRankedWith rankCands cfg v))
instance (cfg : RankedCfg) (v : Obj) : Decidable (ValidRankedAnySet cfg v) :=
  inferInstanceAs (Decidable (ValidRankedWith rankCandsAnySet cfg v))
instance (cfg : EnumCfg) (v : Obj) : Decidable (ValidEnumScore cfg v) := by
  unfold ValidEnumScore; split <;> infer_instance
instance (cfg : RangeCfg) (v : Obj) : Decidable (ValidRange cfg v) := by
  unfold ValidRange; split <;> infer_instance

/-! ## nominators -/

/-- a nominator passes exactly the candidates it admits -/
theorem nominate_ok_iff_admits (n : Nominator) (c : Obj) : nominate n c = .ok () ↔ Admits n c := by
  cases n <;> cases c <;> (try rename_i k _; cases k) <;>
    simp [nominate, Admits, Obj.isStr, Obj.isCandObj, Obj.isBlank, Obj.isIndividual, Obj.isElectionParty,
      Obj.isCoalition, Obj.hasCandidacy] <;> (try (rename_i b _; cases b <;> simp)) <;>
    (try (rename_i a b _; cases a <;> cases b <;> simp))

/-- and reports every other value of the grammar as a CandidateError -/
theorem nominate_rejects_with_candidateError (n : Nominator) (c : Obj) (h : ¬ Admits n c) :
    nominate n c = .error .candidateError := by
  rcases res_cases (nominate n c) with h1 | ⟨e, h1⟩
  · exact absurd ((nominate_ok_iff_admits n c).1 h1) h
  · rw [h1, nominate_err h1]

/-! ## the inclusive range checker -/

theorem bounds_check_iff_within (b : Bounds) (x : Rat) : b.check x = .ok () ↔ Within b x := check_ok_iff

/-- both bounds are inclusive -/
theorem bounds_inclusive (lo hi x : Rat) :
    (Bounds.mk (some lo) (some hi)).check x = .ok () ↔ lo ≤ x ∧ x ≤ hi := by
  simp [check_ok_iff]

/-- in particular the two end points pass whenever the interval is non-empty -/
theorem bounds_inclusive_ends (lo hi : Rat) (h : lo ≤ hi) :
    (Bounds.mk (some lo) (some hi)).check lo = .ok () ∧ (Bounds.mk (some lo) (some hi)).check hi = .ok () := by
  simp [bounds_inclusive, h]

/-- one-sided bounds -/
theorem bounds_one_sided (b x : Rat) :
    ((Bounds.mk (some b) none).check x = .ok () ↔ b ≤ x) ∧
    ((Bounds.mk none (some b)).check x = .ok () ↔ x ≤ b) := by
  simp [check_ok_iff]

/-- crossing bounds reject every value, with a VoteError -/
theorem bounds_crossing_rejects_all (lo hi x : Rat) (h : hi < lo) :
    (Bounds.mk (some lo) (some hi)).check x = .error .voteError := by
  rcases res_cases ((Bounds.mk (some lo) (some hi)).check x) with h1 | ⟨e, h1⟩
  · rw [bounds_inclusive] at h1
    linarith [h1.1, h1.2]
  · rw [h1, check_err h1]

/-- `(None, None)` checks nothing -/
theorem bounds_none_accepts_all (x : Rat) : Bounds.none.check x = .ok () := by
  simp [check_ok_iff, Bounds.none]

/-- a bound tuple applies to every key; a bound dictionary leaves unlisted keys unconstrained -/
theorem boundMap_get_default :
    (∀ b k, (BoundMap.all b).get k = b) ∧
    (∀ m k, (∀ p ∈ m, p.1 ≠ k) → (BoundMap.byKey m).get k = Bounds.none) ∧
    (∀ m k b, (BoundMap.byKey ((k, b) :: m)).get k = b) := by
  refine ⟨fun _ _ => rfl, ?_, ?_⟩
  · intro m k h
    have : m.lookup k = none := by
      induction m with
      | nil => rfl
      | cons p m ih =>
        obtain ⟨a, b⟩ := p
        have h1 : a ≠ k := h (a, b) List.mem_cons_self
        have h1' : (k == a) = false := by simpa using fun e => h1 e.symm
        rw [List.lookup_cons, h1']
        exact ih (fun p hp => h p (List.mem_cons_of_mem _ hp))
    simp [BoundMap.get, this]
  · intro m k b
    simp [BoundMap.get, List.lookup_cons]

/-! ## acceptance = validity -/

/-- **Simple votes.** -/
theorem validate_iff_valid_simple (nom : Nominator) (v : Obj) :
    validateSimple nom v = .ok () ↔ ValidSimple nom v := nominate_ok_iff_admits nom v

/-- **Approval votes**, for every Python value (a real frozenset holds distinct members: `v.wf`). -/
theorem validate_iff_valid_approval (cfg : ApprovalCfg) (v : Obj) (hwf : v.wf = true) :
    validateApproval cfg v = .ok () ↔ ValidApproval cfg v := by
  cases v with
  | fset xs =>
    have hnd : xs.Nodup := by
      simp only [Obj.wf, Bool.and_eq_true] at hwf
      exact nodupB_iff.1 hwf.2
    simp only [validateApproval, ValidApproval]
    rw [bind_ok_iff, forEach_ok_iff, check_ok_iff]
    simp only [nominate_ok_iff_admits, Within, hnd, true_and]
  | _ => simp [validateApproval, ValidApproval]

private theorem rankCandsAnySet_eq : rankCandsAnySet = rankMembers := by
  funext r; cases r <;> rfl

/-- **Ranked votes**, for every value and configuration, under the reading that any set at a rank is a
    shared rank. -/
theorem validate_iff_valid_ranked_anyset (cfg : RankedCfg) (v : Obj) :
    validateRanked cfg v = .ok () ↔ ValidRankedAnySet cfg v := by
  cases v with
  | tuple items =>
    simp only [validateRanked, ValidRankedAnySet, ValidRankedWith, rankCandsAnySet_eq]
    have key := rankedLoop_ok_iff cfg items 0 0 []
    -- admission of everything named implies what the loop demands rank by rank
    have hitem : (∀ c ∈ items.flatMap rankMembers, Admits cfg.nom c) → ∀ r ∈ items, rankItemOk cfg.nom r := by
      intro hA r hr
      unfold rankItemOk
      cases hs : r.asSet with
      | some xs =>
        simp only
        rw [hashableL_iff]
        intro x hx
        have : x ∈ items.flatMap rankMembers :=
          List.mem_flatMap.2 ⟨r, hr, by simp [rankMembers, hs, hx]⟩
        exact nominate_ok_hashable ((nominate_ok_iff_admits _ _).2 (hA x this))
      | none =>
        simp only
        have : r ∈ items.flatMap rankMembers :=
          List.mem_flatMap.2 ⟨r, hr, by simp [rankMembers, hs]⟩
        exact (nominate_ok_iff_admits _ _).2 (hA r this)
    cases hloop : rankedLoop cfg 0 items 0 [] with
    | ok ta =>
      obtain ⟨t, a⟩ := ta
      obtain ⟨h1, h2, rfl, rfl⟩ := (key t a).1 hloop
      simp only [Nat.zero_add, List.nil_append]
      rw [bind_ok_iff, check_ok_iff]
      by_cases hd : (dedup (items.flatMap rankMembers)).length < (items.flatMap rankMembers).length
      · have hnd := (dedup_length_lt_iff _).1 hd
        simp only [hd, if_true, reduceCtorEq, and_false, false_iff]
        intro h; exact hnd h.2.1
      · have hnd := (dedup_length_not_lt_iff _).1 hd
        simp only [hd, if_false, forEach_ok_iff, mem_dedup, nominate_ok_iff_admits]
        constructor
        · rintro ⟨hT, hA⟩
          exact ⟨hA, hnd, hT, fun p hp => check_ok_iff.1 (h1 p hp)⟩
        · rintro ⟨hA, _, hT, _⟩
          exact ⟨hT, hA⟩
    | error e =>
      simp only [reduceCtorEq, false_iff]
      rintro ⟨hA, _, _, hR⟩
      have := (key (0 + (items.flatMap rankMembers).length) ([] ++ items.flatMap rankMembers)).2
        ⟨fun p hp => check_ok_iff.2 (hR p hp), hitem hA, rfl, rfl⟩
      rw [hloop] at this
      cases this
  | _ => simp [validateRanked, ValidRankedAnySet, ValidRankedWith]

/-- no mutable set at any rank -/
def NoMutableSetRank : Obj → Prop
  | .tuple ranks => ∀ r ∈ ranks, ∀ xs, r ≠ .mset xs
  | _ => True

private theorem flatMap_congr' {f g : Obj → List Obj} {l : List Obj} (h : ∀ r ∈ l, f r = g r) :
    l.flatMap f = l.flatMap g := by
  induction l with
  | nil => rfl
  | cons x xs ih =>
    simp only [List.flatMap_cons]
    rw [h x List.mem_cons_self, ih (fun r hr => h r (List.mem_cons_of_mem _ hr))]

theorem validRanked_iff_anyset (cfg : RankedCfg) (v : Obj) (h : NoMutableSetRank v) :
    ValidRanked cfg v ↔ ValidRankedAnySet cfg v := by
  cases v with
  | tuple ranks =>
    have he : ∀ r ∈ ranks, rankCands r = rankCandsAnySet r := by
      intro r hr
      have := h r hr
      cases r <;> first | rfl | exact absurd rfl (this _)
    simp only [ValidRanked, ValidRankedAnySet, ValidRankedWith, flatMap_congr' he]
    constructor
    · rintro ⟨h1, h2, h3, h4⟩
      exact ⟨h1, h2, h3, fun p hp => by rw [← he p.1 (List.fst_mem_of_mem_zipIdx hp)]; exact h4 p hp⟩
    · rintro ⟨h1, h2, h3, h4⟩
      exact ⟨h1, h2, h3, fun p hp => by rw [he p.1 (List.fst_mem_of_mem_zipIdx hp)]; exact h4 p hp⟩
  | _ => simp [ValidRanked, ValidRankedAnySet, ValidRankedWith]

/- FULL STATEMENT (false of the code, see the witness below):
     theorem validate_iff_valid_ranked (cfg) (v) : validateRanked cfg v = .ok () ↔ ValidRanked cfg v
   RankedVoteValidator tests `isinstance(item, collections.abc.Set)`, so a mutable `set` at a rank is
   taken as a shared rank although the ranked vote type allows frozensets only. -/

/-- **Ranked votes**, strict reading, for every value without a mutable set at a rank. -/
theorem validate_iff_valid_ranked_partial (cfg : RankedCfg) (v : Obj) (h : NoMutableSetRank v) :
    validateRanked cfg v = .ok () ↔ ValidRanked cfg v := by
  rw [validRanked_iff_anyset cfg v h]
  exact validate_iff_valid_ranked_anyset cfg v

/-- `RankedVoteValidator(rank_vote_count_bounds=(1,2)).validate(({'a','b'}, 'c'))` is accepted -/
theorem validate_iff_valid_ranked_witness :
    ¬ (validateRanked ⟨Bounds.none, .all ⟨some 1, some 2⟩, .basic true⟩ (.tuple [.mset [.str 0, .str 1], .str 2]) = .ok ()
        ↔ ValidRanked ⟨Bounds.none, .all ⟨some 1, some 2⟩, .basic true⟩ (.tuple [.mset [.str 0, .str 1], .str 2])) := by
  decide +kernel

end VL.C20
