/-
  C20 — vote validators accept exactly the ballots their rules describe.
  Namespace VL.C20.  The declarative validity predicates (`Admits`, `Within`, `ValidSimple`,
  `ValidApproval`, `ValidRanked`, `ValidEnumScore`, `ValidRange`) are written from the property statement;
  the theorems relate them to the executable model of votelib/vote.py (VotelibModel/Validate.lean),
  for every value of the grammar `Obj` and every configuration.

  Where the code deviates from the property the full statement is kept in a comment, the provable part
  is named `…_partial` and the deviation is proved on a concrete input (`…_witness`).
-/
import VotelibProofs.Lemmas.Validate
import Mathlib.Algebra.BigOperators.Group.List.Basic
import Mathlib.Data.List.Nodup
namespace VL.C20
open VL.Validate

/-! ## the declarative rule -/

/-- inclusive bounds; `None` = unbounded -/
def Within (b : Bounds) (x : Rat) : Prop := (∀ l ∈ b.lo, l ≤ x) ∧ (∀ h ∈ b.hi, x ≤ h)

instance (b : Bounds) (x : Rat) : Decidable (Within b x) :=
  inferInstanceAs (Decidable ((∀ l ∈ b.lo, l ≤ x) ∧ (∀ h ∈ b.hi, x ≤ h)))

/-- the candidates a nominator admits (class docstrings of candidate.py):
    Basic — any string or candidate object, blank votes only if allowed;
    Person — physical persons (independents only if allowed), blank votes if allowed;
    Party — parties, coalitions if allowed, blank votes if allowed. -/
def Admits : Nominator → Obj → Prop
  | .basic _, .str _ => True
  | .basic allowBlank, .cand k _ => k = .blank → allowBlank = true
  | .person _ _, .cand .personParty _ => True
  | .person allowIndep _, .cand .personIndep _ => allowIndep = true
  | .person _ allowBlank, .cand .blank _ => allowBlank = true
  | .party _ _, .cand .party _ => True
  | .party allowCoal _, .cand .coalition _ => allowCoal = true
  | .party _ allowBlank, .cand .blank _ => allowBlank = true
  | _, _ => False

instance (n : Nominator) (c : Obj) : Decidable (Admits n c) := by
  unfold Admits; split <;> infer_instance

/-- a simple vote is one admitted candidate -/
def ValidSimple (nom : Nominator) (v : Obj) : Prop := Admits nom v

/-- an approval vote is a frozenset of admitted candidates, none twice, their number within bounds -/
def ValidApproval (cfg : ApprovalCfg) : Obj → Prop
  | .fset xs => (∀ c ∈ xs, Admits cfg.nom c) ∧ xs.Nodup ∧ Within cfg.count xs.length
  | _ => False

/-- candidates named at a rank of a ranked vote: the members of a frozenset, else the item itself -/
def rankCands : Obj → List Obj
  | .fset xs => xs
  | x => [x]

/-- the reading under which a mutable set is also taken as a shared rank (what the code does) -/
def rankCandsAnySet : Obj → List Obj
  | .fset xs => xs
  | .mset xs => xs
  | x => [x]

/-- a ranked vote is a tuple of ranks; every candidate named is admitted (so a rank that is neither a
    frozenset nor a candidate is invalid), none is named twice, the total number named and the number at
    every rank (1-indexed) are within bounds -/
def ValidRankedWith (cands : Obj → List Obj) (cfg : RankedCfg) : Obj → Prop
  | .tuple ranks =>
    (∀ c ∈ ranks.flatMap cands, Admits cfg.nom c) ∧ (ranks.flatMap cands).Nodup ∧
    Within cfg.total (ranks.flatMap cands).length ∧
    ∀ p ∈ ranks.zipIdx, Within (cfg.rank.get (p.2 + 1)) (cands p.1).length
  | _ => False

def ValidRanked := ValidRankedWith rankCands
def ValidRankedAnySet := ValidRankedWith rankCandsAnySet

/-- the common rule of score votes: a frozenset of (candidate, score) pairs, candidates admitted, none
    scored twice, number of scorings within bounds, and — if a sum bound is configured for this number of
    scorings — the scores are numbers whose sum is within it -/
def ValidScoreBase (cfg : ScoreCfg) (items : List Obj) : Prop :=
  (∀ it ∈ items, it.asPair.isSome = true) ∧
  (∀ c ∈ candsOf items, Admits cfg.nom c) ∧ (candsOf items).Nodup ∧
  Within cfg.nScorings items.length ∧
  ((cfg.sum.get items.length).active = true →
    (∀ s ∈ scoresOf items, s.isNum = true) ∧
    Within (cfg.sum.get items.length) ((scoresOf items).map Obj.numVal).sum)

instance (cfg : ScoreCfg) (items : List Obj) : Decidable (ValidScoreBase cfg items) := by
  unfold ValidScoreBase; infer_instance

/-- enumerated scores: every score is one of the levels -/
def ValidEnumScore (cfg : EnumCfg) : Obj → Prop
  | .fset items => ValidScoreBase cfg.base items ∧ ∀ s ∈ scoresOf items, s ∈ cfg.levels
  | _ => False

/-- a score respects a range: if any bound is configured it is a number within it -/
def ScoreInRange (b : Bounds) (s : Obj) : Prop :=
  b.active = true → s.isNum = true ∧ Within b s.numVal

instance (b : Bounds) (s : Obj) : Decidable (ScoreInRange b s) := by
  unfold ScoreInRange; infer_instance

def ValidRange (cfg : RangeCfg) : Obj → Prop
  | .fset items => ValidScoreBase cfg.base items ∧ ∀ s ∈ scoresOf items, ScoreInRange cfg.range s
  | _ => False

instance (cfg : ApprovalCfg) (v : Obj) : Decidable (ValidApproval cfg v) := by
  unfold ValidApproval; split <;> infer_instance
instance (f : Obj → List Obj) (cfg : RankedCfg) (v : Obj) : Decidable (ValidRankedWith f cfg v) := by
  unfold ValidRankedWith; split <;> infer_instance
instance (cfg : RankedCfg) (v : Obj) : Decidable (ValidRanked cfg v) :=
  inferInstanceAs (Decidable (ValidRankedWith rankCands cfg v))
instance (cfg : RankedCfg) (v : Obj) : Decidable (ValidRankedAnySet cfg v) :=
  inferInstanceAs (Decidable (ValidRankedWith rankCandsAnySet cfg v))
instance (cfg : EnumCfg) (v : Obj) : Decidable (ValidEnumScore cfg v) := by
  unfold ValidEnumScore; split <;> infer_instance
instance (cfg : RangeCfg) (v : Obj) : Decidable (ValidRange cfg v) := by
  unfold ValidRange; split <;> infer_instance

/-! ## nominators -/

/-- a nominator passes exactly the candidates it admits -/
theorem nominate_ok_iff_admits (n : Nominator) (c : Obj) : nominate n c = .ok () ↔ Admits n c := by
  cases n <;> cases c <;> (try rename_i k _; cases k) <;>
    simp [nominate, Admits, Obj.isStr, Obj.isCandObj, Obj.isBlank, Obj.isIndividual, Obj.isElectionParty,
      Obj.isCoalition, Obj.hasCandidacy]

/-- and reports every other value of the grammar as a CandidateError -/
theorem nominate_rejects_with_candidateError (n : Nominator) (c : Obj) (h : ¬ Admits n c) :
    nominate n c = .error .candidateError := by
  rcases res_cases (nominate n c) with h1 | ⟨e, h1⟩
  · exact absurd ((nominate_ok_iff_admits n c).1 h1) h
  · rw [h1, nominate_err h1]

/-! ## the inclusive range checker -/

theorem bounds_check_iff_within (b : Bounds) (x : Rat) : b.check x = .ok () ↔ Within b x := check_ok_iff

/-- both bounds are inclusive -/
theorem bounds_inclusive (lo hi x : Rat) :
    (Bounds.mk (some lo) (some hi)).check x = .ok () ↔ lo ≤ x ∧ x ≤ hi := by
  simp [check_ok_iff]

/-- in particular the two end points pass whenever the interval is non-empty -/
theorem bounds_inclusive_ends (lo hi : Rat) (h : lo ≤ hi) :
    (Bounds.mk (some lo) (some hi)).check lo = .ok () ∧ (Bounds.mk (some lo) (some hi)).check hi = .ok () := by
  simp [bounds_inclusive, h]

/-- one-sided bounds -/
theorem bounds_one_sided (b x : Rat) :
    ((Bounds.mk (some b) none).check x = .ok () ↔ b ≤ x) ∧
    ((Bounds.mk none (some b)).check x = .ok () ↔ x ≤ b) := by
  simp [check_ok_iff]

/-- crossing bounds reject every value, with a VoteError -/
theorem bounds_crossing_rejects_all (lo hi x : Rat) (h : hi < lo) :
    (Bounds.mk (some lo) (some hi)).check x = .error .voteError := by
  rcases res_cases ((Bounds.mk (some lo) (some hi)).check x) with h1 | ⟨e, h1⟩
  · rw [bounds_inclusive] at h1
    linarith [h1.1, h1.2]
  · rw [h1, check_err h1]

/-- `(None, None)` checks nothing -/
theorem bounds_none_accepts_all (x : Rat) : Bounds.none.check x = .ok () := by
  simp [check_ok_iff, Bounds.none]

/-- a bound tuple applies to every key; a bound dictionary leaves unlisted keys unconstrained -/
theorem boundMap_get_default :
    (∀ b k, (BoundMap.all b).get k = b) ∧
    (∀ m k, (∀ p ∈ m, p.1 ≠ k) → (BoundMap.byKey m).get k = Bounds.none) ∧
    (∀ m k b, (BoundMap.byKey ((k, b) :: m)).get k = b) := by
  refine ⟨fun _ _ => rfl, ?_, ?_⟩
  · intro m k h
    have : m.lookup k = none := by
      induction m with
      | nil => rfl
      | cons p m ih =>
        obtain ⟨a, b⟩ := p
        have h1 : a ≠ k := h (a, b) List.mem_cons_self
        have h1' : (k == a) = false := by simpa using fun e => h1 e.symm
        rw [List.lookup_cons, h1']
        exact ih (fun p hp => h p (List.mem_cons_of_mem _ hp))
    simp [BoundMap.get, this]
  · intro m k b
    simp [BoundMap.get]

/-! ## acceptance = validity -/

/-- **Simple votes.** -/
theorem validate_iff_valid_simple (nom : Nominator) (v : Obj) :
    validateSimple nom v = .ok () ↔ ValidSimple nom v := nominate_ok_iff_admits nom v

/-- **Approval votes**, for every Python value (a real frozenset holds distinct members: `v.wf`). -/
theorem validate_iff_valid_approval (cfg : ApprovalCfg) (v : Obj) (hwf : v.wf = true) :
    validateApproval cfg v = .ok () ↔ ValidApproval cfg v := by
  cases v with
  | fset xs =>
    have hnd : xs.Nodup := by
      simp only [Obj.wf, Bool.and_eq_true] at hwf
      exact nodupB_iff.1 hwf.2
    simp only [validateApproval, ValidApproval]
    rw [bind_ok_iff, forEach_ok_iff, check_ok_iff]
    simp only [nominate_ok_iff_admits, Within, hnd, true_and]
  | _ => simp [validateApproval, ValidApproval]

private theorem rankCandsAnySet_eq : rankCandsAnySet = rankMembers := by
  funext r; cases r <;> rfl

/-- **Ranked votes**, for every value and configuration, under the reading that any set at a rank is a
    shared rank. -/
theorem validate_iff_valid_ranked_anyset (cfg : RankedCfg) (v : Obj) :
    validateRanked cfg v = .ok () ↔ ValidRankedAnySet cfg v := by
  cases v with
  | tuple items =>
    simp only [validateRanked, ValidRankedAnySet, ValidRankedWith, rankCandsAnySet_eq]
    have key := rankedLoop_ok_iff cfg items 0 0 []
    -- admission of everything named implies what the loop demands rank by rank
    have hitem : (∀ c ∈ items.flatMap rankMembers, Admits cfg.nom c) → ∀ r ∈ items, rankItemOk cfg.nom r := by
      intro hA r hr
      unfold rankItemOk
      cases hs : r.asSet with
      | some xs =>
        simp only
        rw [hashableL_iff]
        intro x hx
        have : x ∈ items.flatMap rankMembers :=
          List.mem_flatMap.2 ⟨r, hr, by simp [rankMembers, hs, hx]⟩
        exact nominate_ok_hashable ((nominate_ok_iff_admits _ _).2 (hA x this))
      | none =>
        simp only
        have : r ∈ items.flatMap rankMembers :=
          List.mem_flatMap.2 ⟨r, hr, by simp [rankMembers, hs]⟩
        exact (nominate_ok_iff_admits _ _).2 (hA r this)
    cases hloop : rankedLoop cfg 0 items 0 [] with
    | ok ta =>
      obtain ⟨t, a⟩ := ta
      obtain ⟨h1, h2, rfl, rfl⟩ := (key t a).1 hloop
      simp only [Nat.zero_add, List.nil_append]
      rw [bind_ok_iff, check_ok_iff]
      by_cases hd : (dedup (items.flatMap rankMembers)).length < (items.flatMap rankMembers).length
      · have hnd := (dedup_length_lt_iff _).1 hd
        simp only [hd, if_true, reduceCtorEq, and_false, false_iff]
        intro h; exact hnd h.2.1
      · have hnd := (dedup_length_not_lt_iff _).1 hd
        simp only [hd, if_false, forEach_ok_iff, mem_dedup, nominate_ok_iff_admits]
        constructor
        · rintro ⟨hT, hA⟩
          exact ⟨hA, hnd, hT, fun p hp => check_ok_iff.1 (h1 p hp)⟩
        · rintro ⟨hA, _, hT, _⟩
          exact ⟨hT, hA⟩
    | error e =>
      simp only [reduceCtorEq, false_iff]
      rintro ⟨hA, _, _, hR⟩
      have := (key (0 + (items.flatMap rankMembers).length) ([] ++ items.flatMap rankMembers)).2
        ⟨fun p hp => check_ok_iff.2 (hR p hp), hitem hA, rfl, rfl⟩
      rw [hloop] at this
      cases this
  | _ => simp [validateRanked, ValidRankedAnySet, ValidRankedWith]

/-- `isinstance(x, set)` -/
def isMutableSet : Obj → Bool
  | .mset _ => true
  | _ => false

/-- no mutable set at any rank -/
def NoMutableSetRank : Obj → Prop
  | .tuple ranks => ∀ r ∈ ranks, isMutableSet r = false
  | _ => True

instance (v : Obj) : Decidable (NoMutableSetRank v) := by
  unfold NoMutableSetRank; split <;> infer_instance

private theorem flatMap_congr' {f g : Obj → List Obj} {l : List Obj} (h : ∀ r ∈ l, f r = g r) :
    l.flatMap f = l.flatMap g := by
  induction l with
  | nil => rfl
  | cons x xs ih =>
    simp only [List.flatMap_cons]
    rw [h x List.mem_cons_self, ih (fun r hr => h r (List.mem_cons_of_mem _ hr))]

theorem validRanked_iff_anyset (cfg : RankedCfg) (v : Obj) (h : NoMutableSetRank v) :
    ValidRanked cfg v ↔ ValidRankedAnySet cfg v := by
  cases v with
  | tuple ranks =>
    have he : ∀ r ∈ ranks, rankCands r = rankCandsAnySet r := by
      intro r hr
      have := h r hr
      cases r <;> first | rfl | (simp [isMutableSet] at this)
    simp only [ValidRanked, ValidRankedAnySet, ValidRankedWith, flatMap_congr' he]
    constructor
    · rintro ⟨h1, h2, h3, h4⟩
      exact ⟨h1, h2, h3, fun p hp => by rw [← he p.1 (List.fst_mem_of_mem_zipIdx hp)]; exact h4 p hp⟩
    · rintro ⟨h1, h2, h3, h4⟩
      exact ⟨h1, h2, h3, fun p hp => by rw [he p.1 (List.fst_mem_of_mem_zipIdx hp)]; exact h4 p hp⟩
  | _ => simp [ValidRanked, ValidRankedAnySet, ValidRankedWith]

/- FULL STATEMENT (false of the code, see the witness below):
     theorem validate_iff_valid_ranked (cfg) (v) : validateRanked cfg v = .ok () ↔ ValidRanked cfg v
   RankedVoteValidator tests `isinstance(item, collections.abc.Set)`, so a mutable `set` at a rank is
   taken as a shared rank although the ranked vote type allows frozensets only. -/

/-- **Ranked votes**, strict reading, for every value without a mutable set at a rank. -/
theorem validate_iff_valid_ranked_partial (cfg : RankedCfg) (v : Obj) (h : NoMutableSetRank v) :
    validateRanked cfg v = .ok () ↔ ValidRanked cfg v := by
  rw [validRanked_iff_anyset cfg v h]
  exact validate_iff_valid_ranked_anyset cfg v

/-- `RankedVoteValidator(rank_vote_count_bounds=(1,2)).validate(({'a','b'}, 'c'))` is accepted -/
theorem validate_iff_valid_ranked_witness :
    ¬ (validateRanked ⟨Bounds.none, .all ⟨some 1, some 2⟩, .basic true⟩ (.tuple [.mset [.str 0, .str 1], .str 2]) = .ok ()
        ↔ ValidRanked ⟨Bounds.none, .all ⟨some 1, some 2⟩, .basic true⟩ (.tuple [.mset [.str 0, .str 1], .str 2])) := by
  decide +kernel

/-- non-vacuity: a well-formed approval ballot on the upper bound, and a ranked ballot with a shared
    rank and no mutable set, are valid and accepted -/
example : (Obj.fset [.str 0, .cand .blank 1]).wf = true ∧
    ValidApproval ⟨⟨some 1, some 2⟩, .basic true⟩ (.fset [.str 0, .cand .blank 1]) := by decide +kernel
example : NoMutableSetRank (.tuple [.fset [.str 0, .str 1], .str 2]) ∧
    ValidRanked ⟨⟨some 3, some 3⟩, .byKey [(1, ⟨some 2, some 2⟩)], .basic true⟩
      (.tuple [.fset [.str 0, .str 1], .str 2]) ∧
    ¬ ValidRanked ⟨⟨some 3, some 3⟩, .byKey [(1, ⟨some 2, some 2⟩)], .basic true⟩
      (.tuple [.fset [.str 0, .str 1], .str 0]) := by decide +kernel

/-! ## score votes -/

private theorem mem_candsOf {items : List Obj} {c : Obj} :
    c ∈ candsOf items ↔ ∃ s, Obj.tuple [c, s] ∈ items := by
  simp only [candsOf, pairsOf, List.mem_map, List.mem_filterMap]
  constructor
  · rintro ⟨⟨c', s⟩, ⟨it, hit, hp⟩, rfl⟩
    exact ⟨s, by rw [← asPair_eq_some.1 hp]; exact hit⟩
  · rintro ⟨s, hs⟩
    exact ⟨(c, s), ⟨_, hs, rfl⟩, rfl⟩

private theorem scoreItems_ok_iff_spec {nom : Nominator} {items : List Obj} :
    scoreItems nom items = .ok () ↔
      (∀ it ∈ items, it.asPair.isSome = true) ∧ (∀ c ∈ candsOf items, Admits nom c) := by
  rw [scoreItems_ok_iff]
  constructor
  · intro h
    refine ⟨?_, ?_⟩
    · intro it hit
      obtain ⟨c, s, rfl, _⟩ := h it hit
      rfl
    · intro c hc
      obtain ⟨s, hs⟩ := mem_candsOf.1 hc
      obtain ⟨c', s', he, hn⟩ := h _ hs
      cases he
      exact (nominate_ok_iff_admits _ _).1 hn
  · rintro ⟨h1, h2⟩ it hit
    have := h1 it hit
    cases hp : it.asPair with
    | none => rw [hp] at this; cases this
    | some p =>
      obtain ⟨c, s⟩ := p
      have he := asPair_eq_some.1 hp
      subst he
      exact ⟨c, s, rfl, (nominate_ok_iff_admits _ _).2 (h2 c (mem_candsOf.2 ⟨s, hit⟩))⟩

/-- the parent-class check accepts exactly the ballots satisfying the common rule of score votes -/
theorem validateScoreBase_iff (cfg : ScoreCfg) (items : List Obj) :
    validateScoreBase cfg (.fset items) = .ok () ↔ ValidScoreBase cfg items := by
  simp only [validateScoreBase, ValidScoreBase]
  rw [bind_ok_iff, bind_ok_iff, check_ok_iff, scoreItems_ok_iff_spec]
  constructor
  · rintro ⟨hN, ⟨hP, hA⟩, h⟩
    have hh : hashableL (candsOf items) = true :=
      hashableL_iff.2 (fun c hc => nominate_ok_hashable ((nominate_ok_iff_admits _ _).2 (hA c hc)))
    have hlen : (candsOf items).length = items.length := by
      simp only [candsOf, pairsOf, List.length_map]
      clear h hh hA hN
      induction items with
      | nil => rfl
      | cons it rest ih =>
        have h1 := hP it List.mem_cons_self
        cases hp : it.asPair with
        | none => rw [hp] at h1; cases h1
        | some p =>
          simp only [List.filterMap_cons, hp, List.length_cons]
          rw [ih (fun x hx => hP x (List.mem_cons_of_mem _ hx))]
    simp only [hh, Bool.not_true, Bool.false_eq_true, if_false] at h
    by_cases hd : (dedup (candsOf items)).length < items.length
    · simp [hd] at h
    · simp only [hd, if_false] at h
      have hnd : (candsOf items).Nodup := (dedup_length_not_lt_iff _).1 (by rwa [hlen])
      refine ⟨hP, hA, hnd, hN, ?_⟩
      intro hact
      simp only [hact, if_true] at h
      cases hs : sumScores (scoresOf items) with
      | none => rw [hs] at h; cases h
      | some s =>
        rw [hs] at h
        obtain ⟨h1, rfl⟩ := sumScores_eq_some.1 hs
        exact ⟨h1, check_ok_iff.1 h⟩
  · rintro ⟨hP, hA, hnd, hN, hS⟩
    refine ⟨hN, ⟨hP, hA⟩, ?_⟩
    have hh : hashableL (candsOf items) = true :=
      hashableL_iff.2 (fun c hc => nominate_ok_hashable ((nominate_ok_iff_admits _ _).2 (hA c hc)))
    have hlen : (candsOf items).length = items.length := by
      simp only [candsOf, pairsOf, List.length_map]
      clear hh hA hN hnd hS
      induction items with
      | nil => rfl
      | cons it rest ih =>
        have h1 := hP it List.mem_cons_self
        cases hp : it.asPair with
        | none => rw [hp] at h1; cases h1
        | some p =>
          simp only [List.filterMap_cons, hp, List.length_cons]
          rw [ih (fun x hx => hP x (List.mem_cons_of_mem _ hx))]
    have hd : ¬ (dedup (candsOf items)).length < items.length := by
      rw [← hlen]; exact (dedup_length_not_lt_iff _).2 hnd
    simp only [hh, Bool.not_true, Bool.false_eq_true, if_false, hd]
    by_cases hact : (cfg.sum.get items.length).active = true
    · obtain ⟨h1, h2⟩ := hS hact
      have := sumScores_eq_some.2 ⟨h1, rfl⟩
      simp only [hact, if_true, this]
      exact check_ok_iff.2 h2
    · simp [hact]

/-- **Enumerated score votes**, for every value and configuration. -/
theorem validate_iff_valid_enumscore (cfg : EnumCfg) (v : Obj) :
    validateEnumScore cfg v = .ok () ↔ ValidEnumScore cfg v := by
  unfold validateEnumScore
  rw [bind_ok_iff]
  cases v with
  | fset items =>
    simp only [ValidEnumScore, validateScoreBase_iff, forEach_ok_iff]
    constructor
    · rintro ⟨h1, h2⟩
      refine ⟨h1, fun s hs => ?_⟩
      have := h2 s hs
      by_contra hn
      simp [hn] at this
    · rintro ⟨h1, h2⟩
      exact ⟨h1, fun s hs => by simp [h2 s hs]⟩
  | _ => simp [validateScoreBase, ValidEnumScore]

private theorem checkObj_ok_iff (b : Bounds) (s : Obj) : b.checkObj s = .ok () ↔ ScoreInRange b s := by
  unfold ScoreInRange
  cases s with
  | num x =>
    simp only [Bounds.checkObj, check_ok_iff, Obj.isNum, Obj.numVal, true_and]
    constructor
    · intro h _; exact h
    · intro h
      by_cases ha : b.active = true
      · exact h ha
      · obtain ⟨lo, hi⟩ := b
        cases lo <;> cases hi <;> simp_all [Bounds.active]
  | _ =>
    simp only [Bounds.checkObj, Obj.isNum]
    by_cases ha : b.active = true <;> simp [ha]

/-- **Range votes**, for every value and configuration. -/
theorem validate_iff_valid_range (cfg : RangeCfg) (v : Obj) :
    validateRange cfg v = .ok () ↔ ValidRange cfg v := by
  unfold validateRange
  rw [bind_ok_iff]
  cases v with
  | fset items => simp only [ValidRange, validateScoreBase_iff, forEach_ok_iff, checkObj_ok_iff]
  | _ => simp [validateScoreBase, ValidRange]

/-! ## rejections are library errors -/

private theorem library_of_ne (r : Res) (h : r ≠ .error .typeError) :
    r = .ok () ∨ r = .error .voteError ∨ r = .error .candidateError := by
  rcases res_cases r with h1 | ⟨e, h1⟩
  · exact Or.inl h1
  · cases e
    · exact Or.inr (Or.inl h1)
    · exact Or.inr (Or.inr h1)
    · exact absurd h1 h

/-- **Simple votes**: accepted, or CandidateError (every value, every nominator). -/
theorem rejections_are_library_errors_simple (nom : Nominator) (v : Obj) :
    validateSimple nom v = .ok () ∨ validateSimple nom v = .error .candidateError := by
  rcases res_cases (validateSimple nom v) with h | ⟨e, h⟩
  · exact Or.inl h
  · right; rw [h, nominate_err h]

/-- **Approval votes**: accepted, VoteError or CandidateError (every value, every configuration). -/
theorem rejections_are_library_errors_approval (cfg : ApprovalCfg) (v : Obj) :
    validateApproval cfg v = .ok () ∨ validateApproval cfg v = .error .voteError ∨
      validateApproval cfg v = .error .candidateError := by
  apply library_of_ne
  intro h
  cases v with
  | fset xs =>
    simp only [validateApproval] at h
    rcases bind_err_iff.1 h with h1 | ⟨_, h1⟩
    · obtain ⟨x, _, hx⟩ := forEach_err h1
      cases nominate_err hx
    · cases check_err h1
  | _ => simp [validateApproval] at h

/-- **Ranked votes**: accepted, VoteError or CandidateError, for every Python value (`v.wf`: members of a
    real set are hashable) and every configuration.  This is what commit bf6d9dd established: a single
    item at a rank passes the nominator before it is hashed. -/
theorem rejections_are_library_errors_ranked (cfg : RankedCfg) (v : Obj) (hwf : v.wf = true) :
    validateRanked cfg v = .ok () ∨ validateRanked cfg v = .error .voteError ∨
      validateRanked cfg v = .error .candidateError := by
  apply library_of_ne
  intro h
  cases v with
  | tuple items =>
    simp only [validateRanked] at h
    cases hloop : rankedLoop cfg 0 items 0 [] with
    | error e =>
      rw [hloop] at h
      simp only [Except.error.injEq] at h
      subst h
      rcases rankedLoop_err cfg items 0 0 [] _ hloop with h1 | h1 | ⟨_, r, hr, xs, hs, hx⟩
      · cases h1
      · cases h1
      · have hrw : r.wf = true := wfL_iff.1 (by simpa [Obj.wf] using hwf) r hr
        cases r <;> simp only [Obj.asSet, Option.some.injEq, reduceCtorEq] at hs
        all_goals
          subst hs
          simp only [Obj.wf, Bool.and_eq_true] at hrw
          rw [hrw.1.2] at hx
          cases hx
    | ok ta =>
      obtain ⟨t, a⟩ := ta
      rw [hloop] at h
      simp only at h
      rcases bind_err_iff.1 h with h1 | ⟨_, h1⟩
      · cases check_err h1
      · split at h1
        · cases h1
        · obtain ⟨x, _, hx⟩ := forEach_err h1
          cases nominate_err hx
  | _ => simp [validateRanked] at h

/-- a TypeError can only come out of the parent-class check through `sum()` over a non-numeric score
    under an active sum bound -/
theorem scoreBase_typeError (cfg : ScoreCfg) (v : Obj) (h : validateScoreBase cfg v = .error .typeError) :
    ∃ items, v = .fset items ∧ (cfg.sum.get items.length).active = true ∧
      ∃ s ∈ scoresOf items, s.isNum = false := by
  cases v with
  | fset items =>
    refine ⟨items, rfl, ?_⟩
    simp only [validateScoreBase] at h
    rcases bind_err_iff.1 h with h1 | ⟨_, h1⟩
    · cases check_err h1
    · rcases bind_err_iff.1 h1 with h2 | ⟨hok, h2⟩
      · rcases scoreItems_err h2 with h3 | h3 <;> cases h3
      · have hA := (scoreItems_ok_iff_spec.1 hok).2
        have hh : hashableL (candsOf items) = true :=
          hashableL_iff.2 (fun c hc => nominate_ok_hashable ((nominate_ok_iff_admits _ _).2 (hA c hc)))
        simp only [hh, Bool.not_true, Bool.false_eq_true, if_false] at h2
        split at h2
        · cases h2
        · split at h2
          · rename_i hact
            refine ⟨hact, ?_⟩
            cases hs : sumScores (scoresOf items) with
            | none => exact sumScores_eq_none.1 hs
            | some s => rw [hs] at h2; cases check_err h2
          · cases h2
  | _ => simp [validateScoreBase] at h

/-- no score is summed unless it is a number -/
def ScoresNumericWhereSummed (cfg : ScoreCfg) : Obj → Prop
  | .fset items => (cfg.sum.get items.length).active = true → ∀ s ∈ scoresOf items, s.isNum = true
  | _ => True

/-- no score is compared with a range bound unless it is a number -/
def ScoresNumericWhereRanged (b : Bounds) : Obj → Prop
  | .fset items => b.active = true → ∀ s ∈ scoresOf items, s.isNum = true
  | _ => True

/- FULL STATEMENT (false of the code, see the witness):
     theorem rejections_are_library_errors_enumscore (cfg) (v) :
       validateEnumScore cfg v ∈ {ok, error voteError, error candidateError}
   `sum(scoring[1] for scoring in vote)` raises TypeError on a non-numeric score level. -/

/-- **Enumerated score votes**: accepted, VoteError or CandidateError whenever no non-numeric score
    meets an active sum bound. -/
theorem rejections_are_library_errors_enumscore_partial (cfg : EnumCfg) (v : Obj)
    (hnum : ScoresNumericWhereSummed cfg.base v) :
    validateEnumScore cfg v = .ok () ∨ validateEnumScore cfg v = .error .voteError ∨
      validateEnumScore cfg v = .error .candidateError := by
  apply library_of_ne
  intro h
  unfold validateEnumScore at h
  rcases bind_err_iff.1 h with h1 | ⟨_, h1⟩
  · obtain ⟨items, rfl, hact, s, hs, hn⟩ := scoreBase_typeError _ _ h1
    rw [hnum hact s hs] at hn
    cases hn
  · cases v with
    | fset items =>
      simp only at h1
      obtain ⟨s, _, hs⟩ := forEach_err h1
      split at hs <;> cases hs
    | _ => simp at h1

/-- `EnumScoreVoteValidator(['x','y'], sum_bounds=(0,5)).validate(frozenset({('a','x')}))` raises TypeError -/
theorem rejections_are_library_errors_enumscore_witness :
    validateEnumScore ⟨⟨Bounds.none, .all ⟨some 0, some 5⟩, .basic true⟩, [.str 6, .str 7]⟩
      (.fset [.tuple [.str 0, .str 6]]) = .error .typeError := by
  decide +kernel

/- FULL STATEMENT (false of the code, see the witness):
     theorem rejections_are_library_errors_range (cfg) (v) :
       validateRange cfg v ∈ {ok, error voteError, error candidateError}
   `value >= self.min_value` raises TypeError on a non-numeric score. -/

/-- **Range votes**: accepted, VoteError or CandidateError whenever no non-numeric score meets an
    active sum or range bound. -/
theorem rejections_are_library_errors_range_partial (cfg : RangeCfg) (v : Obj)
    (hsum : ScoresNumericWhereSummed cfg.base v) (hrange : ScoresNumericWhereRanged cfg.range v) :
    validateRange cfg v = .ok () ∨ validateRange cfg v = .error .voteError ∨
      validateRange cfg v = .error .candidateError := by
  apply library_of_ne
  intro h
  unfold validateRange at h
  rcases bind_err_iff.1 h with h1 | ⟨_, h1⟩
  · obtain ⟨items, rfl, hact, s, hs, hn⟩ := scoreBase_typeError _ _ h1
    rw [hsum hact s hs] at hn
    cases hn
  · cases v with
    | fset items =>
      simp only at h1
      obtain ⟨s, hs, he⟩ := forEach_err h1
      cases s with
      | num x => cases check_err (by simpa [Bounds.checkObj] using he)
      | _ =>
        simp only [Bounds.checkObj] at he
        split at he
        · rename_i hact
          have := hrange hact _ hs
          simp [Obj.isNum] at this
        · cases he
    | _ => simp at h1

/-- `RangeVoteValidator(range=(0,5)).validate(frozenset({('a','x')}))` raises TypeError -/
theorem rejections_are_library_errors_range_witness :
    validateRange ⟨⟨Bounds.none, .all Bounds.none, .basic true⟩, ⟨some 0, some 5⟩⟩
      (.fset [.tuple [.str 0, .str 6]]) = .error .typeError := by
  decide +kernel

/-! ## the invalid-vote filter -/

/-- validity under any of the five validators -/
def Valid : Validator → Obj → Prop
  | .simple nom => ValidSimple nom
  | .approval cfg => ValidApproval cfg
  | .ranked cfg => ValidRanked cfg
  | .enumScore cfg => ValidEnumScore cfg
  | .range cfg => ValidRange cfg

instance (val : Validator) (v : Obj) : Decidable (Valid val v) := by
  cases val <;> unfold Valid <;> (unfold ValidSimple; infer_instance)

private theorem noMset_of_hashable (v : Obj) (h : v.hashable = true) : NoMutableSetRank v := by
  cases v with
  | tuple ranks =>
    intro r hr
    have := hashableL_iff.1 (by simpa [Obj.hashable] using h) _ hr
    cases r <;> first | rfl | (simp [Obj.hashable] at this)
  | _ => trivial

/-- for every hashable Python value (everything that can be a dictionary key) each of the five validators
    accepts exactly the valid ballots -/
theorem validate_iff_valid_key (val : Validator) (v : Obj) (hwf : v.wf = true) (hh : v.hashable = true) :
    val.validate v = .ok () ↔ Valid val v := by
  cases val with
  | simple nom => exact validate_iff_valid_simple nom v
  | approval cfg => exact validate_iff_valid_approval cfg v hwf
  | ranked cfg => exact validate_iff_valid_ranked_partial cfg v (noMset_of_hashable v hh)
  | enumScore cfg => exact validate_iff_valid_enumscore cfg v
  | range cfg => exact validate_iff_valid_range cfg v

/-- a dictionary of ballots: keys are real hashable Python values -/
def KeysWF (votes : List (Obj × Rat)) : Prop := ∀ p ∈ votes, p.1.wf = true ∧ p.1.hashable = true

/-- **Whenever the filter returns**, it has removed exactly the invalid ballots; the others keep their
    order and their counts. -/
theorem eliminator_ok_removes_exactly_rejected (val : Validator) (votes out : List (Obj × Rat))
    (hk : KeysWF votes) (h : eliminate val.validate votes = .ok out) :
    out = votes.filter (fun p => decide (Valid val p.1)) := by
  rw [(eliminate_ok h).1]
  apply List.filter_congr
  intro p hp
  have := validate_iff_valid_key val p.1 (hk p hp).1 (hk p hp).2
  simp only [this]

/- FULL STATEMENT (false of the code, see the witness):
     theorem eliminator_removes_exactly_rejected (val) (votes) (hk : KeysWF votes) :
       eliminate val.validate votes = .ok (votes.filter (fun p => Valid val p.1))
   InvalidVoteEliminator.convert catches `VoteError` only: a ballot rejected with CandidateError (or
   leaking a TypeError) makes the whole conversion raise. -/

/-- **The filter removes exactly the rejected ballots and keeps all counts** whenever no ballot is
    rejected with a CandidateError or leaks a TypeError. -/
theorem eliminator_removes_exactly_rejected_partial (val : Validator) (votes : List (Obj × Rat))
    (hk : KeysWF votes)
    (hlib : ∀ p ∈ votes, val.validate p.1 ≠ .error .candidateError ∧ val.validate p.1 ≠ .error .typeError) :
    eliminate val.validate votes = .ok (votes.filter (fun p => decide (Valid val p.1))) := by
  have h : ∀ p ∈ votes, val.validate p.1 = .ok () ∨ val.validate p.1 = .error .voteError := by
    intro p hp
    rcases library_of_ne _ (hlib p hp).2 with h1 | h1 | h1
    · exact Or.inl h1
    · exact Or.inr h1
    · exact absurd h1 (hlib p hp).1
  have h2 := eliminate_of_library_errors h
  rw [h2]
  exact congrArg _ (eliminator_ok_removes_exactly_rejected val votes _ hk h2)

/-- when the filter raises, the exception is the CandidateError / TypeError of one of the ballots -/
theorem eliminator_raises_only_escaped_errors (val : Validator) (votes : List (Obj × Rat)) (e : Rej)
    (h : eliminate val.validate votes = .error e) :
    ∃ p ∈ votes, val.validate p.1 = .error e ∧ (e = .candidateError ∨ e = .typeError) := by
  obtain ⟨p, hp, h1, h2⟩ := eliminate_err h
  refine ⟨p, hp, h1, ?_⟩
  cases e
  · exact absurd rfl h2
  · exact Or.inl rfl
  · exact Or.inr rfl

/-- `InvalidVoteEliminator(SimpleVoteValidator(PersonNominator())).convert({Person('I0'): 2, 'a': 1})`
    raises CandidateError instead of returning `{Person('I0'): 2}` -/
theorem eliminator_removes_exactly_rejected_witness :
    eliminate (Validator.simple (.person true true)).validate [(.cand .personIndep 0, 2), (.str 0, 1)]
        = .error .candidateError
    ∧ [(Obj.cand .personIndep 0, (2 : Rat)), (.str 0, 1)].filter
        (fun p => decide (Valid (Validator.simple (.person true true)) p.1)) = [(.cand .personIndep 0, 2)] := by
  decide +kernel

/-- the kept ballots are a sub-dictionary of the input: same order, same counts -/
theorem eliminator_keeps_counts (val : Validator) (votes out : List (Obj × Rat))
    (h : eliminate val.validate votes = .ok out) : out.Sublist votes := by
  rw [(eliminate_ok h).1]
  exact List.filter_sublist

/-- a consequence of the filter catching `VoteError` only: wrapped around a SimpleVoteValidator (whose only
    rejection is a CandidateError) it can never remove anything — it returns the input or raises -/
theorem eliminator_simple_never_removes (nom : Nominator) (votes out : List (Obj × Rat))
    (h : eliminate (Validator.simple nom).validate votes = .ok out) : out = votes := by
  obtain ⟨h1, h2⟩ := eliminate_ok h
  rw [h1, List.filter_eq_self]
  intro p hp
  rcases h2 p hp with h3 | h3
  · exact decide_eq_true h3
  · rcases rejections_are_library_errors_simple nom p.1 with h4 | h4
    · exact decide_eq_true (show (Validator.simple nom).validate p.1 = .ok () from h4)
    · simp only [Validator.validate] at h3
      rw [h3] at h4
      cases h4

/-- non-vacuity of the eliminator theorems: a dictionary of three ranked ballots (keys well-formed and
    hashable, none rejected with a CandidateError), of which exactly the invalid one is removed -/
example :
    KeysWF [(.tuple [.str 0, .str 1], 3), (.tuple [.str 0, .str 0], 5), (.tuple [.fset [.str 2, .str 3]], 7/2)] ∧
    (∀ p ∈ [(Obj.tuple [.str 0, .str 1], (3 : Rat)), (.tuple [.str 0, .str 0], 5), (.tuple [.fset [.str 2, .str 3]], 7/2)],
      (Validator.ranked ⟨Bounds.none, .all ⟨some 1, some 2⟩, .basic true⟩).validate p.1 ≠ .error .candidateError ∧
      (Validator.ranked ⟨Bounds.none, .all ⟨some 1, some 2⟩, .basic true⟩).validate p.1 ≠ .error .typeError) ∧
    eliminate (Validator.ranked ⟨Bounds.none, .all ⟨some 1, some 2⟩, .basic true⟩).validate
      [(.tuple [.str 0, .str 1], 3), (.tuple [.str 0, .str 0], 5), (.tuple [.fset [.str 2, .str 3]], 7/2)]
      = .ok [(.tuple [.str 0, .str 1], 3), (.tuple [.fset [.str 2, .str 3]], 7/2)] := by
  unfold KeysWF
  decide +kernel

/-! ## which error class comes out, and exactly when a TypeError leaks -/

/-- approval votes: CandidateError iff a frozenset with a member that is not admitted (the nominator is
    consulted before the count) -/
theorem approval_candidateError_iff (cfg : ApprovalCfg) (v : Obj) :
    validateApproval cfg v = .error .candidateError ↔
      ∃ xs, v = .fset xs ∧ ∃ c ∈ xs, ¬ Admits cfg.nom c := by
  cases v with
  | fset xs =>
    simp only [validateApproval, Obj.fset.injEq, exists_eq_left']
    rw [bind_err_iff]
    constructor
    · rintro (h | ⟨_, h⟩)
      · obtain ⟨x, hx, he⟩ := forEach_err h
        exact ⟨x, hx, fun ha => by rw [(nominate_ok_iff_admits _ _).2 ha] at he; cases he⟩
      · cases check_err h
    · rintro ⟨c, hc, hn⟩
      left
      rcases res_cases (forEach (nominate cfg.nom) xs) with h | ⟨e, h⟩
      · exact absurd ((nominate_ok_iff_admits _ _).1 (forEach_ok_iff.1 h c hc)) hn
      · obtain ⟨x, _, he⟩ := forEach_err h
        rw [h, nominate_err he]
  | _ => simp [validateApproval]

/-- approval votes: VoteError iff not a frozenset, or all members admitted and the count out of bounds -/
theorem approval_voteError_iff (cfg : ApprovalCfg) (v : Obj) :
    validateApproval cfg v = .error .voteError ↔
      (∀ xs, v ≠ .fset xs) ∨ ∃ xs, v = .fset xs ∧ (∀ c ∈ xs, Admits cfg.nom c) ∧ ¬ Within cfg.count xs.length := by
  cases v with
  | fset xs =>
    simp only [validateApproval, ne_eq, Obj.fset.injEq, forall_eq', false_or, exists_eq_left']
    rw [bind_err_iff, forEach_ok_iff]
    simp only [nominate_ok_iff_admits]
    constructor
    · rintro (h | ⟨h1, h⟩)
      · obtain ⟨x, _, he⟩ := forEach_err h
        cases nominate_err he
      · exact ⟨h1, fun hw => by rw [check_ok_iff.2 hw] at h; cases h⟩
    · rintro ⟨h1, h2⟩
      right
      refine ⟨h1, ?_⟩
      rcases res_cases (cfg.count.check (xs.length : Nat)) with h | ⟨e, h⟩
      · exact absurd (check_ok_iff.1 h) h2
      · rw [h, check_err h]
  | _ => simp [validateApproval]

/-- **exactly when** the parent-class check of the score validators leaks a TypeError: the ballot passes
    every earlier check (count, pair shape, nominator, duplicates), a sum bound is configured for this number
    of scorings, and some score is not a number -/
theorem scoreBase_typeError_iff (cfg : ScoreCfg) (v : Obj) :
    validateScoreBase cfg v = .error .typeError ↔
      ∃ items, v = .fset items ∧ Within cfg.nScorings items.length ∧
        (∀ it ∈ items, it.asPair.isSome = true) ∧ (∀ c ∈ candsOf items, Admits cfg.nom c) ∧
        (candsOf items).Nodup ∧ (cfg.sum.get items.length).active = true ∧
        ∃ s ∈ scoresOf items, s.isNum = false := by
  constructor
  · intro h
    obtain ⟨items, rfl, hact, hs⟩ := scoreBase_typeError cfg v h
    refine ⟨items, rfl, ?_⟩
    -- the same ballot under the configuration without sum bounds is accepted
    have hok : validateScoreBase ⟨cfg.nScorings, .all Bounds.none, cfg.nom⟩ (.fset items) = .ok () := by
      simp only [validateScoreBase] at h ⊢
      rcases bind_err_iff.1 h with h1 | ⟨h0, h1⟩
      · cases check_err h1
      · rcases bind_err_iff.1 h1 with h2 | ⟨h00, h2⟩
        · rcases scoreItems_err h2 with h3 | h3 <;> cases h3
        · rw [bind_ok_iff, bind_ok_iff]
          refine ⟨h0, h00, ?_⟩
          split at h2
          · rename_i hh; simp only [hh, if_true]; exact absurd h2 (by
              have hA := (scoreItems_ok_iff_spec.1 h00).2
              have : hashableL (candsOf items) = true :=
                hashableL_iff.2 (fun c hc => nominate_ok_hashable ((nominate_ok_iff_admits _ _).2 (hA c hc)))
              simp [this] at hh)
          · rename_i hh
            simp only [hh]
            split at h2
            · cases h2
            · rename_i hd
              simp [hd, BoundMap.get, Bounds.active, Bounds.none]
    obtain ⟨hP, hA, hnd, hN, _⟩ := (validateScoreBase_iff _ items).1 hok
    exact ⟨hN, hP, hA, hnd, hact, hs⟩
  · rintro ⟨items, rfl, hN, hP, hA, hnd, hact, s, hs, hn⟩
    have hh : hashableL (candsOf items) = true :=
      hashableL_iff.2 (fun c hc => nominate_ok_hashable ((nominate_ok_iff_admits _ _).2 (hA c hc)))
    have hok : validateScoreBase ⟨cfg.nScorings, .all Bounds.none, cfg.nom⟩ (.fset items) = .ok () :=
      (validateScoreBase_iff _ items).2 ⟨hP, hA, hnd, hN, fun h => by simp [BoundMap.get, Bounds.active, Bounds.none] at h⟩
    simp only [validateScoreBase] at hok ⊢
    rw [bind_ok_iff, bind_ok_iff] at hok
    obtain ⟨h0, h00, h2⟩ := hok
    rw [bind_err_iff]; right; refine ⟨h0, ?_⟩
    rw [bind_err_iff]; right; refine ⟨h00, ?_⟩
    simp only [hh, Bool.not_true, Bool.false_eq_true, if_false] at h2 ⊢
    split at h2
    · cases h2
    · rename_i hd
      simp only [hd, if_false, hact, if_true]
      rw [sumScores_eq_none.2 ⟨s, hs, hn⟩]

/-- the enumerated-score validator leaks a TypeError exactly when its parent-class check does -/
theorem enumscore_typeError_iff (cfg : EnumCfg) (v : Obj) :
    validateEnumScore cfg v = .error .typeError ↔ validateScoreBase cfg.base v = .error .typeError := by
  unfold validateEnumScore
  rw [bind_err_iff]
  constructor
  · rintro (h | ⟨_, h⟩)
    · exact h
    · cases v with
      | fset items =>
        simp only at h
        obtain ⟨s, _, hs⟩ := forEach_err h
        split at hs <;> cases hs
      | _ => simp at h
  · exact Or.inl

/-! ## acceptance does not depend on the iteration order of a set -/

theorem valid_approval_perm (cfg : ApprovalCfg) {xs ys : List Obj} (h : xs.Perm ys) :
    ValidApproval cfg (.fset xs) ↔ ValidApproval cfg (.fset ys) := by
  simp only [ValidApproval, h.mem_iff, h.nodup_iff, h.length_eq]

theorem validScoreBase_perm (cfg : ScoreCfg) {xs ys : List Obj} (h : xs.Perm ys) :
    ValidScoreBase cfg xs ↔ ValidScoreBase cfg ys := by
  have hp : (pairsOf xs).Perm (pairsOf ys) := h.filterMap _
  have hc : (candsOf xs).Perm (candsOf ys) := hp.map _
  have hs : (scoresOf xs).Perm (scoresOf ys) := hp.map _
  have hsum : ((scoresOf xs).map Obj.numVal).sum = ((scoresOf ys).map Obj.numVal).sum := (hs.map _).sum_eq
  simp only [ValidScoreBase, h.mem_iff, hc.mem_iff, hc.nodup_iff, h.length_eq, hs.mem_iff, hsum]

theorem valid_enumscore_perm (cfg : EnumCfg) {xs ys : List Obj} (h : xs.Perm ys) :
    ValidEnumScore cfg (.fset xs) ↔ ValidEnumScore cfg (.fset ys) := by
  have hs : (scoresOf xs).Perm (scoresOf ys) := (h.filterMap _).map _
  simp only [ValidEnumScore, validScoreBase_perm cfg.base h, hs.mem_iff]

theorem valid_range_perm (cfg : RangeCfg) {xs ys : List Obj} (h : xs.Perm ys) :
    ValidRange cfg (.fset xs) ↔ ValidRange cfg (.fset ys) := by
  have hs : (scoresOf xs).Perm (scoresOf ys) := (h.filterMap _).map _
  simp only [ValidRange, validScoreBase_perm cfg.base h, hs.mem_iff]

/-- hence the verdict of the score validators is the same whatever order the hash table yields (only the
    class of the error of a rejected ballot can depend on it) -/
theorem accept_order_independent (cfg : RangeCfg) (ecfg : EnumCfg) {xs ys : List Obj} (h : xs.Perm ys) :
    (validateRange cfg (.fset xs) = .ok () ↔ validateRange cfg (.fset ys) = .ok ()) ∧
    (validateEnumScore ecfg (.fset xs) = .ok () ↔ validateEnumScore ecfg (.fset ys) = .ok ()) := by
  simp only [validate_iff_valid_range, validate_iff_valid_enumscore, valid_range_perm cfg h,
    valid_enumscore_perm ecfg h, and_self]

/-- non-vacuity: the error class does depend on the order — a non-tuple item and a non-admitted candidate -/
example :
    validateRange ⟨⟨Bounds.none, .all Bounds.none, .basic true⟩, Bounds.none⟩
      (.fset [.str 0, .tuple [.num 1, .num 1]]) = .error .voteError ∧
    validateRange ⟨⟨Bounds.none, .all Bounds.none, .basic true⟩, Bounds.none⟩
      (.fset [.tuple [.num 1, .num 1], .str 0]) = .error .candidateError := by decide +kernel

/-- non-vacuity of the score theorems: a valid range ballot on both boundaries of range and sum, an
    invalid one (sum one half above), and the hypotheses of the `_partial` theorems -/
example :
    ValidRange ⟨⟨⟨some 2, some 2⟩, .byKey [(2, ⟨some 0, some (7/2)⟩)], .basic true⟩, ⟨some 0, some 3⟩⟩
      (.fset [.tuple [.str 0, .num 3], .tuple [.str 1, .num (1/2)]]) ∧
    ¬ ValidRange ⟨⟨⟨some 2, some 2⟩, .byKey [(2, ⟨some 0, some (7/2)⟩)], .basic true⟩, ⟨some 0, some 3⟩⟩
      (.fset [.tuple [.str 0, .num 3], .tuple [.str 1, .num 1]]) ∧
    ValidEnumScore ⟨⟨Bounds.none, .all Bounds.none, .party false true⟩, [.str 8, .str 9]⟩
      (.fset [.tuple [.cand .party 0, .str 8], .tuple [.cand .blank 0, .str 9]]) := by decide +kernel

instance (cfg : ScoreCfg) (v : Obj) : Decidable (ScoresNumericWhereSummed cfg v) := by
  unfold ScoresNumericWhereSummed; split <;> infer_instance
instance (b : Bounds) (v : Obj) : Decidable (ScoresNumericWhereRanged b v) := by
  unfold ScoresNumericWhereRanged; split <;> infer_instance

example :
    ScoresNumericWhereSummed ⟨Bounds.none, .all ⟨some 0, some 5⟩, .basic true⟩
      (.fset [.tuple [.str 0, .num 3], .tuple [.str 1, .num 4]]) ∧
    ScoresNumericWhereRanged ⟨some 0, some 3⟩ (.fset [.tuple [.str 0, .num 3], .tuple [.str 1, .num 4]]) ∧
    validateRange ⟨⟨Bounds.none, .all ⟨some 0, some 5⟩, .basic true⟩, ⟨some 0, some 3⟩⟩
      (.fset [.tuple [.str 0, .num 3], .tuple [.str 1, .num 4]]) = .error .voteError ∧
    (Obj.tuple [.fset [.str 0, .list [.str 1]]]).wf = false ∧
    (Obj.tuple [.fset [.str 0, .tuple [.str 1]], .mset [.str 2], .list [.str 3]]).wf = true := by decide +kernel

/-- **exactly when** the range validator leaks a TypeError: its parent-class check does, or that check
    passes, a score range is configured, and in iteration order the first score that is not a number
    within the range is not a number at all -/
theorem range_typeError_iff (cfg : RangeCfg) (v : Obj) :
    validateRange cfg v = .error .typeError ↔
      validateScoreBase cfg.base v = .error .typeError ∨
      ∃ items, v = .fset items ∧ ValidScoreBase cfg.base items ∧ cfg.range.active = true ∧
        ∃ pre s post, scoresOf items = pre ++ s :: post ∧ (∀ y ∈ pre, ScoreInRange cfg.range y) ∧
          s.isNum = false := by
  unfold validateRange
  rw [bind_err_iff]
  apply or_congr Iff.rfl
  cases v with
  | fset items =>
    simp only [validateScoreBase_iff, Obj.fset.injEq, exists_eq_left', forEach_err_iff, checkObj_ok_iff]
    constructor
    · rintro ⟨hb, pre, s, post, he, h1, h2⟩
      refine ⟨hb, ?_, pre, s, post, he, h1, ?_⟩
      · cases s with
        | num x => cases check_err (by simpa [Bounds.checkObj] using h2)
        | _ => simp only [Bounds.checkObj] at h2; split at h2 <;> first | assumption | cases h2
      · cases s with
        | num x => cases check_err (by simpa [Bounds.checkObj] using h2)
        | _ => rfl
    · rintro ⟨hb, hact, pre, s, post, he, h1, h2⟩
      refine ⟨hb, pre, s, post, he, h1, ?_⟩
      cases s with
      | num x => simp [Obj.isNum] at h2
      | _ => simp [Bounds.checkObj, hact]
  | _ => simp [validateScoreBase]

/-! ### ranked votes: the order inside a shared rank is immaterial -/

/-- two ranks that differ at most in the iteration order of a set -/
inductive RankPerm : Obj → Obj → Prop
  | refl (r : Obj) : RankPerm r r
  | fset {xs ys : List Obj} : xs.Perm ys → RankPerm (.fset xs) (.fset ys)
  | mset {xs ys : List Obj} : xs.Perm ys → RankPerm (.mset xs) (.mset ys)

private theorem rankPerm_cands {r r' : Obj} (h : RankPerm r r') :
    (rankCandsAnySet r).Perm (rankCandsAnySet r') := by
  cases h with
  | refl => exact List.Perm.refl _
  | fset h => exact h
  | mset h => exact h

private theorem rankPerm_flat {rs rs' : List Obj} (h : List.Forall₂ RankPerm rs rs') :
    (rs.flatMap rankCandsAnySet).Perm (rs'.flatMap rankCandsAnySet) := by
  induction h with
  | nil => exact List.Perm.refl _
  | cons h _ ih =>
    simp only [List.flatMap_cons]
    exact (rankPerm_cands h).append ih

private theorem rankPerm_ranks {rs rs' : List Obj} (h : List.Forall₂ RankPerm rs rs')
    (P : Nat → Nat → Prop) (i : Nat) :
    (∀ p ∈ rs.zipIdx i, P p.2 (rankCandsAnySet p.1).length) ↔
      (∀ p ∈ rs'.zipIdx i, P p.2 (rankCandsAnySet p.1).length) := by
  induction h generalizing i with
  | nil => simp
  | cons h _ ih =>
    simp only [List.zipIdx_cons, List.mem_cons, forall_eq_or_imp, (rankPerm_cands h).length_eq, ih (i + 1)]

theorem valid_ranked_perm (cfg : RankedCfg) {rs rs' : List Obj} (h : List.Forall₂ RankPerm rs rs') :
    ValidRankedAnySet cfg (.tuple rs) ↔ ValidRankedAnySet cfg (.tuple rs') := by
  have hf := rankPerm_flat h
  have hr := rankPerm_ranks h (fun i n => Within (cfg.rank.get (i + 1)) (n : Nat)) 0
  simp only [ValidRankedAnySet, ValidRankedWith, hf.mem_iff, hf.nodup_iff, hf.length_eq]
  exact and_congr Iff.rfl (and_congr Iff.rfl (and_congr Iff.rfl hr))

/-- the verdict on a ranked ballot does not depend on the iteration order of its shared ranks -/
theorem accept_ranked_order_independent (cfg : RankedCfg) {rs rs' : List Obj}
    (h : List.Forall₂ RankPerm rs rs') :
    validateRanked cfg (.tuple rs) = .ok () ↔ validateRanked cfg (.tuple rs') = .ok () := by
  rw [validate_iff_valid_ranked_anyset, validate_iff_valid_ranked_anyset, valid_ranked_perm cfg h]

/-! ## sanity of the rule itself -/

/-- with the constructor defaults (no total bound, exactly one candidate per rank, basic nominator) a
    tuple of names is a valid ranked vote iff no name repeats — and that is what the validator accepts -/
theorem ranked_default_names (names : List Nat) :
    validateRanked ⟨Bounds.none, .all ⟨some 1, some 1⟩, .basic true⟩ (.tuple (names.map .str)) = .ok ()
      ↔ names.Nodup := by
  rw [validate_iff_valid_ranked_partial _ _ (by
    simp only [NoMutableSetRank, List.mem_map]
    rintro r ⟨n, _, rfl⟩; rfl)]
  have hflat : (names.map Obj.str).flatMap rankCands = names.map Obj.str := by
    induction names with
    | nil => rfl
    | cons n ns ih => simp only [List.map_cons, List.flatMap_cons, rankCands, ih, List.singleton_append]
  have hinj : Function.Injective Obj.str := fun a b h => by cases h; rfl
  simp only [ValidRanked, ValidRankedWith, hflat, List.nodup_map_iff hinj]
  constructor
  · exact fun h => h.2.1
  · intro h
    refine ⟨?_, h, ?_, ?_⟩
    · intro c hc
      obtain ⟨n, _, rfl⟩ := List.mem_map.1 hc
      trivial
    · simp [Within, Bounds.none]
    · intro p hp
      obtain ⟨n, _, hn⟩ := List.mem_map.1 (List.fst_mem_of_mem_zipIdx hp)
      rw [← hn]
      simp [Within, BoundMap.get, rankCands]

/-- an approval vote for a set of distinct names is accepted iff their number is within the bounds -/
theorem approval_names (lo hi : Option Rat) (names : List Nat) :
    validateApproval ⟨⟨lo, hi⟩, .basic true⟩ (.fset (names.map .str)) = .ok ()
      ↔ (∀ l ∈ lo, l ≤ names.length) ∧ (∀ h ∈ hi, (names.length : Rat) ≤ h) := by
  have hinj : Function.Injective Obj.str := fun a b h => by cases h; rfl
  simp only [validateApproval]
  rw [bind_ok_iff, forEach_ok_iff, check_ok_iff]
  simp only [List.mem_map, forall_exists_index, and_imp, forall_apply_eq_imp_iff₂, List.length_map]
  constructor
  · exact fun h => h.2
  · exact fun h => ⟨fun n _ => by simp [nominate, Obj.isStr, Obj.isBlank], h⟩

end VL.C20
