/-
  C11 — Exact arithmetic: outcomes invariant under vote scaling, even beyond 2^53.
  Property theorems only.  Every theorem is for ALL inputs of the respective model and for ALL positive rational factors
  `k` (not only the integers of the statement); the score family, whose ballot counts are Python ints, for all positive
  natural factors.  The models compute over `Rat`, i.e. exactly.  Statement form: `eval (scale k input) = eval input`,
  refusals included.

  Families (model owner): plurality / get_n_best, QuotaSelector (C09); divisor methods (C01); RelativeThreshold (C16);
  QuotaDistributor, LargestRemainder with homogeneous quotas (C02); the converters as linear maps, positional rules and
  approval voting as converter ∘ plurality (C13); every entry of condorcet.EVALUATORS, Condorcet winner / Smith / Schwartz,
  Benham, Tideman alternative (C05/C06); PAV, SPAV, ScoreVoting, MajorityJudgment-plus, STAR (C12); Bucklin, one seat (C17);
  STV-Gregory with a homogeneous quota (C03).  The compositions `PreConverted(converter, evaluator)` of the family table are
  defined in VotelibModel/ScaleFamilies.lean.  Proof technique: a simulation relation `state₂ = k • state₁` preserved by
  every step (Lemmas/Scale*.lean, Lemmas/HAScale.lean) + `getNBest` depends on the order of the values only (C09).
  PreferenceAddition (Bucklin / Oklahoma, any coefficients, any number of seats) and Baldwin: the n-seat models of the C08
  extension (VotelibModel/ShapeSequential.lean).
  Not proved (listed in the evidence as `unproved`): only MajorityJudgment with the default tie-break, which is scale
  DEPENDENT (open finding).
-/
import VotelibProofs.Props.C09
import VotelibProofs.Lemmas.HAScale
import VotelibProofs.Lemmas.ScaleThreshold
import VotelibProofs.Lemmas.ScaleQuota
import VotelibProofs.Lemmas.ScaleConvert
import VotelibProofs.Lemmas.ScaleRanked
import VotelibProofs.Lemmas.ScaleApproval
import VotelibProofs.Lemmas.ScaleStar
import VotelibProofs.Lemmas.ScaleBucklin
import VotelibProofs.Lemmas.ScaleSTV
import VotelibProofs.Lemmas.ScaleSequential
import VotelibProofs.Lemmas.ScalePure
import VotelibModel.ScaleFamilies
import VotelibModel.Gen.Quota
import Mathlib.Tactic.Ring
import Mathlib.Tactic.FieldSimp
namespace VL.C11
open VL

/-- **Plurality / get_n_best.**  Scaling all values by a positive factor does not change the result. -/
theorem getNBest_scale (k : Rat) (hk : 0 < k) (votes : Votes) (n : Nat) :
    getNBest (scaleVotes k votes) n = getNBest votes n :=
  VL.C09.getNBest_strictMono_map (fun x => k * x) (fun _ _ h => mul_lt_mul_of_pos_left h hk) votes n

theorem plurality_scale (k : Rat) (hk : 0 < k) (votes : Votes) (n : Nat) :
    plurality (scaleVotes k votes) n = plurality votes n := getNBest_scale k hk votes n

/-- **All divisor methods.**  (`VL.highestAverages_scale`, by simulation of the loop.) -/
theorem highestAverages_scale (cfg : HACfg) (k : Rat) (hk : 0 < k) :
    highestAverages (cfg.scale k) = highestAverages cfg := VL.highestAverages_scale cfg k hk

theorem sumVals_scale (k : Rat) (votes : Votes) : sumVals (scaleVotes k votes) = k * sumVals votes := by
  unfold sumVals scaleVotes
  have : ∀ (l : Votes) (a : Rat), List.foldl (fun acc p => acc + p.2) (k * a) (l.map (fun p => (p.1, k * p.2)))
      = k * List.foldl (fun acc p => acc + p.2) a l := by
    intro l
    induction l with
    | nil => intro a; rfl
    | cons x xs ih => intro a; simp only [List.map_cons, List.foldl_cons]; rw [← mul_add, ih]
  have h0 := this votes 0
  rw [mul_zero] at h0
  exact h0

/-- a quota rule is *homogeneous* when scaling the total scales the quota -/
def Homogeneous (quota : Rat → Nat → Rat) : Prop := ∀ (k V : Rat) (n : Nat), quota (k * V) n = k * quota V n

theorem hare_homogeneous : Homogeneous Gen.Quota.hare := by
  intro k V n; unfold Gen.Quota.hare; rw [mul_div_assoc]
theorem hagenbach_bischoff_homogeneous : Homogeneous Gen.Quota.hagenbach_bischoff := by
  intro k V n; unfold Gen.Quota.hagenbach_bischoff; rw [mul_div_assoc]
theorem imperiali_homogeneous : Homogeneous Gen.Quota.imperiali := by
  intro k V n; unfold Gen.Quota.imperiali; rw [mul_div_assoc]

/-- **Quota selector with an exact (homogeneous) quota** is scale invariant. -/
theorem quotaSelector_scale (quota : Rat → Nat → Rat) (hq : Homogeneous quota) (eq : Bool) (om : OnMore)
    (k : Rat) (hk : 0 < k) (votes : Votes) (n : Nat) :
    quotaSelector quota eq om (scaleVotes k votes) n = quotaSelector quota eq om votes n := by
  have hk0 : k ≠ 0 := ne_of_gt hk
  unfold quotaSelector
  simp only [sumVals_scale, hq k]
  have hfilter : (scaleVotes k votes).filter (fun p => decide (p.2 > k * quota (sumVals votes) n) ||
        (eq && decide (p.2 = k * quota (sumVals votes) n)))
      = scaleVotes k (votes.filter (fun p => decide (p.2 > quota (sumVals votes) n) ||
        (eq && decide (p.2 = quota (sumVals votes) n)))) := by
    unfold scaleVotes
    rw [List.filter_map]
    congr 1
    apply List.filter_congr
    intro p _
    simp only [Function.comp, gt_iff_lt, mul_lt_mul_iff_right₀ hk, mul_right_inj' hk0]
  rw [hfilter]
  simp only [scaleVotes, List.length_map]
  have := getNBest_scale k hk (votes.filter (fun p => decide (p.2 > quota (sumVals votes) n) ||
        (eq && decide (p.2 = quota (sumVals votes) n)))) n
  unfold scaleVotes at this
  rw [this]

/-- **RelativeThreshold** (threshold.py L77-92), for ANY rational threshold `t` — 1/20, the exact value of the double
    0.05 (3602879701896397/2^56) or of `Decimal('.05')`: shares are ratios of two vote quantities.  Includes the refusal
    (`ZeroDivisionError` on a zero total) — it is the same refusal on both sides. -/
theorem relativeThreshold_scale (t : Rat) (eq : Bool) (k : Rat) (hk : 0 < k) (votes : Votes) :
    relativeThreshold t eq (scaleVotes k votes) = relativeThreshold t eq votes :=
  VL.Scale.relativeThreshold_scale t eq k hk votes

/-- **QuotaDistributor with an exact (homogeneous) quota** — every `accept_equal`, every over-award policy (the
    'subtract' remainders scale by `k`), any `prev_gains` and `max_seats`. -/
theorem quotaDistributor_scale (cfg : QD.Cfg) (hq : Homogeneous cfg.quota) (k : Rat) (hk : 0 < k) (votes : Votes)
    (n : Nat) (prev maxS : QD.IMap) :
    QD.quotaDistribute cfg (scaleVotes k votes) n prev maxS = QD.quotaDistribute cfg votes n prev maxS :=
  VL.Scale.quotaDistribute_scale cfg hq k hk votes n prev maxS

/-- **LargestRemainder with an exact (homogeneous) quota** (hare, hagenbach_bischoff, imperiali): the whole quotas
    `int(kv/(kq))` and the remainders `kv/(kq) - gained` are literally unchanged. -/
theorem largestRemainder_scale (cfg : QD.Cfg) (hq : Homogeneous cfg.quota) (k : Rat) (hk : 0 < k) (votes : Votes)
    (n : Nat) (prev maxS : QD.IMap) :
    QD.largestRemainder cfg (scaleVotes k votes) n prev maxS = QD.largestRemainder cfg votes n prev maxS :=
  VL.Scale.largestRemainder_scale cfg hq k hk votes n prev maxS

/-! ### converters are linear; positional rules and approval voting = converter ∘ plurality -/

/-- scaling of the weights of a profile of any ballot type (`VL.Scale.scaleD`) -/
abbrev scaleProfile {κ : Type} (k : Rat) (p : Convert.Dict κ) : Convert.Dict κ := VL.Scale.scaleD k p

/-- **RankedToPositionalVotes is linear** (every scorer; a refusal is the same refusal): same keys in the same order,
    every value multiplied by `k`. -/
theorem rankedToPositional_linear (sc : Convert.Scorer) (k : Rat) (hk : 0 < k) (p : Convert.RProfile) :
    Convert.rankedToPositional sc (scaleProfile k p) = (Convert.rankedToPositional sc p).map (scaleVotes k) :=
  VL.Scale.rankedToPositional_scale sc k hk p

/-- **ApprovalToSimpleVotes is linear** (split and unsplit) — for every rational `k`, even non-positive. -/
theorem approvalToSimple_linear (split : Bool) (k : Rat) (p : Convert.AProfile) :
    Convert.approvalToSimple split (scaleProfile k p) = (Convert.approvalToSimple split p).map (scaleVotes k) :=
  VL.Scale.approvalToSimple_scale split k p

/-- **RankedToCondorcetVotes is linear** (C13 model; both settings of `unranked_at_bottom`). -/
theorem rankedToCondorcet_linear (atBottom : Bool) (k : Rat) (p : Convert.RProfile) :
    Convert.rankedToCondorcet atBottom (scaleProfile k p) = scaleProfile k (Convert.rankedToCondorcet atBottom p) :=
  VL.Scale.rankedToCondorcet_scale atBottom k p

/-- **Positional rules** (`PreConverted(RankedToPositionalVotes(scorer), Plurality())`: Borda, Dowdall, geometric,
    modified Borda, fixed top, any score sequence) are scale invariant. -/
theorem positionalRule_scale (sc : Convert.Scorer) (k : Rat) (hk : 0 < k) (p : Convert.RProfile) (n : Nat) :
    C11F.positionalRule sc (scaleProfile k p) n = C11F.positionalRule sc p n := by
  unfold C11F.positionalRule
  rw [rankedToPositional_linear sc k hk]
  cases Convert.rankedToPositional sc p with
  | error e => rfl
  | ok v => exact congrArg Except.ok (plurality_scale k hk v n)

/-- **Approval voting and satisfaction approval voting** (`PreConverted(ApprovalToSimpleVotes(split), Plurality())`). -/
theorem approvalRule_scale (split : Bool) (k : Rat) (hk : 0 < k) (p : Convert.AProfile) (n : Nat) :
    C11F.approvalRule split (scaleProfile k p) n = C11F.approvalRule split p n := by
  unfold C11F.approvalRule
  rw [approvalToSimple_linear split k]
  cases Convert.approvalToSimple split p with
  | error e => rfl
  | ok v => exact congrArg Except.ok (plurality_scale k hk v n)

/-! ### the Condorcet family -/

/-- a pairwise dictionary with every count multiplied by `k` -/
abbrev scalePairwise (k : Rat) (v : Condorcet.Pairwise) : Condorcet.Pairwise := VL.Scale.scaleP k v
/-- a ranked profile (C05 model) with every ballot weight multiplied by `k` -/
abbrev scaleRanked (k : Rat) (p : Condorcet.Profile) : Condorcet.Profile := VL.Scale.scaleR k p

/-- **Every entry of `condorcet.EVALUATORS`** (ranked pairs x3, Copeland first/second order, Schulze, Kemeny-Young,
    minimax x3) on an arbitrary pairwise dictionary — sparse, with self-pairs, whatever: the outcome (including a
    refusal) does not change when every count is multiplied by `k > 0`.  Win counts are vote-free; Schulze path
    strengths, minimax counter-scores, Kemeny scores and ranked-pair strengths scale with `k`. -/
theorem condorcetEv_scale (ev : C11F.CondorcetEv) (k : Rat) (hk : 0 < k) (v : Condorcet.Pairwise) (n : Nat) :
    ev.eval (scalePairwise k v) n = ev.eval v n := by
  cases ev with
  | rankedPairs sc => exact VL.Scale.rankedPairs_scale k hk sc v n
  | copeland so => exact congrArg Except.ok (VL.Scale.copeland_scale k hk so v n)
  | schulze => exact congrArg Except.ok (VL.Scale.schulze_scale k hk v n)
  | kemenyYoung => exact VL.Scale.kemenyYoung_scale k hk v n
  | minimax sc => exact congrArg Except.ok (VL.Scale.minimax_scale k hk sc v n)

/-- **CondorcetWinner, SmithSet, SchwartzSet** on an arbitrary pairwise dictionary. -/
theorem condorcetSet_scale (s : C11F.CondorcetSet) (k : Rat) (hk : 0 < k) (v : Condorcet.Pairwise) :
    s.eval (scalePairwise k v) = s.eval v := by
  cases s with
  | winner => exact VL.Scale.condorcetWinner_scale k hk v
  | smith => exact VL.Scale.smithSchwartz_scale k hk v true
  | schwartz => exact VL.Scale.smithSchwartz_scale k hk v false

/-- **RankedToCondorcetVotes is linear** (C05 model, the default `unranked_at_bottom=True`). -/
theorem rankedToCondorcetVotes_linear (k : Rat) (p : Condorcet.Profile) :
    Condorcet.rankedToCondorcet (scaleRanked k p) = scalePairwise k (Condorcet.rankedToCondorcet p) :=
  VL.Scale.rankedToCondorcetR_scale k p

/-- **The Condorcet families of the quantifier**: `PreConverted(RankedToCondorcetVotes(), EVALUATORS[name])` on ranked
    profiles (truncated ballots, shared ranks). -/
theorem condorcetRule_scale (ev : C11F.CondorcetEv) (k : Rat) (hk : 0 < k) (p : Condorcet.Profile) (n : Nat) :
    C11F.condorcetRule ev (scaleRanked k p) n = C11F.condorcetRule ev p n := by
  unfold C11F.condorcetRule
  rw [rankedToCondorcetVotes_linear, condorcetEv_scale ev k hk]

theorem condorcetSetRule_scale (s : C11F.CondorcetSet) (k : Rat) (hk : 0 < k) (p : Condorcet.Profile) :
    C11F.condorcetSetRule s (scaleRanked k p) = C11F.condorcetSetRule s p := by
  unfold C11F.condorcetSetRule
  rw [rankedToCondorcetVotes_linear, condorcetSet_scale s k hk]

/-- **RankedToCondorcetVotes(unranked_at_bottom=False) is linear**: the converter's other mode (incomplete dictionaries). -/
theorem rankedToCondorcetVotesNoBottom_linear (k : Rat) (p : Condorcet.Profile) :
    Condorcet.rankedToCondorcetNoBottom (scaleRanked k p) = scalePairwise k (Condorcet.rankedToCondorcetNoBottom p) :=
  VL.Scale.rankedToCondorcetNoBottomR_scale k p

/-- **The Condorcet families on incomplete pairwise dictionaries**:
    `PreConverted(RankedToCondorcetVotes(unranked_at_bottom=False), EVALUATORS[name])`. -/
theorem condorcetRuleNoBottom_scale (ev : C11F.CondorcetEv) (k : Rat) (hk : 0 < k) (p : Condorcet.Profile) (n : Nat) :
    C11F.condorcetRuleNoBottom ev (scaleRanked k p) n = C11F.condorcetRuleNoBottom ev p n := by
  unfold C11F.condorcetRuleNoBottom
  rw [rankedToCondorcetVotesNoBottom_linear, condorcetEv_scale ev k hk]

theorem condorcetSetRuleNoBottom_scale (s : C11F.CondorcetSet) (k : Rat) (hk : 0 < k) (p : Condorcet.Profile) :
    C11F.condorcetSetRuleNoBottom s (scaleRanked k p) = C11F.condorcetSetRuleNoBottom s p := by
  unfold C11F.condorcetSetRuleNoBottom
  rw [rankedToCondorcetVotesNoBottom_linear, condorcetSet_scale s k hk]

/-- **Benham** (Condorcet winner, else eliminate by first preferences): the whole elimination loop is simulated. -/
theorem benham_scale (k : Rat) (hk : 0 < k) (p : Condorcet.Profile) :
    Condorcet.benham (scaleRanked k p) = Condorcet.benham p := VL.Scale.benham_scale k hk p

/-- **Tideman's alternative method**, one seat (Smith or Schwartz set, else eliminate; a lone candidate takes the seat). -/
theorem tideman_scale (k : Rat) (hk : 0 < k) (smith : Bool) (p : Condorcet.Profile) :
    Condorcet.tideman smith (scaleRanked k p) = Condorcet.tideman smith p := VL.Scale.tideman_scale k hk smith p

/-- **Tideman's alternative method, any number of seats**: one tier per seat, the winners of earlier tiers removed from the
    ballots (linear subsetting) — every tier is simulated. -/
theorem tidemanN_scale (k : Rat) (hk : 0 < k) (smith : Bool) (p : Condorcet.Profile) (n : Nat) :
    Condorcet.tidemanN smith (scaleRanked k p) n = Condorcet.tidemanN smith p n := VL.Scale.tidemanN_scale k hk smith p n

/-! ### proportional approval -/

/-- an approval profile (C12 model) with every ballot weight multiplied by `k` -/
abbrev scaleApproval (k : Rat) (p : Appr.Profile) : Appr.Profile := VL.Scale.scaleA k p

/-- **SequentialProportionalApproval**: the reweighted round votes `Σ w/(1+|ballot ∩ elected|)` scale by `k` in every
    round, so every round elects the same candidate (or refuses on the same tie). -/
theorem spav_scale (k : Rat) (hk : 0 < k) (p : Appr.Profile) (n : Nat) :
    Appr.spav (scaleApproval k p) n = Appr.spav p n := VL.Scale.spav_scale k hk p n

/-- **ProportionalApproval**: harmonic satisfactions scale by `k`; the scan for the best committee, its uniqueness test
    and the ordering by satisfaction drop are unchanged.  Stated for one call from ANY state of the coefficient cache
    (`pavStep`), hence for every call of a re-used instance. -/
theorem pav_scale (k : Rat) (hk : 0 < k) (coefs : List Rat) (p : Appr.Profile) (n : Nat) :
    Appr.pavStep coefs (scaleApproval k p) n = Appr.pavStep coefs p n := VL.Scale.pavStep_scale k hk coefs p n

theorem pav_fresh_scale (k : Rat) (hk : 0 < k) (p : Appr.Profile) (n : Nat) :
    Appr.pav (scaleApproval k p) n = Appr.pav p n := VL.Scale.pav_scale k hk p n

/-! ### the score family (ballot counts are Python ints: the factor is a positive NATURAL number) -/

/-- a score profile (C12 model, `Int` counts) with every ballot count multiplied by the natural number `k` -/
abbrev scaleScore (k : Nat) (votes : Score.SProfile) : Score.SProfile := VL.Scale.scaleS k votes

/-- the configurations of the score aggregation whose outcome depends on vote SHARES only: `min_count = 0`,
    `truncation = 0` (both are absolute numbers of votes) and `unscored_value` not the builtin `min` (not proved) -/
abbrev ScaleFreeCfg (cfg : Score.Cfg) : Prop := VL.Scale.ScaleFreeCfg cfg

/-- **ScoreVoting** with sum, mean or lower median: sums scale by `k`, means and lower medians are literally unchanged
    (the lower median of a multiset with every element repeated `k` times is the lower median of the multiset).
    For every positive natural factor and every profile, including refusals. -/
theorem scoreVoting_scale (cfg : Score.Cfg) (hcfg : ScaleFreeCfg cfg) (k : Nat) (hk : 0 < k) (votes : Score.SProfile) (n : Nat) :
    Score.scoreVoting cfg (scaleScore k votes) n = Score.scoreVoting cfg votes n :=
  VL.Scale.scoreVoting_scale cfg hcfg k hk votes n

/-- the aggregate itself: multiplied by `k` for the sum, unchanged for mean and lower median -/
theorem scoreAggregate_scale (cfg : Score.Cfg) (hcfg : ScaleFreeCfg cfg) (k : Nat) (hk : 0 < k) (votes : Score.SProfile) :
    Score.convert cfg (scaleScore k votes) = (Score.convert cfg votes).map (scaleVotes (VL.Scale.aggFactor cfg.fn k)) :=
  VL.Scale.convert_scale cfg hcfg k hk votes

/-- **MajorityJudgment(tie_breaking='plus')**.  (The DEFAULT tie-break is scale dependent — open finding
    `C11-mj-default-tiebreak-scale`; no theorem is claimed for it.) -/
theorem majorityJudgmentPlus_scale (cfg : Score.Cfg) (hcfg : ScaleFreeCfg cfg) (k : Nat) (hk : 0 < k)
    (votes : Score.SProfile) (n : Nat) :
    Score.majorityJudgment .plus cfg (scaleScore k votes) n = Score.majorityJudgment .plus cfg votes n :=
  VL.Scale.majorityJudgmentPlus_scale cfg hcfg k hk votes n

/-- FULL STATEMENT (FALSE of the current code, see `majorityJudgmentDefault_scale_witness`):
      `∀ cfg votes n k, ScaleFreeCfg cfg → 0 < k → majorityJudgment .default cfg (scaleScore k votes) n = majorityJudgment .default cfg votes n`.
    **Proved part**: MajorityJudgment with the DEFAULT tie-break (and with any tie-break) is scale invariant whenever the
    medians decide all `n` places, i.e. the tie-break is not entered (`mjUntied`, a decidable predicate on the unscaled
    profile; a refusal of the aggregation is the same refusal at every scale). -/
theorem majorityJudgmentDefault_scale_partial (cfg : Score.Cfg) (hcfg : ScaleFreeCfg cfg) (k : Nat) (hk : 0 < k)
    (votes : Score.SProfile) (n : Nat) (hu : VL.Scale.mjUntied cfg votes n = true) :
    Score.majorityJudgment .default cfg (scaleScore k votes) n = Score.majorityJudgment .default cfg votes n :=
  VL.Scale.majorityJudgment_untied_scale .default cfg hcfg k hk votes n hu

/-- **The default tie-break of MajorityJudgment is scale DEPENDENT** (open finding `C11-mj-default-tiebreak-scale`): it
    removes an ABSOLUTE number of median grades per step.  On `{(b:5):1, (a:3, b:2, c:2):1}` with two seats the evaluator
    ends in `StatisticsError`, with every count tripled it elects `[a, b]` (a = 0, b = 1, c = 2). -/
theorem majorityJudgmentDefault_scale_witness :
    ¬ (∀ (cfg : Score.Cfg) (votes : Score.SProfile) (n k : Nat), ScaleFreeCfg cfg → 0 < k →
        Score.majorityJudgment .default cfg (scaleScore k votes) n = Score.majorityJudgment .default cfg votes n) := by
  intro h
  have := h ⟨.medianLow, .none, 0, .off, 0⟩ [([(1, 5)], 1), ([(0, 3), (1, 2), (2, 2)], 1)] 2 3 (by decide) (by decide)
  revert this
  decide +kernel

/-- **STAR** (score sums, then the Schulze run-off over the pairwise counts derived from the score ballots), any
    `runoff_added_count` / `runoff_added_fraction`. -/
theorem star_scale (ac : Nat) (af : Rat) (cfg : Score.Cfg) (hcfg : ScaleFreeCfg cfg) (k : Nat) (hk : 0 < k)
    (votes : Score.SProfile) (n : Nat) :
    Score.star ac af cfg (scaleScore k votes) n = Score.star ac af cfg votes n :=
  VL.Scale.star_scale ac af cfg hcfg k hk votes n

/-! ### Bucklin -/

/-- **Bucklin** — `PreferenceAddition()` for ONE seat (the C17 model), with the default even splitting of shared ranks
    over their linear orders: the decoupling is linear, the round totals and the majority quota `Σ/2` scale by `k`.
    (More than one seat and the Oklahoma coefficients are not modelled: listed as unproved.) -/
theorem bucklin_scale (k : Rat) (hk : 0 < k) (p : Convert.RProfile) :
    Mono.evalBucklinSplit (scaleProfile k p) = Mono.evalBucklinSplit p := VL.Scale.evalBucklinSplit_scale k hk p

/-- the same with `split_equal_rankings=False` -/
theorem bucklinWhole_scale (k : Rat) (hk : 0 < k) (p : Convert.RProfile) :
    Mono.evalBucklin (scaleProfile k p) = Mono.evalBucklin p := VL.Scale.evalBucklin_scale k hk p

/-! ### the multi-seat sequential evaluators (models of the C08 extension, VotelibModel/ShapeSequential.lean) -/

/-- **PreferenceAddition with ANY coefficient function, ANY number of seats, with or without the decoupling of shared
    ranks**: the decoupling is linear, every round's totals `Σ w·coef(i)` and the majority quota `Σ/2` scale by `k`, the
    elected list and the deletions of elected candidates are the same in every round; `Tie.reconcile` reads no vote. -/
theorem preferenceAddition_scale (k : Rat) (hk : 0 < k) (coef : Nat → Rat) (split : Bool) (p : Convert.RProfile) (n : Nat) :
    ShapeSeq.preferenceAddition coef split (scaleProfile k p) n = ShapeSeq.preferenceAddition coef split p n :=
  VL.Scale.preferenceAddition_scale k hk coef split p n

/-- **Bucklin, any number of seats** (`PreferenceAddition()`) -/
theorem bucklinSeats_scale (k : Rat) (hk : 0 < k) (p : Convert.RProfile) (n : Nat) :
    ShapeSeq.preferenceAddition ShapeSeq.coefBucklin true (scaleProfile k p) n
      = ShapeSeq.preferenceAddition ShapeSeq.coefBucklin true p n := preferenceAddition_scale k hk _ true p n

/-- **Oklahoma, any number of seats** (`PreferenceAddition(coefficients=lambda i: Fraction(1, i + 1))`) -/
theorem oklahoma_scale (k : Rat) (hk : 0 < k) (p : Convert.RProfile) (n : Nat) :
    ShapeSeq.preferenceAddition ShapeSeq.coefOklahoma true (scaleProfile k p) n
      = ShapeSeq.preferenceAddition ShapeSeq.coefOklahoma true p n := preferenceAddition_scale k hk _ true p n

/-- **Baldwin, any number of seats**: Borda scores are linear in the ballot weights, `RANKED_SUBSETTER` is linear, every
    elimination round reads the (negated) scores through `get_n_best` only; refusals of the Borda scorer included. -/
theorem baldwin_scale (k : Rat) (hk : 0 < k) (p : Convert.RProfile) (n : Nat) :
    ShapeSeq.baldwin (scaleProfile k p) n = ShapeSeq.baldwin p n := VL.Scale.baldwin_scale k hk p n

/-! ### exact proportional shares -/

/-- **PureProportionality** (proportional.py L32-87; model VotelibModel/PureProportionality.lean) for EVERY configuration —
    any seat number, any `prev_gains` (floors) and `max_seats` (caps), through every pass of the fixing loop: the seats per
    vote become `budget/(k·total)`, so every share `k·v · budget/(k·total)` is literally the same number; the refusal
    (ZeroDivisionError on a zero total of the parties still in play) is the same refusal. -/
theorem pureProportionality_scale (k : Rat) (hk : 0 < k) (votes : Votes) (n : Nat) (prev maxS : Pure.IMap) :
    Pure.pureProportionality (scaleVotes k votes) n prev maxS = Pure.pureProportionality votes n prev maxS :=
  VL.Scale.pureProportionality_scale k hk votes n prev maxS

/-! ### transferable vote -/

/-- a ranked profile (STV model) with every ballot weight multiplied by `k` -/
abbrev scaleSTV (k : Rat) (votes : STV.Profile) : STV.Profile := VL.Scale.scaleProf k votes

/-- the configuration's quota function is homogeneous (Hare, Hagenbach-Bischoff, Imperiali) or absent -/
abbrev HomogeneousSTV (cfg : STV.Cfg) : Prop := VL.Scale.HomogeneousCfg cfg

theorem hare_homogeneousSTV (ae mand : Bool) (step : Option Int) :
    HomogeneousSTV ⟨some Gen.Quota.hare, ae, mand, step⟩ := by
  intro f hf k V n
  have : f = Gen.Quota.hare := by injection hf with h; exact h.symm
  rw [this]; exact hare_homogeneous k V n

theorem imperiali_homogeneousSTV (ae mand : Bool) (step : Option Int) :
    HomogeneousSTV ⟨some Gen.Quota.imperiali, ae, mand, step⟩ := by
  intro f hf k V n
  have : f = Gen.Quota.imperiali := by injection hf with h; exact h.symm
  rw [this]; exact imperiali_homogeneous k V n

theorem hagenbach_bischoff_homogeneousSTV (ae mand : Bool) (step : Option Int) :
    HomogeneousSTV ⟨some Gen.Quota.hagenbach_bischoff, ae, mand, step⟩ := by
  intro f hf k V n
  have : f = Gen.Quota.hagenbach_bischoff := by injection hf with h; exact h.symm
  rw [this]; exact hagenbach_bischoff_homogeneous k V n

/-- no quota at all (`quota_function=None`: election by elimination only, instant run-off): vacuously homogeneous, so
    `stvSelector_scale` / `stvDistributor_scale` cover it -/
theorem noquota_homogeneousSTV (ae mand : Bool) (step : Option Int) :
    HomogeneousSTV ⟨none, ae, mand, step⟩ := by
  intro f hf
  cases hf

/-- **STV, Gregory transfers, Hare quota — the selector** (`TransferableVoteSelector(transferer='Gregory',
    quota_function='hare')`), any `accept_quota_equal` (so also the strict variant `accept_quota_equal=False`) /
    `mandatory_quota` / `eliminate_step`, and equally the Imperiali and Hagenbach-Bischoff quotas
    (`imperiali_homogeneousSTV`, `hagenbach_bischoff_homogeneousSTV`): by the simulation
    `allocation₂ = k • allocation₁` through the initial allocation (Gregory split of shared first ranks), every count
    (quota `kq`, whole quotas `floor(kv/(kq))`, surplus retention `(cur − n)/cur`, eliminations by `get_n_best`) and the
    loop.  The draw stream is not consumed by the Gregory engine. -/
theorem stvSelector_scale (k : Rat) (hk : 0 < k) (cfg : STV.Cfg) (hq : HomogeneousSTV cfg) (votes : STV.Profile) (n : Nat)
    (ds : List STV.Draw) :
    STV.selectorEvaluate STV.gregory cfg (scaleSTV k votes) n ds = STV.selectorEvaluate STV.gregory cfg votes n ds :=
  VL.Scale.selectorEvaluate_scale k hk cfg hq votes n ds

/-- the distributor, with previous gains and seat caps -/
theorem stvDistributor_scale (k : Rat) (hk : 0 < k) (cfg : STV.Cfg) (hq : HomogeneousSTV cfg) (inp : STV.Input)
    (ds : List STV.Draw) :
    STV.distributorEvaluate STV.gregory cfg (VL.Scale.scaleInput k inp) ds = STV.distributorEvaluate STV.gregory cfg inp ds :=
  VL.Scale.distributorEvaluate_scale k hk cfg hq inp ds

/-- **Near ties are never ties**: totals that differ by one vote at any magnitude (`v` is any rational, so in particular
    `10^30`) are separated. -/
theorem near_tie_separated (a b : Cand) (v : Rat) :
    getNBest [(a, v + 1), (b, v)] 1 = [Slot.cand a] ∧ getNBest [(b, v), (a, v + 1)] 1 = [Slot.cand a] := by
  have h1 : v < v + 1 := lt_add_one v
  have h2 : ¬ (v + 1 < v) := not_lt.mpr (le_of_lt h1)
  have h3 : ¬ (v = v + 1) := ne_of_lt h1
  have h4 : ¬ (v + 1 = v) := fun h => h3 h.symm
  constructor
  · simp [getNBest, sortDesc, insertDesc, h1, h2, h3, h4]
  · simp [getNBest, sortDesc, insertDesc, h1, h2, h3, h4]

/-- **Equal rationals are always recognised as tied**, whatever their representation (`2x/4` against `x/2`). -/
theorem equal_rationals_tied (a b : Cand) (x : Rat) :
    getNBest [(a, 2 * x / 4), (b, x / 2)] 1 = [Slot.tie [a, b]] := by
  have h : 2 * x / 4 = x / 2 := by ring
  simp [getNBest, sortDesc, insertDesc, h]

/-- non-vacuity -/
example : QD.largestRemainder ⟨Gen.Quota.hare, true, .error⟩ (scaleVotes ((10:Rat)^25 + 7) [(1,47),(2,16),(3,16),(4,21)]) 10 [] []
    = .ok [(Key.cand 1, 5), (Key.cand 2, 1), (Key.cand 3, 1), (Key.cand 4, 2), (Key.tie [2, 3], 1)] := by decide +kernel
example : C11F.positionalRule (.borda 1) (scaleProfile ((10:Rat)^25 + 7)
    [([.one 1, .one 2, .one 3], 2), ([.one 3, .shared [1, 2]], 1), ([.one 2], 1)]) 2 = .ok [Slot.cand 2, Slot.cand 1] := by
  decide +kernel
example : C11F.approvalRule true (scaleProfile ((10:Rat)^25 + 7) [([1, 2], 2), ([3], 1), ([2, 3], 1)]) 1
    = .ok [Slot.tie [2, 3]] := by decide +kernel
example : C11F.condorcetRule (.minimax .margins) (scaleRanked ((10:Rat)^25 + 7)
    [([.one 1, .one 2, .one 3], 2), ([.one 2, .one 3, .one 1], 2), ([.one 3, .one 1, .one 2], 1)]) 1 = .ok [Slot.tie [1, 2]] := by
  decide +kernel
example : C11F.condorcetRule .schulze (scaleRanked ((10:Rat)^25 + 7)
    [([.one 1, .one 2, .one 3], 2), ([.one 2, .one 3, .one 1], 2), ([.one 3, .one 1, .one 2], 1)]) 3
    = .ok [Slot.cand 2, Slot.cand 1, Slot.cand 3] := by
  decide +kernel
example : Condorcet.benham (scaleRanked ((10:Rat)^25 + 7)
    [([.one 1, .one 2, .one 3], 2), ([.one 2, .one 3, .one 1], 2), ([.one 3, .one 1, .one 2], 1)]) = .ok [Slot.cand 1] := by
  decide +kernel
example : Appr.spav (scaleApproval ((10:Rat)^25 + 7) [([1, 2], 3), ([2, 3], 2), ([3], 2)]) 2 = .ok [2, 3] := by decide +kernel
example : Appr.pav (scaleApproval ((10:Rat)^25 + 7) [([1, 2], 3), ([2, 3], 2), ([3], 2)]) 2
    = .ok [Slot.cand 2, Slot.cand 3] := by decide +kernel
example : VL.Scale.mjUntied ⟨.medianLow, .none, 0, .off, 0⟩ [([(1, 3), (2, 5)], 2), ([(1, 4), (2, 1)], 1), ([(2, 2)], 1)] 1 = true := by
  decide +kernel
example : ScaleFreeCfg ⟨.medianLow, .none, 0, .off, 0⟩ ∧ ScaleFreeCfg ⟨.sum, .value 0, 0, .off, 0⟩ := by decide
example : Score.scoreVoting ⟨.medianLow, .none, 0, .off, 0⟩ (scaleScore 7 [([(1, 3), (2, 5)], 2), ([(1, 4), (2, 1)], 1), ([(2, 2)], 1)]) 1
    = .ok [Slot.cand 1] := by decide +kernel
example : Score.star 1 0 ⟨.sum, .none, 0, .off, 0⟩ (scaleScore 7 [([(1, 5), (2, 0), (3, 0)], 2), ([(1, 1), (2, 2), (3, 0)], 3)]) 1
    = .ok [Slot.cand 2] := by decide +kernel
example : Mono.evalBucklinSplit (scaleProfile ((10:Rat)^25 + 7)
    [([.one 1, .one 2, .one 3], 2), ([.one 3, .shared [1, 2]], 2), ([.one 2], 1)]) = .ok [Slot.cand 2] := by decide +kernel
example : STV.selectorEvaluate STV.gregory ⟨some Gen.Quota.hare, true, false, some (-1)⟩ (scaleSTV ((10:Rat)^25 + 7)
    [([.one 1, .one 2], 5), ([.one 2, .one 3], 2), ([.shared [2, 3], .one 1], 2), ([.one 3], 1)]) 2 [] = .ok [1, 2] := by
  decide +kernel
example : ShapeSeq.baldwin (scaleProfile ((10:Rat)^25 + 7)
    [([.one 1, .one 2, .one 3], 2), ([.one 3, .shared [1, 2]], 2), ([.one 2, .one 3], 1)]) 2 = .ok [Slot.cand 2, Slot.cand 1] := by
  decide +kernel
example : ShapeSeq.preferenceAddition ShapeSeq.coefOklahoma true (scaleProfile ((10:Rat)^25 + 7)
    [([.one 1, .one 2, .one 3], 2), ([.one 3, .shared [1, 2]], 2), ([.one 2, .one 3], 1)]) 2 = .ok [Slot.cand 3, Slot.tie [1, 2]] := by
  decide +kernel
example : Condorcet.tidemanN true (scaleRanked ((10:Rat)^25 + 7)
    [([.one 1, .one 2, .one 3], 2), ([.one 2, .one 3, .one 1], 2), ([.one 3, .one 1, .one 2], 1)]) 2
    = .ok [Slot.cand 1, Slot.cand 2] := by decide +kernel
example : Pure.pureProportionality (scaleVotes ((10:Rat)^25 + 7) [(1, 7), (2, 2), (3, 1)]) 5 [(3, 1)] [(1, 3)]
    = .ok [(1, 3), (3, 0), (2, 1)] := by decide +kernel
example : relativeThreshold (1/3) false (scaleVotes ((10:Rat)^25 + 7) [(1,2),(2,1),(3,3)]) = .ok [3] := by decide +kernel
example : getNBest (scaleVotes ((10:Rat)^25 + 7) [(1,5),(2,3),(3,3)]) 2 = [Slot.cand 1, Slot.tie [2,3]] := by decide +kernel

end VL.C11
