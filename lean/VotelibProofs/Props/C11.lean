/-
  C11 — Exact arithmetic: outcomes invariant under vote scaling, even beyond 2^53.
  Property theorems only.  Every theorem is for ALL positive rational factors `k` (not only the integers of the
  statement) and for all inputs of the respective model; the models compute over `Rat`, i.e. exactly.

  Families covered here: plurality / get_n_best (C09 model), QuotaSelector with the exact quotas, all
  highest-averages divisor methods (C01 model).  Further families are added as their models arrive; the ones not yet
  covered by a theorem are listed in the evidence (`unproved`) and are covered by the oracle on the implementation only.
-/
import VotelibProofs.Props.C09
import VotelibProofs.Lemmas.HAScale
import VotelibModel.Gen.Quota
import Mathlib.Tactic.Ring
import Mathlib.Tactic.FieldSimp
namespace VL.C11
open VL

/-- **Plurality / get_n_best.**  Scaling all values by a positive factor does not change the result. -/
theorem getNBest_scale (k : Rat) (hk : 0 < k) (votes : Votes) (n : Nat) :
    getNBest (scaleVotes k votes) n = getNBest votes n :=
  VL.C09.getNBest_strictMono_map (fun x => k * x) (fun _ _ h => mul_lt_mul_of_pos_left h hk) votes n

theorem plurality_scale (k : Rat) (hk : 0 < k) (votes : Votes) (n : Nat) :
    plurality (scaleVotes k votes) n = plurality votes n := getNBest_scale k hk votes n

/-- **All divisor methods.**  (`VL.highestAverages_scale`, by simulation of the loop.) -/
theorem highestAverages_scale (cfg : HACfg) (k : Rat) (hk : 0 < k) :
    highestAverages (cfg.scale k) = highestAverages cfg := VL.highestAverages_scale cfg k hk

theorem sumVals_scale (k : Rat) (votes : Votes) : sumVals (scaleVotes k votes) = k * sumVals votes := by
  unfold sumVals scaleVotes
  have : ∀ (l : Votes) (a : Rat), List.foldl (fun acc p => acc + p.2) (k * a) (l.map (fun p => (p.1, k * p.2)))
      = k * List.foldl (fun acc p => acc + p.2) a l := by
    intro l
    induction l with
    | nil => intro a; rfl
    | cons x xs ih => intro a; simp only [List.map_cons, List.foldl_cons]; rw [← mul_add, ih]
  have h0 := this votes 0
  rw [mul_zero] at h0
  exact h0

/-- a quota rule is *homogeneous* when scaling the total scales the quota -/
def Homogeneous (quota : Rat → Nat → Rat) : Prop := ∀ (k V : Rat) (n : Nat), quota (k * V) n = k * quota V n

theorem hare_homogeneous : Homogeneous Gen.Quota.hare := by
  intro k V n; unfold Gen.Quota.hare; rw [mul_div_assoc]
theorem hagenbach_bischoff_homogeneous : Homogeneous Gen.Quota.hagenbach_bischoff := by
  intro k V n; unfold Gen.Quota.hagenbach_bischoff; rw [mul_div_assoc]
theorem imperiali_homogeneous : Homogeneous Gen.Quota.imperiali := by
  intro k V n; unfold Gen.Quota.imperiali; rw [mul_div_assoc]

/-- **Quota selector with an exact (homogeneous) quota** is scale invariant. -/
theorem quotaSelector_scale (quota : Rat → Nat → Rat) (hq : Homogeneous quota) (eq : Bool) (om : OnMore)
    (k : Rat) (hk : 0 < k) (votes : Votes) (n : Nat) :
    quotaSelector quota eq om (scaleVotes k votes) n = quotaSelector quota eq om votes n := by
  have hk0 : k ≠ 0 := ne_of_gt hk
  unfold quotaSelector
  simp only [sumVals_scale, hq k]
  have hfilter : (scaleVotes k votes).filter (fun p => decide (p.2 > k * quota (sumVals votes) n) ||
        (eq && decide (p.2 = k * quota (sumVals votes) n)))
      = scaleVotes k (votes.filter (fun p => decide (p.2 > quota (sumVals votes) n) ||
        (eq && decide (p.2 = quota (sumVals votes) n)))) := by
    unfold scaleVotes
    rw [List.filter_map]
    congr 1
    apply List.filter_congr
    intro p _
    simp only [Function.comp, gt_iff_lt, mul_lt_mul_iff_right₀ hk, mul_right_inj' hk0]
  rw [hfilter]
  simp only [scaleVotes, List.length_map]
  have := getNBest_scale k hk (votes.filter (fun p => decide (p.2 > quota (sumVals votes) n) ||
        (eq && decide (p.2 = quota (sumVals votes) n)))) n
  unfold scaleVotes at this
  rw [this]

/-- **Near ties are never ties**: totals that differ by one vote at any magnitude (`v` is any rational, so in particular
    `10^30`) are separated. -/
theorem near_tie_separated (a b : Cand) (v : Rat) :
    getNBest [(a, v + 1), (b, v)] 1 = [Slot.cand a] ∧ getNBest [(b, v), (a, v + 1)] 1 = [Slot.cand a] := by
  have h1 : v < v + 1 := lt_add_one v
  have h2 : ¬ (v + 1 < v) := not_lt.mpr (le_of_lt h1)
  have h3 : ¬ (v = v + 1) := ne_of_lt h1
  have h4 : ¬ (v + 1 = v) := fun h => h3 h.symm
  constructor
  · simp [getNBest, sortDesc, insertDesc, h1, h2, h3, h4]
  · simp [getNBest, sortDesc, insertDesc, h1, h2, h3, h4]

/-- **Equal rationals are always recognised as tied**, whatever their representation (`2x/4` against `x/2`). -/
theorem equal_rationals_tied (a b : Cand) (x : Rat) :
    getNBest [(a, 2 * x / 4), (b, x / 2)] 1 = [Slot.tie [a, b]] := by
  have h : 2 * x / 4 = x / 2 := by ring
  simp [getNBest, sortDesc, insertDesc, h]

/-- non-vacuity -/
example : getNBest (scaleVotes ((10:Rat)^25 + 7) [(1,5),(2,3),(3,3)]) 2 = [Slot.cand 1, Slot.tie [2,3]] := by decide +kernel

end VL.C11
