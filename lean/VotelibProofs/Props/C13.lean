/-
  C13 — vote converters are per-ballot exact and additive: no vote lost or doubled.
  Property theorems only (helper lemmas: VotelibProofs/Lemmas/ConvertSum.lean, ConvertImages.lean, …).

  Reading.  A profile is a list of (ballot, weight); a Python dict is the merged normal form `mergeDict p`
  (equal ballots summed).  A result dict `d` is read as the finitely supported function `toFun d`
  (`d.get(k, 0)`, theorem `…_is_dict` says the keys are distinct so this is the stored value), because the
  iteration order of the output is not part of the property.  `wsum p f = Σ_{(b,w) ∈ p} w · f b`.
  For every converter `X` with per-ballot image `img`:
    `X_sum`              X(p)(k) = Σ_{(b,w) ∈ p} w · img b k         (`SumOfImages`)
    `X_additive`         X(p₁ ++ p₂) = X(p₁) + X(p₂)                   pointwise
    `X_additive_merged`  X(mergeDict (p₁ ++ p₂)) = X(p₁) + X(p₂)       the dict `A + B`
    `X_single…`          the image of a single ballot is the documented one
    `X_weight_conserved` Σ values = Σ weights of the ballots that have an image   (one item per ballot)
-/
import VotelibProofs.Lemmas.ConvertImages
import VotelibProofs.Lemmas.ConvertPositional
import VotelibProofs.Lemmas.ConvertCondorcet
import VotelibProofs.Lemmas.ConvertMisc
import VotelibProofs.Lemmas.ConvertScore
import VotelibProofs.Lemmas.ConvertDeep
import VotelibProofs.Lemmas.ConvertChain
namespace VL.C13
open VL VL.Convert

/-! ## reading a result dict -/

/-- for a genuine dict (distinct keys — every `…_is_dict` theorem below) `toFun` is Python's `d.get(k, 0)` -/
theorem toFun_is_lookup {κ : Type} [DecidableEq κ] (d : Dict κ) (h : (dkeys d).Nodup) (k : κ) :
    (∀ v, (k, v) ∈ d → toFun d k = v) ∧ (k ∉ dkeys d → toFun d k = 0) :=
  ⟨fun _ hm => toFun_eq_of_mem h hm, toFun_eq_zero_of_not_mem⟩

/-- the dict `A + B` of two profiles is a dict, and as a function it is the sum -/
theorem mergeDict_is_sum {κ : Type} [DecidableEq κ] (p₁ p₂ : Dict κ) (k : κ) :
    (dkeys (mergeDict (p₁ ++ p₂))).Nodup ∧ toFun (mergeDict (p₁ ++ p₂)) k = toFun p₁ k + toFun p₂ k :=
  ⟨nodup_mergeDict _, by rw [toFun_mergeDict, toFun_append]⟩

/-! ## RankedToFirstPreference -/

theorem firstPreference_eq_accum : rankedToFirstPreference = accumOne (fun b : Ballot => b.head?) := by
  funext p
  unfold rankedToFirstPreference accumOne
  congr 1
  funext acc bw
  cases bw.1 <;> rfl

/-- the first-preference count of `k` is the total weight of the ballots whose first place is `k` -/
theorem firstPreference_sum :
    SumOfImages rankedToFirstPreference (fun b k => if b.head? = some k then 1 else 0) := by
  rw [firstPreference_eq_accum]; exact accumOne_sum _

theorem firstPreference_additive (p₁ p₂ : RProfile) (k : RankItem) :
    toFun (rankedToFirstPreference (p₁ ++ p₂)) k
      = toFun (rankedToFirstPreference p₁) k + toFun (rankedToFirstPreference p₂) k :=
  firstPreference_sum.additive p₁ p₂ k

theorem firstPreference_additive_merged (p₁ p₂ : RProfile) (k : RankItem) :
    toFun (rankedToFirstPreference (mergeDict (p₁ ++ p₂))) k
      = toFun (rankedToFirstPreference p₁) k + toFun (rankedToFirstPreference p₂) k :=
  firstPreference_sum.additive_merged p₁ p₂ k

/-- a single ballot converts to exactly its first preference; the empty ballot to nothing -/
theorem firstPreference_single (b : Ballot) (w : Rat) :
    rankedToFirstPreference [(b, w)] = match b with
      | [] => []
      | it :: _ => [(it, w)] := by
  rw [firstPreference_eq_accum, accumOne_single]
  cases b <;> rfl

/-- total weight is conserved: the first-preference counts sum to the weight of the non-empty ballots -/
theorem firstPreference_weight_conserved (p : RProfile) :
    total (rankedToFirstPreference p) = wsum p (fun b => if b = [] then 0 else 1) := by
  rw [firstPreference_eq_accum, accumOne_total]
  apply wsum_congr
  intro bw _
  cases bw.1 <;> simp

theorem firstPreference_is_dict (p : RProfile) : (dkeys (rankedToFirstPreference p)).Nodup := by
  rw [firstPreference_eq_accum]; exact accumOne_nodup _ p

/-- no vote is lost: a key is listed iff some ballot has it as its first place -/
theorem firstPreference_keys (p : RProfile) (k : RankItem) :
    k ∈ dkeys (rankedToFirstPreference p) ↔ ∃ bw ∈ p, bw.1.head? = some k := by
  rw [firstPreference_eq_accum]; exact mem_dkeys_accumOne _ p k

/-! ## ApprovalToSimpleVotes (split and unsplit) -/

/-- domain of the converter: with `split`, `Fraction(n, len(bulk))` needs a non-empty approval set -/
def ApprovalOK (split : Bool) (p : AProfile) : Prop := split = true → ∀ bw ∈ p, bw.1 ≠ []

instance (split : Bool) (p : AProfile) : Decidable (ApprovalOK split p) := by
  unfold ApprovalOK; infer_instance

/-- on its domain the converter returns the sum of the ballot images: every approved candidate gets the
    ballot's weight (unsplit) or an equal share of it (split) -/
theorem approvalToSimple_sum (split : Bool) (p : AProfile) (h : ApprovalOK split p) :
    ∃ d, approvalToSimple split p = .ok d ∧ (dkeys d).Nodup ∧
      ∀ k, toFun d k = wsum p (fun b => approvalImage split b k) := by
  refine ⟨_, approvalToSimple_eq_ok split p h, ?_, ?_⟩
  · apply nodup_foldl_step
    · intro acc bw hacc; exact nodup_foldl_addTo_const _ _ hacc
    · simp [dkeys]
  · intro k
    rw [toFun_foldl_step _ (approvalImage split) (toFun_approvalStep split)]; simp

/-- outside the domain the converter raises (it never invents an image for an empty ballot) -/
theorem approvalToSimple_rejects (p : AProfile) (h : ¬ ApprovalOK true p) :
    approvalToSimple true p = .error (.other "ZeroDivisionError") := by
  apply approvalToSimple_eq_error
  unfold ApprovalOK at h
  push Not at h
  obtain ⟨_, bw, hbw, he⟩ := h
  exact ⟨bw, hbw, he⟩

theorem approvalToSimple_additive (split : Bool) (p₁ p₂ : AProfile) (h : ApprovalOK split (p₁ ++ p₂)) :
    ∃ d d₁ d₂, approvalToSimple split (p₁ ++ p₂) = .ok d ∧ approvalToSimple split p₁ = .ok d₁ ∧
      approvalToSimple split p₂ = .ok d₂ ∧ ∀ k, toFun d k = toFun d₁ k + toFun d₂ k := by
  have h1 : ApprovalOK split p₁ := fun hs bw hbw => h hs bw (List.mem_append_left _ hbw)
  have h2 : ApprovalOK split p₂ := fun hs bw hbw => h hs bw (List.mem_append_right _ hbw)
  obtain ⟨d, hd, _, hs⟩ := approvalToSimple_sum split _ h
  obtain ⟨d₁, hd₁, _, hs₁⟩ := approvalToSimple_sum split _ h1
  obtain ⟨d₂, hd₂, _, hs₂⟩ := approvalToSimple_sum split _ h2
  exact ⟨d, d₁, d₂, hd, hd₁, hd₂, fun k => by rw [hs, hs₁, hs₂, wsum_append]⟩

theorem approvalToSimple_additive_merged (split : Bool) (p₁ p₂ : AProfile) (h : ApprovalOK split (p₁ ++ p₂)) :
    ∃ d d₁ d₂, approvalToSimple split (mergeDict (p₁ ++ p₂)) = .ok d ∧ approvalToSimple split p₁ = .ok d₁ ∧
      approvalToSimple split p₂ = .ok d₂ ∧ ∀ k, toFun d k = toFun d₁ k + toFun d₂ k := by
  have hm : ApprovalOK split (mergeDict (p₁ ++ p₂)) := by
    intro hs bw hbw
    have : bw.1 ∈ dkeys (p₁ ++ p₂) := (mem_dkeys_mergeDict _ _).1 (List.mem_map.2 ⟨bw, hbw, rfl⟩)
    obtain ⟨bw', hbw', he⟩ := List.mem_map.1 this
    rw [← he]; exact h hs bw' hbw'
  obtain ⟨d, d₁, d₂, _, hd₁, hd₂, _⟩ := approvalToSimple_additive split p₁ p₂ h
  obtain ⟨dm, hdm, _, hsm⟩ := approvalToSimple_sum split _ hm
  obtain ⟨_, hd₁', _, hs₁⟩ := approvalToSimple_sum split p₁ (fun hs bw hbw => h hs bw (List.mem_append_left _ hbw))
  obtain ⟨_, hd₂', _, hs₂⟩ := approvalToSimple_sum split p₂ (fun hs bw hbw => h hs bw (List.mem_append_right _ hbw))
  rw [hd₁] at hd₁'; rw [hd₂] at hd₂'
  cases hd₁'; cases hd₂'
  exact ⟨dm, d₁, d₂, hdm, hd₁, hd₂, fun k => by rw [hsm, hs₁, hs₂, wsum_mergeDict, wsum_append]⟩

/-- the image of a canonical (duplicate-free) approval ballot: 1 (or 1/|b|) for each approved candidate,
    nothing for the others -/
theorem approvalImage_nodup (split : Bool) {b : Approval} (hb : b.Nodup) (c : Cand) :
    approvalImage split b c = if c ∈ b then (if split then 1 / (b.length : Rat) else 1) else 0 := by
  unfold approvalImage
  rw [cnt_of_nodup hb]
  cases split <;> by_cases hc : c ∈ b <;> simp [hc]

/-- weight conservation: unsplit, each ballot contributes its weight once per approved candidate;
    split, exactly its weight -/
theorem approvalToSimple_weight_conserved (split : Bool) (p : AProfile) (h : ApprovalOK split p) :
    ∃ d, approvalToSimple split p = .ok d ∧
      total d = wsum p (fun b => if split then 1 else (b.length : Rat)) := by
  refine ⟨_, approvalToSimple_eq_ok split p h, ?_⟩
  have : ∀ (q : AProfile) (acc : Dict Cand), (split = true → ∀ bw ∈ q, bw.1 ≠ []) →
      total (q.foldl (approvalStep split) acc) = total acc + wsum q (fun b => if split then 1 else (b.length : Rat)) := by
    intro q
    induction q with
    | nil => intro acc _; simp
    | cons bw t ih =>
      intro acc hq
      rw [List.foldl_cons, ih _ (fun hs bw' hbw' => hq hs bw' (by simp [hbw'])),
        total_approvalStep split acc bw (fun hs => hq hs bw (by simp)), wsum_cons]
      ring
  rw [this p [] h]; simp [total]

/-! ## RankedToPresenceCounts -/

/-- the presence count of `k` is `Σ w · (number of places of the ballot naming k)`; `all_rankings`
    walks the profile rank by rank, yet every occurrence is counted exactly once -/
theorem presenceCounts_sum : SumOfImages rankedToPresenceCounts presence := by
  intro p k
  unfold rankedToPresenceCounts
  have : (allRankings p).foldl (fun out t => addTo out t.1 t.2.2) []
      = ((allRankings p).map (fun t => (t.1, t.2.2))).foldl (fun acc e => addTo acc e.1 e.2) [] := by
    rw [List.foldl_map]
  rw [this, toFun_foldl_addTo, toFun_allRankings]; simp

theorem presenceCounts_additive (p₁ p₂ : RProfile) (k : Cand) :
    toFun (rankedToPresenceCounts (p₁ ++ p₂)) k
      = toFun (rankedToPresenceCounts p₁) k + toFun (rankedToPresenceCounts p₂) k :=
  presenceCounts_sum.additive p₁ p₂ k

theorem presenceCounts_additive_merged (p₁ p₂ : RProfile) (k : Cand) :
    toFun (rankedToPresenceCounts (mergeDict (p₁ ++ p₂))) k
      = toFun (rankedToPresenceCounts p₁) k + toFun (rankedToPresenceCounts p₂) k :=
  presenceCounts_sum.additive_merged p₁ p₂ k

/-- a duplicate-free ballot counts once for each candidate it names, shared rank or not -/
theorem presence_of_nodup {b : Ballot} (hb : (ballotCands b).Nodup) (k : Cand) :
    presence b k = if k ∈ ballotCands b then 1 else 0 := cnt_of_nodup hb k

theorem presenceCounts_single (b : Ballot) (w : Rat) (k : Cand) :
    toFun (rankedToPresenceCounts [(b, w)]) k = w * cnt (ballotCands b) k :=
  presenceCounts_sum.single b w k

theorem presenceCounts_is_dict (p : RProfile) : (dkeys (rankedToPresenceCounts p)).Nodup := by
  unfold rankedToPresenceCounts
  have : (allRankings p).foldl (fun out t => addTo out t.1 t.2.2) []
      = ((allRankings p).map (fun t => (t.1, t.2.2))).foldl (fun acc e => addTo acc e.1 e.2) [] := by
    rw [List.foldl_map]
  rw [this]; exact nodup_foldl_addTo _ (by simp [dkeys])

/-- the counts sum to `Σ w · (number of candidate places on the ballot)` -/
theorem presenceCounts_weight (p : RProfile) :
    total (rankedToPresenceCounts p) = wsum p (fun b => ((ballotCands b).length : Rat)) := by
  unfold rankedToPresenceCounts
  have : (allRankings p).foldl (fun out t => addTo out t.1 t.2.2) []
      = ((allRankings p).map (fun t => (t.1, t.2.2))).foldl (fun acc e => addTo acc e.1 e.2) [] := by
    rw [List.foldl_map]
  rw [this, total_foldl_addTo, total_allRankings]; simp [total]

/-! ## RankedToApprovalVotes -/

theorem rankedToApproval_eq_accum :
    rankedToApproval = accumOne (fun b : Ballot => some (canonSet (ballotCands b))) := rfl

/-- a ranking counts, with its weight, for exactly the set of candidates it names -/
theorem rankedToApproval_sum :
    SumOfImages rankedToApproval (fun b k => if canonSet (ballotCands b) = k then 1 else 0) := by
  rw [rankedToApproval_eq_accum]
  intro p k
  rw [accumOne_sum]; simp

theorem rankedToApproval_additive (p₁ p₂ : RProfile) (k : Approval) :
    toFun (rankedToApproval (p₁ ++ p₂)) k = toFun (rankedToApproval p₁) k + toFun (rankedToApproval p₂) k :=
  rankedToApproval_sum.additive p₁ p₂ k

theorem rankedToApproval_additive_merged (p₁ p₂ : RProfile) (k : Approval) :
    toFun (rankedToApproval (mergeDict (p₁ ++ p₂))) k
      = toFun (rankedToApproval p₁) k + toFun (rankedToApproval p₂) k :=
  rankedToApproval_sum.additive_merged p₁ p₂ k

/-- the image of a single ballot is its approved set: the key lists exactly the candidates of the
    ballot, strictly increasing (the canonical form of the frozenset) -/
theorem rankedToApproval_single (b : Ballot) (w : Rat) :
    ∃ key, rankedToApproval [(b, w)] = [(key, w)] ∧ key.Pairwise (· < ·) ∧ ∀ c, c ∈ key ↔ c ∈ ballotCands b :=
  ⟨canonSet (ballotCands b), by rw [rankedToApproval_eq_accum, accumOne_single],
    sorted_canonSet _, fun c => mem_canonSet c _⟩

/-- two rankings are accumulated under the same key iff they name the same candidates
    (the case the overwrite defect e8fbfff lost) -/
theorem rankedToApproval_same_key (b₁ b₂ : Ballot) :
    canonSet (ballotCands b₁) = canonSet (ballotCands b₂) ↔ ∀ c, c ∈ ballotCands b₁ ↔ c ∈ ballotCands b₂ :=
  canonSet_eq_iff _ _

/-- total weight is conserved: every ranking, the empty one included, contributes its weight once -/
theorem rankedToApproval_weight_conserved (p : RProfile) : total (rankedToApproval p) = total p := by
  rw [rankedToApproval_eq_accum, accumOne_total, ← wsum_one]; simp

theorem rankedToApproval_is_dict (p : RProfile) : (dkeys (rankedToApproval p)).Nodup := by
  rw [rankedToApproval_eq_accum]; exact accumOne_nodup _ p

/-! ## RankedToFirstNPreferences (after fix 3e1d341: shared ranks are flattened) -/

theorem firstN_eq_accum (n : Int) :
    rankedToFirstN n = accumOne (fun b : Ballot =>
      if b = [] then none else some (canonSet (ballotCands (pyTake n b)))) := by
  funext p
  unfold rankedToFirstN accumOne
  congr 1
  funext acc bw
  cases bw.1 <;> simp

theorem firstN_sum (n : Int) :
    SumOfImages (rankedToFirstN n)
      (fun b k => if b ≠ [] ∧ canonSet (ballotCands (pyTake n b)) = k then 1 else 0) := by
  rw [firstN_eq_accum]
  intro p k
  rw [accumOne_sum]
  apply wsum_congr
  intro bw _
  by_cases h : bw.1 = [] <;> simp [h]

theorem firstN_additive (n : Int) (p₁ p₂ : RProfile) (k : Approval) :
    toFun (rankedToFirstN n (p₁ ++ p₂)) k = toFun (rankedToFirstN n p₁) k + toFun (rankedToFirstN n p₂) k :=
  (firstN_sum n).additive p₁ p₂ k

theorem firstN_additive_merged (n : Int) (p₁ p₂ : RProfile) (k : Approval) :
    toFun (rankedToFirstN n (mergeDict (p₁ ++ p₂))) k
      = toFun (rankedToFirstN n p₁) k + toFun (rankedToFirstN n p₂) k :=
  (firstN_sum n).additive_merged p₁ p₂ k

/-- **the documented image, at full strength** (the `_partial` theorem of the pre-fix model is gone):
    a non-empty ballot converts to the approval set of the CANDIDATES standing at its first `n` places —
    a canonical (strictly increasing) set of candidates, shared ranks flattened, never a set of sets -/
theorem firstN_flat_image (n : Int) (b : Ballot) (w : Rat) (hb : b ≠ []) :
    ∃ key : Approval, rankedToFirstN n [(b, w)] = [(key, w)] ∧ key.Pairwise (· < ·) ∧
      ∀ c, c ∈ key ↔ ∃ it ∈ pyTake n b, c ∈ it.cands := by
  refine ⟨canonSet (ballotCands (pyTake n b)), ?_, sorted_canonSet _, fun c => ?_⟩
  · rw [firstN_eq_accum, accumOne_single]; simp [hb]
  · rw [mem_canonSet, mem_ballotCands]

/-- the empty ballot has no image -/
theorem firstN_empty (n : Int) (w : Rat) : rankedToFirstN n [([], w)] = [] := rfl

/-- two ballots are accumulated under the same key iff their first `n` places name the same candidates -/
theorem firstN_same_key (n : Int) (b₁ b₂ : Ballot) :
    canonSet (ballotCands (pyTake n b₁)) = canonSet (ballotCands (pyTake n b₂))
      ↔ ∀ c, c ∈ ballotCands (pyTake n b₁) ↔ c ∈ ballotCands (pyTake n b₂) := canonSet_eq_iff _ _

/-- for `n ≥ 0` the slice is the first `n` places -/
theorem pyTake_nonneg {α : Type} (n : Nat) (l : List α) : pyTake (n : Int) l = l.take n := by
  simp [pyTake]

/-- total weight is conserved over the non-empty ballots -/
theorem firstN_weight_conserved (n : Int) (p : RProfile) :
    total (rankedToFirstN n p) = wsum p (fun b => if b = [] then 0 else 1) := by
  rw [firstN_eq_accum, accumOne_total]
  apply wsum_congr
  intro bw _
  by_cases h : bw.1 = [] <;> simp [h]

theorem firstN_is_dict (n : Int) (p : RProfile) : (dkeys (rankedToFirstN n p)).Nodup := by
  rw [firstN_eq_accum]; exact accumOne_nodup _ p

/-- the witness of the repaired defect (before 3e1d341 the key was the nested set `{{1,2}}`) -/
theorem firstN_shared_rank_flattened :
    rankedToFirstN 1 [([RankItem.shared [1, 2], RankItem.one 3], 1)] = [([1, 2], 1)] := by
  decide +kernel

/-! ## RankedToPositionalVotes (every rank scorer) -/

/-- every candidate named on a ballot belongs to the universe (true of `all_ranked_candidates`) -/
def Covers (U : List Cand) (p : RProfile) : Prop := ∀ bw ∈ p, ∀ c ∈ ballotCands bw.1, c ∈ U

/-- the scorer accepts the length of every ballot: Borda refuses more ranks than candidates -/
def ScorerOK (sc : Scorer) (nCand : Nat) (p : RProfile) : Prop :=
  ∀ bw ∈ p, scorerAccepts sc nCand bw.1.length = true

instance (U : List Cand) (p : RProfile) : Decidable (Covers U p) := by unfold Covers; infer_instance
instance (sc : Scorer) (n : Nat) (p : RProfile) : Decidable (ScorerOK sc n p) := by unfold ScorerOK; infer_instance

theorem covers_allRankedCandidates (p : RProfile) : Covers (allRankedCandidates p) p :=
  fun bw hbw c hc => (mem_allRankedCandidates p c).2 ⟨bw, hbw, hc⟩

/-- over a fixed universe `U` the positional converter returns, for every candidate of `U`, the sum of
    the ballot images `Σ w · Σ_places score(place) · [k stands there]`; the keys are exactly `U` -/
theorem positional_sum (sc : Scorer) (U : List Cand) (p : RProfile) (hc : Covers U p) (hs : ScorerOK sc U.length p) :
    ∃ d, positionalU sc U p = .ok d ∧ (∀ k, k ∈ dkeys d ↔ k ∈ U) ∧ (U.Nodup → (dkeys d).Nodup) ∧
      ∀ k, toFun d k = wsum p (fun b => posImage sc U.length b k) := by
  obtain ⟨d, h1, _, h3, h4, h5⟩ := positionalU_ok sc U p hc (fun bw hbw => by
    obtain ⟨l, hl⟩ := (scorerAccepts_iff sc U.length bw.1.length).1 (hs bw hbw)
    exact ⟨l, hl, le_of_eq (Scorer.scores_length hl).symm⟩)
  exact ⟨d, h1, h3, h4, h5⟩

/-- additivity over the same candidates: the universe is fixed -/
theorem positional_additive (sc : Scorer) (U : List Cand) (p₁ p₂ : RProfile)
    (hc : Covers U (p₁ ++ p₂)) (hs : ScorerOK sc U.length (p₁ ++ p₂)) :
    ∃ d d₁ d₂, positionalU sc U (p₁ ++ p₂) = .ok d ∧ positionalU sc U p₁ = .ok d₁ ∧ positionalU sc U p₂ = .ok d₂ ∧
      ∀ k, toFun d k = toFun d₁ k + toFun d₂ k := by
  obtain ⟨d, hd, _, _, h⟩ := positional_sum sc U _ hc hs
  obtain ⟨d₁, hd₁, _, _, h₁⟩ := positional_sum sc U p₁ (fun bw hbw => hc bw (List.mem_append_left _ hbw))
    (fun bw hbw => hs bw (List.mem_append_left _ hbw))
  obtain ⟨d₂, hd₂, _, _, h₂⟩ := positional_sum sc U p₂ (fun bw hbw => hc bw (List.mem_append_right _ hbw))
    (fun bw hbw => hs bw (List.mem_append_right _ hbw))
  exact ⟨d, d₁, d₂, hd, hd₁, hd₂, fun k => by rw [h, h₁, h₂, wsum_append]⟩

theorem positional_additive_merged (sc : Scorer) (U : List Cand) (p₁ p₂ : RProfile)
    (hc : Covers U (p₁ ++ p₂)) (hs : ScorerOK sc U.length (p₁ ++ p₂)) :
    ∃ d d₁ d₂, positionalU sc U (mergeDict (p₁ ++ p₂)) = .ok d ∧ positionalU sc U p₁ = .ok d₁ ∧
      positionalU sc U p₂ = .ok d₂ ∧ ∀ k, toFun d k = toFun d₁ k + toFun d₂ k := by
  have hkeys : ∀ bw ∈ mergeDict (p₁ ++ p₂), ∃ bw' ∈ p₁ ++ p₂, bw'.1 = bw.1 := by
    intro bw hbw
    have : bw.1 ∈ dkeys (p₁ ++ p₂) := (mem_dkeys_mergeDict _ _).1 (List.mem_map.2 ⟨bw, hbw, rfl⟩)
    exact List.mem_map.1 this
  obtain ⟨dm, hdm, _, _, hm⟩ := positional_sum sc U (mergeDict (p₁ ++ p₂))
    (fun bw hbw c hcc => by obtain ⟨bw', h', e⟩ := hkeys bw hbw; exact hc bw' h' c (e ▸ hcc))
    (fun bw hbw => by obtain ⟨bw', h', e⟩ := hkeys bw hbw; exact e ▸ hs bw' h')
  obtain ⟨d₁, hd₁, _, _, h₁⟩ := positional_sum sc U p₁ (fun bw hbw => hc bw (List.mem_append_left _ hbw))
    (fun bw hbw => hs bw (List.mem_append_left _ hbw))
  obtain ⟨d₂, hd₂, _, _, h₂⟩ := positional_sum sc U p₂ (fun bw hbw => hc bw (List.mem_append_right _ hbw))
    (fun bw hbw => hs bw (List.mem_append_right _ hbw))
  exact ⟨dm, d₁, d₂, hdm, hd₁, hd₂, fun k => by rw [hm, h₁, h₂, wsum_mergeDict, wsum_append]⟩

/-- the converter as called (`all_candidates = all_ranked_candidates(votes)`): profiles over the same
    number of candidates add up -/
theorem rankedToPositional_additive (sc : Scorer) (p₁ p₂ : RProfile)
    (h₁ : (allRankedCandidates p₁).length = (allRankedCandidates (p₁ ++ p₂)).length)
    (h₂ : (allRankedCandidates p₂).length = (allRankedCandidates (p₁ ++ p₂)).length)
    (hs : ScorerOK sc (allRankedCandidates (p₁ ++ p₂)).length (p₁ ++ p₂)) :
    ∃ d d₁ d₂, rankedToPositional sc (p₁ ++ p₂) = .ok d ∧ rankedToPositional sc p₁ = .ok d₁ ∧
      rankedToPositional sc p₂ = .ok d₂ ∧ ∀ k, toFun d k = toFun d₁ k + toFun d₂ k := by
  unfold rankedToPositional
  obtain ⟨d, hd, _, _, h⟩ := positional_sum sc _ _ (covers_allRankedCandidates (p₁ ++ p₂)) hs
  obtain ⟨d₁, hd₁, _, _, hh₁⟩ := positional_sum sc _ p₁ (covers_allRankedCandidates p₁)
    (fun bw hbw => by rw [h₁]; exact hs bw (List.mem_append_left _ hbw))
  obtain ⟨d₂, hd₂, _, _, hh₂⟩ := positional_sum sc _ p₂ (covers_allRankedCandidates p₂)
    (fun bw hbw => by rw [h₂]; exact hs bw (List.mem_append_right _ hbw))
  exact ⟨d, d₁, d₂, hd, hd₁, hd₂, fun k => by rw [h, hh₁, hh₂, wsum_append, h₁, h₂]⟩

/-- the converter as called lists every candidate of the profile exactly once -/
theorem rankedToPositional_keys (sc : Scorer) (p : RProfile) (d : Dict Cand) (h : rankedToPositional sc p = .ok d) :
    (dkeys d).Nodup ∧ ∀ k, k ∈ dkeys d ↔ ∃ bw ∈ p, k ∈ ballotCands bw.1 := by
  unfold rankedToPositional at h
  have hs : ScorerOK sc (allRankedCandidates p).length p := by
    intro bw hbw
    by_contra hne
    have hrej : ∀ l, sc.scores (allRankedCandidates p).length bw.1.length ≠ .ok l :=
      fun l hl => hne ((scorerAccepts_iff _ _ _).2 ⟨l, hl⟩)
    -- a refused ballot makes the whole conversion fail, so `h` is impossible
    have : ∀ (q : RProfile) (agg : Dict Cand), bw ∈ q →
        ∀ r, q.foldlM (positionalStep sc (allRankedCandidates p).length) agg ≠ .ok r := by
      intro q
      induction q with
      | nil => intro _ hq; simp at hq
      | cons a t ih =>
        intro agg hq r
        rw [List.foldlM_cons]
        rcases List.mem_cons.1 hq with rfl | hq
        · have : positionalStep sc (allRankedCandidates p).length agg bw
              = match sc.scores (allRankedCandidates p).length bw.1.length with
                | .ok scores => positionalBallot scores bw.2 0 bw.1 agg
                | .error e => .error e := rfl
          rw [this]
          cases hsc : sc.scores (allRankedCandidates p).length bw.1.length with
          | ok l => exact absurd hsc (hrej l)
          | error e => intro hh; cases hh
        · cases hstep : positionalStep sc (allRankedCandidates p).length agg a with
          | ok agg' => exact ih agg' hq r
          | error e => intro hh; cases hh
    rw [positionalU_def] at h
    cases hf : p.foldlM (positionalStep sc (allRankedCandidates p).length)
        ((allRankedCandidates p).map (fun c => (c, (0 : Rat)))) with
    | ok r => exact this p _ hbw r hf
    | error e => rw [hf] at h; cases h
  obtain ⟨d', hd', hk, hn, _⟩ := positional_sum sc _ p (covers_allRankedCandidates p) hs
  rw [hd'] at h; cases h
  exact ⟨hn (nodup_allRankedCandidates p), fun k => by rw [hk, mem_allRankedCandidates]⟩

/-- the image in rank-indexed form: candidate `k` collects, for every place `j` of the ballot, the score of
    rank `j` times the number of times it stands there -/
theorem posImage_eq_sum (sc : Scorer) (nCand : Nat) (b : Ballot) (k : Cand) :
    posImage sc nCand b k
      = ((List.range b.length).map (fun j =>
          (scorerList sc nCand b.length).getD j 0 * cnt (b.getD j (.shared [])).cands k)).sum := by
  unfold posImage
  rw [posFrom_eq_sum]
  simp

/-! ### the score lists (these react to `component/rankscore.py` through `Gen/RankScore.lean`) -/

/-- `rankscore.select_padded(sequence, n)` (hand-modelled as `selectPadded`, rankscore.py L16-25) is the
    `n`-prefix of the sequence followed by zero padding up to length `n` -/
theorem selectPadded_eq (seq : List Rat) (n : Nat) :
    selectPadded seq n = seq.take n ++ List.replicate (n - seq.length) 0 := by
  unfold selectPadded
  simp only [List.length_take]
  split
  · rename_i h
    have : n - min n seq.length = n - seq.length := by omega
    rw [this]
  · rename_i h
    have : n - seq.length = 0 := by omega
    rw [this]; simp

theorem selectPadded_prefix (seq : List Rat) (n : Nat) (h : n ≤ seq.length) : selectPadded seq n = seq.take n := by
  rw [selectPadded_eq, Nat.sub_eq_zero_of_le h]; simp

/-- SequenceBased hands out `select_padded(self.sequence, n_ranked)` -/
theorem sequence_scores_eq (seq : List Rat) (nCand n : Nat) :
    (Scorer.sequence seq).scores nCand n = .ok (seq.take n ++ List.replicate (n - seq.length) 0) := by
  simp only [Scorer.scores, selectPadded_eq]

/-- Borda hands out the `n_ranked`-prefix of the list built by `set_n_candidates` (the generated
    `borda_scores`), never padding, because it refuses more ranks than candidates -/
theorem borda_scores_eq (base : Int) (nCand n : Nat) (h : n ≤ nCand) :
    (Scorer.borda base).scores nCand n = .ok ((Gen.RankScore.borda_scores base nCand).take n) := by
  simp only [Scorer.scores]
  rw [if_neg (by omega), selectPadded_prefix]
  simp [Gen.RankScore.borda_scores]; exact h

/-- Borda: rank `r` (0 = best) of a ballot scores `n_candidates + base - 1 - r` -/
theorem borda_score_at (base : Int) (nCand n r : Nat) (hn : n ≤ nCand) (hr : r < n) :
    (scorerList (.borda base) nCand n).getD r 0 = (((nCand : Int) + base - 1 - (r : Int) : Int) : Rat) := by
  unfold scorerList
  simp only [Scorer.scores]
  rw [if_neg (by omega)]
  simp only [selectPadded_getD _ _ _ hr, Gen.RankScore.borda_scores]
  rw [getD_map_range _ _ _ (by omega)]
  push_cast; ring

theorem borda_rejects (base : Int) (nCand n : Nat) (hn : nCand < n) :
    (Scorer.borda base).scores nCand n = .error .valueError := by
  simp only [Scorer.scores]; rw [if_pos hn]

/-- Dowdall: `1 / (r + 1)` -/
theorem dowdall_score_at (nCand n r : Nat) (hr : r < n) :
    (scorerList .dowdall nCand n).getD r 0 = 1 / ((r : Rat) + 1) := by
  unfold scorerList
  simp only [Scorer.scores, Gen.RankScore.dowdall_scores]
  rw [getD_map_range _ _ _ hr]
  push_cast; ring

/-- Geometric: `1 / base ^ r` -/
theorem geometric_score_at (base nCand n r : Nat) (hb : base ≠ 0) (hr : r < n) :
    (scorerList (.geometric base) nCand n).getD r 0 = 1 / ((base : Rat) ^ r) := by
  unfold scorerList
  simp only [Scorer.scores]
  rw [if_neg (by simp [hb])]
  simp only [Gen.RankScore.geometric_scores]
  rw [getD_map_range _ _ _ hr]
  push_cast; ring

/-- Modified Borda: `n_ranked - r` -/
theorem modifiedBorda_score_at (nCand n r : Nat) (hr : r < n) :
    (scorerList .modifiedBorda nCand n).getD r 0 = (n : Rat) - (r : Rat) := by
  unfold scorerList
  simp only [Scorer.scores, Gen.RankScore.modified_borda_scores]
  rw [getD_map_range _ _ _ hr]
  push_cast; ring

/-- FixedTop: `max(top - r, 0)` -/
theorem fixedTop_score_at (top : Int) (nCand n r : Nat) (hr : r < n) :
    (scorerList (.fixedTop top) nCand n).getD r 0 = max ((top : Rat) - (r : Rat)) 0 := by
  unfold scorerList
  simp only [Scorer.scores, Gen.RankScore.fixed_top_scores]
  rw [getD_map_range _ _ _ hr]
  unfold Py.pyMax
  push_cast
  split
  · rename_i h; rw [max_eq_right (le_of_lt h)]
  · rename_i h; rw [max_eq_left (not_lt.1 h)]

/-- SequenceBased: the given sequence, then zeros -/
theorem sequence_score_at (seq : List Rat) (nCand n r : Nat) (hr : r < n) :
    (scorerList (.sequence seq) nCand n).getD r 0 = seq.getD r 0 := by
  unfold scorerList
  simp only [Scorer.scores]
  exact selectPadded_getD _ _ _ hr

/-- Borda refuses a ballot with more ranks than candidates (no image is invented for it) -/
theorem positional_borda_rejects (base : Int) (U : List Cand) (b : Ballot) (w : Rat) (h : U.length < b.length) :
    positionalU (.borda base) U [(b, w)] = .error .valueError := by
  rw [positionalU_def]
  have : positionalStep (.borda base) U.length (U.map (fun c => (c, (0 : Rat)))) (b, w) = .error .valueError := by
    unfold positionalStep; rw [borda_rejects base _ _ h]
  rw [List.foldlM_cons, this]
  rfl


/-! ## RankedToCondorcetVotes (both modes) -/

/-- the pairwise count of (x, y) is `Σ w · (number of times the ballot counts the ordered pair)` -/
theorem condorcet_sum (atBottom : Bool) (U : List Cand) :
    SumOfImages (condorcetU atBottom U) (fun b k => cnt (condPairs atBottom U b) k) :=
  condorcetU_sum atBottom U

theorem condorcet_additive (atBottom : Bool) (U : List Cand) (p₁ p₂ : RProfile) (k : Cand × Cand) :
    toFun (condorcetU atBottom U (p₁ ++ p₂)) k = toFun (condorcetU atBottom U p₁) k + toFun (condorcetU atBottom U p₂) k :=
  (condorcet_sum atBottom U).additive p₁ p₂ k

theorem condorcet_additive_merged (atBottom : Bool) (U : List Cand) (p₁ p₂ : RProfile) (k : Cand × Cand) :
    toFun (condorcetU atBottom U (mergeDict (p₁ ++ p₂))) k
      = toFun (condorcetU atBottom U p₁) k + toFun (condorcetU atBottom U p₂) k :=
  (condorcet_sum atBottom U).additive_merged p₁ p₂ k

/-- the converter as called (`all_cands` = the candidates of the profile): without `unranked_at_bottom`
    the universe plays no role, so plain additivity holds for all profiles -/
theorem rankedToCondorcet_additive_nobottom (p₁ p₂ : RProfile) (k : Cand × Cand) :
    toFun (rankedToCondorcet false (p₁ ++ p₂)) k
      = toFun (rankedToCondorcet false p₁) k + toFun (rankedToCondorcet false p₂) k := by
  have : ∀ U p, condorcetU false U p = condorcetU false [] p := by
    intro U p; unfold condorcetU unrankedOf; rfl
  unfold rankedToCondorcet
  rw [this _ (p₁ ++ p₂), this _ p₁, this _ p₂]
  exact condorcet_additive false [] p₁ p₂ k

/-- with `unranked_at_bottom`, profiles over the same candidates add up -/
theorem rankedToCondorcet_additive (atBottom : Bool) (p₁ p₂ : RProfile) (k : Cand × Cand)
    (h₁ : canonSet (allRankedCandidates p₁) = canonSet (allRankedCandidates (p₁ ++ p₂)))
    (h₂ : canonSet (allRankedCandidates p₂) = canonSet (allRankedCandidates (p₁ ++ p₂))) :
    toFun (rankedToCondorcet atBottom (p₁ ++ p₂)) k
      = toFun (rankedToCondorcet atBottom p₁) k + toFun (rankedToCondorcet atBottom p₂) k := by
  unfold rankedToCondorcet
  rw [h₁, h₂]
  exact condorcet_additive atBottom _ p₁ p₂ k

/-- **single-ballot image**: a duplicate-free ballot of weight `w` adds exactly `w` to the count of (x, y)
    when it ranks x above y — or, with `unranked_at_bottom`, ranks x and leaves the candidate y unranked —
    and nothing otherwise -/
theorem condorcet_single (atBottom : Bool) (U : List Cand) (hU : U.Nodup) (b : Ballot) (w : Rat)
    (hb : (ballotCands b).Nodup) (x y : Cand) :
    toFun (condorcetU atBottom U [(b, w)]) (x, y)
      = w * (if (x, y) ∈ condPairs atBottom U b then 1 else 0) ∧
    ((x, y) ∈ condPairs atBottom U b
      ↔ Above b x y ∨ (atBottom = true ∧ x ∈ ballotCands b ∧ y ∈ U ∧ y ∉ ballotCands b)) := by
  refine ⟨?_, mem_condPairs atBottom U b x y⟩
  rw [(condorcet_sum atBottom U).single, cnt_condPairs atBottom hU hb]

/-- "ranks x above y" means: x stands at an earlier place than y -/
theorem above_iff_earlier_place (b : Ballot) (x y : Cand) :
    Above b x y ↔ ∃ (i j : Nat), i < j ∧ ∃ (it it' : RankItem),
      b[i]? = some it ∧ b[j]? = some it' ∧ x ∈ it.cands ∧ y ∈ it'.cands := above_iff_index b x y

/-- **the two opposite pairwise counts of a pair never sum to more than the number of ballots**
    (duplicate-free ballots, non-negative weights; `x = y` included: a candidate never beats itself) -/
theorem pairwise_le_total (atBottom : Bool) (U : List Cand) (hU : U.Nodup) (p : RProfile)
    (hb : ∀ bw ∈ p, (ballotCands bw.1).Nodup) (hw : ∀ bw ∈ p, 0 ≤ bw.2) (x y : Cand) :
    toFun (condorcetU atBottom U p) (x, y) + toFun (condorcetU atBottom U p) (y, x) ≤ total p := by
  rw [condorcet_sum, condorcet_sum, ← wsum_add, ← wsum_one]
  apply wsum_le_wsum hw
  intro bw hbw
  exact cnt_condPairs_le_one atBottom hU (hb bw hbw) x y

/-- the same for the dict `A + B` of two profiles: the bound is by the total weight of both halves -/
theorem pairwise_le_total_merged (atBottom : Bool) (U : List Cand) (hU : U.Nodup) (p₁ p₂ : RProfile)
    (hb : ∀ bw ∈ p₁ ++ p₂, (ballotCands bw.1).Nodup) (hw : ∀ bw ∈ p₁ ++ p₂, 0 ≤ bw.2) (x y : Cand) :
    toFun (condorcetU atBottom U (mergeDict (p₁ ++ p₂))) (x, y) + toFun (condorcetU atBottom U (mergeDict (p₁ ++ p₂))) (y, x)
      ≤ total p₁ + total p₂ := by
  rw [(condorcet_sum atBottom U).merged, (condorcet_sum atBottom U).merged]
  have := pairwise_le_total atBottom U hU (p₁ ++ p₂) hb hw x y
  have ht : total (p₁ ++ p₂) = total p₁ + total p₂ := by simp [total]
  rw [ht] at this; exact this

/-- the same for the converter as called -/
theorem rankedToCondorcet_pairwise_le_total (atBottom : Bool) (p : RProfile)
    (hb : ∀ bw ∈ p, (ballotCands bw.1).Nodup) (hw : ∀ bw ∈ p, 0 ≤ bw.2) (x y : Cand) :
    toFun (rankedToCondorcet atBottom p) (x, y) + toFun (rankedToCondorcet atBottom p) (y, x) ≤ total p :=
  pairwise_le_total atBottom _ (nodup_canonSet _) p hb hw x y

/-- a candidate never beats itself on duplicate-free ballots -/
theorem condorcet_irreflexive (atBottom : Bool) (U : List Cand) (p : RProfile)
    (hb : ∀ bw ∈ p, (ballotCands bw.1).Nodup) (x : Cand) : toFun (condorcetU atBottom U p) (x, x) = 0 := by
  rw [condorcet_sum]
  rw [← wsum_zero p]
  apply wsum_congr
  intro bw hbw
  apply cnt_eq_zero
  intro h
  exact condPairs_asymm atBottom U (hb bw hbw) h h

theorem condorcet_is_dict (atBottom : Bool) (U : List Cand) (p : RProfile) :
    (dkeys (condorcetU atBottom U p)).Nodup := condorcetU_nodup atBottom U p

/-- non-vacuity of the hypotheses of `pairwise_le_total` on a profile with a shared rank, a truncated and
    an empty ballot; and the bound is attained -/
example : (∀ bw ∈ ([([.shared [1, 2], .one 0], 2), ([.one 0, .one 1], 3), ([], 1)] : RProfile),
    (ballotCands bw.1).Nodup) ∧ (∀ bw ∈ ([([.shared [1, 2], .one 0], 2), ([.one 0, .one 1], 3), ([], 1)] : RProfile), 0 ≤ bw.2) := by
  decide +kernel

example : toFun (rankedToCondorcet true [([.shared [1, 2], .one 0], 2), ([.one 0, .one 1], 3), ([], 1)]) (0, 1)
    + toFun (rankedToCondorcet true [([.shared [1, 2], .one 0], 2), ([.one 0, .one 1], 3), ([], 1)]) (1, 0) = 5 := by
  decide +kernel

/-- without the duplicate-free hypothesis the bound fails: a ballot naming a candidate twice -/
theorem pairwise_le_total_needs_nodup :
    ¬ (toFun (condorcetU true [0, 1] [([.one 0, .one 1, .one 0], 1)]) (0, 1)
        + toFun (condorcetU true [0, 1] [([.one 0, .one 1, .one 0], 1)]) (1, 0) ≤ total ([([.one 0, .one 1, .one 0], 1)] : RProfile)) := by
  decide +kernel

/-! ## ScoreToRankedVotes -/

theorem scoreToRanked_eq_accum (uv : Option Rat) (U : List Cand) :
    scoreToRankedU uv U = accumOne (fun v : ScoreBallot => some (scoreToRankedOne uv U v)) := rfl

/-- every score ballot counts, with its weight, for exactly one ranking -/
theorem scoreToRanked_sum (uv : Option Rat) (U : List Cand) :
    SumOfImages (scoreToRankedU uv U) (fun v k => if scoreToRankedOne uv U v = k then 1 else 0) := by
  rw [scoreToRanked_eq_accum]
  intro p k
  rw [accumOne_sum]; simp

theorem scoreToRanked_additive (uv : Option Rat) (U : List Cand) (p₁ p₂ : SProfile) (k : Ballot) :
    toFun (scoreToRankedU uv U (p₁ ++ p₂)) k = toFun (scoreToRankedU uv U p₁) k + toFun (scoreToRankedU uv U p₂) k :=
  (scoreToRanked_sum uv U).additive p₁ p₂ k

theorem scoreToRanked_additive_merged (uv : Option Rat) (U : List Cand) (p₁ p₂ : SProfile) (k : Ballot) :
    toFun (scoreToRankedU uv U (mergeDict (p₁ ++ p₂))) k
      = toFun (scoreToRankedU uv U p₁) k + toFun (scoreToRankedU uv U p₂) k :=
  (scoreToRanked_sum uv U).additive_merged p₁ p₂ k

/-- without `unscored_value` the candidate universe plays no role: the converter as called is additive
    for all profiles -/
theorem scoreToRanked_additive_none (p₁ p₂ : SProfile) (k : Ballot) :
    toFun (scoreToRanked none (p₁ ++ p₂)) k = toFun (scoreToRanked none p₁) k + toFun (scoreToRanked none p₂) k := by
  have : ∀ U p, scoreToRankedU none U p = scoreToRankedU none [] p := fun U p => rfl
  unfold scoreToRanked
  rw [this _ (p₁ ++ p₂), this _ p₁, this _ p₂]
  exact scoreToRanked_additive none [] p₁ p₂ k

/-- **single-ballot image**: the ranking lists exactly the candidates of the ballot (plus, with
    `unscored_value`, the unscored candidates of the universe at that value), x stands strictly above y
    iff x is scored higher than y (equal scores share a rank), and — when each candidate is scored once —
    every candidate is listed exactly once -/
theorem scoreToRanked_image (uv : Option Rat) (U : List Cand) (v : ScoreBallot) :
    (∀ c, c ∈ ballotCands (scoreToRankedOne uv U v) ↔ ∃ s, (c, s) ∈ augment uv U v) ∧
    (∀ x y, Above (scoreToRankedOne uv U v) x y
      ↔ ∃ sx sy, (x, sx) ∈ augment uv U v ∧ (y, sy) ∈ augment uv U v ∧ sy < sx) ∧
    (((augment uv U v).map (·.1)).Nodup → (ballotCands (scoreToRankedOne uv U v)).Nodup) :=
  ⟨mem_scoreToRankedOne uv U v, above_scoreToRankedOne uv U v, nodup_scoreToRankedOne uv U v⟩

/-- what the augmented ballot contains -/
theorem scoreToRanked_augment (uv : Option Rat) (U : List Cand) (v : ScoreBallot) (c : Cand) (s : Rat) :
    (c, s) ∈ augment uv U v ↔ (c, s) ∈ v ∨ (uv = some s ∧ c ∈ U ∧ ∀ s', (c, s') ∉ v) :=
  mem_augment uv U v c s

/-- the converter as called (`all_candidates` = the frozenset of scored candidates): profiles over the same
    candidates add up -/
theorem scoreToRanked_top_additive (uv : Option Rat) (p₁ p₂ : SProfile) (k : Ballot)
    (h₁ : allScoredCandidates p₁ = allScoredCandidates (p₁ ++ p₂))
    (h₂ : allScoredCandidates p₂ = allScoredCandidates (p₁ ++ p₂)) :
    toFun (scoreToRanked uv (p₁ ++ p₂)) k = toFun (scoreToRanked uv p₁) k + toFun (scoreToRanked uv p₂) k := by
  unfold scoreToRanked
  rw [h₁, h₂]
  exact scoreToRanked_additive uv _ p₁ p₂ k

/-- the universe of the converter as called: exactly the candidates scored on some ballot -/
theorem mem_allScoredCandidates (p : SProfile) (c : Cand) :
    c ∈ allScoredCandidates p ↔ ∃ bw ∈ p, ∃ s, (c, s) ∈ bw.1 := by
  unfold allScoredCandidates
  rw [mem_canonSet, List.mem_flatMap]
  constructor
  · rintro ⟨bw, hbw, hc⟩
    obtain ⟨cs, hcs, rfl⟩ := List.mem_map.1 hc
    exact ⟨bw, hbw, cs.2, hcs⟩
  · rintro ⟨bw, hbw, s, hcs⟩
    exact ⟨bw, hbw, List.mem_map.2 ⟨(c, s), hcs, rfl⟩⟩

theorem scoreToRanked_weight_conserved (uv : Option Rat) (U : List Cand) (p : SProfile) :
    total (scoreToRankedU uv U p) = total p := by
  rw [scoreToRanked_eq_accum, accumOne_total, ← wsum_one]; simp

theorem scoreToRanked_is_dict (uv : Option Rat) (U : List Cand) (p : SProfile) :
    (dkeys (scoreToRankedU uv U p)).Nodup := by
  rw [scoreToRanked_eq_accum]; exact accumOne_nodup _ p

/-! ## ScoreToApprovalVotesThreshold -/

theorem scoreToApproval_eq_accum (thr : Rat) :
    scoreToApproval thr = accumOne (fun v : ScoreBallot => match approvedAt thr v with
      | [] => none
      | a :: as => some (a :: as)) := by
  funext p
  unfold scoreToApproval accumOne
  congr 1
  funext acc bw
  cases h : approvedAt thr bw.1 <;> simp [h]

/-- a score ballot counts for its approved set — the candidates scored at least the threshold — unless that
    set is empty -/
theorem scoreToApproval_sum (thr : Rat) :
    SumOfImages (scoreToApproval thr) (fun v k => if approvedAt thr v ≠ [] ∧ approvedAt thr v = k then 1 else 0) := by
  rw [scoreToApproval_eq_accum]
  intro p k
  rw [accumOne_sum]
  apply wsum_congr
  intro bw _
  cases h : approvedAt thr bw.1 <;> simp [h]

theorem scoreToApproval_additive (thr : Rat) (p₁ p₂ : SProfile) (k : Approval) :
    toFun (scoreToApproval thr (p₁ ++ p₂)) k = toFun (scoreToApproval thr p₁) k + toFun (scoreToApproval thr p₂) k :=
  (scoreToApproval_sum thr).additive p₁ p₂ k

theorem scoreToApproval_additive_merged (thr : Rat) (p₁ p₂ : SProfile) (k : Approval) :
    toFun (scoreToApproval thr (mergeDict (p₁ ++ p₂))) k
      = toFun (scoreToApproval thr p₁) k + toFun (scoreToApproval thr p₂) k :=
  (scoreToApproval_sum thr).additive_merged p₁ p₂ k

/-- the approved set: strictly increasing, exactly the candidates with a score ≥ threshold -/
theorem scoreToApproval_image (thr : Rat) (v : ScoreBallot) :
    (approvedAt thr v).Pairwise (· < ·) ∧ ∀ c, c ∈ approvedAt thr v ↔ ∃ s, (c, s) ∈ v ∧ thr ≤ s :=
  ⟨sorted_canonSet _, mem_approvedAt thr v⟩

theorem scoreToApproval_weight_conserved (thr : Rat) (p : SProfile) :
    total (scoreToApproval thr p) = wsum p (fun v => if approvedAt thr v = [] then 0 else 1) := by
  rw [scoreToApproval_eq_accum, accumOne_total]
  apply wsum_congr
  intro bw _
  cases h : approvedAt thr bw.1 <;> simp

theorem scoreToApproval_is_dict (thr : Rat) (p : SProfile) : (dkeys (scoreToApproval thr p)).Nodup := by
  rw [scoreToApproval_eq_accum]; exact accumOne_nodup _ p

/-! ## InvertedSimpleVotes / InvertedApprovalVotes (dict comprehensions: inputs are dicts) -/

/-- every count changes sign, nothing else -/
theorem invertedSimple_image {κ : Type} [DecidableEq κ] (p : Dict κ) (h : (dkeys p).Nodup) :
    invertedSimple p = p.map (fun cw => (cw.1, -cw.2)) := invertedSimple_eq h

theorem invertedSimple_toFun {κ : Type} [DecidableEq κ] (p : Dict κ) (h : (dkeys p).Nodup) (k : κ) :
    toFun (invertedSimple p) k = - toFun p k := by
  rw [invertedSimple_eq h, toFun_map_neg]

/-- additivity for dicts: the inverse of the dict `A + B` is the sum of the inverses -/
theorem invertedSimple_additive_merged {κ : Type} [DecidableEq κ] (p₁ p₂ : Dict κ)
    (h₁ : (dkeys p₁).Nodup) (h₂ : (dkeys p₂).Nodup) (k : κ) :
    toFun (invertedSimple (mergeDict (p₁ ++ p₂))) k = toFun (invertedSimple p₁) k + toFun (invertedSimple p₂) k := by
  rw [invertedSimple_toFun _ (nodup_mergeDict _), invertedSimple_toFun _ h₁, invertedSimple_toFun _ h₂,
    toFun_mergeDict, toFun_append]; ring

/-- over a fixed universe the inverted approval profile is the sum of the ballot images: each ballot
    counts for the candidates of the universe it does not approve -/
theorem invertedApproval_sum (U : List Cand) (p : AProfile) (h : AWF U p) (k : Approval) :
    toFun (invertedApprovalU U p) k = wsum p (fun b => if complIn U b = k then 1 else 0) := by
  rw [invertedApprovalU_eq h, toFun_map_key]

theorem invertedApproval_image (U : List Cand) (b : Approval) :
    (complIn U b).Pairwise (· < ·) ∧ ∀ c, c ∈ complIn U b ↔ c ∈ U ∧ c ∉ b :=
  ⟨sorted_canonSet _, mem_complIn U b⟩

theorem awf_mergeDict {U : List Cand} {p : AProfile} (h : ∀ bw ∈ p, bw.1.Pairwise (· < ·) ∧ ∀ c ∈ bw.1, c ∈ U) :
    AWF U (mergeDict p) := by
  refine ⟨nodup_mergeDict p, fun bw hbw => ?_⟩
  have : bw.1 ∈ dkeys p := (mem_dkeys_mergeDict _ _).1 (List.mem_map.2 ⟨bw, hbw, rfl⟩)
  obtain ⟨bw', hbw', e⟩ := List.mem_map.1 this
  rw [← e]; exact h bw' hbw'

theorem invertedApproval_additive_merged (U : List Cand) (p₁ p₂ : AProfile) (h₁ : AWF U p₁) (h₂ : AWF U p₂)
    (k : Approval) :
    toFun (invertedApprovalU U (mergeDict (p₁ ++ p₂))) k
      = toFun (invertedApprovalU U p₁) k + toFun (invertedApprovalU U p₂) k := by
  have hm : AWF U (mergeDict (p₁ ++ p₂)) := awf_mergeDict (fun bw hbw => by
    rcases List.mem_append.1 hbw with h | h
    · exact h₁.2 bw h
    · exact h₂.2 bw h)
  rw [invertedApproval_sum U _ hm, invertedApproval_sum U _ h₁, invertedApproval_sum U _ h₂, wsum_mergeDict,
    wsum_append]

theorem invertedApproval_weight_conserved (U : List Cand) (p : AProfile) (h : AWF U p) :
    total (invertedApprovalU U p) = total p := by
  rw [invertedApprovalU_eq h, total_map_key]

/-! ## VoteTotals / ConstituencyTotals -/

/-- the total of candidate `k` is the sum of its votes over all districts -/
theorem voteTotals_sum {δ κ : Type} [DecidableEq κ] (p : List (δ × Dict κ)) (k : κ) :
    toFun (voteTotals p) k = nsumAll p (fun d => toFun d k) := toFun_voteTotals p k

theorem voteTotals_additive {δ κ : Type} [DecidableEq κ] (p₁ p₂ : List (δ × Dict κ)) (k : κ) :
    toFun (voteTotals (p₁ ++ p₂)) k = toFun (voteTotals p₁) k + toFun (voteTotals p₂) k := by
  rw [voteTotals_sum, voteTotals_sum, voteTotals_sum, nsumAll_append]

/-- for the nested dict `A + B` (district-wise `sum_dicts`) -/
theorem voteTotals_additive_merged {δ κ : Type} [DecidableEq δ] [DecidableEq κ] (p₁ p₂ : List (δ × Dict κ)) (k : κ) :
    toFun (voteTotals (mergeNested (p₁ ++ p₂))) k = toFun (voteTotals p₁) k + toFun (voteTotals p₂) k := by
  rw [voteTotals_sum, voteTotals_sum, voteTotals_sum, nsumAll_mergeNested (toFun_dictAdditive k), nsumAll_append]

/-- no vote is lost or doubled: the grand total is the sum of the district totals -/
theorem voteTotals_weight_conserved {δ κ : Type} [DecidableEq κ] (p : List (δ × Dict κ)) :
    total (voteTotals p) = nsumAll p total := total_voteTotals p

theorem voteTotals_is_dict {δ κ : Type} [DecidableEq κ] (p : List (δ × Dict κ)) : (dkeys (voteTotals p)).Nodup :=
  nodup_voteTotals p

/-- the total of a district is the sum of the votes filed under it -/
theorem constituencyTotals_sum {δ κ : Type} [DecidableEq δ] (p : List (δ × Dict κ)) (h : (dkeys p).Nodup) (d : δ) :
    toFun (constituencyTotals p) d = nsum p d total := toFun_constituencyTotals h d

theorem constituencyTotals_additive_merged {δ κ : Type} [DecidableEq δ] [DecidableEq κ] (p₁ p₂ : List (δ × Dict κ))
    (h₁ : (dkeys p₁).Nodup) (h₂ : (dkeys p₂).Nodup) (d : δ) :
    toFun (constituencyTotals (mergeNested (p₁ ++ p₂))) d
      = toFun (constituencyTotals p₁) d + toFun (constituencyTotals p₂) d := by
  rw [constituencyTotals_sum _ (nodup_mergeNested _), constituencyTotals_sum _ h₁, constituencyTotals_sum _ h₂,
    nsum_mergeNested total_dictAdditive, nsum_append]

/-! ## SubsettedVotes with the four subsetters -/

theorem subsetted_eq_accum {κ : Type} [DecidableEq κ] (sub : κ → Option κ) : subsetted sub = accumOne sub := rfl

/-- every ballot counts, with its weight, for its sub-vote (when the subsetter keeps it) -/
theorem subsetted_sum {κ : Type} [DecidableEq κ] (sub : κ → Option κ) :
    SumOfImages (subsetted sub) (fun b k => if sub b = some k then 1 else 0) := accumOne_sum sub

theorem subsetted_additive {κ : Type} [DecidableEq κ] (sub : κ → Option κ) (p₁ p₂ : Dict κ) (k : κ) :
    toFun (subsetted sub (p₁ ++ p₂)) k = toFun (subsetted sub p₁) k + toFun (subsetted sub p₂) k :=
  (subsetted_sum sub).additive p₁ p₂ k

theorem subsetted_additive_merged {κ : Type} [DecidableEq κ] (sub : κ → Option κ) (p₁ p₂ : Dict κ) (k : κ) :
    toFun (subsetted sub (mergeDict (p₁ ++ p₂))) k = toFun (subsetted sub p₁) k + toFun (subsetted sub p₂) k :=
  (subsetted_sum sub).additive_merged p₁ p₂ k

theorem subsetted_weight_conserved {κ : Type} [DecidableEq κ] (sub : κ → Option κ) (p : Dict κ) :
    total (subsetted sub p) = wsum p (fun b => if (sub b).isSome then 1 else 0) := accumOne_total sub p

theorem subsetted_is_dict {κ : Type} [DecidableEq κ] (sub : κ → Option κ) (p : Dict κ) :
    (dkeys (subsetted sub p)).Nodup := accumOne_nodup sub p

/-- SimpleSubsetter: the candidate itself when it belongs to the subset, dropped otherwise -/
theorem subsetSimple_image (S : List Cand) (c : Cand) :
    subsetSimple S c = if c ∈ S then some c else none := rfl

/-- ApprovalSubsetter: the intersection with the subset (never dropped), still canonical -/
theorem subsetApproval_image (S : List Cand) (v : Approval) (hv : v.Pairwise (· < ·)) :
    ∃ v', subsetApproval S v = some v' ∧ v'.Pairwise (· < ·) ∧ ∀ c, c ∈ v' ↔ c ∈ v ∧ c ∈ S :=
  ⟨_, rfl, hv.filter _, fun c => by simp⟩

/-- RankedSubsetter: **its sub-ranking over the candidate subset** — the candidates of the subset in the
    ballot's order, the same order relation between them, no empty place (never dropped) -/
theorem subsetRanked_image (S : List Cand) (b : Ballot) :
    ∃ b', subsetRanked S b = some b' ∧
      ballotCands b' = (ballotCands b).filter (fun c => c ∈ S) ∧
      (∀ x y, Above b' x y ↔ Above b x y ∧ x ∈ S ∧ y ∈ S) ∧
      ∀ it ∈ b', it.cands ≠ [] :=
  ⟨_, rfl, ballotCands_subsetRankedOne S b, above_subsetRankedOne S b, subsetRankedOne_items S b⟩

/-- ScoreSubsetter: the scores of the subset's candidates (never dropped) -/
theorem subsetScore_image (S : List Cand) (v : ScoreBallot) :
    ∃ v', subsetScore S v = some v' ∧ ∀ c s, (c, s) ∈ v' ↔ (c, s) ∈ v ∧ c ∈ S :=
  ⟨_, rfl, fun c s => by simp⟩

/-- for the three subsetters that never drop a ballot, total weight is conserved -/
theorem subsetted_weight_conserved_ranked (S : List Cand) (p : RProfile) :
    total (subsetted (subsetRanked S) p) = total p := by
  rw [subsetted_weight_conserved, ← wsum_one]; rfl

theorem subsetted_weight_conserved_approval (S : List Cand) (p : AProfile) :
    total (subsetted (subsetApproval S) p) = total p := by
  rw [subsetted_weight_conserved, ← wsum_one]; rfl

theorem subsetted_weight_conserved_score (S : List Cand) (p : SProfile) :
    total (subsetted (subsetScore S) p) = total p := by
  rw [subsetted_weight_conserved, ← wsum_one]; rfl

/-! ## IndividualToPartyVotes -/

/-- domain of the mapper: with `independents='error'` every candidate needs a party -/
def PartyOK (aff : Cand → Option Nat) (ind : Independents) (p : Dict Cand) : Prop :=
  ind = .error → ∀ cw ∈ p, (aff cw.1).isSome

/-- the party of a candidate: its affiliation; an independent is kept / aggregated under `None` / ignored -/
theorem mapKey_image (aff : Cand → Option Nat) (ind : Independents) (c : Cand) :
    mapKey aff ind c = match aff c, ind with
      | some party, _ => some (.party party)
      | none, .keep => some (.indep c)
      | none, .aggregate => some .none
      | none, _ => none := by
  unfold mapKey mapParty
  cases aff c <;> cases ind <;> rfl

/-- the votes of a party are the sum of the votes of the candidates mapped to it -/
theorem individualToParty_sum (aff : Cand → Option Nat) (ind : Independents) (p : Dict Cand) (h : PartyOK aff ind p) :
    ∃ d, individualToParty aff ind p = .ok d ∧ (dkeys d).Nodup ∧
      (∀ k, toFun d k = wsum p (fun c => if mapKey aff ind c = some k then 1 else 0)) ∧
      total d = wsum p (fun c => if (mapKey aff ind c).isSome then 1 else 0) :=
  ⟨_, individualToParty_eq_ok aff ind p h, accumOne_nodup _ p, fun k => accumOne_sum _ p k, accumOne_total _ p⟩

theorem individualToParty_rejects (aff : Cand → Option Nat) (p : Dict Cand) (h : ¬ PartyOK aff .error p) :
    individualToParty aff .error p = .error .candidateError := by
  apply individualToParty_eq_error
  unfold PartyOK at h
  push Not at h
  obtain ⟨_, cw, hcw, hn⟩ := h
  exact ⟨cw, hcw, by cases ha : aff cw.1 <;> simp_all⟩

theorem individualToParty_additive_merged (aff : Cand → Option Nat) (ind : Independents) (p₁ p₂ : Dict Cand)
    (h : PartyOK aff ind (p₁ ++ p₂)) :
    ∃ d d₁ d₂, individualToParty aff ind (mergeDict (p₁ ++ p₂)) = .ok d ∧ individualToParty aff ind p₁ = .ok d₁ ∧
      individualToParty aff ind p₂ = .ok d₂ ∧ ∀ k, toFun d k = toFun d₁ k + toFun d₂ k := by
  have hm : PartyOK aff ind (mergeDict (p₁ ++ p₂)) := by
    intro he cw hcw
    have : cw.1 ∈ dkeys (p₁ ++ p₂) := (mem_dkeys_mergeDict _ _).1 (List.mem_map.2 ⟨cw, hcw, rfl⟩)
    obtain ⟨cw', hcw', e⟩ := List.mem_map.1 this
    rw [← e]; exact h he cw' hcw'
  obtain ⟨d, hd, _, hs, _⟩ := individualToParty_sum aff ind _ hm
  obtain ⟨d₁, hd₁, _, hs₁, _⟩ := individualToParty_sum aff ind p₁ (fun he cw hcw => h he cw (List.mem_append_left _ hcw))
  obtain ⟨d₂, hd₂, _, hs₂, _⟩ := individualToParty_sum aff ind p₂ (fun he cw hcw => h he cw (List.mem_append_right _ hcw))
  exact ⟨d, d₁, d₂, hd, hd₁, hd₂, fun k => by rw [hs, hs₁, hs₂, wsum_mergeDict, wsum_append]⟩

/-! ## GroupVotesByParty -/

/-- the groups hold exactly the kept candidates with their votes, each once, under the party the mapper
    assigns (read as the list of (party, candidate, votes) entries, up to order); parties are listed once -/
theorem groupByParty_image (aff : Cand → Option Nat) (ind : Independents) (p : Dict Cand)
    (hp : (dkeys p).Nodup) (h : PartyOK aff ind p) :
    ∃ G, groupByParty aff ind p = .ok G ∧ (dkeys G).Nodup ∧
      (flatGroups G).Perm (p.filterMap (partyEntry aff ind)) := by
  refine ⟨_, groupByParty_eq_ok aff ind p h, nodup_dkeys_groupFold aff ind p [] (by simp [dkeys]), ?_⟩
  have := flatGroups_foldl aff ind p [] hp (by simp [flatGroups])
  simpa [flatGroups] using this

/-- additivity across halves with disjoint candidates (the nested result cannot add two counts of the
    same candidate: it stores, it does not accumulate) -/
theorem groupByParty_additive_disjoint (aff : Cand → Option Nat) (ind : Independents) (p₁ p₂ : Dict Cand)
    (hp : (dkeys (p₁ ++ p₂)).Nodup) (h : PartyOK aff ind (p₁ ++ p₂)) :
    ∃ G G₁ G₂, groupByParty aff ind (p₁ ++ p₂) = .ok G ∧ groupByParty aff ind p₁ = .ok G₁ ∧
      groupByParty aff ind p₂ = .ok G₂ ∧ (flatGroups G).Perm (flatGroups G₁ ++ flatGroups G₂) := by
  have hp' := hp
  simp only [dkeys, List.map_append] at hp'
  rw [List.nodup_append] at hp'
  obtain ⟨G, hG, _, hf⟩ := groupByParty_image aff ind _ hp h
  obtain ⟨G₁, hG₁, _, hf₁⟩ := groupByParty_image aff ind p₁ hp'.1 (fun he cw hcw => h he cw (List.mem_append_left _ hcw))
  obtain ⟨G₂, hG₂, _, hf₂⟩ := groupByParty_image aff ind p₂ hp'.2.1 (fun he cw hcw => h he cw (List.mem_append_right _ hcw))
  refine ⟨G, G₁, G₂, hG, hG₁, hG₂, ?_⟩
  rw [List.filterMap_append] at hf
  exact hf.trans (hf₁.symm.append hf₂.symm)

/-! ## RoundedVotes (per-key image; additive only across disjoint keys) -/

/-- every count is rounded by itself: to the grid `10^-decimals`, within half a step, ties away from zero -/
theorem rounded_image {κ : Type} [DecidableEq κ] (k : Nat) (p : Dict κ) (h : (dkeys p).Nodup) :
    roundedVotes k p = p.map (fun kv => (kv.1, roundHalfUp k kv.2)) := roundedVotes_eq k h

theorem rounded_value (d : Nat) (x : Rat) :
    ∃ z : Int, roundHalfUp d x = (z : Rat) / ((10 ^ d : Nat) : Rat) ∧
      |x * ((10 ^ d : Nat) : Rat) - (z : Rat)| ≤ 1 / 2 ∧
      (|x * ((10 ^ d : Nat) : Rat) - (z : Rat)| = 1 / 2 → |x * ((10 ^ d : Nat) : Rat)| < |(z : Rat)|) :=
  roundHalfUp_spec d x

/-- any `round_method` of the decimal module: every count is rounded by itself to one of the two grid
    points next to it (ROUND_HALF_UP is the default, characterised exactly in `rounded_value`) -/
theorem rounded_with_image {κ : Type} [DecidableEq κ] (mode : RoundMode) (k : Nat) (p : Dict κ) (h : (dkeys p).Nodup) :
    roundedVotesWith mode k p = p.map (fun kv => (kv.1, roundWith mode k kv.2)) := roundedVotesWith_eq mode k h

theorem rounded_with_value (mode : RoundMode) (d : Nat) (x : Rat) :
    ∃ z : Int, roundWith mode d x = (z : Rat) / ((10 ^ d : Nat) : Rat) ∧ |x * ((10 ^ d : Nat) : Rat) - (z : Rat)| < 1 :=
  ⟨roundInt mode (x * ((10 ^ d : Nat) : Rat)), rfl, roundInt_near mode _⟩

theorem rounded_with_halfUp (d : Nat) (x : Rat) : roundWith .halfUp d x = roundHalfUp d x := rfl

/-- additivity on profiles with disjoint keys -/
theorem rounded_additive_disjoint {κ : Type} [DecidableEq κ] (k : Nat) (p₁ p₂ : Dict κ)
    (h : (dkeys (p₁ ++ p₂)).Nodup) :
    roundedVotes k (p₁ ++ p₂) = roundedVotes k p₁ ++ roundedVotes k p₂ := by
  have h' := h
  simp only [dkeys, List.map_append] at h'
  rw [List.nodup_append] at h'
  rw [roundedVotes_eq k h, roundedVotes_eq k h'.1, roundedVotes_eq k h'.2.1, List.map_append]

/-- RoundedVotes is NOT additive as a function: two halves round up separately -/
theorem rounded_not_additive_witness :
    ¬ (toFun (roundedVotes 0 (mergeDict ([((0 : Cand), (1 / 2 : Rat))] ++ [(0, 1 / 2)]))) 0
        = toFun (roundedVotes 0 [((0 : Cand), (1 / 2 : Rat))]) 0 + toFun (roundedVotes 0 [((0 : Cand), (1 / 2 : Rat))]) 0) := by
  decide +kernel

/-! ## Chain -/

theorem chain_nil (v : Val) : applyChain [] v = .ok v := by simp [applyChain]

theorem chain_cons (c : Conv) (cs : List Conv) (v : Val) :
    applyChain (c :: cs) v = match applyConv c v with
      | .ok v' => applyChain cs v'
      | .error e => .error e := by
  simp only [applyChain]
  cases applyConv c v <;> rfl

/-- `Chain(cs₁ + cs₂)` is `Chain(cs₂)` after `Chain(cs₁)` -/
theorem chain_append (cs₁ cs₂ : List Conv) (v : Val) :
    applyChain (cs₁ ++ cs₂) v = match applyChain cs₁ v with
      | .ok v' => applyChain cs₂ v'
      | .error e => .error e := by
  induction cs₁ generalizing v with
  | nil => simp [chain_nil]
  | cons c cs ih =>
    rw [List.cons_append, chain_cons, chain_cons]
    cases applyConv c v with
    | ok v' => exact ih v'
    | error e => rfl

/-- a `Chain` used as a converter is the chain -/
theorem conv_chain (cs : List Conv) (v : Val) : applyConv (.chain cs) v = applyChain cs v := by
  cases v <;> simp [applyConv]

/-- the unsplit approval aggregation as a total function -/
def approvalUnsplit (p : AProfile) : Dict Cand := p.foldl (approvalStep false) []

theorem approvalUnsplit_sum : SumOfImages approvalUnsplit (approvalImage false) := by
  intro p k
  unfold approvalUnsplit
  rw [toFun_foldl_step _ (approvalImage false) (toFun_approvalStep false)]; simp

/-- `Chain([RankedToApprovalVotes(), ApprovalToSimpleVotes()])` computes the composition … -/
theorem chain_ranked_approval_simple (p : RProfile) :
    applyChain [.rankedToApproval, .approvalToSimple false] (.ranked p)
      = .ok (.simple (approvalUnsplit (rankedToApproval p))) := by
  simp [chain_cons, chain_nil, applyConv, approvalToSimple_eq_ok false _ (fun h => by cases h), approvalUnsplit,
    Except.map]

/-- … and the composition of two sums of images is additive: nothing is lost between the stages -/
theorem chain_ranked_approval_simple_additive (p₁ p₂ : RProfile) (k : Cand) :
    toFun (approvalUnsplit (rankedToApproval (mergeDict (p₁ ++ p₂)))) k
      = toFun (approvalUnsplit (rankedToApproval p₁)) k + toFun (approvalUnsplit (rankedToApproval p₂)) k :=
  rankedToApproval_sum.comp_additive_merged approvalUnsplit_sum p₁ p₂ k

/-- the general composition law used above, for any two converters that are sums of images -/
theorem chain_two_additive {β κ γ : Type} [DecidableEq β] [DecidableEq κ] [DecidableEq γ]
    {X : Dict β → Dict κ} {Y : Dict κ → Dict γ} {img₁ : β → κ → Rat} {img₂ : κ → γ → Rat}
    (hX : SumOfImages X img₁) (hY : SumOfImages Y img₂) (p₁ p₂ : Dict β) (g : γ) :
    toFun (Y (X (mergeDict (p₁ ++ p₂)))) g = toFun (Y (X p₁)) g + toFun (Y (X p₂)) g :=
  hX.comp_additive_merged hY p₁ p₂ g

/-! ### general chains -/

theorem linearD_firstPreference : LinearD rankedToFirstPreference :=
  firstPreference_sum.linearD firstPreference_is_dict
theorem linearD_firstN (n : Int) : LinearD (rankedToFirstN n) := (firstN_sum n).linearD (firstN_is_dict n)
theorem linearD_presenceCounts : LinearD rankedToPresenceCounts := presenceCounts_sum.linearD presenceCounts_is_dict
theorem linearD_rankedToApproval : LinearD rankedToApproval := rankedToApproval_sum.linearD rankedToApproval_is_dict
theorem linearD_condorcet (atBottom : Bool) (U : List Cand) : LinearD (condorcetU atBottom U) :=
  (condorcet_sum atBottom U).linearD (condorcet_is_dict atBottom U)
theorem linearD_scoreToRanked (uv : Option Rat) (U : List Cand) : LinearD (scoreToRankedU uv U) :=
  (scoreToRanked_sum uv U).linearD (scoreToRanked_is_dict uv U)
theorem linearD_scoreToApproval (thr : Rat) : LinearD (scoreToApproval thr) :=
  (scoreToApproval_sum thr).linearD (scoreToApproval_is_dict thr)
theorem linearD_subsetted {κ : Type} [DecidableEq κ] (sub : κ → Option κ) : LinearD (subsetted sub) :=
  (subsetted_sum sub).linearD (subsetted_is_dict sub)
theorem linearD_approvalUnsplit : LinearD approvalUnsplit :=
  approvalUnsplit_sum.linearD (fun p => by
    unfold approvalUnsplit
    apply nodup_foldl_step
    · intro acc bw hacc; exact nodup_foldl_addTo_const _ _ hacc
    · simp [dkeys])
theorem linearD_invertedSimple {κ : Type} [DecidableEq κ] : LinearD (invertedSimple (κ := κ)) :=
  invertedSimple_linearD

/-- **general chain additivity** (induction over the chain, `LinChain.linear`): for a chain of any length
    whose links are linear on dictionaries — every sum-of-images converter over a fixed universe, and
    InvertedSimpleVotes — and whose intermediate key types may change at every link, the conversion of the
    dict `A + B` is the sum of the conversions; the chain maps dicts to dicts and only sees the profile as
    a function ballot -> weight -/
theorem chain_additive {β γ : KeyType} (c : LinChain β γ) (h : c.AllLinear)
    (p q : Dict β.T) (hp : (dkeys p).Nodup) (hq : (dkeys q).Nodup) (g : γ.T) :
    toFun (c.run (mergeDict (p ++ q))) g = toFun (c.run p) g + toFun (c.run q) g :=
  c.additive h p q hp hq g

theorem chain_linear {β γ : KeyType} (c : LinChain β γ) (h : c.AllLinear) : LinearD c.run := c.linear h

/-- a three-link instance: `Chain([ScoreToRankedVotes(uv), RankedToApprovalVotes(), ApprovalToSimpleVotes()])` -/
theorem chain_score_ranked_approval_simple_additive (uv : Option Rat) (U : List Cand) (p q : SProfile)
    (hp : (dkeys p).Nodup) (hq : (dkeys q).Nodup) (k : Cand) :
    toFun (approvalUnsplit (rankedToApproval (scoreToRankedU uv U (mergeDict (p ++ q))))) k
      = toFun (approvalUnsplit (rankedToApproval (scoreToRankedU uv U p))) k
        + toFun (approvalUnsplit (rankedToApproval (scoreToRankedU uv U q))) k :=
  chain_additive (β := ⟨ScoreBallot⟩) (γ := ⟨Cand⟩)
    (.cons (κ := ⟨Ballot⟩) (scoreToRankedU uv U) (.cons (κ := ⟨Approval⟩) rankedToApproval
      (.cons (κ := ⟨Cand⟩) approvalUnsplit .nil)))
    ⟨linearD_scoreToRanked uv U, linearD_rankedToApproval, linearD_approvalUnsplit, trivial⟩ p q hp hq k

/-- `Chain([ScoreToRankedVotes(uv), RankedToCondorcetVotes(ab)])` over fixed universes -/
theorem chain_score_ranked_condorcet_additive (uv : Option Rat) (U : List Cand) (ab : Bool) (U' : List Cand)
    (p q : SProfile) (hp : (dkeys p).Nodup) (hq : (dkeys q).Nodup) (k : Cand × Cand) :
    toFun (condorcetU ab U' (scoreToRankedU uv U (mergeDict (p ++ q)))) k
      = toFun (condorcetU ab U' (scoreToRankedU uv U p)) k + toFun (condorcetU ab U' (scoreToRankedU uv U q)) k :=
  chain_additive (β := ⟨ScoreBallot⟩) (γ := ⟨Cand × Cand⟩)
    (.cons (κ := ⟨Ballot⟩) (scoreToRankedU uv U) (.cons (κ := ⟨Cand × Cand⟩) (condorcetU ab U') .nil))
    ⟨linearD_scoreToRanked uv U, linearD_condorcet ab U', trivial⟩ p q hp hq k

/-- `Chain([RankedToPresenceCounts(), InvertedSimpleVotes()])` (a dict-comprehension link) -/
theorem chain_presence_inverted_additive (p q : RProfile) (hp : (dkeys p).Nodup) (hq : (dkeys q).Nodup) (k : Cand) :
    toFun (invertedSimple (rankedToPresenceCounts (mergeDict (p ++ q)))) k
      = toFun (invertedSimple (rankedToPresenceCounts p)) k + toFun (invertedSimple (rankedToPresenceCounts q)) k :=
  chain_additive (β := ⟨Ballot⟩) (γ := ⟨Cand⟩)
    (.cons (κ := ⟨Cand⟩) rankedToPresenceCounts (.cons (κ := ⟨Cand⟩) invertedSimple .nil))
    ⟨linearD_presenceCounts, linearD_invertedSimple, trivial⟩ p q hp hq k

/-- `Chain([ScoreToApprovalVotesThreshold(t), ApprovalToSimpleVotes()])` -/
theorem chain_score_approval_simple_additive (thr : Rat) (p₁ p₂ : SProfile) (k : Cand) :
    toFun (approvalUnsplit (scoreToApproval thr (mergeDict (p₁ ++ p₂)))) k
      = toFun (approvalUnsplit (scoreToApproval thr p₁)) k + toFun (approvalUnsplit (scoreToApproval thr p₂)) k :=
  (scoreToApproval_sum thr).comp_additive_merged approvalUnsplit_sum p₁ p₂ k

/-! ## SubsettedVotes with depth 1 (nested by district) -/

/-- one nesting level: every district is subsetted by itself -/
theorem subsettedNested_image {δ κ : Type} [DecidableEq δ] [DecidableEq κ] (sub : κ → Option κ)
    (p : List (δ × Dict κ)) (h : (dkeys p).Nodup) :
    subsettedNested sub p = p.map (fun dv => (dv.1, subsetted sub dv.2)) := by
  unfold subsettedNested
  apply dictOf_of_nodup
  have : dkeys (p.map (fun dv => (dv.1, subsetted sub dv.2))) = dkeys p := by
    unfold dkeys; rw [List.map_map]; rfl
  rw [this]; exact h

/-- additivity at depth 1: for the nested dict `A + B` (district-wise `sum_dicts`) the result of every
    district is the sum of the two results of that district -/
theorem subsettedNested_additive_merged {δ κ : Type} [DecidableEq δ] [DecidableEq κ] (sub : κ → Option κ)
    (p₁ p₂ : List (δ × Dict κ)) (h₁ : (dkeys p₁).Nodup) (h₂ : (dkeys p₂).Nodup) (d : δ) (k : κ) :
    toFun (distLeaf (subsettedNested sub (mergeNested (p₁ ++ p₂))) d) k
      = toFun (distLeaf (subsettedNested sub p₁) d) k + toFun (distLeaf (subsettedNested sub p₂) d) k := by
  rw [subsettedNested_image sub _ (nodup_mergeNested _), subsettedNested_image sub _ h₁,
    subsettedNested_image sub _ h₂, distLeaf_map _ rfl, distLeaf_map _ rfl, distLeaf_map _ rfl]
  have hfun : ∀ b, toFun (distLeaf (mergeNested (p₁ ++ p₂)) d) b
      = toFun (distLeaf p₁ d ++ distLeaf p₂ d) b := by
    intro b
    rw [toFun_append, ← nsum_eq_distLeaf _ (nodup_mergeNested _) d (fun dv => toFun dv b) rfl,
      ← nsum_eq_distLeaf _ h₁ d (fun dv => toFun dv b) rfl, ← nsum_eq_distLeaf _ h₂ d (fun dv => toFun dv b) rfl,
      nsum_mergeNested (toFun_dictAdditive b), nsum_append]
  rw [(subsetted_sum sub).congr hfun, (subsetted_sum sub).additive]

/-! ## SubsettedVotes at any depth (the recursion of `_convert`) -/

/-- **image**: on a dictionary nested `n` deep the converter keeps the nesting and its keys, and along every
    path of nesting keys the result holds the subsetted votes of what the input held there -/
theorem subsettedDeep_image {κ : Type} [DecidableEq κ] (sub : κ → Option κ) (n : Nat) (t : NDict κ) (h : Shaped n t) :
    ∃ r, subsettedDeep sub n t = .ok r ∧ Shaped n r ∧ ∀ π, leafAt n r π = subsetted sub (leafAt n t π) :=
  ⟨_, subsettedDeep_eq sub n t h, shaped_mapLeaves _ n t h, fun π => leafAt_mapLeaves _ rfl n t π⟩

/-- … hence, path by path, the sum of the ballot images -/
theorem subsettedDeep_sum {κ : Type} [DecidableEq κ] (sub : κ → Option κ) (n : Nat) (t : NDict κ) (h : Shaped n t) :
    ∃ r, subsettedDeep sub n t = .ok r ∧
      ∀ π k, valAt n r π k = wsum (leafAt n t π) (fun b => if sub b = some k then 1 else 0) := by
  obtain ⟨r, hr, _, hl⟩ := subsettedDeep_image sub n t h
  exact ⟨r, hr, fun π k => by unfold valAt; rw [hl, subsetted_sum]⟩

/-- the nested dict `A + B` (key-wise recursive sum, what the harness builds) adds path by path -/
theorem mergeN_is_sum {κ : Type} [DecidableEq κ] (n : Nat) (a b : NDict κ) (ha : Shaped n a) (hb : Shaped n b) :
    Shaped n (mergeN n a b) ∧ ∀ π k, valAt n (mergeN n a b) π k = valAt n a π k + valAt n b π k :=
  mergeN_spec n a b ha hb

/-- **additivity at any depth**, for ANY nested dictionary that is the path-wise sum of two others -/
theorem subsettedDeep_additive {κ : Type} [DecidableEq κ] (sub : κ → Option κ) (n : Nat) (t a b : NDict κ)
    (ht : Shaped n t) (ha : Shaped n a) (hb : Shaped n b)
    (hsum : ∀ π k, valAt n t π k = valAt n a π k + valAt n b π k) :
    ∃ r ra rb, subsettedDeep sub n t = .ok r ∧ subsettedDeep sub n a = .ok ra ∧ subsettedDeep sub n b = .ok rb ∧
      ∀ π k, valAt n r π k = valAt n ra π k + valAt n rb π k := by
  obtain ⟨r, hr, _, hl⟩ := subsettedDeep_image sub n t ht
  obtain ⟨ra, hra, _, hla⟩ := subsettedDeep_image sub n a ha
  obtain ⟨rb, hrb, _, hlb⟩ := subsettedDeep_image sub n b hb
  refine ⟨r, ra, rb, hr, hra, hrb, fun π k => ?_⟩
  unfold valAt
  rw [hl, hla, hlb]
  have hfun : ∀ x, toFun (leafAt n t π) x = toFun (leafAt n a π ++ leafAt n b π) x := by
    intro x; rw [toFun_append]; exact hsum π x
  rw [(subsetted_sum sub).congr hfun, (subsetted_sum sub).additive]

/-- … in particular for the nested dict `A + B` -/
theorem subsettedDeep_additive_merged {κ : Type} [DecidableEq κ] (sub : κ → Option κ) (n : Nat) (a b : NDict κ)
    (ha : Shaped n a) (hb : Shaped n b) :
    ∃ r ra rb, subsettedDeep sub n (mergeN n a b) = .ok r ∧ subsettedDeep sub n a = .ok ra ∧
      subsettedDeep sub n b = .ok rb ∧ ∀ π k, valAt n r π k = valAt n ra π k + valAt n rb π k :=
  subsettedDeep_additive sub n _ a b (mergeN_is_sum n a b ha hb).1 ha hb (mergeN_is_sum n a b ha hb).2

example : Shaped 2 (.node [(0, .node [(0, .leaf [((0 : Cand), (2 : Rat)), (1, 1)]), (1, .leaf [(2, 1 / 2)])]),
    (1, .node [])] : NDict Cand) := by
  refine ⟨by decide, ?_⟩
  intro kc hkc
  simp only [List.mem_cons, List.not_mem_nil, or_false] at hkc
  rcases hkc with rfl | rfl
  · refine ⟨by decide, ?_⟩
    intro kc hkc
    simp only [List.mem_cons, List.not_mem_nil, or_false] at hkc
    rcases hkc with rfl | rfl <;> trivial
  · exact ⟨by decide, by intro kc h; simp at h⟩

/-! ## InvertedApprovalVotes as called: the universe is the set of approved candidates -/

/-- a dict of canonical approval ballots is well-formed over its own candidate set -/
theorem invertedApproval_awf (p : AProfile) (hk : (dkeys p).Nodup) (hc : ∀ bw ∈ p, bw.1.Pairwise (· < ·)) :
    AWF (allApproved p) p := by
  refine ⟨hk, fun bw hbw => ⟨hc bw hbw, fun c hcb => ?_⟩⟩
  unfold allApproved
  rw [mem_canonSet, List.mem_flatMap]
  exact ⟨bw, hbw, hcb⟩

theorem invertedApproval_top_sum (p : AProfile) (hk : (dkeys p).Nodup) (hc : ∀ bw ∈ p, bw.1.Pairwise (· < ·))
    (k : Approval) :
    toFun (invertedApproval p) k = wsum p (fun b => if complIn (allApproved p) b = k then 1 else 0) :=
  invertedApproval_sum _ p (invertedApproval_awf p hk hc) k

/-- the converter as called: profiles over the same candidates add up -/
theorem invertedApproval_top_additive (p₁ p₂ : AProfile)
    (hk₁ : (dkeys p₁).Nodup) (hk₂ : (dkeys p₂).Nodup)
    (hc : ∀ bw ∈ p₁ ++ p₂, bw.1.Pairwise (· < ·))
    (h₁ : allApproved p₁ = allApproved (mergeDict (p₁ ++ p₂)))
    (h₂ : allApproved p₂ = allApproved (mergeDict (p₁ ++ p₂))) (k : Approval) :
    toFun (invertedApproval (mergeDict (p₁ ++ p₂))) k = toFun (invertedApproval p₁) k + toFun (invertedApproval p₂) k := by
  have a₁ := invertedApproval_awf p₁ hk₁ (fun bw hbw => hc bw (List.mem_append_left _ hbw))
  have a₂ := invertedApproval_awf p₂ hk₂ (fun bw hbw => hc bw (List.mem_append_right _ hbw))
  unfold invertedApproval
  rw [h₁] at a₁ ⊢
  rw [h₂] at a₂ ⊢
  exact invertedApproval_additive_merged _ p₁ p₂ a₁ a₂ k

/-! ## non-vacuity: concrete inputs meeting the hypotheses of the conditional theorems -/

example : ApprovalOK true [([0, 1], 2), ([1], 1 / 2), ([0, 1, 2], 3)] := by decide +kernel
example : ¬ ApprovalOK true [([0, 1], 2), ([], 1)] := by decide +kernel
example : approvalToSimple true [([0, 1], 2), ([1], 1 / 2)] = .ok [(0, 1), (1, 3 / 2)] := by decide +kernel

example : Covers [0, 1, 2] [([.shared [0, 1], .one 2], 2), ([.one 2], 1 / 2), ([], 4)] ∧
    ScorerOK (.borda 1) 3 [([.shared [0, 1], .one 2], 2), ([.one 2], 1 / 2), ([], 4)] := by decide +kernel
example : ¬ ScorerOK (.borda 1) 1 [([.one 0, .one 0], 2)] := by decide +kernel
example : rankedToPositional (.borda 1) [([.shared [0, 1], .one 2], 2), ([.one 2], 1 / 2), ([], 4)]
    = .ok [(0, 6), (1, 6), (2, 11 / 2)] := by decide +kernel
example : rankedToPositional .dowdall [([.one 0, .one 1, .one 2], 6)] = .ok [(0, 6), (1, 3), (2, 2)] := by
  decide +kernel

example : AWF [0, 1, 2] [([0, 1], 2), ([], 1), ([2], 3)] := by
  refine ⟨by decide, ?_⟩
  intro bw hbw
  simp only [List.mem_cons, List.not_mem_nil, or_false] at hbw
  rcases hbw with rfl | rfl | rfl <;> exact ⟨by decide, by decide⟩
example : invertedApproval [([0, 1], 2), ([], 1), ([2], 3)] = [([2], 2), ([0, 1, 2], 1), ([0, 1], 3)] := by
  decide +kernel

example : PartyOK (affOf [(0, 7), (1, 7), (2, 8)]) .error [(0, 3), (1, 4), (2, 5)] := by
  intro _ cw hcw
  simp only [List.mem_cons, List.not_mem_nil, or_false] at hcw
  rcases hcw with rfl | rfl | rfl <;> decide
example : individualToParty (affOf [(0, 7), (1, 7)]) .aggregate [(0, 3), (1, 4), (2, 5)]
    = .ok [(.party 7, 7), (.none, 5)] := by decide +kernel

example : groupByParty (affOf [(0, 7), (1, 7)]) .keep [(0, 3), (1, 4), (2, 5)]
    = .ok [(.party 7, [(0, 3), (1, 4)]), (.indep 2, [(2, 5)])] := by decide +kernel

example : scoreToRanked (some 0) [([(0, 1), (1, 1), (2, 3)], 2), ([(3, 2)], 1)]
    = [([.one 2, .shared [0, 1], .one 3], 2), ([.one 3, .shared [0, 1, 2]], 1)] := by decide +kernel

example : subsetRankedOne [0, 2] [.shared [0, 1], .one 2, .one 3, .shared [1, 3]] = [.one 0, .one 2] := by
  decide +kernel

end VL.C13
