import VotelibModel.Convert
namespace VL.C13
open VL VL.Convert

theorem stub : mergeDict ([] : Dict Cand) = [] := rfl

end VL.C13
