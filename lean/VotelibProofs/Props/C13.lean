/-
  C13 — vote converters are per-ballot exact and additive: no vote lost or doubled.
  Property theorems only (helper lemmas: VotelibProofs/Lemmas/ConvertSum.lean, ConvertImages.lean, …).

  Reading.  A profile is a list of (ballot, weight); a Python dict is the merged normal form `mergeDict p`
  (equal ballots summed).  A result dict `d` is read as the finitely supported function `toFun d`
  (`d.get(k, 0)`, theorem `…_is_dict` says the keys are distinct so this is the stored value), because the
  iteration order of the output is not part of the property.  `wsum p f = Σ_{(b,w) ∈ p} w · f b`.
  For every converter `X` with per-ballot image `img`:
    `X_sum`              X(p)(k) = Σ_{(b,w) ∈ p} w · img b k         (`SumOfImages`)
    `X_additive`         X(p₁ ++ p₂) = X(p₁) + X(p₂)                   pointwise
    `X_additive_merged`  X(mergeDict (p₁ ++ p₂)) = X(p₁) + X(p₂)       the dict `A + B`
    `X_single…`          the image of a single ballot is the documented one
    `X_weight_conserved` Σ values = Σ weights of the ballots that have an image   (one item per ballot)
-/
import VotelibProofs.Lemmas.ConvertImages
namespace VL.C13
open VL VL.Convert

/-! ## RankedToFirstPreference -/

theorem firstPreference_eq_accum : rankedToFirstPreference = accumOne (fun b : Ballot => b.head?) := by
  funext p
  unfold rankedToFirstPreference accumOne
  congr 1
  funext acc bw
  cases bw.1 <;> rfl

/-- the first-preference count of `k` is the total weight of the ballots whose first place is `k` -/
theorem firstPreference_sum :
    SumOfImages rankedToFirstPreference (fun b k => if b.head? = some k then 1 else 0) := by
  rw [firstPreference_eq_accum]; exact accumOne_sum _

theorem firstPreference_additive (p₁ p₂ : RProfile) (k : RankItem) :
    toFun (rankedToFirstPreference (p₁ ++ p₂)) k
      = toFun (rankedToFirstPreference p₁) k + toFun (rankedToFirstPreference p₂) k :=
  firstPreference_sum.additive p₁ p₂ k

theorem firstPreference_additive_merged (p₁ p₂ : RProfile) (k : RankItem) :
    toFun (rankedToFirstPreference (mergeDict (p₁ ++ p₂))) k
      = toFun (rankedToFirstPreference p₁) k + toFun (rankedToFirstPreference p₂) k :=
  firstPreference_sum.additive_merged p₁ p₂ k

/-- a single ballot converts to exactly its first preference; the empty ballot to nothing -/
theorem firstPreference_single (b : Ballot) (w : Rat) :
    rankedToFirstPreference [(b, w)] = match b with
      | [] => []
      | it :: _ => [(it, w)] := by
  rw [firstPreference_eq_accum, accumOne_single]
  cases b <;> rfl

/-- total weight is conserved: the first-preference counts sum to the weight of the non-empty ballots -/
theorem firstPreference_weight_conserved (p : RProfile) :
    total (rankedToFirstPreference p) = wsum p (fun b => if b = [] then 0 else 1) := by
  rw [firstPreference_eq_accum, accumOne_total]
  apply wsum_congr
  intro bw _
  cases bw.1 <;> simp

theorem firstPreference_is_dict (p : RProfile) : (dkeys (rankedToFirstPreference p)).Nodup := by
  rw [firstPreference_eq_accum]; exact accumOne_nodup _ p

/-- no vote is lost: a key is listed iff some ballot has it as its first place -/
theorem firstPreference_keys (p : RProfile) (k : RankItem) :
    k ∈ dkeys (rankedToFirstPreference p) ↔ ∃ bw ∈ p, bw.1.head? = some k := by
  rw [firstPreference_eq_accum]; exact mem_dkeys_accumOne _ p k

/-! ## ApprovalToSimpleVotes (split and unsplit) -/

/-- domain of the converter: with `split`, `Fraction(n, len(bulk))` needs a non-empty approval set -/
def ApprovalOK (split : Bool) (p : AProfile) : Prop := split = true → ∀ bw ∈ p, bw.1 ≠ []

instance (split : Bool) (p : AProfile) : Decidable (ApprovalOK split p) := by
  unfold ApprovalOK; infer_instance

/-- on its domain the converter returns the sum of the ballot images: every approved candidate gets the
    ballot's weight (unsplit) or an equal share of it (split) -/
theorem approvalToSimple_sum (split : Bool) (p : AProfile) (h : ApprovalOK split p) :
    ∃ d, approvalToSimple split p = .ok d ∧ (dkeys d).Nodup ∧
      ∀ k, toFun d k = wsum p (fun b => approvalImage split b k) := by
  refine ⟨_, approvalToSimple_eq_ok split p h, ?_, ?_⟩
  · apply nodup_foldl_step
    · intro acc bw hacc; exact nodup_foldl_addTo_const _ _ hacc
    · simp [dkeys]
  · intro k
    rw [toFun_foldl_step _ (approvalImage split) (toFun_approvalStep split)]; simp

/-- outside the domain the converter raises (it never invents an image for an empty ballot) -/
theorem approvalToSimple_rejects (p : AProfile) (h : ¬ ApprovalOK true p) :
    approvalToSimple true p = .error (.other "ZeroDivisionError") := by
  apply approvalToSimple_eq_error
  unfold ApprovalOK at h
  push Not at h
  obtain ⟨_, bw, hbw, he⟩ := h
  exact ⟨bw, hbw, he⟩

theorem approvalToSimple_additive (split : Bool) (p₁ p₂ : AProfile) (h : ApprovalOK split (p₁ ++ p₂)) :
    ∃ d d₁ d₂, approvalToSimple split (p₁ ++ p₂) = .ok d ∧ approvalToSimple split p₁ = .ok d₁ ∧
      approvalToSimple split p₂ = .ok d₂ ∧ ∀ k, toFun d k = toFun d₁ k + toFun d₂ k := by
  have h1 : ApprovalOK split p₁ := fun hs bw hbw => h hs bw (List.mem_append_left _ hbw)
  have h2 : ApprovalOK split p₂ := fun hs bw hbw => h hs bw (List.mem_append_right _ hbw)
  obtain ⟨d, hd, _, hs⟩ := approvalToSimple_sum split _ h
  obtain ⟨d₁, hd₁, _, hs₁⟩ := approvalToSimple_sum split _ h1
  obtain ⟨d₂, hd₂, _, hs₂⟩ := approvalToSimple_sum split _ h2
  exact ⟨d, d₁, d₂, hd, hd₁, hd₂, fun k => by rw [hs, hs₁, hs₂, wsum_append]⟩

theorem approvalToSimple_additive_merged (split : Bool) (p₁ p₂ : AProfile) (h : ApprovalOK split (p₁ ++ p₂)) :
    ∃ d d₁ d₂, approvalToSimple split (mergeDict (p₁ ++ p₂)) = .ok d ∧ approvalToSimple split p₁ = .ok d₁ ∧
      approvalToSimple split p₂ = .ok d₂ ∧ ∀ k, toFun d k = toFun d₁ k + toFun d₂ k := by
  have hm : ApprovalOK split (mergeDict (p₁ ++ p₂)) := by
    intro hs bw hbw
    have : bw.1 ∈ dkeys (p₁ ++ p₂) := (mem_dkeys_mergeDict _ _).1 (List.mem_map.2 ⟨bw, hbw, rfl⟩)
    obtain ⟨bw', hbw', he⟩ := List.mem_map.1 this
    rw [← he]; exact h hs bw' hbw'
  obtain ⟨d, d₁, d₂, _, hd₁, hd₂, _⟩ := approvalToSimple_additive split p₁ p₂ h
  obtain ⟨dm, hdm, _, hsm⟩ := approvalToSimple_sum split _ hm
  obtain ⟨_, hd₁', _, hs₁⟩ := approvalToSimple_sum split p₁ (fun hs bw hbw => h hs bw (List.mem_append_left _ hbw))
  obtain ⟨_, hd₂', _, hs₂⟩ := approvalToSimple_sum split p₂ (fun hs bw hbw => h hs bw (List.mem_append_right _ hbw))
  rw [hd₁] at hd₁'; rw [hd₂] at hd₂'
  cases hd₁'; cases hd₂'
  exact ⟨dm, d₁, d₂, hdm, hd₁, hd₂, fun k => by rw [hsm, hs₁, hs₂, wsum_mergeDict, wsum_append]⟩

/-- the image of a canonical (duplicate-free) approval ballot: 1 (or 1/|b|) for each approved candidate,
    nothing for the others -/
theorem approvalImage_nodup (split : Bool) {b : Approval} (hb : b.Nodup) (c : Cand) :
    approvalImage split b c = if c ∈ b then (if split then 1 / (b.length : Rat) else 1) else 0 := by
  unfold approvalImage
  rw [cnt_of_nodup hb]
  cases split <;> by_cases hc : c ∈ b <;> simp [hc]

/-- weight conservation: unsplit, each ballot contributes its weight once per approved candidate;
    split, exactly its weight -/
theorem approvalToSimple_weight_conserved (split : Bool) (p : AProfile) (h : ApprovalOK split p) :
    ∃ d, approvalToSimple split p = .ok d ∧
      total d = wsum p (fun b => if split then 1 else (b.length : Rat)) := by
  refine ⟨_, approvalToSimple_eq_ok split p h, ?_⟩
  have : ∀ (q : AProfile) (acc : Dict Cand), (split = true → ∀ bw ∈ q, bw.1 ≠ []) →
      total (q.foldl (approvalStep split) acc) = total acc + wsum q (fun b => if split then 1 else (b.length : Rat)) := by
    intro q
    induction q with
    | nil => intro acc _; simp
    | cons bw t ih =>
      intro acc hq
      rw [List.foldl_cons, ih _ (fun hs bw' hbw' => hq hs bw' (by simp [hbw'])),
        total_approvalStep split acc bw (fun hs => hq hs bw (by simp)), wsum_cons]
      ring
  rw [this p [] h]; simp [total]

end VL.C13
