/-
  C12 — approval and score family evaluators match their defining optimisation.
  Property theorems only (helper lemmas: VotelibProofs/Lemmas/C12Approval.lean, C12Score.lean).  Namespace VL.C12.

  Reading.  Approval ballots are duplicate-free lists of candidate ids (Python frozensets), weights exact numbers; the
  PAV instance state is its coefficient cache (`CoefsOK`: it holds harmonic numbers — true of a fresh instance and
  preserved by every call).  The *specifications* (`pavSpec`, `spavSpec`, …) are the defining computations; the models
  (`pavStep`, `spav`, …) mirror the Python and are what the driver executes in the correspondence.
-/
import VotelibProofs.Lemmas.C12Approval
import VotelibProofs.Lemmas.C12Spav
import VotelibProofs.Lemmas.C12JR
import VotelibProofs.Lemmas.C12Score
import VotelibProofs.Lemmas.C12Star
import VotelibProofs.Lemmas.C12Trunc
import VotelibProofs.Lemmas.C12Alloc
import VotelibProofs.Lemmas.C12AllocSpec
import VotelibProofs.Lemmas.C12AllocTie
import VotelibProofs.Lemmas.C12MJ
import VotelibProofs.Lemmas.C12MJSpec
import VotelibProofs.Lemmas.C12MJWF
import VotelibModel.Gen.Quota
namespace VL.C12
open VL VL.Appr VL.Score VL.C09

/-- **PAV equals its definition.**  With a valid cache (any history of calls), `evaluate` returns the unique `n`-subset
    of the candidates that maximises the harmonic satisfaction, in the documented order, and refuses
    (`NotImplementedError`) exactly when there is no or more than one maximiser. -/
theorem pav_eq_spec (coefs : List Rat) (hc : CoefsOK coefs) (votes : Profile) (hwf : WF votes) (n : Nat) :
    (pavStep coefs votes n).1 =
      match pavSpec votes n with
      | some a => .ok (pavOrder votes a)
      | none => .error .notImplemented := by
  obtain ⟨hok, hlen⟩ := extendCoefs_ok hc n
  unfold pavStep pavSpec
  simp only
  rw [bestAlts_eq hok hwf _ (by omega)]
  show (match maximisers votes (allCands votes) n with
        | [a] => orderByScore (extendCoefs coefs n) votes a
        | _ => Except.error Err.notImplemented) = _
  have hmem : ∀ a ∈ maximisers votes (allCands votes) n, a.length = n :=
    fun a ha => (mem_combos.mp (maximisers_sub ha)).2
  rcases hm : maximisers votes (allCands votes) n with _ | ⟨a, _ | ⟨b, t⟩⟩
  · rfl
  · have : a.length = n := hmem a (by rw [hm]; simp)
    simp only
    rw [orderByScore_eq hok hwf (by omega)]
  · rfl

/-- the specification in words: `pavSpec` names `a` iff `a` is an `n`-subset of the candidates (a sublist of the
    candidate list of length `n`) and every other `n`-subset has strictly smaller satisfaction -/
theorem pavSpec_some_iff (votes : Profile) (n : Nat) (a : List Cand) :
    pavSpec votes n = some a ↔
      (a.Sublist (allCands votes) ∧ a.length = n) ∧
      ∀ b, b.Sublist (allCands votes) → b.length = n → b ≠ a → satH votes b < satH votes a := by
  have key := maximisers_singleton_iff (votes := votes) (allCands_nodup votes) (n := n) (a := a)
  unfold pavSpec
  constructor
  · intro h
    have hm : maximisers votes (allCands votes) n = [a] := by
      rcases hm : maximisers votes (allCands votes) n with _ | ⟨x, _ | ⟨y, t⟩⟩ <;> rw [hm] at h <;> simp at h
      rw [h]
    obtain ⟨h1, h2⟩ := key.mp hm
    exact ⟨mem_combos.mp h1, fun b hb hl hne => h2 b (mem_combos.mpr ⟨hb, hl⟩) hne⟩
  · rintro ⟨h1, h2⟩
    have := key.mpr ⟨mem_combos.mpr h1, fun b hb hne => h2 b (mem_combos.mp hb).1 (mem_combos.mp hb).2 hne⟩
    rw [this]

/-- **PAV returns a committee iff it is the unique maximiser** (any valid cache state): the elected candidates are a
    permutation of the unique maximising `n`-subset, nobody is reported as tied; otherwise the call refuses. -/
theorem pav_returns_iff_unique_maximiser (coefs : List Rat) (hc : CoefsOK coefs) (votes : Profile) (hwf : WF votes)
    (n : Nat) (r : List Slot) :
    (pavStep coefs votes n).1 = .ok r ↔
      ∃ a, ((a.Sublist (allCands votes) ∧ a.length = n) ∧
            ∀ b, b.Sublist (allCands votes) → b.length = n → b ≠ a → satH votes b < satH votes a) ∧
           r = pavOrder votes a := by
  rw [pav_eq_spec coefs hc votes hwf n]
  constructor
  · intro h
    cases hs : pavSpec votes n with
    | none => rw [hs] at h; cases h
    | some a =>
      rw [hs] at h
      injection h with h
      exact ⟨a, (pavSpec_some_iff votes n a).mp hs, h.symm⟩
  · rintro ⟨a, ha, rfl⟩
    rw [(pavSpec_some_iff votes n a).mpr ha]

/-- refusal is `NotImplementedError` and nothing else -/
theorem pav_refuses_iff (coefs : List Rat) (hc : CoefsOK coefs) (votes : Profile) (hwf : WF votes) (n : Nat) :
    (pavStep coefs votes n).1 = .error .notImplemented ↔ pavSpec votes n = none := by
  rw [pav_eq_spec coefs hc votes hwf n]
  cases pavSpec votes n <;> simp

/-- **PAV maximises.**  Whatever `evaluate` returns has at least the satisfaction of every `n`-subset of the candidates. -/
theorem pav_maximises (coefs : List Rat) (hc : CoefsOK coefs) (votes : Profile) (hwf : WF votes) (n : Nat)
    (r : List Slot) (h : (pavStep coefs votes n).1 = .ok r)
    (b : List Cand) (hb : b.Sublist (allCands votes)) (hl : b.length = n) :
    satH votes b ≤ satH votes (slotCands r) := by
  obtain ⟨a, ⟨ha, hmax⟩, rfl⟩ := (pav_returns_iff_unique_maximiser coefs hc votes hwf n r).mp h
  have hperm := slotCands_pavOrder_perm votes a
  rw [satH_congr (a' := a) (fun x => hperm.mem_iff)]
  by_cases hba : b = a
  · rw [hba]
  · exact le_of_lt (hmax b hb hl hba)

/-- the result lists exactly the committee: `n` distinct candidates, no tie objects -/
theorem pav_result_shape (coefs : List Rat) (hc : CoefsOK coefs) (votes : Profile) (hwf : WF votes) (n : Nat)
    (r : List Slot) (h : (pavStep coefs votes n).1 = .ok r) :
    r = (slotCands r).map Slot.cand ∧ (slotCands r).length = n ∧ (slotCands r).Nodup ∧
      ∀ c ∈ slotCands r, c ∈ allCands votes := by
  obtain ⟨a, ⟨ha, _⟩, rfl⟩ := (pav_returns_iff_unique_maximiser coefs hc votes hwf n r).mp h
  have hperm := slotCands_pavOrder_perm votes a
  refine ⟨?_, by rw [hperm.length_eq]; exact ha.2, ?_, ?_⟩
  · rw [pavOrder_eq, slotCands_map_cand, List.map_map]; rfl
  · exact hperm.nodup_iff.mpr (ha.1.nodup (allCands_nodup votes))
  · intro c hc'
    exact ha.1.subset (hperm.mem_iff.mp hc')

/-- the documented order: by non-increasing drop in satisfaction when the member is left out -/
theorem pav_order_desc (votes : Profile) (a : List Cand) :
    pavOrder votes a = (sortDesc (dropsOf votes a)).map (fun p => Slot.cand p.1) ∧ Desc (sortDesc (dropsOf votes a)) :=
  ⟨pavOrder_eq votes a, sortDesc_desc _⟩

/-- **History independence.**  Every call leaves a valid cache behind and answers as a fresh instance would: the
    outcome of a call sequence on one instance is the list of the single-call outcomes (the defect repaired by commit
    c5ab27b — a one-seat call failing before and succeeding after a two-seat call — cannot recur). -/
theorem pav_cache_independent (coefs : List Rat) (hc : CoefsOK coefs) (votes : Profile) (hwf : WF votes) (n : Nat) :
    (pavStep coefs votes n).1 = pav votes n ∧ CoefsOK (pavStep coefs votes n).2 := by
  refine ⟨?_, (extendCoefs_ok hc n).1⟩
  unfold pav
  rw [pav_eq_spec coefs hc votes hwf n, pav_eq_spec freshCoefs freshCoefs_ok votes hwf n]

theorem pavSeq_eq_map (votes : Profile) (hwf : WF votes) (calls : List Nat) :
    ∀ (coefs : List Rat), CoefsOK coefs → pavSeq votes coefs calls = calls.map (pav votes) := by
  induction calls with
  | nil => intro _ _; rfl
  | cons n ns ih =>
    intro coefs hc
    obtain ⟨h1, h2⟩ := pav_cache_independent coefs hc votes hwf n
    simp only [pavSeq, List.map_cons]
    rw [h1, ih _ h2]

/-- non-vacuity: the witness of the repaired defect — one seat on a fresh instance — and a unique two-seat committee -/
example : pav [([0, 1], 3), ([2], 2), ([0], 1)] 1 = .ok [Slot.cand 0] := by decide +kernel
example : pav [([0, 1], 3), ([2], 2)] 1 = .error .notImplemented := by decide +kernel
example : pavSeq [([0, 1], 3), ([2], 2), ([0], 1)] freshCoefs [1, 2, 1]
    = [.ok [Slot.cand 0], .ok [Slot.cand 0, Slot.cand 2], .ok [Slot.cand 0]] := by decide +kernel
example : WF [([0, 1], 3), ([2], 2), ([0], 1)] := by decide +kernel

/-- the coefficients are the exact rationals `H_k = 1 + 1/2 + … + 1/k` (the Python expression
    `sum(Fraction(1, i + 1) for i in range(k))`) -/
theorem harmonic_eq_sum (k : Nat) :
    harmonic k = ((List.range k).map (fun i => (1 : Rat) / (((i + 1 : Nat)) : Rat))).sum := by
  induction k with
  | zero => rfl
  | succ k ih => rw [List.range_succ, List.map_append, List.sum_append, ← ih]; simp [harmonic]

/-- **The PAV coefficient cache holds the exact harmonic numbers.**  A fresh instance satisfies the invariant, every
    extension (for any `n`, from any valid state) preserves it and reaches index `n`, so during every call
    `self._coefs[k]` is exactly the rational `H_k` for all `k ≤ n_seats` — never a float, never an approximation. -/
theorem pav_coefs_exact (coefs : List Rat) (hc : CoefsOK coefs) (n : Nat) :
    CoefsOK freshCoefs ∧ CoefsOK (extendCoefs coefs n) ∧
    ∀ k, k ≤ n → coefAt (extendCoefs coefs n) k = .ok (harmonic k) := by
  obtain ⟨hok, hlen⟩ := extendCoefs_ok hc n
  exact ⟨freshCoefs_ok, hok, fun k hk => coefAt_ok hok (by omega)⟩

example : extendCoefs freshCoefs 4 = [0, 1, 3 / 2, 11 / 6, 25 / 12] := by decide +kernel

/-! ### Justified representation -/

/-- **PAV committees satisfy justified representation** (core form).  `V` votes, `n ≥ 1` seats, non-negative weights:
    for every candidate `c`, the voters who approve `c` and no elected candidate weigh strictly less than `V / n`. -/
theorem pav_jr_unrepresented (coefs : List Rat) (hc : CoefsOK coefs) (votes : Profile) (hwf : WF votes)
    (hnn : NonNeg votes) (n : Nat) (hn1 : 1 ≤ n) (r : List Slot) (h : (pavStep coefs votes n).1 = .ok r)
    (hV : 0 < totalWeight votes) (c : Cand) :
    (n : Rat) * unrepresented votes (slotCands r) c < totalWeight votes := by
  obtain ⟨_, hlen, hnd, hsub⟩ := pav_result_shape coefs hc votes hwf n r h
  exact jr_core hwf hnn hnd hsub hlen hn1 (fun B hB hl => pav_maximises coefs hc votes hwf n r h B hB hl) hV c

/-- **Justified representation** (group form).  Every group `G` of voters (a sub-collection of the ballots) that is
    cohesive — all of them approve one common candidate `c` — and large — at least `V / n` votes — contains a voter
    (with positive weight) who approves at least one elected candidate. -/
theorem pav_justified_representation (coefs : List Rat) (hc : CoefsOK coefs) (votes : Profile) (hwf : WF votes)
    (hnn : NonNeg votes) (n : Nat) (hn1 : 1 ≤ n) (r : List Slot) (h : (pavStep coefs votes n).1 = .ok r)
    (hV : 0 < totalWeight votes)
    (G : Profile) (hG : G.Sublist votes) (c : Cand) (hcG : ∀ bw ∈ G, c ∈ bw.1)
    (hsize : totalWeight votes ≤ (n : Rat) * totalWeight G) :
    ∃ bw ∈ G, 0 < bw.2 ∧ ∃ x ∈ slotCands r, x ∈ bw.1 := by
  by_contra hno
  have hno' : ∀ bw ∈ G, 0 < bw.2 → ∀ x ∈ slotCands r, x ∉ bw.1 := by
    intro bw hbw hpos x hx hxb
    exact hno ⟨bw, hbw, hpos, x, hx, hxb⟩
  have hcore := pav_jr_unrepresented coefs hc votes hwf hnn n hn1 r h hV c
  set W := slotCands r with hW
  let f : Ballot × Rat → Rat := fun bw => if c ∈ bw.1 ∧ interLen bw.1 W = 0 then bw.2 else 0
  have hGle : totalWeight G ≤ (G.map f).sum := by
    unfold totalWeight
    apply List.sum_le_sum
    intro bw hbw
    have hw : 0 ≤ bw.2 := hnn bw (hG.subset hbw)
    rcases lt_or_eq_of_le hw with hpos | hzero
    · have hk : interLen bw.1 W = 0 := by
        unfold interLen
        rw [List.length_eq_zero_iff, List.filter_eq_nil_iff]
        intro y hy hyW
        exact hno' bw hbw hpos y (by simpa using hyW) hy
      show bw.2 ≤ if c ∈ bw.1 ∧ interLen bw.1 W = 0 then bw.2 else 0
      rw [if_pos ⟨hcG bw hbw, hk⟩]
    · show bw.2 ≤ if c ∈ bw.1 ∧ interLen bw.1 W = 0 then bw.2 else 0
      split <;> linarith
  have hsub : (G.map f).sum ≤ (votes.map f).sum := by
    apply List.Sublist.sum_le_sum (hG.map f)
    intro a ha
    obtain ⟨bw, hbw, rfl⟩ := List.mem_map.mp ha
    show 0 ≤ if c ∈ bw.1 ∧ interLen bw.1 W = 0 then bw.2 else 0
    split
    · exact hnn bw hbw
    · exact le_refl _
  have hu : (votes.map f).sum = unrepresented votes W c := rfl
  have hnpos : (0 : Rat) ≤ n := by positivity
  have : (n : Rat) * totalWeight G ≤ (n : Rat) * unrepresented votes W c := by
    apply mul_le_mul_of_nonneg_left _ hnpos
    linarith
  linarith

example : NonNeg [([0, 1], 3), ([2], 2), ([0], 1)] ∧ 0 < totalWeight [([0, 1], 3), ([2], 2), ([0], 1)] := by
  decide +kernel

/-! ### Sequential PAV -/

/-- **SPAV equals its definition**: round by round the candidate with the strictly greatest reweighted approval
    `Σ_{ballots approving c} w / (1 + |ballot ∩ elected|)` among those not yet elected; `NotImplementedError` exactly
    when the greatest value is shared; the elected so far when nobody is left. -/
theorem spav_eq_spec (votes : Profile) (hwf : WF votes) (n : Nat) : spav votes n = spavSpec votes n :=
  spavGo_eq_spec hwf n []

/-- **Every SPAV round elects the arg-max.**  If `evaluate` returns `el`, then for every position `i` the candidate
    `el[i]` stands, was not elected before, and its reweighted approval — computed with the candidates `el[0..i)` elected —
    strictly exceeds that of every other candidate still standing; and the list is `n` long unless nobody is left. -/
theorem spav_round_argmax (votes : Profile) (hwf : WF votes) (n : Nat) (el : List Cand) (h : spav votes n = .ok el) :
    (∀ i (hi : i < el.length), StrictBest votes (el.take i) el[i]) ∧
    (el.length = n ∨ standing votes el = []) := by
  rw [spav_eq_spec votes hwf n] at h
  obtain ⟨suf, hel, hchain, hlen⟩ := spavSpecGo_sound votes n [] el h
  simp only [List.nil_append] at hel hchain
  subst hel
  exact ⟨hchain, hlen⟩

/-- a refusal of SPAV is a genuine tie: some round has no strict winner (stated on the defining recursion through
    `spav_eq_spec`; the code never raises anything else) -/
theorem spav_error_is_tie (votes : Profile) (hwf : WF votes) (n : Nat) (e : Err) (h : spav votes n = .error e) :
    e = .notImplemented := by
  rw [spav_eq_spec votes hwf n] at h
  have key : ∀ (k : Nat) (e0 : List Cand), spavSpecGo votes k e0 = .error e → e = .notImplemented := by
    intro k
    induction k with
    | zero => intro e0 h; simp [spavSpecGo] at h
    | succ k ih =>
      intro e0 h
      unfold spavSpecGo at h
      simp only at h
      split at h
      · cases h
      · split at h
        · exact ih _ h
        · injection h with h; exact h.symm
  exact key n [] h

example : spav [([0, 1], 5), ([0, 2], 4), ([3], 3)] 3 = .ok [0, 3, 1] := by decide +kernel
example : spav [([0], 2), ([1], 2)] 1 = .error .notImplemented := by decide +kernel

/-! ### Score aggregation -/

/-- **The aggregate of one candidate equals its definition.**  `aggregate_one` — which materialises one list element
    per vote and calls `exact_mean` / `sum` / `statistics.median_low` — returns the weighted mean `Σ g·w / Σ w`, the
    weighted sum, or the lower median by counting (the smallest grade whose cumulative weight reaches ⌈W/2⌉), and
    fails exactly when the mean / median of nothing is asked for. -/
theorem score_aggregate_eq_spec (fn : Agg) (cs : CScores) : aggregateOne fn cs = aggSpec fn cs := by
  unfold aggregateOne
  cases fn with
  | mean =>
    simp only [aggFn, aggSpec, exactMean, expand_length, expand_sum]
  | sum => simp only [aggFn, aggSpec, expand_sum]
  | medianLow =>
    simp only [aggFn, aggSpec]
    by_cases hW : wTotal cs = 0
    · rw [if_pos hW]
      have : expand cs = [] := List.eq_nil_of_length_eq_zero (by rw [expand_length]; exact hW)
      rw [this]; rfl
    · rw [if_neg hW]
      obtain ⟨v, h1, h2, _⟩ := medianLow_expand cs hW
      rw [h1, h2]

/-- **The median aggregate is the lower median**, counted with multiplicity: `v` is returned iff some ballot gave grade
    `v`, fewer than ⌈W/2⌉ grades (by weight) lie strictly below `v` and at least ⌈W/2⌉ lie at or below it — i.e. `v` is
    the ⌈W/2⌉-th smallest grade, `W` the number of grades. -/
theorem mj_median_is_lower_median (cs : CScores) (v : Rat) :
    aggregateOne .medianLow cs = .ok v ↔
      (∃ p ∈ cs, p.1 = v ∧ 0 < p.2) ∧ wLt cs v < (wTotal cs + 1) / 2 ∧ (wTotal cs + 1) / 2 ≤ wLe cs v := by
  unfold aggregateOne
  simp only [aggFn]
  by_cases hW : wTotal cs = 0
  · have hnil : expand cs = [] := List.eq_nil_of_length_eq_zero (by rw [expand_length]; exact hW)
    rw [hnil, medianLow_nil]
    constructor
    · intro h; cases h
    · rintro ⟨⟨p, hp, _, hpos⟩, _⟩
      exfalso
      have : (expand cs) ≠ [] := by
        intro _
        have hm : p.1 ∈ expand cs := mem_expand.mpr ⟨p, hp, rfl, hpos⟩
        rw [hnil] at hm; cases hm
      exact this hnil
  · obtain ⟨v0, h1, _, h3, h4, h5⟩ := medianLow_expand cs hW
    rw [h1]
    constructor
    · intro h; injection h with h; subst h; exact ⟨h3, h4, h5⟩
    · rintro ⟨hm, hlt, hle⟩
      have k1 : IsKthSmallest (expand cs) ((wTotal cs + 1) / 2) v0 :=
        ⟨mem_expand.mpr h3, by rw [expand_cntLt]; exact h4, by rw [expand_cntLe]; exact h5⟩
      have k2 : IsKthSmallest (expand cs) ((wTotal cs + 1) / 2) v :=
        ⟨mem_expand.mpr hm, by rw [expand_cntLt]; exact hlt, by rw [expand_cntLe]; exact hle⟩
      rw [kthSmallest_unique k1 k2]

/-- the mean is exact: `Σ g·w / Σ w` as a rational number, defined iff somebody graded the candidate -/
theorem score_mean_exact (cs : CScores) (hW : wTotal cs ≠ 0) :
    aggregateOne .mean cs = .ok (wSum cs / ((wTotal cs : Nat) : Rat)) := by
  rw [score_aggregate_eq_spec]; simp [aggSpec, hW]

/-- **Score voting ranks by the configured aggregate**: the outcome is `get_n_best` of the per-candidate aggregates
    (so every C09 theorem — strictly-above elected in order, boundary level set elected entirely or reported as a tie —
    applies to it), and every aggregate is the defining one of the candidate's corrected grade multiset. -/
theorem score_eq_spec (cfg : Cfg) (votes : SProfile) (n : Nat) :
    scoreVoting cfg votes n = (convert cfg votes).map (fun agg => getNBest agg n) ∧
    ∀ agg, convert cfg votes = .ok agg →
      ∃ t, correctedScores cfg votes = .ok t ∧
        List.Forall₂ (fun (a : Cand × Rat) (p : Cand × CScores) => a.1 = p.1 ∧ aggSpec cfg.fn p.2 = .ok a.2) agg t := by
  constructor
  · unfold scoreVoting
    cases convert cfg votes <;> rfl
  · intro agg h
    unfold convert at h
    cases ht : correctedScores cfg votes with
    | error e => rw [ht] at h; cases h
    | ok t =>
      rw [ht] at h
      refine ⟨t, rfl, ?_⟩
      change aggregate cfg.fn t = .ok agg at h
      clear ht
      unfold aggregate at h
      induction t generalizing agg with
      | nil =>
        simp only [List.mapM_nil] at h
        injection h with h; subst h; exact List.Forall₂.nil
      | cons p ps ih =>
        rw [List.mapM_cons] at h
        cases hv : aggregateOne cfg.fn p.2 with
        | error e => rw [hv] at h; cases h
        | ok v =>
          rw [hv] at h
          cases hr : ps.mapM (fun p => do let v ← aggregateOne cfg.fn p.2; pure (p.1, v)) with
          | error e => rw [hr] at h; cases h
          | ok r =>
            rw [hr] at h
            injection h with h
            subst h
            refine List.Forall₂.cons ⟨rfl, ?_⟩ (ih r hr)
            rw [← score_aggregate_eq_spec]; exact hv

example : aggregateOne .medianLow [(5, 3), (2, 2), (3, 1)] = .ok 3 := by decide +kernel
example : aggregateOne .mean [(5, 1), (2, 2)] = .ok 3 := by decide +kernel
example : aggregateOne .medianLow [] = .error (.other "StatisticsError") := by decide +kernel

/-- the sorted grade list without its `c` lowest and `c` highest entries -/
def trimmed (l : List Rat) (c : Nat) : List Rat := ((l.drop c).reverse.drop c).reverse

/-- **Truncation equals its definition.**  Without an unscored value and with enough grades (`min_count`), the
    corrected grade dict of a candidate — after `_subtract_lowest` from the bottom and from the top with the configured
    cutoff `c` (a count, or `int(n_votes · fraction)`) — expands to exactly the candidate's sorted grades without the `c`
    lowest and the `c` highest; hence every aggregate is the truncated mean / sum / median.  Hypotheses: the grade dict
    has distinct keys and non-negative counts (true of every dict `corrected_scores` builds). -/
theorem score_truncation_eq_spec (cfg : Cfg) (hU : cfg.unscored = .none) (cs : CScores) (nVotes : Int)
    (hmin : ¬ totalCount cs < cfg.minCount) (hnd : (ckeys cs).Nodup) (hpos : ∀ p ∈ cs, 0 ≤ p.2) (c : Nat)
    (hc : match cfg.trunc with
      | .off => False
      | .frac r => Py.pyInt ((((if nVotes ≠ 0 then nVotes else totalCount cs) : Int) : Rat) * r) = (c : Int)
      | .count k => k = c) :
    ∃ cs', correctOne cfg cs nVotes = .ok cs' ∧
      sortR (expand cs') = trimmed (sortR (expand cs)) c ∧
      ∀ fn, aggregateOne fn cs' = aggFn fn (trimmed (sortR (expand cs)) c) := by
  have key := truncation_spec cs hnd hpos c
  simp only at key
  refine ⟨subtractLowest (subtractLowest cs (sortR (cs.map (·.1))) c) (sortR (cs.map (·.1))).reverse c, ?_, key, ?_⟩
  · unfold correctOne
    simp only [hU]
    rw [if_neg hmin]
    cases ht : cfg.trunc with
    | off => rw [ht] at hc; exact absurd hc id
    | frac r =>
      rw [ht] at hc
      simp only at hc
      simp only [hc, bind, Except.bind, pure, Except.pure]
    | count k =>
      rw [ht] at hc
      simp only at hc
      subst hc
      rfl
  · intro fn
    unfold aggregateOne
    rw [aggFn_perm fn (sortR_perm _).symm, key]
    rfl

example : (correctOne { fn := .mean, unscored := .none, minCount := 0, trunc := .count 1, bottom := 0 }
    [(5, 2), (1, 1), (3, 2)] 5).map expand = .ok [5, 3, 3] := by decide +kernel

/-- **Unscored value.**  With `unscored_value = u` (a number) every voter who did not grade the candidate counts as one
    grade `u`: the corrected dict holds `n_votes - n_scores` more grades `u` and is otherwise unchanged. -/
theorem score_unscored_eq_spec (cfg : Cfg) (u : Rat) (hU : cfg.unscored = .value u) (hT : cfg.trunc = .off)
    (cs : CScores) (nVotes : Int) (hmin : ¬ totalCount cs < cfg.minCount) :
    ∃ cs', correctOne cfg cs nVotes = .ok cs' ∧
      ∀ k, getCount cs' k = getCount cs k + (if k = u then nVotes - totalCount cs else 0) := by
  refine ⟨setCount cs u (nVotes - totalCount cs + getCount cs u), ?_, ?_⟩
  · unfold correctOne
    simp only [hU, hT]
    rw [if_neg hmin]
    rfl
  · intro k
    rw [getCount_setCount]
    by_cases hk : k = u
    · subst hk; simp only [if_true]; omega
    · simp [hk]

/-- **Minimum count.**  A candidate graded by fewer than `min_count` voters gets `min_count` grades `bottom_value`
    (whatever else is configured) -/
theorem score_min_count_eq_spec (cfg : Cfg) (cs : CScores) (nVotes : Int) (hmin : totalCount cs < cfg.minCount) :
    correctOne cfg cs nVotes = .ok [(cfg.bottom, cfg.minCount)] := by
  unfold correctOne
  simp only
  rw [if_pos hmin]
  rfl

/-! ### Majority judgment -/

/-- **Majority judgment elects the candidates with the highest median grade.**  Whatever `evaluate` returns (either
    tie-breaking rule, any settings): with `τ` the `n`-th highest lower median, every candidate whose median is strictly
    above `τ` is elected, and no candidate whose median is strictly below `τ` is — the tie-breakers only ever choose
    among the candidates whose median equals `τ`.  (Each entry of `agg` is the lower median of the candidate's corrected
    grades by `mj_median_is_lower_median` / `score_aggregate_eq_spec`.) -/
theorem mj_elects_highest_medians (tb : TieBreaking) (cfg : Cfg) (votes : SProfile) (n : Nat) (h1 : 1 ≤ n)
    (r : List Slot) (hok : majorityJudgment tb cfg votes n = .ok r) :
    ∃ t agg, correctedScores { cfg with fn := .medianLow } votes = .ok t ∧ aggregate .medianLow t = .ok agg ∧
      ∀ τ, IsNth agg n τ → n ≤ agg.length →
        (∀ p ∈ agg, τ < p.2 → Slot.cand p.1 ∈ r) ∧
        ((keys agg).Nodup → ∀ p ∈ agg, p.2 < τ → Slot.cand p.1 ∉ r) := by
  unfold majorityJudgment at hok
  cases ht : correctedScores { cfg with fn := .medianLow } votes with
  | error e => rw [ht] at hok; cases hok
  | ok t =>
    rw [ht] at hok
    simp only [bind, Except.bind] at hok
    cases ha : aggregate .medianLow t with
    | error e => rw [ha] at hok; cases hok
    | ok agg =>
      rw [ha] at hok
      simp only at hok
      refine ⟨t, agg, rfl, ha, ?_⟩
      intro τ hτ hlen
      have hbelow_len : ∀ p ∈ agg, p.2 < τ → n < agg.length := by
        intro p hp hlt
        by_contra hge
        have hall : cntGe agg τ < agg.length := by
          unfold cntGe
          apply List.length_filter_lt_length_iff_exists.mpr
          exact ⟨p, hp, by simpa using hlt⟩
        have := hτ.2.2
        omega
      split at hok
      · cases hok
      · -- no tie at the boundary: the result is get_n_best
        injection hok with hok; subst hok
        refine ⟨fun p hp hgt => strictly_above_elected agg n h1 hlen τ hτ p hp hgt, ?_⟩
        intro hnd p hp hlt
        exact (below_never_elected agg hnd n h1 (hbelow_len p hp hlt) τ hτ p hp hlt).1
      · rename_i T hlast
        obtain ⟨τ', hτ', hlen', hT, htake⟩ := mj_tie_structure agg n h1 T hlast
        have : τ' = τ := nth_unique hτ' hτ
        subst this
        rw [htake] at hok
        -- the tie-break result
        set tied : ScoreTable := (sortDedup T).filterMap (fun c => (tableGet t c).map (fun cs => (c, cs))) with htied
        have htiedkeys : ∀ c ∈ tied.map (·.1), c ∈ T := by
          intro c hc
          obtain ⟨q, hq, rfl⟩ := List.mem_map.mp hc
          obtain ⟨c', hc', hq'⟩ := List.mem_filterMap.mp hq
          have : q.1 = c' := by
            cases hg : tableGet t c' with
            | none => rw [hg] at hq'; cases hq'
            | some cs => rw [hg] at hq'; simp at hq'; rw [← hq']
          rw [this]; exact mem_sortDedup.mp hc'
        have final : ∀ broken : List Slot, (∀ s ∈ broken, SlotIn T s) →
            (∀ p ∈ agg, τ' < p.2 → Slot.cand p.1 ∈ (aboveSorted agg τ').map (fun p => Slot.cand p.1) ++ broken) ∧
            ((keys agg).Nodup → ∀ p ∈ agg, p.2 < τ' →
              Slot.cand p.1 ∉ (aboveSorted agg τ').map (fun p => Slot.cand p.1) ++ broken) := by
          intro broken hbroken
          refine ⟨?_, ?_⟩
          · intro p hp hgt
            apply List.mem_append_left
            exact List.mem_map.mpr ⟨p, mem_aboveSorted.mpr ⟨hp, hgt⟩, rfl⟩
          · intro hnd p hp hlt hmem
            have hkeyinj : ∀ q ∈ agg, q.1 = p.1 → q = p := fun q hq hk => List.inj_on_of_nodup_map hnd hq hp hk
            rcases List.mem_append.mp hmem with h | h
            · obtain ⟨q, hq, hqe⟩ := List.mem_map.mp h
              have hq' := mem_aboveSorted.mp hq
              have hk : q.1 = p.1 := by injection hqe
              have := hkeyinj q hq'.1 hk
              rw [this] at hq'
              exact absurd (lt_trans hlt hq'.2) (lt_irrefl _)
            · have hin : p.1 ∈ T := hbroken _ h
              rw [hT] at hin
              simp only [level, List.mem_map, List.mem_filter, decide_eq_true_eq] at hin
              obtain ⟨q, ⟨hq, hqt⟩, hqk⟩ := hin
              have := hkeyinj q hq hqk
              rw [this] at hqt
              exact absurd hqt (ne_of_lt hlt)
        cases tb with
        | default =>
          simp only at hok
          cases hb : tiebreakDefault (tableFuel tied) tied ((getNBest agg n).count (Slot.tie T)) with
          | error e => rw [hb] at hok; cases hok
          | ok broken =>
            rw [hb] at hok
            injection hok with hok; subst hok
            exact final broken (fun s hs => SlotIn.mono htiedkeys (tiebreakDefault_slotIn _ _ _ _ hb s hs))
        | plus =>
          simp only at hok
          cases hb : tiebreakPlus tied ((getNBest agg n).count (Slot.tie T)) with
          | error e => rw [hb] at hok; cases hok
          | ok broken =>
            rw [hb] at hok
            injection hok with hok; subst hok
            exact final broken (fun s hs => SlotIn.mono htiedkeys (tiebreakPlus_slotIn _ _ _ hb s hs))

/-- **Fuel adequacy** (`mj_fuel_adequate`).  The model of `_tiebreak_default` is given `Σ counts + #candidates + 1`
    units of fuel by `majorityJudgment` (`tableFuel`).  On every table of grade dicts with distinct candidates, distinct
    grades and non-negative counts that suffices: each pass of the loop either ends, or splits off at least one clear
    winner (the table shrinks), or removes at least one grade from every candidate (the counts shrink); the fuel error is
    never returned.  So the fuel bound is not a restriction of the model. -/
theorem mj_fuel_adequate (fuel : Nat) (scores : ScoreTable) (n : Nat) (hwf : TableWF scores)
    (hfuel : tableFuel scores ≤ fuel) : tiebreakDefault fuel scores n ≠ .error (.other "Fuel") :=
  tiebreakDefault_fuel fuel scores n hwf hfuel

/-- **The default tie-break equals the documented rule.**  `_tiebreak_default` removes `_closest_median_change` median
    grades from every tied candidate per step; the documented (Balinski-Laraki) rule removes ONE median grade per step
    until the medians separate a group of winners (`tiebreakOneByOne`).  On every table of grade dicts with distinct
    candidates, distinct grades and non-negative counts (`TableWF`, decidable; true of everything `corrected_scores`
    builds), with the fuel `majorityJudgment` passes (or more), the two agree: whatever the code returns — a selection,
    `VotingSystemError('cannot determine clear cutoff')`, or the `StatisticsError` crash — the one-at-a-time rule returns
    as well.  The batching is therefore sound on ALL inputs, in particular for tied candidates holding equally many
    grades, where the rule is well defined; for unequal numbers of grades it is the rule itself that breaks down
    (witnesses below). -/
theorem mj_default_eq_spec (fuel : Nat) (scores : ScoreTable) (n : Nat) (hwf : TableWF scores)
    (hfuel : tableFuel scores ≤ fuel) :
    ∃ fuel', tiebreakOneByOne fuel' scores n = tiebreakDefault fuel scores n :=
  default_eq_oneByOne fuel scores n _ hwf rfl (tiebreakDefault_fuel fuel scores n hwf hfuel)

/-- **Everything `corrected_scores` builds is a well-formed table.**  For votes with non-negative counts in which every
    ballot grades a candidate at most once (`VotesOK`, decidable) and a truncation fraction that is not negative
    (`TruncOK`), the corrected table — after min_count, unscored value and truncation — has distinct candidates, distinct
    grades per candidate and non-negative counts; so has the table of tied candidates `MajorityJudgment.evaluate` hands to
    its tie-breaker.  Hence `mj_fuel_adequate` and `mj_default_eq_spec` apply to the evaluator itself. -/
theorem mj_corrected_scores_wf (cfg : Cfg) (htr : TruncOK cfg.trunc) (votes : SProfile) (hok : VotesOK votes)
    (t : ScoreTable) (h : correctedScores cfg votes = .ok t) (T : List Cand) :
    TableWF t ∧ TableWF ((sortDedup T).filterMap (fun c => (tableGet t c).map (fun cs => (c, cs)))) :=
  ⟨correctedScores_wf htr hok h, tied_wf (correctedScores_wf htr hok h) T⟩

/-- **`MajorityJudgment.evaluate` never runs out of the model's fuel**, with either tie-breaking rule, on every profile
    (`VotesOK`) and for all settings: the fuel bound of the model is not a restriction. -/
theorem mj_never_out_of_fuel (tb : TieBreaking) (cfg : Cfg) (htr : TruncOK cfg.trunc) (votes : SProfile)
    (hok : VotesOK votes) (n : Nat) : majorityJudgment tb cfg votes n ≠ .error (.other "Fuel") :=
  majorityJudgment_fuel tb cfg htr votes hok n

/-- the tie-break call inside `MajorityJudgment.evaluate` (default rule) is the one-grade-at-a-time rule on the tied table -/
theorem mj_evaluator_tiebreak_eq_spec (cfg : Cfg) (htr : TruncOK cfg.trunc) (votes : SProfile) (hok : VotesOK votes)
    (t : ScoreTable) (h : correctedScores cfg votes = .ok t) (T : List Cand) (k : Nat) :
    let tied := (sortDedup T).filterMap (fun c => (tableGet t c).map (fun cs => (c, cs)))
    ∃ fuel', tiebreakOneByOne fuel' tied k = tiebreakDefault (tableFuel tied) tied k := by
  intro tied
  exact mj_default_eq_spec (tableFuel tied) tied k (tied_wf (correctedScores_wf htr hok h) T) (le_refl _)

example : VotesOK [([(1, 1), (2, 2), (3, 1)], 2), ([(3, 2)], 1)] ∧ TruncOK (Trunc.frac (1 / 4)) := by decide +kernel

/-- the arithmetic core: fewer removals than `_closest_median_change` never move a median (and the grades suffice) -/
theorem mj_median_stable_below_closest_change (cs : CScores) (hnd : (ckeys cs).Nodup) (hpos : ∀ p ∈ cs, 0 ≤ p.2)
    (m : Rat) (hm : aggregateOne .medianLow cs = .ok m) (j : Int) (hj0 : 0 ≤ j)
    (hja : j < ceilAbs (((countGe cs m : Int) : Rat) - ((totalCount cs : Int) : Rat) / 2))
    (hjb : j < ceilAbs (((countGt cs m : Int) : Rat) - ((totalCount cs : Int) : Rat) / 2)) :
    j < getCount cs m ∧ aggregateOne .medianLow (setCount cs m (getCount cs m - j)) = .ok m :=
  median_stable hnd hpos hm j hj0 hja hjb

/-- non-vacuity: equally many grades, the batch removes two median grades at once and agrees with the one-by-one rule;
    with unequal numbers of grades the one-by-one rule itself ends in the crash (it is not a batching artefact) -/
example : TableWF [(0, [(3, 4), (1, 1)]), (1, [(3, 4), (5, 1)])] := by decide +kernel
example : tiebreakDefault 20 [(0, [(3, 4), (1, 1)]), (1, [(3, 4), (5, 1)])] 1 = .ok [Slot.cand 1] ∧
    tiebreakOneByOne 20 [(0, [(3, 4), (1, 1)]), (1, [(3, 4), (5, 1)])] 1 = .ok [Slot.cand 1] := by decide +kernel
example : tiebreakOneByOne 20 [(1, [(1, 2)]), (3, [(1, 2), (2, 1)])] 1 = .error (.other "StatisticsError") ∧
    tiebreakDefault 20 [(1, [(1, 2)]), (3, [(1, 2), (2, 1)])] 1 = .error (.other "StatisticsError") := by
  decide +kernel

/-! ### STAR -/

/-- plain settings: no unscored value, no minimum count, no truncation -/
def plainCfg (fn : Agg) : Cfg := { fn := fn, unscored := .none, minCount := 0, trunc := .off, bottom := 0 }


/-- **A Schulze run-off over a table mentioning two finalists is the pairwise comparison** (any table shape).  Let the run-off table `pw` (what
    `STAR.evaluate` hands to the Schulze evaluator) mention exactly the two finalists `a ≠ b`, with `x` voters
    preferring `a` to `b` and `y` preferring `b` to `a`.  Then one seat goes to `a` if `x > y`, to `b` if `y > x`, and a
    tie of the two is reported if `x = y`. -/
theorem star_runoff_pairwise (pw : PairCounts) (a b : Cand) (hab : a ≠ b) (hne : pw ≠ [])
    (hnd : (pw.map (·.1)).Nodup) (hk : ∀ p ∈ pw, p.1 = (a, b) ∨ p.1 = (b, a)) (hpos : ∀ p ∈ pw, 0 ≤ p.2) :
    (getPair pw b a < getPair pw a b → schulze pw 1 = [Slot.cand a]) ∧
    (getPair pw a b < getPair pw b a → schulze pw 1 = [Slot.cand b]) ∧
    (getPair pw a b = getPair pw b a → ∃ T, schulze pw 1 = [Slot.tie T] ∧ ∀ c, c ∈ T ↔ c = a ∨ c = b) := by
  have hba : b ≠ a := fun h => hab h.symm
  have hp1 : ¬ ((a, b) = (b, a)) := by intro h; injection h with h1 _; exact hab h1
  have hp2 : ¬ ((b, a) = (a, b)) := by intro h; injection h with h1 _; exact hba h1
  rcases pair_shapes hab hne hnd hk with ⟨x, rfl⟩ | ⟨y, rfl⟩ | ⟨x, y, rfl⟩ | ⟨x, y, rfl⟩
  · have hx : 0 ≤ x := hpos ((a, b), x) (by simp)
    have e1 : getPair [((a, b), x)] a b = x := by simp [getPair]
    have e2 : getPair [((a, b), x)] b a = 0 := by simp [getPair, hp1]
    rw [e1, e2, schulze_two_single a b hab x hx]
    refine ⟨fun h => by rw [if_pos h], fun h => by omega, fun h => ?_⟩
    subst h
    exact ⟨[a, b], by simp, by simp⟩
  · have hy : 0 ≤ y := hpos ((b, a), y) (by simp)
    have e1 : getPair [((b, a), y)] a b = 0 := by simp [getPair, hp2]
    have e2 : getPair [((b, a), y)] b a = y := by simp [getPair]
    rw [e1, e2, schulze_two_single b a hba y hy]
    refine ⟨fun h => by omega, fun h => by rw [if_pos h], fun h => ?_⟩
    subst h
    exact ⟨[b, a], by simp, by intro c; simp; tauto⟩
  · have hx : 0 ≤ x := hpos ((a, b), x) (by simp)
    have hy : 0 ≤ y := hpos ((b, a), y) (by simp)
    have e1 : getPair [((a, b), x), ((b, a), y)] a b = x := by simp [getPair]
    have e2 : getPair [((a, b), x), ((b, a), y)] b a = y := by simp [getPair, hp1]
    rw [e1, e2, schulze_two_both a b hab x y hx hy]
    refine ⟨fun h => by rw [if_pos h], fun h => ?_, fun h => ?_⟩
    · rw [if_neg (by omega), if_pos h]
    · subst h
      exact ⟨[a, b], by simp, by simp⟩
  · have hx : 0 ≤ x := hpos ((a, b), x) (by simp)
    have hy : 0 ≤ y := hpos ((b, a), y) (by simp)
    have e1 : getPair [((b, a), y), ((a, b), x)] a b = x := by simp [getPair, hp2]
    have e2 : getPair [((b, a), y), ((a, b), x)] b a = y := by simp [getPair]
    rw [e1, e2, schulze_two_both b a hba y x hy hx]
    refine ⟨fun h => ?_, fun h => by rw [if_pos h], fun h => ?_⟩
    · rw [if_neg (by omega), if_pos h]
    · subst h
      exact ⟨[b, a], by simp, by intro c; simp; tauto⟩

/-- **STAR = Schulze among the run-off members.**  `STAR.evaluate` (after fix 03ef346) computes the sum aggregates,
    takes as run-off members every candidate named by `get_n_best(sums, runoff_size)` — candidates tied at the boundary
    all enter (`starMembers_spec`) —, elects a lone member directly, and otherwise returns the Schulze selection on the
    member matrix, which holds for every ordered pair of distinct members the number of voters preferring the first to
    the second (`memberPairs_getPair`).  This is the statement for run-offs of any size. -/
theorem star_eq_schulze_of_runoff (ac : Nat) (af : Rat) (cfg : Cfg) (votes : SProfile) (n : Nat) :
    Score.star ac af cfg votes n =
      (convert { cfg with fn := .sum } votes).map (fun agg =>
        let members := starMembers (getNBest agg (starSize ac af n))
        if members.length ≤ 1 then (members.take n).map Slot.cand
        else schulze (memberPairs (pairCounts (starUnscored cfg) votes) members) n) := by
  unfold Score.star starRunoff
  cases convert { cfg with fn := .sum } votes with
  | error e => rfl
  | ok agg =>
    simp only [bind, Except.bind, pure, Except.pure, Except.map]
    split <;> rfl

/-- who is in the run-off: exactly the candidates the selection names, individually or inside a boundary tie; each once -/
theorem star_members_spec (slots : List Slot) :
    (∀ x, x ∈ starMembers slots ↔ ∃ s ∈ slots, x ∈ slotNames s) ∧ (starMembers slots).Nodup :=
  starMembers_spec slots

/-- what the run-off evaluator is given: for distinct members `a`, `b` the pairwise count of `a` over `b` -/
theorem star_member_matrix (all : PairCounts) (ms : List Cand) (h : ms.Nodup) (a b : Cand)
    (ha : a ∈ ms) (hb : b ∈ ms) (hab : a ≠ b) :
    getPair (memberPairs all ms) a b = getPair all a b ∧
    ∀ p ∈ memberPairs all ms, p.1.1 ∈ ms ∧ p.1.2 ∈ ms ∧ p.1.1 ≠ p.1.2 := by
  refine ⟨memberPairs_getPair all h ha hb hab, ?_⟩
  intro p hp
  have := mem_memberPairs.mp hp
  exact ⟨this.1, this.2.1, this.2.2.1⟩

/-- **Two finalists, one seat: STAR elects the pairwise-preferred one.**  If the run-off members are `a ≠ b`, with `x`
    voters preferring `a` to `b` and `y` preferring `b` to `a` (pairwise counts are non-negative), the Schulze run-off
    on the member matrix returns `a` if `x > y`, `b` if `y > x`, and a tie of the two otherwise. -/
theorem star_two_finalists (all : PairCounts) (hpos : ∀ p ∈ all, 0 ≤ p.2) (a b : Cand) (hab : a ≠ b) :
    schulze (memberPairs all [a, b]) 1 =
      if getPair all b a < getPair all a b then [Slot.cand a]
      else if getPair all a b < getPair all b a then [Slot.cand b]
      else [Slot.tie [a, b]] := by
  rw [memberPairs_two all hab]
  exact schulze_two_both a b hab _ _ (getPair_nonneg hpos a b) (getPair_nonneg hpos b a)

/-- the ordinary single-winner case on a concrete profile: candidate 0 leads on scores (13 : 6 : 0) and loses the run-off
    to candidate 1, whom three of the five voters prefer -/
example : Score.star 1 0 (plainCfg .sum) [([(0, 5), (1, 0), (2, 0)], 2), ([(0, 1), (1, 2), (2, 0)], 3)] 1
    = .ok [Slot.cand 1] := by decide +kernel
example : convert (plainCfg .sum) [([(0, 5), (1, 0), (2, 0)], 2), ([(0, 1), (1, 2), (2, 0)], 3)]
    = .ok [(0, 13), (1, 6), (2, 0)] := by decide +kernel

/-! #### what fix 03ef346 repaired: the pre-fix definition `starPreFix` against the current `star` on the three witnesses -/

/-- a run-off of one candidate: nobody was elected; now the candidate is -/
theorem star_single_runoff_fixed :
    starPreFix 0 0 (plainCfg .sum) [([(0, 5), (1, 2)], 2), ([(0, 1), (1, 3)], 1)] 1 = .ok [] ∧
    Score.star 0 0 (plainCfg .sum) [([(0, 5), (1, 2)], 2), ([(0, 1), (1, 3)], 1)] 1 = .ok [Slot.cand 0] := by
  decide +kernel

/-- candidates tied at the run-off boundary were dropped, leaving the leader without an opponent; now they all enter -/
theorem star_boundary_tie_fixed :
    starPreFix 1 0 (plainCfg .sum) [([(0, 5), (1, 1), (2, 1)], 2)] 1 = .ok [] ∧
    Score.star 1 0 (plainCfg .sum) [([(0, 5), (1, 1), (2, 1)], 2)] 1 = .ok [Slot.cand 0] := by decide +kernel

/-- finalists nobody ranks strictly apart vanished; now they are reported as tied -/
theorem star_member_dropped_fixed :
    starPreFix 1 0 (plainCfg .sum) [([(0, 5), (1, 5), (2, 0)], 2), ([(0, 4), (1, 4), (2, 1)], 1)] 1 = .ok [] ∧
    Score.star 1 0 (plainCfg .sum) [([(0, 5), (1, 5), (2, 0)], 2), ([(0, 4), (1, 4), (2, 1)], 1)] 1
      = .ok [Slot.tie [0, 1]] := by decide +kernel

/-! ### Allocated score -/

/-- **Each seat spends one quota of the strongest supporters.**  `_subtract_votes` for the winner `c` of a round — on a
    `current_votes` dict with distinct ballots and positive weights, quota `q ≥ 0` — whenever it returns: the total ballot
    weight drops by exactly `min q (weight of the ballots grading c)` (one quota, or all supporters if they are fewer),
    the weight is taken grade group by grade group from the top (`findBestVotes_spec`: each step addresses exactly the
    ballots giving `c` the highest remaining grade), and the winner's grades then leave the ballots without changing the
    total.  (When no ballot grades anybody any more the loop refuses: `allocated_ballots_exhausted_refused`.) -/
theorem allocated_spends_one_quota (cv : WProfile) (c : Cand) (q : Rat) (hq : 0 ≤ q) (hwf : WFW cv)
    (cv' : WProfile) (h : subtractVotes cv c 1 q = .ok cv') :
    totalW cv' = totalW cv - min q (supportW cv c) := by
  unfold subtractVotes at h
  cases hf : fractionOut (cv.length + 1) cv c q with
  | error e => rw [hf] at h; cases h
  | ok cv1 =>
    rw [hf] at h
    simp only [bind, Except.bind, if_true, pure, Except.pure] at h
    injection h with h
    subst h
    obtain ⟨h1, _, _⟩ := fractionOut_spends _ cv c q cv1 hf (by omega) hq hwf
    rw [totalW_merge cv1 (fun b => b.filter (fun p => p.1 ≠ c)) [], ← h1]
    simp [totalW]

/-- the spending itself: exact amount, the result is again a well-formed dict, and ballots not grading the winner are
    untouched -/
theorem allocated_fraction_out_spec (cv : WProfile) (c : Cand) (q : Rat) (hq : 0 ≤ q) (hwf : WFW cv)
    (cv' : WProfile) (h : fractionOut (cv.length + 1) cv c q = .ok cv') :
    totalW cv' = totalW cv - min q (supportW cv c) ∧ WFW cv' ∧ (∀ bw ∈ cv, ballotScore bw.1 c = none → bw ∈ cv') :=
  fractionOut_spends _ cv c q cv' h (by omega) hq hwf

/-- a full run where every quota finds its supporters -/
example : allocatedSelector Gen.Quota.hare [([(0, 5), (1, 2), (2, 1)], 2), ([(0, 1), (1, 3), (2, 0)], 2)] 3
    = .ok [Key.cand 0, Key.cand 1, Key.cand 2] := by decide +kernel
example : WFW [([(0, 5), (1, 2), (2, 1)], 2), ([(0, 1), (1, 3), (2, 0)], 2)] := by
  refine ⟨by decide +kernel, ?_⟩
  intro bw hbw
  simp at hbw
  rcases hbw with rfl | rfl <;> norm_num

/-- a score profile as the library receives it: distinct ballots, positive counts, every ballot grades a candidate
    at most once -/
def ScoreProfileWF (votes : SProfile) : Prop :=
  (votes.map (·.1)).Nodup ∧ (∀ bn ∈ votes, 0 < bn.2) ∧ ∀ bn ∈ votes, (bn.1.map (·.1)).Nodup

/-- **Allocated score equals its round-by-round definition** on the whole domain where the definition is defined —
    `allocSpec … = some ws` is the decidable hypothesis "every round has a strict winner" (outside it the code enters
    its tie branches, or refuses with VotingSystemError when no remaining ballot grades anybody).  There the selector returns exactly
    the winners of the definition: seat by seat the candidate with the strictly greatest weighted score sum
    `Σ grade · weight`, one quota of its strongest supporters spent (grade groups from the top, the last one scaled),
    its grades then removed from the ballots. -/
theorem allocated_eq_spec (quota : Rat → Nat → Rat) (votes : SProfile) (n : Nat) (hwf : ScoreProfileWF votes)
    (hq : 0 ≤ quota (((totalVotes votes : Int)) : Rat) n) (ws : List Cand) (h : allocSpec quota votes n = some ws) :
    allocatedSelector quota votes n = .ok (ws.map Key.cand) := by
  unfold allocSpec at h
  unfold allocatedSelector
  obtain ⟨h1, h2, h3⟩ := hwf
  have hWFW : WFW (votes.map (fun bn => (bn.1, ((bn.2 : Int) : Rat)))) := by
    refine ⟨by rw [List.map_map]; exact h1, ?_⟩
    intro bw hbw
    obtain ⟨bn, hbn, rfl⟩ := List.mem_map.mp hbw
    show (0 : Rat) < ((bn.2 : Int) : Rat)
    exact_mod_cast h2 bn hbn
  have hB : BallotsWF (votes.map (fun bn => (bn.1, ((bn.2 : Int) : Rat)))) := by
    intro bw hbw
    obtain ⟨bn, hbn, rfl⟩ := List.mem_map.mp hbw
    exact h3 bn hbn
  have key := allocLoop_eq_spec _ hq n n _ [] ws (le_refl n) hWFW hB (by simp) h
  simp only [electedOfList, List.map_nil] at key
  simp only [bind, Except.bind, key, pure, Except.pure]
  congr 1
  have flat : ∀ l : List Cand, (l.map (fun c => (Key.cand c, 1))).flatMap (fun p => List.replicate p.2 p.1)
      = l.map Key.cand := by
    intro l
    induction l with
    | nil => rfl
    | cons w rest ih => simp [List.flatMap_cons, ih]
  exact flat ws

/-- non-vacuity: a three-seat run inside the domain; so is the bullet-ballot profile that used to crash; the profile whose
    ballots are exhausted before the second seat lies outside it (the code refuses) -/
example : allocSpec Gen.Quota.hare [([(0, 5), (1, 2), (2, 1)], 2), ([(0, 1), (1, 3), (2, 0)], 2)] 3 = some [0, 1, 2] := by
  decide +kernel
example : allocSpec Gen.Quota.hare [([(0, 5)], 2), ([(1, 3)], 1)] 2 = some [0, 1] := by decide +kernel
example : allocSpec Gen.Quota.droop [([(1, 2)], 2), ([(0, 4), (1, 3)], 1)] 2 = none := by decide +kernel
example : ScoreProfileWF [([(0, 5), (1, 2), (2, 1)], 2), ([(0, 1), (1, 3), (2, 0)], 2)] := by
  refine ⟨by decide +kernel, ?_, ?_⟩ <;> intro bn hbn <;> simp at hbn <;> rcases hbn with rfl | rfl <;> decide +kernel

/-! #### rounds with tied leaders -/

/-- **Who the tied leaders are** (order-independent): when the round's `get_n_best(sums, 1)` is a tie object, its
    members are exactly the graded candidates whose weighted score sum nobody exceeds. -/
theorem allocated_tied_leaders (cv : WProfile) (hwf : BallotsWF cv) (T : List Cand) (rest : List Slot)
    (hbest : getNBest (sumScores cv) 1 = Slot.tie T :: rest) (c : Cand) :
    c ∈ sortDedup T ↔ c ∈ gradedCands cv ∧ ∀ d ∈ gradedCands cv, scoreSum cv d ≤ scoreSum cv c :=
  alloc_tie_members hwf hbest c

/-- **More tied leaders than seats left: the tie is reported** for all remaining seats and the loop ends — whatever
    the iteration order of the tie (order-independent). -/
theorem allocated_report_tie (q : Rat) (fuel : Nat) (cv : WProfile) (el : Elected) (rem : Nat) (T : List Cand)
    (rest : List Slot) (hrem : rem ≠ 0) (hbest : getNBest (sumScores cv) 1 = Slot.tie T :: rest)
    (hlt : rem < (sortDedup T).length) :
    allocLoop q (fuel + 1) cv el rem = .ok (bump el (Key.tie (sortDedup T)) rem) :=
  alloc_report_tie q fuel cv el rem T rest hrem hbest hlt

/-- **Enough seats for all tied leaders: every one of them is elected**, one seat each (this never fails: the spending
    cannot raise), and the number of seats left drops by their number.  This much is independent of the order in which
    the tie is iterated; the ONLY order-dependent datum is the ballot state `cv'` the loop continues with, because the
    leaders' quotas are spent one after the other on ballots they may share (`allocated_tie_order_witness`). -/
theorem allocated_elect_all_tied (q : Rat) (fuel : Nat) (cv : WProfile) (el : Elected) (rem : Nat) (T : List Cand)
    (rest : List Slot) (hrem : rem ≠ 0) (hbest : getNBest (sumScores cv) 1 = Slot.tie T :: rest)
    (hge : (sortDedup T).length ≤ rem) (hnew : ∀ c ∈ sortDedup T, Key.cand c ∉ el.map (·.1)) :
    ∃ cv', allocLoop q (fuel + 1) cv el rem =
      allocLoop q fuel cv' (el ++ (sortDedup T).map (fun c => (Key.cand c, 1))) (rem - (sortDedup T).length) :=
  alloc_elect_all q fuel cv el rem T rest hrem hbest hge hnew

/-- the candidates 0 and 1 exchanged -/
def swap01 (c : Cand) : Cand := if c = 0 then 1 else if c = 1 then 0 else c

/-- **Where allocated score is order-dependent** (the open finding, precisely).  In this profile candidates 0 and 1 tie for
    the first seat with three seats to fill, so both are elected and their quotas are spent in iteration order (ascending
    id in the model, hash order in CPython).  Renaming the two tied leaders into each other — the same election — changes
    the outcome for the OTHER candidates: candidate 2 ties with 3 for the last seat in one naming and wins it outright
    in the other.  The outcome is therefore not a function of the election alone. -/
theorem allocated_tie_order_witness :
    let P : SProfile := [([(0, 1), (1, 0), (2, 0), (3, 0)], 4), ([(0, 1), (1, 2), (2, 2), (3, 0)], 3),
      ([(0, 1), (1, 2), (2, 0), (3, 2)], 1)]
    allocatedSelector Gen.Quota.hare P 3 = .ok [Key.cand 0, Key.cand 1, Key.tie [2, 3]] ∧
    allocatedSelector Gen.Quota.hare (P.map (fun bn => (bn.1.map (fun p => (swap01 p.1, p.2)), bn.2))) 3
      = .ok [Key.cand 0, Key.cand 1, Key.cand 2] := by decide +kernel

/-- the selector on ballots with arbitrary exact weights (what the driver executes, also for `Fraction` counts and
    counts beyond 2^53) is the integer-count selector on integer counts, so every theorem above speaks about it -/
theorem allocatedSelector_eq_weighted (quota : Rat → Nat → Rat) (votes : SProfile) (n : Nat) :
    allocatedSelector quota votes n =
      allocatedSelectorW quota (votes.map (fun bn => (bn.1, ((bn.2 : Int) : Rat)))) n := by
  unfold allocatedSelector allocatedSelectorW
  have h : (((totalVotes votes : Int)) : Rat) = ((votes.map (fun bn => (bn.1, ((bn.2 : Int) : Rat)))).map (·.2)).sum := by
    unfold totalVotes
    induction votes with
    | nil => simp
    | cons x xs ih => simp only [List.map_cons, List.sum_cons, List.map_map] at ih ⊢; push_cast; rw [ih]
  rw [h]

/-- fix 4ae6629: three candidates level for two seats — the tie is listed once per seat it contests -/
theorem allocated_tie_places_fixed :
    allocatedSelector Gen.Quota.hare [([(0, 1), (1, 1), (2, 1)], 2)] 2
      = .ok [Key.tie [0, 1, 2], Key.tie [0, 1, 2]] := by decide +kernel

/-! ### Witnesses of the open findings (the model reproduces the defects of the current code)

  The property text is FALSE of the current code on these inputs; the general statements for these evaluators are
  therefore listed as unproved in the harness module (`UNPROVED`), and what is proved instead are the parts that hold. -/

/-- MajorityJudgment, default tie-break: candidates 1 and 3 tie on median 1 for the second seat; 3 holds three grades,
    1 holds two; after two removals candidate 1 has no grade left and `median_low` raises (not a declared error). -/
theorem mj_default_tiebreak_witness :
    majorityJudgment .default (plainCfg .medianLow) [([(1, 1), (2, 2), (3, 1)], 2), ([(3, 2)], 1)] 2
      = .error (.other "StatisticsError") := by decide +kernel

/-- … while the same profile with every count tripled elects 2 and 3: the rule is not scale-free -/
theorem mj_default_tiebreak_scale_witness :
    majorityJudgment .default (plainCfg .medianLow) [([(1, 1), (2, 2), (3, 1)], 6), ([(3, 2)], 3)] 2
      = .ok [Slot.cand 2, Slot.cand 3] := by decide +kernel

/-- fix PENDING (notes/fix_C12_allocated_score_refusal.diff): a ballot that grades only the elected candidate no longer
    crashes the search for the strongest supporters (before: `ValueError` from the `min()` bootstrap) -/
theorem allocated_empty_ballot_fixed :
    allocatedSelector Gen.Quota.hare [([(0, 5)], 2), ([(1, 3)], 1)] 2 = .ok [Key.cand 0, Key.cand 1] := by decide +kernel

/-- fix PENDING: when no remaining ballot grades anybody while seats remain, the declared refusal is raised (before:
    `IndexError` from `get_n_best({}, 1)[0]`) -/
theorem allocated_ballots_exhausted_refused :
    allocatedSelector Gen.Quota.droop [([(1, 2)], 2), ([(0, 4), (1, 3)], 1)] 2 = .error .votingSystemError := by
  decide +kernel

/-- the only error the allocated-score loop itself produces is the declared refusal (the spending never raises) -/
theorem allocated_spending_never_raises (cv : WProfile) (c : Cand) : ∃ best, findBestVotes cv c = .ok best :=
  findBestVotes_ok cv c

end VL.C12
