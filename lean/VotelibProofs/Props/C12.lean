/-
  C12 — approval and score family evaluators match their defining optimisation.
  Property theorems only (helper lemmas: VotelibProofs/Lemmas/C12Approval.lean, C12Score.lean).  Namespace VL.C12.

  Reading.  Approval ballots are duplicate-free lists of candidate ids (Python frozensets), weights exact numbers; the
  PAV instance state is its coefficient cache (`CoefsOK`: it holds harmonic numbers — true of a fresh instance and
  preserved by every call).  The *specifications* (`pavSpec`, `spavSpec`, …) are the defining computations; the models
  (`pavStep`, `spav`, …) mirror the Python and are what the driver executes in the correspondence.
-/
import VotelibProofs.Lemmas.C12Approval
namespace VL.C12
open VL VL.Appr

/-- **PAV equals its definition.**  With a valid cache (any history of calls), `evaluate` returns the unique `n`-subset
    of the candidates that maximises the harmonic satisfaction, in the documented order, and refuses
    (`NotImplementedError`) exactly when there is no or more than one maximiser. -/
theorem pav_eq_spec (coefs : List Rat) (hc : CoefsOK coefs) (votes : Profile) (hwf : WF votes) (n : Nat) :
    (pavStep coefs votes n).1 =
      match pavSpec votes n with
      | some a => .ok (pavOrder votes a)
      | none => .error .notImplemented := by
  obtain ⟨hok, hlen⟩ := extendCoefs_ok hc n
  unfold pavStep pavSpec
  simp only
  rw [bestAlts_eq hok hwf _ (by omega)]
  show (match maximisers votes (allCands votes) n with
        | [a] => orderByScore (extendCoefs coefs n) votes a
        | _ => Except.error Err.notImplemented) = _
  have hmem : ∀ a ∈ maximisers votes (allCands votes) n, a.length = n :=
    fun a ha => (mem_combos.mp (maximisers_sub ha)).2
  rcases hm : maximisers votes (allCands votes) n with _ | ⟨a, _ | ⟨b, t⟩⟩
  · rfl
  · have : a.length = n := hmem a (by rw [hm]; simp)
    simp only
    rw [orderByScore_eq hok hwf (by omega)]
  · rfl

/-- the specification in words: `pavSpec` names `a` iff `a` is an `n`-subset of the candidates (a sublist of the
    candidate list of length `n`) and every other `n`-subset has strictly smaller satisfaction -/
theorem pavSpec_some_iff (votes : Profile) (n : Nat) (a : List Cand) :
    pavSpec votes n = some a ↔
      (a.Sublist (allCands votes) ∧ a.length = n) ∧
      ∀ b, b.Sublist (allCands votes) → b.length = n → b ≠ a → satH votes b < satH votes a := by
  have key := maximisers_singleton_iff (votes := votes) (allCands_nodup votes) (n := n) (a := a)
  unfold pavSpec
  constructor
  · intro h
    have hm : maximisers votes (allCands votes) n = [a] := by
      rcases hm : maximisers votes (allCands votes) n with _ | ⟨x, _ | ⟨y, t⟩⟩ <;> rw [hm] at h <;> simp at h
      rw [h]
    obtain ⟨h1, h2⟩ := key.mp hm
    exact ⟨mem_combos.mp h1, fun b hb hl hne => h2 b (mem_combos.mpr ⟨hb, hl⟩) hne⟩
  · rintro ⟨h1, h2⟩
    have := key.mpr ⟨mem_combos.mpr h1, fun b hb hne => h2 b (mem_combos.mp hb).1 (mem_combos.mp hb).2 hne⟩
    rw [this]

/-- **PAV returns a committee iff it is the unique maximiser** (any valid cache state): the elected candidates are a
    permutation of the unique maximising `n`-subset, nobody is reported as tied; otherwise the call refuses. -/
theorem pav_returns_iff_unique_maximiser (coefs : List Rat) (hc : CoefsOK coefs) (votes : Profile) (hwf : WF votes)
    (n : Nat) (r : List Slot) :
    (pavStep coefs votes n).1 = .ok r ↔
      ∃ a, ((a.Sublist (allCands votes) ∧ a.length = n) ∧
            ∀ b, b.Sublist (allCands votes) → b.length = n → b ≠ a → satH votes b < satH votes a) ∧
           r = pavOrder votes a := by
  rw [pav_eq_spec coefs hc votes hwf n]
  constructor
  · intro h
    cases hs : pavSpec votes n with
    | none => rw [hs] at h; cases h
    | some a =>
      rw [hs] at h
      injection h with h
      exact ⟨a, (pavSpec_some_iff votes n a).mp hs, h.symm⟩
  · rintro ⟨a, ha, rfl⟩
    rw [(pavSpec_some_iff votes n a).mpr ha]

/-- refusal is `NotImplementedError` and nothing else -/
theorem pav_refuses_iff (coefs : List Rat) (hc : CoefsOK coefs) (votes : Profile) (hwf : WF votes) (n : Nat) :
    (pavStep coefs votes n).1 = .error .notImplemented ↔ pavSpec votes n = none := by
  rw [pav_eq_spec coefs hc votes hwf n]
  cases pavSpec votes n <;> simp

/-- **PAV maximises.**  Whatever `evaluate` returns has at least the satisfaction of every `n`-subset of the candidates. -/
theorem pav_maximises (coefs : List Rat) (hc : CoefsOK coefs) (votes : Profile) (hwf : WF votes) (n : Nat)
    (r : List Slot) (h : (pavStep coefs votes n).1 = .ok r)
    (b : List Cand) (hb : b.Sublist (allCands votes)) (hl : b.length = n) :
    satH votes b ≤ satH votes (slotCands r) := by
  obtain ⟨a, ⟨ha, hmax⟩, rfl⟩ := (pav_returns_iff_unique_maximiser coefs hc votes hwf n r).mp h
  have hperm := slotCands_pavOrder_perm votes a
  rw [satH_congr (a' := a) (fun x => hperm.mem_iff)]
  by_cases hba : b = a
  · rw [hba]
  · exact le_of_lt (hmax b hb hl hba)

/-- the result lists exactly the committee: `n` distinct candidates, no tie objects -/
theorem pav_result_shape (coefs : List Rat) (hc : CoefsOK coefs) (votes : Profile) (hwf : WF votes) (n : Nat)
    (r : List Slot) (h : (pavStep coefs votes n).1 = .ok r) :
    r = (slotCands r).map Slot.cand ∧ (slotCands r).length = n ∧ (slotCands r).Nodup ∧
      ∀ c ∈ slotCands r, c ∈ allCands votes := by
  obtain ⟨a, ⟨ha, _⟩, rfl⟩ := (pav_returns_iff_unique_maximiser coefs hc votes hwf n r).mp h
  have hperm := slotCands_pavOrder_perm votes a
  refine ⟨?_, by rw [hperm.length_eq]; exact ha.2, ?_, ?_⟩
  · rw [pavOrder_eq, slotCands_map_cand, List.map_map]; rfl
  · exact hperm.nodup_iff.mpr (ha.1.nodup (allCands_nodup votes))
  · intro c hc'
    exact ha.1.subset (hperm.mem_iff.mp hc')

/-- the documented order: by non-increasing drop in satisfaction when the member is left out -/
theorem pav_order_desc (votes : Profile) (a : List Cand) :
    pavOrder votes a = (sortDesc (dropsOf votes a)).map (fun p => Slot.cand p.1) ∧ Desc (sortDesc (dropsOf votes a)) :=
  ⟨pavOrder_eq votes a, sortDesc_desc _⟩

/-- **History independence.**  Every call leaves a valid cache behind and answers as a fresh instance would: the
    outcome of a call sequence on one instance is the list of the single-call outcomes (the defect repaired by commit
    c5ab27b — a one-seat call failing before and succeeding after a two-seat call — cannot recur). -/
theorem pav_cache_independent (coefs : List Rat) (hc : CoefsOK coefs) (votes : Profile) (hwf : WF votes) (n : Nat) :
    (pavStep coefs votes n).1 = pav votes n ∧ CoefsOK (pavStep coefs votes n).2 := by
  refine ⟨?_, (extendCoefs_ok hc n).1⟩
  unfold pav
  rw [pav_eq_spec coefs hc votes hwf n, pav_eq_spec freshCoefs freshCoefs_ok votes hwf n]

theorem pavSeq_eq_map (votes : Profile) (hwf : WF votes) (calls : List Nat) :
    ∀ (coefs : List Rat), CoefsOK coefs → pavSeq votes coefs calls = calls.map (pav votes) := by
  induction calls with
  | nil => intro _ _; rfl
  | cons n ns ih =>
    intro coefs hc
    obtain ⟨h1, h2⟩ := pav_cache_independent coefs hc votes hwf n
    simp only [pavSeq, List.map_cons]
    rw [h1, ih _ h2]

/-- non-vacuity: the witness of the repaired defect — one seat on a fresh instance — and a unique two-seat committee -/
example : pav [([0, 1], 3), ([2], 2), ([0], 1)] 1 = .ok [Slot.cand 0] := by decide +kernel
example : pav [([0, 1], 3), ([2], 2)] 1 = .error .notImplemented := by decide +kernel
example : pavSeq [([0, 1], 3), ([2], 2), ([0], 1)] freshCoefs [1, 2, 1]
    = [.ok [Slot.cand 0], .ok [Slot.cand 0, Slot.cand 2], .ok [Slot.cand 0]] := by decide +kernel
example : WF [([0, 1], 3), ([2], 2), ([0], 1)] := by decide +kernel

end VL.C12
