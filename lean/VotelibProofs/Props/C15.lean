/-
  C15 — overhang handling never removes direct seats and levels minimally.
  Property theorems only.  Model: VotelibModel/Overhang.lean (core.py L474-734, L284-346); the proportional
  evaluator is a parameter `ev : PropEval`; the instance `haEval div` is the C01 model of HighestAverages
  (VotelibModel/HighestAverages.lean) with the divisors regenerated from divisor.py.

  Reading (DESIGN 7/C15).  `prop` = the proportional distribution of the baseline house `n` (no previous
  gains); the proportional tier = the keys of `prop`; `floors = lowestAllowed prop prev` maps every tier key to
  `max(direct seats, initial proportional share)`; `drop = nonpropDrop floors prev` = direct seats held by
  parties outside the tier.  "The distribution of `h` seats is adequate" = the evaluator answers for `h` seats
  and gives every tier key at least its floor (`Adequate`).
-/
import VotelibProofs.Lemmas.OverhangTerm
import Mathlib.Algebra.Order.Archimedean.Basic
namespace VL.C15
open VL VL.OH

/-- no party holds more direct seats than its proportional share -/
def NoOverhang (prop : Dist) (prev : Seats) : Prop := ∀ p ∈ prev, p.2 ≤ distGet prop (.cand p.1)

/-- the proportional distribution of `h` seats gives every tier key at least its floor -/
def Adequate (ev : PropEval) (votes : Votes) (caps : Seats) (floors : Dist) (h : Nat) : Prop :=
  ∃ r, ev votes h [] caps = .ok r ∧ MeetsFloors r floors

/-! ### AllowOverhang -/

/-- **Allowed overhang.**  The adjustment is the number of overhang seats: Σ over the parties with direct seats of
    `max(direct − proportional, 0)` (truncated subtraction on `Nat`). -/
theorem allow_adj_eq_overhang (ev : PropEval) (votes : Votes) (n : Nat) (prev caps : Seats) (adj : Nat)
    (h : allowOverhang ev votes n prev caps = .ok adj) :
    ∃ prop, ev votes n [] caps = .ok prop ∧
      adj = (prev.map (fun p => p.2 - distGet prop (.cand p.1))).sum := by
  unfold allowOverhang at h
  cases hev : ev votes n [] caps with
  | error e => rw [hev] at h; simp [bind, Except.bind] at h
  | ok prop =>
    rw [hev] at h
    simp only [bind, Except.bind, pure, Except.pure, Except.ok.injEq] at h
    exact ⟨prop, rfl, by rw [← h, allowAdj_eq]⟩

/-- truncated subtraction is `max(a − b, 0)` -/
theorem natSub_eq_max (a b : Nat) : ((a - b : Nat) : Int) = max ((a : Int) - (b : Int)) 0 := by omega

/-- **Zero without overhang (AllowOverhang).**  The adjustment is zero exactly when no party holds more direct
    seats than its proportional share. -/
theorem allow_adj_zero_iff (ev : PropEval) (votes : Votes) (n : Nat) (prev caps : Seats) (adj : Nat)
    (h : allowOverhang ev votes n prev caps = .ok adj) :
    ∃ prop, ev votes n [] caps = .ok prop ∧ (adj = 0 ↔ NoOverhang prop prev) := by
  obtain ⟨prop, hp, hadj⟩ := allow_adj_eq_overhang ev votes n prev caps adj h
  refine ⟨prop, hp, ?_⟩
  rw [hadj]
  unfold NoOverhang
  rw [List.sum_eq_zero_iff]
  constructor
  · intro hz p hp'
    have := hz _ (List.mem_map.mpr ⟨p, hp', rfl⟩)
    omega
  · intro hno x hx
    obtain ⟨p, hp', rfl⟩ := List.mem_map.mp hx
    have := hno p hp'
    omega

/-! ### LevelOverhang -/

/-- **Levelling is least (loop invariant).**  `LevelOverhang.calculate` returns `adj` such that either
    * `adj = 0` and the baseline distribution itself meets the floors (no tier party has overhang), or
    * `adj > 0`, the baseline distribution does not meet the floors, the proportional distribution of
      `n − drop + adj` seats (the enlarged house minus the seats held outside the tier) is adequate, and for every
      smaller positive enlargement `e` the evaluator answered and the distribution of `n − drop + e` seats is NOT
      adequate.
    The number of evaluator calls made by the loop is `adj ≤ fuel`. -/
theorem level_is_least (ev : PropEval) (fuel : Nat) (votes : Votes) (n : Nat) (prev caps : Seats) (adj : Nat)
    (h : levelOverhang ev fuel votes n prev caps = .ok adj) :
    ∃ prop, ev votes n [] caps = .ok prop ∧
      nonpropDrop (lowestAllowed prop prev) prev ≤ n ∧ adj ≤ fuel ∧
      ((adj = 0 ∧ MeetsFloors prop (lowestAllowed prop prev)) ∨
       (0 < adj ∧ ¬ MeetsFloors prop (lowestAllowed prop prev) ∧
        Adequate ev votes caps (lowestAllowed prop prev) (n - nonpropDrop (lowestAllowed prop prev) prev + adj) ∧
        ∀ e, 0 < e → e < adj →
          ∃ r, ev votes (n - nonpropDrop (lowestAllowed prop prev) prev + e) [] caps = .ok r ∧
            ¬ MeetsFloors r (lowestAllowed prop prev))) := by
  unfold levelOverhang at h
  cases hev : ev votes n [] caps with
  | error e => rw [hev] at h; simp [bind, Except.bind] at h
  | ok prop =>
    rw [hev] at h
    simp only [bind, Except.bind] at h
    refine ⟨prop, rfl, ?_⟩
    generalize hfl : lowestAllowed prop prev = floors at h ⊢
    generalize hdr : nonpropDrop floors prev = drop at h ⊢
    by_cases hnd : n < drop
    · simp [hnd] at h
    · simp only [hnd, ↓reduceIte] at h
      cases hl : levelLoop (fun h => ev votes h [] caps) floors fuel (n - drop) prop with
      | error e => rw [hl] at h; simp at h
      | ok H =>
        rw [hl] at h
        simp only [pure, Except.pure, Except.ok.injEq] at h
        obtain ⟨h1, h2, h3, h4⟩ := levelLoop_spec _ _ _ _ _ _ hl
        refine ⟨by omega, by omega, ?_⟩
        rcases Nat.eq_or_lt_of_le h1 with heq | hlt
        · left
          exact ⟨by omega, (belowMin_false_iff _ _).mp (h3 heq.symm)⟩
        · right
          obtain ⟨hb, ⟨r, hr, hrb⟩, hmid⟩ := h4 hlt
          have hH : n - drop + adj = H := by omega
          refine ⟨by omega, ?_, ⟨r, by rw [hH]; exact hr, (belowMin_false_iff _ _).mp hrb⟩, ?_⟩
          · intro hm
            rw [(belowMin_false_iff _ _).mpr hm] at hb
            exact Bool.false_ne_true hb
          · intro e he1 he2
            obtain ⟨r', hr', hrb'⟩ := hmid (n - drop + e) (by omega) (by omega)
            refine ⟨r', hr', ?_⟩
            intro hm
            rw [(belowMin_false_iff _ _).mpr hm] at hrb'
            exact Bool.false_ne_true hrb'

/-- the baseline distribution meets the floors iff no tier key holds more direct seats than its share -/
theorem meets_lowest_iff (prop : Dist) (prev : Seats) (hnd : (prop.map (·.1)).Nodup) :
    MeetsFloors prop (lowestAllowed prop prev) ↔ ∀ p ∈ prop, prevGetKey prev p.1 ≤ p.2 := by
  unfold MeetsFloors lowestAllowed
  constructor
  · intro hm p hp
    have := hm (p.1, max (prevGetKey prev p.1) p.2) (List.mem_map.mpr ⟨p, hp, rfl⟩)
    simp only at this
    rw [distGet_of_mem hnd hp] at this
    omega
  · intro hall q hq
    obtain ⟨p, hp, rfl⟩ := List.mem_map.mp hq
    simp only
    rw [distGet_of_mem hnd hp]
    have := hall p hp
    omega

/-- **Zero without overhang (LevelOverhang).**  The adjustment is zero exactly when no key of the proportional tier
    holds more direct seats than its proportional share; in particular (second part) it is zero when NO party at all
    holds more direct seats than its proportional share. -/
theorem adj_zero_iff_no_overhang (ev : PropEval) (fuel : Nat) (votes : Votes) (n : Nat) (prev caps : Seats) (adj : Nat)
    (h : levelOverhang ev fuel votes n prev caps = .ok adj) :
    ∃ prop, ev votes n [] caps = .ok prop ∧ ((prop.map (·.1)).Nodup →
      ((adj = 0 ↔ ∀ p ∈ prop, prevGetKey prev p.1 ≤ p.2) ∧ (NoOverhang prop prev → adj = 0))) := by
  obtain ⟨prop, hp, _, _, hcases⟩ := level_is_least ev fuel votes n prev caps adj h
  refine ⟨prop, hp, fun hnd => ?_⟩
  have hiff : adj = 0 ↔ ∀ p ∈ prop, prevGetKey prev p.1 ≤ p.2 := by
    rw [← meets_lowest_iff prop prev hnd]
    constructor
    · intro h0
      rcases hcases with ⟨_, hm⟩ | ⟨hpos, _⟩
      · exact hm
      · omega
    · intro hm
      rcases hcases with ⟨h0, _⟩ | ⟨_, hnm, _⟩
      · exact h0
      · exact absurd hm hnm
  refine ⟨hiff, fun hno => hiff.mpr ?_⟩
  intro p hp'
  cases hk : p.1 with
  | tie T => simp [prevGetKey]
  | cand c =>
    simp only [prevGetKey]
    unfold natLookup
    cases hf : prev.find? (fun q => q.1 = c) with
    | none => simp
    | some q =>
      have hq := List.mem_of_find?_eq_some hf
      have hqc := List.find?_some hf
      simp only [decide_eq_true_eq] at hqc
      have := hno q hq
      rw [hqc, ← hk, distGet_of_mem hnd hp'] at this
      exact this

/-! ### direct seats are kept; the house grows by exactly the adjustment -/

/-- **Direct seats are never removed.**  In the two-stage system `MultistageDistributor([first stage yielding the
    direct seats, AdjustedSeatCount(calculator, evaluator)])` every party ends with at least its direct seats —
    for every calculator and every evaluator: results are only ever added to the previous gains. -/
theorem keeps_direct_seats (calcr : Calc) (ev : PropEval) (v1 v2 : Votes) (n : Nat) (direct caps : Seats)
    (elected : Dist)
    (h : multistage [(mockStage direct, v1), (adjustedSeatCount calcr ev, v2)] n [] caps = .ok elected) :
    ∀ p ∈ direct, p.2 ≤ distGet elected (.cand p.1) := by
  intro p hp
  obtain ⟨prev0, res0, _, hres0, hrest⟩ := multistage_cons_ok _ _ _ _ _ _ _ h
  simp only [mockStage, Except.ok.injEq] at hres0
  subst hres0
  refine Nat.le_trans ?_ (multistage_mono _ n caps _ _ hrest (.cand p.1))
  exact distGet_addDist_mem [] (seatsToDist direct) (Key.cand p.1, p.2)
    (List.mem_map.mpr ⟨p, hp, rfl⟩)

/-- an evaluator *fills the house*: whenever it answers and the previous gains fit, previous gains plus the seats it
    awards (individually or through a reported `Tie`) are exactly `n_seats` -/
def Fills (ev : PropEval) (votes : Votes) : Prop :=
  ∀ n prev r, ev votes n prev [] = .ok r → sumSeats prev ≤ n → sumSeats prev + sumDist r = n

/-- **House size, any evaluator that fills the house.** -/
theorem house_grows_by_adj_of_fills (calcr : Calc) (ev : PropEval) (votes : Votes) (n : Nat) (prev : Seats)
    (adj : Nat) (res : Dist) (hf : Fills ev votes) (hsum : sumSeats prev ≤ n)
    (hc : calcr votes n prev [] = .ok adj) (hr : adjustedSeatCount calcr ev votes n prev [] = .ok res) :
    sumSeats prev + sumDist res = n + adj := by
  unfold adjustedSeatCount at hr
  rw [hc] at hr
  simp only [bind, Except.bind] at hr
  exact hf (n + adj) prev res hr (by omega)

/-- highest averages with a built-in divisor, non-negative votes and distinct parties fills the house -/
theorem haEval_fills (div : Nat → Rat) (hd : (∀ k, 0 < div k) ∧ StrictMono div) (votes : Votes)
    (hv : ∀ p ∈ votes, 0 ≤ p.2) (hn : (keys votes).Nodup) : Fills (haEval div) votes := by
  intro n prev r hr hsum
  unfold haEval highestAverages at hr
  split at hr
  · simp [Except.map] at hr
  · rename_i hpool
    simp only [Except.map, Except.ok.injEq] at hr
    subst hr
    rw [sumDist_normDist]
    exact ha_fills { div := div, votes := votes, n := n, prev := prev, caps := [] }
      (C01.cfgOK_of_divisor _ hd hv hn) rfl hsum hpool

/-- **The house grows by exactly the reported adjustment** (highest averages as distributing evaluator, any
    calculator): direct seats plus all seats awarded by `AdjustedSeatCount.evaluate` are `n + adjustment`; the
    adjustment is a natural number, i.e. never negative. -/
theorem house_grows_by_adj (div : Nat → Rat) (hd : (∀ k, 0 < div k) ∧ StrictMono div) (votes : Votes)
    (hv : ∀ p ∈ votes, 0 ≤ p.2) (hn : (keys votes).Nodup) (calcr : Calc) (n : Nat) (prev : Seats)
    (adj : Nat) (res : Dist) (hsum : sumSeats prev ≤ n)
    (hc : calcr votes n prev [] = .ok adj)
    (hr : adjustedSeatCount calcr (haEval div) votes n prev [] = .ok res) :
    sumSeats prev + sumDist res = n + adj :=
  house_grows_by_adj_of_fills calcr (haEval div) votes n prev adj res (haEval_fills div hd votes hv hn) hsum hc hr

/-- the result keys of highest averages are pairwise distinct -/
theorem haEval_nodup (div : Nat → Rat) (votes : Votes) (n : Nat) (prev caps : Seats) (r : Dist)
    (h : haEval div votes n prev caps = .ok r) : (r.map (·.1)).Nodup := by
  unfold haEval highestAverages at h
  split at h
  · simp [Except.map] at h
  · simp only [Except.map, Except.ok.injEq] at h
    subst h
    exact haResult_norm_nodup _

/-! ### termination of the levelling loop -/

open Gen.Divisor in
theorem d_hondt_unbounded : ∀ B : Rat, ∃ k, B < d_hondt k := by
  intro B
  obtain ⟨k, hk⟩ := exists_nat_gt B
  refine ⟨k, lt_trans hk ?_⟩
  unfold d_hondt
  exact_mod_cast Nat.lt_succ_self k

open Gen.Divisor in
theorem sainte_lague_unbounded : ∀ B : Rat, ∃ k, B < sainte_lague k := by
  intro B
  obtain ⟨k, hk⟩ := exists_nat_gt B
  refine ⟨k, lt_of_lt_of_le hk ?_⟩
  unfold sainte_lague
  have : k ≤ 2 * k + 1 := by omega
  exact_mod_cast this

/-- **Levelling terminates.**  Highest averages with positive, strictly increasing, unbounded divisors
    (D'Hondt, Sainte-Laguë: `d_hondt_unbounded`, `sainte_lague_unbounded`), non-negative votes, and a baseline
    result whose keys are parties with positive votes (no `Tie` key): there is a fuel bound `F` from which on the
    loop always returns an adjustment — i.e. the unfuelled Python loop terminates. -/
theorem level_terminates (div : Nat → Rat) (hd : (∀ k, 0 < div k) ∧ StrictMono div)
    (hunb : ∀ B : Rat, ∃ k, B < div k) (votes : Votes) (hv : ∀ p ∈ votes, 0 ≤ p.2) (hn : (keys votes).Nodup)
    (n : Nat) (prev : Seats) (prop : Dist)
    (hp : haEval div votes n [] [] = .ok prop)
    (htier : ∀ p ∈ prop, ∃ c, p.1 = .cand c ∧ 0 < getD votes c 0)
    (hdrop : nonpropDrop (lowestAllowed prop prev) prev ≤ n) :
    ∃ F, ∀ fuel, F ≤ fuel → ∃ adj, levelOverhang (haEval div) fuel votes n prev [] = .ok adj := by
  have hne : votes ≠ [] := by
    intro h0
    subst h0
    simp [haEval, highestAverages, haInit, Except.map] at hp
  have hfl : ∀ p ∈ lowestAllowed prop prev, ∃ c, p.1 = .cand c ∧ 0 < getD votes c 0 := by
    intro p hp'
    unfold lowestAllowed at hp'
    obtain ⟨q, hq, rfl⟩ := List.mem_map.mp hp'
    exact htier q hq
  obtain ⟨H0, hH0⟩ := ha_adequate_eventually div hd hunb votes hv hn _ hfl
  generalize hfloors : lowestAllowed prop prev = floors at hdrop hH0
  generalize hdr : nonpropDrop floors prev = drop at hdrop
  refine ⟨max H0 (n - drop + 1) - (n - drop), fun fuel hfuel => ?_⟩
  have hev : ∀ k, 0 < k → (fun h => haEval div votes h [] []) k = .ok (normDist (haResult (cfgH div votes k))) :=
    fun k hk => haEval_cfgH div hd.1 votes hne k hk
  obtain ⟨H, hH⟩ := levelLoop_terminates (fun h => haEval div votes h [] []) floors
    (max H0 (n - drop + 1) - (n - drop)) (n - drop) prop fuel hfuel
    (fun k hk1 _ => ⟨_, hev k (by omega)⟩)
    (fun h0 => by have := le_max_right H0 (n - drop + 1); omega)
    (fun _ => by
      have h1 := le_max_right H0 (n - drop + 1)
      have h2 := le_max_left H0 (n - drop + 1)
      have heq : n - drop + (max H0 (n - drop + 1) - (n - drop)) = max H0 (n - drop + 1) := by omega
      rw [heq]
      exact ⟨_, hev _ (by omega), (belowMin_false_iff _ _).mpr (hH0 _ h2)⟩)
  refine ⟨H + drop - n, ?_⟩
  unfold levelOverhang
  rw [hp]
  simp only [bind, Except.bind, hfloors, hdr]
  rw [if_neg (by omega)]
  simp only [hH]
  rfl

end VL.C15
