/-
  C15 — overhang handling (property theorems; under construction)
-/
import VotelibModel.Overhang
namespace VL.C15
end VL.C15
