/-
  C15 — overhang handling never removes direct seats and levels minimally.
  Property theorems only.  Model: VotelibModel/Overhang.lean (core.py L474-734, L284-346); the proportional
  evaluator is a parameter `ev : PropEval`; the instance `haEval div` is the C01 model of HighestAverages
  (VotelibModel/HighestAverages.lean) with the divisors regenerated from divisor.py.

  Reading (DESIGN 7/C15).  `prop` = the proportional distribution of the baseline house `n` (no previous
  gains); the proportional tier = the keys of `prop`; `floors = lowestAllowed prop prev` maps every tier key to
  `max(direct seats, initial proportional share)`; `drop = nonpropDrop floors prev` = direct seats held by
  parties outside the tier.  "The distribution of `h` seats is adequate" = the evaluator answers for `h` seats
  and gives every tier key at least its floor (`Adequate`).
-/
import VotelibProofs.Lemmas.OverhangLRCont
import VotelibProofs.Lemmas.OverhangByParty
import VotelibProofs.Lemmas.OverhangCtyFloors
import VotelibProofs.Lemmas.OverhangTieKeys
import VotelibProofs.Lemmas.OverhangLRContTie
import Mathlib.Algebra.Order.Archimedean.Basic
namespace VL.C15
open VL VL.OH

/-- no party holds more direct seats than its proportional share -/
def NoOverhang (prop : Dist) (prev : Seats) : Prop := ∀ p ∈ prev, p.2 ≤ distGet prop (.cand p.1)

/-- the proportional distribution of `h` seats gives every tier key at least its floor -/
def Adequate (ev : PropEval) (votes : Votes) (caps : Seats) (floors : Dist) (h : Nat) : Prop :=
  ∃ r, ev votes h [] caps = .ok r ∧ MeetsFloors r floors

/-! ### AllowOverhang -/

/-- **Allowed overhang.**  The adjustment is the number of overhang seats: Σ over the parties with direct seats of
    `max(direct − proportional, 0)` (truncated subtraction on `Nat`). -/
theorem allow_adj_eq_overhang (ev : PropEval) (votes : Votes) (n : Nat) (prev caps : Seats) (adj : Nat)
    (h : allowOverhang ev votes n prev caps = .ok adj) :
    ∃ prop, ev votes n [] caps = .ok prop ∧
      adj = (prev.map (fun p => p.2 - distGet prop (.cand p.1))).sum := by
  unfold allowOverhang at h
  cases hev : ev votes n [] caps with
  | error e => rw [hev] at h; simp [bind, Except.bind] at h
  | ok prop =>
    rw [hev] at h
    simp only [bind, Except.bind, pure, Except.pure, Except.ok.injEq] at h
    exact ⟨prop, rfl, by rw [← h, allowAdj_eq]⟩

/-- truncated subtraction is `max(a − b, 0)` -/
theorem natSub_eq_max (a b : Nat) : ((a - b : Nat) : Int) = max ((a : Int) - (b : Int)) 0 := by omega

/-- **Zero without overhang (AllowOverhang).**  The adjustment is zero exactly when no party holds more direct
    seats than its proportional share. -/
theorem allow_adj_zero_iff (ev : PropEval) (votes : Votes) (n : Nat) (prev caps : Seats) (adj : Nat)
    (h : allowOverhang ev votes n prev caps = .ok adj) :
    ∃ prop, ev votes n [] caps = .ok prop ∧ (adj = 0 ↔ NoOverhang prop prev) := by
  obtain ⟨prop, hp, hadj⟩ := allow_adj_eq_overhang ev votes n prev caps adj h
  refine ⟨prop, hp, ?_⟩
  rw [hadj]
  unfold NoOverhang
  rw [List.sum_eq_zero_iff]
  constructor
  · intro hz p hp'
    have := hz _ (List.mem_map.mpr ⟨p, hp', rfl⟩)
    omega
  · intro hno x hx
    obtain ⟨p, hp', rfl⟩ := List.mem_map.mp hx
    have := hno p hp'
    omega

/-! ### LevelOverhang -/

/-- **Levelling is least (loop invariant).**  `LevelOverhang.calculate` returns `adj` such that either
    * `adj = 0` and the baseline distribution itself meets the floors (no tier party has overhang), or
    * `adj > 0`, the baseline distribution does not meet the floors, the proportional distribution of
      `n − drop + adj` seats (the enlarged house minus the seats held outside the tier) is adequate, and for every
      smaller positive enlargement `e` the evaluator answered and the distribution of `n − drop + e` seats is NOT
      adequate.
    The number of evaluator calls made by the loop is `adj ≤ fuel`. -/
theorem level_is_least (ev : PropEval) (fuel : Nat) (votes : Votes) (n : Nat) (prev caps : Seats) (adj : Nat)
    (h : levelOverhang ev fuel votes n prev caps = .ok adj) :
    ∃ prop, ev votes n [] caps = .ok prop ∧
      nonpropDrop (lowestAllowed prop prev) prev ≤ n ∧ adj ≤ fuel ∧
      ((adj = 0 ∧ MeetsFloors prop (lowestAllowed prop prev)) ∨
       (0 < adj ∧ ¬ MeetsFloors prop (lowestAllowed prop prev) ∧
        Adequate ev votes caps (lowestAllowed prop prev) (n - nonpropDrop (lowestAllowed prop prev) prev + adj) ∧
        ∀ e, 0 < e → e < adj →
          ∃ r, ev votes (n - nonpropDrop (lowestAllowed prop prev) prev + e) [] caps = .ok r ∧
            ¬ MeetsFloors r (lowestAllowed prop prev))) := by
  unfold levelOverhang at h
  cases hev : ev votes n [] caps with
  | error e => rw [hev] at h; simp [bind, Except.bind] at h
  | ok prop =>
    rw [hev] at h
    simp only [bind, Except.bind] at h
    refine ⟨prop, rfl, ?_⟩
    generalize hfl : lowestAllowed prop prev = floors at h ⊢
    generalize hdr : nonpropDrop floors prev = drop at h ⊢
    by_cases hnd : n < drop
    · simp [hnd] at h
    · simp only [hnd, ↓reduceIte] at h
      cases hl : levelLoop (fun h => ev votes h [] caps) floors fuel (n - drop) prop with
      | error e => rw [hl] at h; simp at h
      | ok H =>
        rw [hl] at h
        simp only [pure, Except.pure, Except.ok.injEq] at h
        obtain ⟨h1, h2, h3, h4⟩ := levelLoop_spec _ _ _ _ _ _ hl
        refine ⟨by omega, by omega, ?_⟩
        rcases Nat.eq_or_lt_of_le h1 with heq | hlt
        · left
          exact ⟨by omega, (belowMin_false_iff _ _).mp (h3 heq.symm)⟩
        · right
          obtain ⟨hb, ⟨r, hr, hrb⟩, hmid⟩ := h4 hlt
          have hH : n - drop + adj = H := by omega
          refine ⟨by omega, ?_, ⟨r, by rw [hH]; exact hr, (belowMin_false_iff _ _).mp hrb⟩, ?_⟩
          · intro hm
            rw [(belowMin_false_iff _ _).mpr hm] at hb
            exact Bool.false_ne_true hb
          · intro e he1 he2
            obtain ⟨r', hr', hrb'⟩ := hmid (n - drop + e) (by omega) (by omega)
            refine ⟨r', hr', ?_⟩
            intro hm
            rw [(belowMin_false_iff _ _).mpr hm] at hrb'
            exact Bool.false_ne_true hrb'

/-- the baseline distribution meets the floors iff no tier key holds more direct seats than its share -/
theorem meets_lowest_iff (prop : Dist) (prev : Seats) (hnd : (prop.map (·.1)).Nodup) :
    MeetsFloors prop (lowestAllowed prop prev) ↔ ∀ p ∈ prop, prevGetKey prev p.1 ≤ p.2 := by
  unfold MeetsFloors lowestAllowed
  constructor
  · intro hm p hp
    have := hm (p.1, max (prevGetKey prev p.1) p.2) (List.mem_map.mpr ⟨p, hp, rfl⟩)
    simp only at this
    rw [distGet_of_mem hnd hp] at this
    omega
  · intro hall q hq
    obtain ⟨p, hp, rfl⟩ := List.mem_map.mp hq
    simp only
    rw [distGet_of_mem hnd hp]
    have := hall p hp
    omega

/-- **Zero without overhang (LevelOverhang).**  The adjustment is zero exactly when no key of the proportional tier
    holds more direct seats than its proportional share; in particular (second part) it is zero when NO party at all
    holds more direct seats than its proportional share. -/
theorem adj_zero_iff_no_overhang (ev : PropEval) (fuel : Nat) (votes : Votes) (n : Nat) (prev caps : Seats) (adj : Nat)
    (h : levelOverhang ev fuel votes n prev caps = .ok adj) :
    ∃ prop, ev votes n [] caps = .ok prop ∧ ((prop.map (·.1)).Nodup →
      ((adj = 0 ↔ ∀ p ∈ prop, prevGetKey prev p.1 ≤ p.2) ∧ (NoOverhang prop prev → adj = 0))) := by
  obtain ⟨prop, hp, _, _, hcases⟩ := level_is_least ev fuel votes n prev caps adj h
  refine ⟨prop, hp, fun hnd => ?_⟩
  have hiff : adj = 0 ↔ ∀ p ∈ prop, prevGetKey prev p.1 ≤ p.2 := by
    rw [← meets_lowest_iff prop prev hnd]
    constructor
    · intro h0
      rcases hcases with ⟨_, hm⟩ | ⟨hpos, _⟩
      · exact hm
      · omega
    · intro hm
      rcases hcases with ⟨h0, _⟩ | ⟨_, hnm, _⟩
      · exact h0
      · exact absurd hm hnm
  refine ⟨hiff, fun hno => hiff.mpr ?_⟩
  intro p hp'
  cases hk : p.1 with
  | tie T => simp [prevGetKey]
  | cand c =>
    simp only [prevGetKey]
    unfold natLookup
    cases hf : prev.find? (fun q => q.1 = c) with
    | none => simp
    | some q =>
      have hq := List.mem_of_find?_eq_some hf
      have hqc := List.find?_some hf
      simp only [decide_eq_true_eq] at hqc
      have := hno q hq
      rw [hqc, ← hk, distGet_of_mem hnd hp'] at this
      exact this

/-! ### direct seats are kept; the house grows by exactly the adjustment -/

/-- **Direct seats are never removed.**  In the two-stage system `MultistageDistributor([first stage yielding the
    direct seats, AdjustedSeatCount(calculator, evaluator)])` every party ends with at least its direct seats —
    for every calculator and every evaluator: results are only ever added to the previous gains. -/
theorem keeps_direct_seats (calcr : Calc) (ev : PropEval) (v1 v2 : Votes) (n : Nat) (direct caps : Seats)
    (elected : Dist)
    (h : multistage [(mockStage direct, v1), (adjustedSeatCount calcr ev, v2)] n [] caps = .ok elected) :
    ∀ p ∈ direct, p.2 ≤ distGet elected (.cand p.1) := by
  intro p hp
  obtain ⟨prev0, res0, _, hres0, hrest⟩ := multistage_cons_ok _ _ _ _ _ _ _ h
  simp only [mockStage, Except.ok.injEq] at hres0
  subst hres0
  refine Nat.le_trans ?_ (multistage_mono _ n caps _ _ hrest (.cand p.1))
  exact distGet_addDist_mem [] (seatsToDist direct) (Key.cand p.1, p.2)
    (List.mem_map.mpr ⟨p, hp, rfl⟩)

/-- an evaluator *fills the house*: whenever it answers and the previous gains fit, previous gains plus the seats it
    awards (individually or through a reported `Tie`) are exactly `n_seats` -/
def Fills (ev : PropEval) (votes : Votes) : Prop :=
  ∀ n prev r, ev votes n prev [] = .ok r → sumSeats prev ≤ n → sumSeats prev + sumDist r = n

/-- **House size, any evaluator that fills the house.** -/
theorem house_grows_by_adj_of_fills (calcr : Calc) (ev : PropEval) (votes : Votes) (n : Nat) (prev : Seats)
    (adj : Nat) (res : Dist) (hf : Fills ev votes) (hsum : sumSeats prev ≤ n)
    (hc : calcr votes n prev [] = .ok adj) (hr : adjustedSeatCount calcr ev votes n prev [] = .ok res) :
    sumSeats prev + sumDist res = n + adj := by
  unfold adjustedSeatCount at hr
  rw [hc] at hr
  simp only [bind, Except.bind] at hr
  exact hf (n + adj) prev res hr (by omega)

/-- highest averages with a built-in divisor, non-negative votes and distinct parties fills the house -/
theorem haEval_fills (div : Nat → Rat) (hd : (∀ k, 0 < div k) ∧ StrictMono div) (votes : Votes)
    (hv : ∀ p ∈ votes, 0 ≤ p.2) (hn : (keys votes).Nodup) : Fills (haEval div) votes := by
  intro n prev r hr hsum
  unfold haEval highestAverages at hr
  split at hr
  · simp [Except.map] at hr
  · rename_i hpool
    simp only [Except.map, Except.ok.injEq] at hr
    subst hr
    rw [sumDist_normDist]
    exact ha_fills { div := div, votes := votes, n := n, prev := prev, caps := [] }
      (C01.cfgOK_of_divisor _ hd hv hn) rfl hsum hpool

/-- **The house grows by exactly the reported adjustment** (highest averages as distributing evaluator, any
    calculator): direct seats plus all seats awarded by `AdjustedSeatCount.evaluate` are `n + adjustment`; the
    adjustment is a natural number, i.e. never negative. -/
theorem house_grows_by_adj (div : Nat → Rat) (hd : (∀ k, 0 < div k) ∧ StrictMono div) (votes : Votes)
    (hv : ∀ p ∈ votes, 0 ≤ p.2) (hn : (keys votes).Nodup) (calcr : Calc) (n : Nat) (prev : Seats)
    (adj : Nat) (res : Dist) (hsum : sumSeats prev ≤ n)
    (hc : calcr votes n prev [] = .ok adj)
    (hr : adjustedSeatCount calcr (haEval div) votes n prev [] = .ok res) :
    sumSeats prev + sumDist res = n + adj :=
  house_grows_by_adj_of_fills calcr (haEval div) votes n prev adj res (haEval_fills div hd votes hv hn) hsum hc hr

/-- the result keys of highest averages are pairwise distinct -/
theorem haEval_nodup (div : Nat → Rat) (votes : Votes) (n : Nat) (prev caps : Seats) (r : Dist)
    (h : haEval div votes n prev caps = .ok r) : (r.map (·.1)).Nodup := by
  unfold haEval highestAverages at h
  split at h
  · simp [Except.map] at h
  · simp only [Except.map, Except.ok.injEq] at h
    subst h
    exact haResult_norm_nodup _

/-! ### termination of the levelling loop -/

open Gen.Divisor in
theorem d_hondt_unbounded : ∀ B : Rat, ∃ k, B < d_hondt k := by
  intro B
  obtain ⟨k, hk⟩ := exists_nat_gt B
  refine ⟨k, lt_trans hk ?_⟩
  unfold d_hondt
  exact_mod_cast Nat.lt_succ_self k

open Gen.Divisor in
theorem sainte_lague_unbounded : ∀ B : Rat, ∃ k, B < sainte_lague k := by
  intro B
  obtain ⟨k, hk⟩ := exists_nat_gt B
  refine ⟨k, lt_of_lt_of_le hk ?_⟩
  unfold sainte_lague
  have : k ≤ 2 * k + 1 := by omega
  exact_mod_cast this

/-- **Levelling terminates.**  Highest averages with positive, strictly increasing, unbounded divisors
    (D'Hondt, Sainte-Laguë: `d_hondt_unbounded`, `sainte_lague_unbounded`), non-negative votes, and a baseline
    result whose keys are parties with positive votes (no `Tie` key): there is a fuel bound `F` from which on the
    loop always returns an adjustment — i.e. the unfuelled Python loop terminates. -/
theorem level_terminates (div : Nat → Rat) (hd : (∀ k, 0 < div k) ∧ StrictMono div)
    (hunb : ∀ B : Rat, ∃ k, B < div k) (votes : Votes) (hv : ∀ p ∈ votes, 0 ≤ p.2) (hn : (keys votes).Nodup)
    (n : Nat) (prev : Seats) (prop : Dist)
    (hp : haEval div votes n [] [] = .ok prop)
    (htier : ∀ p ∈ prop, ∃ c, p.1 = .cand c ∧ 0 < getD votes c 0)
    (hdrop : nonpropDrop (lowestAllowed prop prev) prev ≤ n) :
    ∃ F, ∀ fuel, F ≤ fuel → ∃ adj, levelOverhang (haEval div) fuel votes n prev [] = .ok adj := by
  have hne : votes ≠ [] := by
    intro h0
    subst h0
    simp [haEval, highestAverages, haInit, Except.map] at hp
  have hfl : ∀ p ∈ lowestAllowed prop prev, ∃ c, p.1 = .cand c ∧ 0 < getD votes c 0 := by
    intro p hp'
    unfold lowestAllowed at hp'
    obtain ⟨q, hq, rfl⟩ := List.mem_map.mp hp'
    exact htier q hq
  obtain ⟨H0, hH0⟩ := ha_adequate_eventually div hd hunb votes hv hn _ hfl
  generalize hfloors : lowestAllowed prop prev = floors at hdrop hH0
  generalize hdr : nonpropDrop floors prev = drop at hdrop
  refine ⟨max H0 (n - drop + 1) - (n - drop), fun fuel hfuel => ?_⟩
  have hev : ∀ k, 0 < k → (fun h => haEval div votes h [] []) k = .ok (normDist (haResult (cfgH div votes k))) :=
    fun k hk => haEval_cfgH div hd.1 votes hne k hk
  obtain ⟨H, hH⟩ := levelLoop_terminates (fun h => haEval div votes h [] []) floors
    (max H0 (n - drop + 1) - (n - drop)) (n - drop) prop fuel hfuel
    (fun k hk1 _ => ⟨_, hev k (by omega)⟩)
    (fun h0 => by have := le_max_right H0 (n - drop + 1); omega)
    (fun _ => by
      have h1 := le_max_right H0 (n - drop + 1)
      have h2 := le_max_left H0 (n - drop + 1)
      have heq : n - drop + (max H0 (n - drop + 1) - (n - drop)) = max H0 (n - drop + 1) := by omega
      rw [heq]
      exact ⟨_, hev _ (by omega), (belowMin_false_iff _ _).mpr (hH0 _ h2)⟩)
  refine ⟨H + drop - n, ?_⟩
  unfold levelOverhang
  rw [hp]
  simp only [bind, Except.bind, hfloors, hdr]
  rw [if_neg (by omega)]
  simp only [hH]
  rfl

/-- **Termination from any adequate house size** (any evaluator, `Tie` keys among the floors allowed): if some house
    size `n − drop + d` is adequate and the evaluator answers at every size on the way, the loop returns with `d` units
    of fuel.  (Whether an adequate size always exists when the baseline result contains a `Tie` key is open: the tie
    has to recur with the same members; no counterexample was found for D'Hondt, Sainte-Laguë or Hare-LR on all vote
    vectors over {1..7}^≤3 and {1..5}^4 with houses up to 7, and no proof either — the fuel hypothesis stays.) -/
theorem level_terminates_of_adequate (ev : PropEval) (votes : Votes) (n : Nat) (prev : Seats) (prop : Dist)
    (hp : ev votes n [] [] = .ok prop) (hdrop : nonpropDrop (lowestAllowed prop prev) prev ≤ n) (d : Nat)
    (hans : ∀ k, n - nonpropDrop (lowestAllowed prop prev) prev < k →
      k ≤ n - nonpropDrop (lowestAllowed prop prev) prev + d → ∃ r, ev votes k [] [] = .ok r)
    (h0 : d = 0 → MeetsFloors prop (lowestAllowed prop prev))
    (hd : 0 < d → Adequate ev votes [] (lowestAllowed prop prev) (n - nonpropDrop (lowestAllowed prop prev) prev + d)) :
    ∀ fuel, d ≤ fuel → ∃ adj, levelOverhang ev fuel votes n prev [] = .ok adj := by
  intro fuel hfuel
  generalize hfloors : lowestAllowed prop prev = floors at hdrop hans h0 hd
  generalize hdr : nonpropDrop floors prev = drop at hdrop hans hd
  obtain ⟨H, hH⟩ := levelLoop_terminates (fun h => ev votes h [] []) floors d (n - drop) prop fuel hfuel hans
    (fun hd0 => (belowMin_false_iff _ _).mpr (h0 hd0))
    (fun hpos => by
      obtain ⟨r, hr, hm⟩ := hd hpos
      exact ⟨r, hr, (belowMin_false_iff _ _).mpr hm⟩)
  refine ⟨H + drop - n, ?_⟩
  unfold levelOverhang
  rw [hp]
  simp only [bind, Except.bind, hfloors, hdr]
  rw [if_neg (by omega)]
  simp only [hH]
  rfl

open Gen.Divisor in
/-- **The flat levelling loop can fail to terminate on a tied baseline** (recorded finding
    `C15-flat-tie-floor-nontermination`).  Modified Sainte-Laguë (first divisor 7/5), votes 1:1:3, 3 seats, party 2 holds
    3 direct seats.  The baseline is {2: 2, Tie(0,1): 1}: parties 0 and 1 are level on their first quotient 5/7.  The loop
    needs a house whose result contains `Tie(0,1)` again, but at every later level `1/(2j+1)` of parties 0 and 1 party 2 has
    the equal quotient `3/(6j+3)`, so only `Tie(0,1,2)` is ever reported (houses 7, 8, 12, 13, … below).  Checked here:
    40 enlargements do not suffice; the Python run does not return within 20000 evaluator calls.  Termination of the
    flat calculator with a `Tie` among the floors is therefore not a theorem; `level_terminates` (no `Tie` key) is sharp. -/
theorem level_flat_tie_witness :
    haEval (modified_first_coef sainte_lague ((7 : Rat) / 5)) [(0, 1), (1, 1), (2, 3)] 3 [] []
      = .ok [(.cand 2, 2), (.tie [0, 1], 1)] ∧
    haEval (modified_first_coef sainte_lague ((7 : Rat) / 5)) [(0, 1), (1, 1), (2, 3)] 8 [] []
      = .ok [(.cand 0, 1), (.cand 1, 1), (.cand 2, 4), (.tie [0, 1, 2], 2)] ∧
    levelOverhang (haEval (modified_first_coef sainte_lague ((7 : Rat) / 5))) 40 [(0, 1), (1, 1), (2, 3)] 3 [(2, 3)] []
      = .error fuelErr := by
  refine ⟨by decide +kernel, by decide +kernel, by decide +kernel⟩


/-! ### the final totals are the proportional distribution of the enlarged house -/

/-- **Final totals = proportional distribution of the enlarged house.**  Highest averages (strictly increasing
    divisors, positive votes) as both the levelling evaluator and the distributing evaluator; all direct seats belong
    to parties of the proportional tier; the proportional distribution `full` of the enlarged house `n + adj` reports
    no tie.  Then direct seats plus the seats awarded by `AdjustedSeatCount.evaluate` are exactly `full`, party by
    party, and the awarded result contains no `Tie` either. -/
theorem level_final_is_proportional (div : Nat → Rat) (hd : (∀ k, 0 < div k) ∧ StrictMono div) (votes : Votes)
    (hv : ∀ p ∈ votes, 0 < p.2) (hn : (keys votes).Nodup) (fuel n : Nat) (prev : Seats)
    (hpn : (prev.map (·.1)).Nodup) (adj : Nat) (res prop full : Dist)
    (hc : levelOverhang (haEval div) fuel votes n prev [] = .ok adj)
    (hr : adjustedSeatCount (levelOverhang (haEval div) fuel) (haEval div) votes n prev [] = .ok res)
    (hp : haEval div votes n [] [] = .ok prop)
    (htier : ∀ p ∈ prev, 0 < p.2 → distHas prop (.cand p.1) = true)
    (hfull : haEval div votes (n + adj) [] [] = .ok full)
    (hnotie : ∀ p ∈ full, ∃ c, p.1 = .cand c) :
    (∀ c, natLookup prev c 0 + distGet res (.cand c) = distGet full (.cand c)) ∧
    (∀ p ∈ res, ∃ c, p.1 = .cand c) := by
  have hv0 : ∀ p ∈ votes, 0 ≤ p.2 := fun p hp' => le_of_lt (hv p hp')
  obtain ⟨prop', hp', _, _, hcases⟩ := level_is_least (haEval div) fuel votes n prev [] adj hc
  rw [hp] at hp'
  have hpe : prop' = prop := (Except.ok.inj hp').symm
  subst hpe
  have hpnd : (prop'.map (·.1)).Nodup := haEval_nodup div votes n [] [] prop' hp
  -- no direct seats outside the tier
  have hdrop : nonpropDrop (lowestAllowed prop' prev) prev = 0 := by
    rw [nonpropDrop_eq, List.sum_eq_zero_iff]
    intro x hx
    obtain ⟨p, hpm, rfl⟩ := List.mem_map.mp hx
    rw [distHas_lowestAllowed]
    by_cases hz : 0 < p.2
    · rw [htier p hpm hz]; rfl
    · have : p.2 = 0 := by omega
      split <;> simp [this]
  rw [hdrop] at hcases
  -- the distribution of the enlarged house meets the floors
  have hmeets : MeetsFloors full (lowestAllowed prop' prev) := by
    rcases hcases with ⟨h0, hm⟩ | ⟨_, _, ⟨r, hr', hm⟩, _⟩
    · subst h0
      rw [Nat.add_zero, hp] at hfull
      rw [← Except.ok.inj hfull]; exact hm
    · rw [Nat.sub_zero, hfull] at hr'
      rw [Except.ok.inj hr']; exact hm
  obtain ⟨hfe, hfpool⟩ := haEval_ok div votes (n + adj) [] full hfull
  have hok0 : CfgOK (cfgH div votes (n + adj)) := C01.cfgOK_of_divisor _ hd hv0 hn
  have hNpos : 0 < n + adj := by
    obtain ⟨p, hpp⟩ := List.exists_mem_of_ne_nil _ hfpool
    obtain ⟨q, _, _, hlt, _⟩ := (haInit_pool_mem _ p).mp hpp
    have : (cfgP div votes (n + adj) []).capOf q.1 = n + adj := rfl
    omega
  have hle : ∀ c, natLookup prev c 0 ≤ haSeats (cfgH div votes (n + adj)) c := by
    intro c
    by_cases hz : 0 < natLookup prev c 0
    · -- c has direct seats, so it is a tier party and its floor is met
      unfold natLookup at hz ⊢
      cases hf : prev.find? (fun q => q.1 = c) with
      | none => simp
      | some q =>
        rw [hf] at hz
        simp only at hz ⊢
        have hq := List.mem_of_find?_eq_some hf
        have hqc := List.find?_some hf
        simp only [decide_eq_true_eq] at hqc
        have hin := htier q hq hz
        rw [distHas_iff, hqc] at hin
        obtain ⟨e, he, hek⟩ := List.mem_map.mp hin
        have hm := hmeets (e.1, max (prevGetKey prev e.1) e.2)
          (by unfold lowestAllowed; exact List.mem_map.mpr ⟨e, he, rfl⟩)
        simp only at hm
        rw [hek] at hm
        have hpk : prevGetKey prev (.cand c) = q.2 := by
          simp only [prevGetKey]; unfold natLookup; rw [hf]
        rw [hpk, hfe] at hm
        have := distGet_haResult (cfgH div votes (n + adj)) hok0 c
        have hcfg : cfgP div votes (n + adj) [] = cfgH div votes (n + adj) := rfl
        rw [hcfg] at hm
        omega
    · omega
  have htie : (haRun (cfgH div votes (n + adj))).tie = none := by
    cases ht : (haRun (cfgH div votes (n + adj))).tie with
    | none => rfl
    | some Tm =>
      exfalso
      obtain ⟨T, m⟩ := Tm
      obtain ⟨hmpos, _⟩ := C01.ha_tie _ hok0 T m ht
      have hmem : (Key.tie T, m) ∈ haResult (cfgH div votes (n + adj)) :=
        (C01.haResult_tie _ T m).mpr ⟨ht, hmpos⟩
      have hmem' : (normKey (Key.tie T), m) ∈ full := by
        rw [hfe]
        exact List.mem_map.mpr ⟨(Key.tie T, m), hmem, rfl⟩
      obtain ⟨c, hcc⟩ := hnotie _ hmem'
      simp [normKey] at hcc
  -- the distributing evaluation
  unfold adjustedSeatCount at hr
  rw [hc] at hr
  simp only [bind, Except.bind] at hr
  obtain ⟨hre, hrpool⟩ := haEval_ok div votes (n + adj) prev res hr
  obtain ⟨hcont, htp⟩ := ha_continue div hd votes hv hn (n + adj) hNpos prev hpn hrpool hle htie
  have hokp : CfgOK (cfgP div votes (n + adj) prev) := C01.cfgOK_of_divisor _ hd hv0 hn
  refine ⟨fun c => ?_, ?_⟩
  · rw [hre, hfe, distGet_haResult _ hokp]
    have hcfg : cfgP div votes (n + adj) [] = cfgH div votes (n + adj) := rfl
    rw [hcfg, distGet_haResult _ hok0]
    exact hcont c
  · intro p hpr
    rw [hre] at hpr
    obtain ⟨e, he, rfl⟩ := List.mem_map.mp hpr
    rw [haResult_split, List.mem_append] at he
    rcases he with he | he
    · have : e.1 ∈ (haCandPart (cfgP div votes (n + adj) prev)).map (·.1) := List.mem_map.mpr ⟨e, he, rfl⟩
      rw [haCandPart_keys] at this
      obtain ⟨c, _, hce⟩ := List.mem_map.mp this
      exact ⟨c, by simp only; rw [← hce]; rfl⟩
    · unfold haTiePart at he
      rw [htp] at he
      simp at he

/-- **The proportional tier consists of parties with votes.**  If at least one party has a positive number of votes,
    every party that appears (individually) in a highest-averages result has positive votes — so the tier hypothesis
    of `level_terminates` only excludes `Tie` keys. -/
theorem ha_tier_has_votes (div : Nat → Rat) (hd : (∀ k, 0 < div k) ∧ StrictMono div) (votes : Votes)
    (hv : ∀ p ∈ votes, 0 ≤ p.2) (hn : (keys votes).Nodup) (hpos : ∃ p ∈ votes, 0 < p.2) (n : Nat) (prop : Dist)
    (hp : haEval div votes n [] [] = .ok prop) (c : Cand) (g : Nat) (hc : (Key.cand c, g) ∈ prop) :
    0 < getD votes c 0 := by
  obtain ⟨hpe, hpool⟩ := haEval_ok div votes n [] prop hp
  set cfg := cfgP div votes n [] with hcfg
  have hok : CfgOK cfg := C01.cfgOK_of_divisor cfg hd hv hn
  have hnpos : 0 < n := by
    obtain ⟨p, hpp⟩ := List.exists_mem_of_ne_nil _ hpool
    obtain ⟨q, _, _, hlt, _⟩ := (haInit_pool_mem _ p).mp hpp
    have : cfg.capOf q.1 = n := rfl
    omega
  have hseat : 0 < haSeats cfg c := by
    rw [hpe] at hc
    obtain ⟨e, he, hek⟩ := List.mem_map.mp hc
    simp only [Prod.mk.injEq] at hek
    have h1 : e.1 = Key.cand c := (normKey_cand_iff _ _).mp hek.1
    have : (Key.cand c, e.2) ∈ haResult cfg := by rw [← h1]; exact he
    exact ((C01.haResult_cand cfg hok c _).mp this).1
  by_contra hnot
  have hv0 : cfg.vote c = 0 := le_antisymm (not_lt.mp hnot) (vote_nonneg hok c)
  obtain ⟨P, hPm, hPpos⟩ := hpos
  have hPk : P.1 ∈ keys votes := List.mem_map.mpr ⟨P, hPm, rfl⟩
  have hPv : cfg.vote P.1 = P.2 := vote_of_mem hn hPm
  have hne : P.1 ≠ c := by
    intro he
    rw [he, hv0] at hPv
    rw [← hPv] at hPpos
    exact lt_irrefl _ hPpos
  by_cases hroom : haSeats cfg P.1 < n
  · have hopt := C01.ha_optimal cfg hok P.1 ⟨hPk, hnpos⟩ (by
      show cfg.prevOf P.1 + haSeats cfg P.1 < cfg.capOf P.1
      have h1 : cfg.prevOf P.1 = 0 := rfl
      have h2 : cfg.capOf P.1 = n := rfl
      omega) c 0 (Nat.le_of_eq rfl) (by
      have h1 : cfg.prevOf c = 0 := rfl
      omega)
    have hq0 : cfg.quot c 0 = 0 := by unfold HACfg.quot; rw [hv0]; simp
    have hqP : 0 < cfg.quot P.1 (cfg.prevOf P.1 + haSeats cfg P.1) := by
      unfold HACfg.quot
      rw [hPv]
      exact div_pos hPpos (hd.1 _)
    rw [hq0] at hopt
    linarith
  · have hfill := ha_fills cfg hok rfl (by simp [sumSeats, hcfg, cfgP]) hpool
    rw [sumDist_haResult] at hfill
    have hck : c ∈ keys votes := C01.ha_only_voted cfg hok c hseat
    have h2 := two_le_sum (haCands cfg) (haCands_nodup cfg) (haSeats cfg) P.1 c
      (mem_haCands_of_key hPk) (mem_haCands_of_key hck) hne
    have hsp : sumSeats cfg.prev = 0 := rfl
    have hnn : cfg.n = n := rfl
    omega

/-- **Levelling terminates**, in terms of the input only: some party has positive votes and the baseline
    distribution reports no tie. -/
theorem level_terminates_of_no_tie (div : Nat → Rat) (hd : (∀ k, 0 < div k) ∧ StrictMono div)
    (hunb : ∀ B : Rat, ∃ k, B < div k) (votes : Votes) (hv : ∀ p ∈ votes, 0 ≤ p.2) (hn : (keys votes).Nodup)
    (hpos : ∃ p ∈ votes, 0 < p.2) (n : Nat) (prev : Seats) (prop : Dist)
    (hp : haEval div votes n [] [] = .ok prop)
    (hnotie : ∀ p ∈ prop, ∃ c, p.1 = .cand c)
    (hdrop : nonpropDrop (lowestAllowed prop prev) prev ≤ n) :
    ∃ F, ∀ fuel, F ≤ fuel → ∃ adj, levelOverhang (haEval div) fuel votes n prev [] = .ok adj := by
  apply level_terminates div hd hunb votes hv hn n prev prop hp _ hdrop
  intro p hpm
  obtain ⟨c, hc⟩ := hnotie p hpm
  refine ⟨c, hc, ha_tier_has_votes div hd votes hv hn hpos n prop hp c p.2 ?_⟩
  rw [← hc]; exact hpm

/-- **Final totals = proportional distribution, as observed through the two-stage wrapper** (NZ-style
    `MultistageDistributor([direct-seat stage, AdjustedSeatCount(LevelOverhang, evaluator)])`): under the hypotheses of
    `level_final_is_proportional` the accumulated result of the wrapper IS the proportional distribution of the enlarged
    house, party by party. -/
theorem multistage_final_is_proportional (div : Nat → Rat) (hd : (∀ k, 0 < div k) ∧ StrictMono div) (votes v1 : Votes)
    (hv : ∀ p ∈ votes, 0 < p.2) (hn : (keys votes).Nodup) (fuel n : Nat) (direct : Seats)
    (hpn : (direct.map (·.1)).Nodup) (adj : Nat) (prop full elected : Dist)
    (hc : levelOverhang (haEval div) fuel votes n direct [] = .ok adj)
    (hms : multistage [(mockStage direct, v1),
      (adjustedSeatCount (levelOverhang (haEval div) fuel) (haEval div), votes)] n [] [] = .ok elected)
    (hp : haEval div votes n [] [] = .ok prop)
    (htier : ∀ p ∈ direct, 0 < p.2 → distHas prop (.cand p.1) = true)
    (hfull : haEval div votes (n + adj) [] [] = .ok full)
    (hnotie : ∀ p ∈ full, ∃ c, p.1 = .cand c) :
    ∀ c, distGet elected (.cand c) = distGet full (.cand c) := by
  obtain ⟨_, res0, _, hres0, hrest⟩ := multistage_cons_ok _ _ _ _ _ _ _ hms
  simp only [mockStage, Except.ok.injEq] at hres0
  subst hres0
  have hknd : ((seatsToDist direct).map (·.1)).Nodup := by
    have : (seatsToDist direct).map (·.1) = (direct.map (·.1)).map Key.cand := by
      unfold seatsToDist; rw [List.map_map, List.map_map]; rfl
    rw [this]
    exact hpn.map (fun a b hab => by cases hab; rfl)
  have he1 : addDist [] (seatsToDist direct) = seatsToDist direct := by
    rw [addDist_append_of_disjoint [] _ hknd (fun k _ => by simp)]
    rfl
  rw [he1] at hrest
  obtain ⟨prev, res, hprev, hres, hend⟩ := multistage_cons_ok _ _ _ _ _ _ _ hrest
  rw [distToSeats_seatsToDist] at hprev
  have hpe : prev = direct := (Option.some.inj hprev).symm
  subst hpe
  simp only [multistage, Except.ok.injEq] at hend
  obtain ⟨hfin, _⟩ := level_final_is_proportional div hd votes hv hn fuel n prev hpn adj res prop full hc hres hp htier
    hfull hnotie
  have hresnd : (res.map (·.1)).Nodup := by
    unfold adjustedSeatCount at hres
    rw [hc] at hres
    simp only [bind, Except.bind] at hres
    exact haEval_nodup div votes (n + adj) prev [] res hres
  intro c
  rw [← hend, distGet_addDist_nodup _ _ hresnd, distGet_seatsToDist]
  exact hfin c


/-- **Final totals = proportional distribution of the enlarged house, ties included.**  As
    `level_final_is_proportional` (highest averages with strictly increasing divisors, positive votes, all direct seats
    inside the tier) but WITHOUT the hypothesis that the enlarged house reports no tie: direct seats plus awarded seats
    equal the proportional distribution for every party, and the awarded result carries exactly the same `Tie` entries
    (same members, same number of seats). -/
theorem level_final_is_proportional_tie (div : Nat → Rat) (hd : (∀ k, 0 < div k) ∧ StrictMono div) (votes : Votes)
    (hv : ∀ p ∈ votes, 0 < p.2) (hn : (keys votes).Nodup) (fuel n : Nat) (prev : Seats)
    (hpn : (prev.map (·.1)).Nodup) (adj : Nat) (res prop full : Dist)
    (hc : levelOverhang (haEval div) fuel votes n prev [] = .ok adj)
    (hr : adjustedSeatCount (levelOverhang (haEval div) fuel) (haEval div) votes n prev [] = .ok res)
    (hp : haEval div votes n [] [] = .ok prop)
    (htier : ∀ p ∈ prev, 0 < p.2 → distHas prop (.cand p.1) = true)
    (hfull : haEval div votes (n + adj) [] [] = .ok full) :
    (∀ c, natLookup prev c 0 + distGet res (.cand c) = distGet full (.cand c)) ∧
    (∀ S, distGet res (.tie S) = distGet full (.tie S)) := by
  have hv0 : ∀ p ∈ votes, 0 ≤ p.2 := fun p hp' => le_of_lt (hv p hp')
  obtain ⟨prop', hp', _, _, hcases⟩ := level_is_least (haEval div) fuel votes n prev [] adj hc
  rw [hp] at hp'
  have hpe : prop' = prop := (Except.ok.inj hp').symm
  subst hpe
  have hpnd : (prop'.map (·.1)).Nodup := haEval_nodup div votes n [] [] prop' hp
  have hdrop : nonpropDrop (lowestAllowed prop' prev) prev = 0 := by
    rw [nonpropDrop_eq, List.sum_eq_zero_iff]
    intro x hx
    obtain ⟨p, hpm, rfl⟩ := List.mem_map.mp hx
    rw [distHas_lowestAllowed]
    by_cases hz : 0 < p.2
    · rw [htier p hpm hz]; rfl
    · have : p.2 = 0 := by omega
      split <;> simp [this]
  rw [hdrop] at hcases
  have hmeets : MeetsFloors full (lowestAllowed prop' prev) := by
    rcases hcases with ⟨h0, hm⟩ | ⟨_, _, ⟨r, hr', hm⟩, _⟩
    · subst h0
      rw [Nat.add_zero, hp] at hfull
      rw [← Except.ok.inj hfull]; exact hm
    · rw [Nat.sub_zero, hfull] at hr'
      rw [Except.ok.inj hr']; exact hm
  obtain ⟨hfe, hfpool⟩ := haEval_ok div votes (n + adj) [] full hfull
  have hok0 : CfgOK (cfgH div votes (n + adj)) := C01.cfgOK_of_divisor _ hd hv0 hn
  have hNpos : 0 < n + adj := by
    obtain ⟨p, hpp⟩ := List.exists_mem_of_ne_nil _ hfpool
    obtain ⟨q, _, _, hlt, _⟩ := (haInit_pool_mem _ p).mp hpp
    have : (cfgP div votes (n + adj) []).capOf q.1 = n + adj := rfl
    omega
  have hcfg : cfgP div votes (n + adj) [] = cfgH div votes (n + adj) := rfl
  have hle : ∀ c, natLookup prev c 0 ≤ haSeats (cfgH div votes (n + adj)) c := by
    intro c
    by_cases hz : 0 < natLookup prev c 0
    · unfold natLookup at hz ⊢
      cases hf : prev.find? (fun q => q.1 = c) with
      | none => simp
      | some q =>
        rw [hf] at hz
        simp only at hz ⊢
        have hq := List.mem_of_find?_eq_some hf
        have hqc := List.find?_some hf
        simp only [decide_eq_true_eq] at hqc
        have hin := htier q hq hz
        rw [distHas_iff, hqc] at hin
        obtain ⟨e, he, hek⟩ := List.mem_map.mp hin
        have hm := hmeets (e.1, max (prevGetKey prev e.1) e.2)
          (by unfold lowestAllowed; exact List.mem_map.mpr ⟨e, he, rfl⟩)
        simp only at hm
        rw [hek] at hm
        have hpk : prevGetKey prev (.cand c) = q.2 := by
          simp only [prevGetKey]; unfold natLookup; rw [hf]
        rw [hpk, hfe] at hm
        have := distGet_haResult (cfgH div votes (n + adj)) hok0 c
        rw [hcfg] at hm
        omega
    · omega
  unfold adjustedSeatCount at hr
  rw [hc] at hr
  simp only [bind, Except.bind] at hr
  obtain ⟨hre, hrpool⟩ := haEval_ok div votes (n + adj) prev res hr
  obtain ⟨hcont, hts, hmem⟩ := ha_continue_tie div hd votes hv hn (n + adj) hNpos prev hpn hrpool hle
  have hokp : CfgOK (cfgP div votes (n + adj) prev) := C01.cfgOK_of_divisor _ hd hv0 hn
  refine ⟨fun c => ?_, fun S => ?_⟩
  · rw [hre, hfe, distGet_haResult _ hokp, hcfg, distGet_haResult _ hok0]
    exact hcont c
  · rw [hre, hfe, hcfg, distGet_haResult_tie, distGet_haResult_tie]
    cases ht0 : (haRun (cfgH div votes (n + adj))).tie with
    | none =>
      have h0 : tieSeats (haRun (cfgH div votes (n + adj))) = 0 := by unfold tieSeats; rw [ht0]
      rw [h0] at hts
      cases htP : (haRun (cfgP div votes (n + adj) prev)).tie with
      | none => rfl
      | some Tm =>
        obtain ⟨T, m⟩ := Tm
        have hm : tieSeats (haRun (cfgP div votes (n + adj) prev)) = m := by unfold tieSeats; rw [htP]
        have hm0 : m = 0 := by omega
        simp only [hm0]
        split <;> rfl
    | some Tm0 =>
      obtain ⟨T0, m0⟩ := Tm0
      have h0 : tieSeats (haRun (cfgH div votes (n + adj))) = m0 := by unfold tieSeats; rw [ht0]
      obtain ⟨hm0pos, _⟩ := C01.ha_tie _ hok0 T0 m0 ht0
      cases htP : (haRun (cfgP div votes (n + adj) prev)).tie with
      | none =>
        have hP : tieSeats (haRun (cfgP div votes (n + adj) prev)) = 0 := by unfold tieSeats; rw [htP]
        omega
      | some TmP =>
        obtain ⟨TP, mP⟩ := TmP
        have hP : tieSeats (haRun (cfgP div votes (n + adj) prev)) = mP := by unfold tieSeats; rw [htP]
        have hmm : mP = m0 := by omega
        obtain ⟨T0', _, ht0', hnd0, _⟩ := tie_facts (cfgH div votes (n + adj)) hok0 (by omega)
        obtain ⟨TP', _, htP', hndP, _⟩ := tie_facts (cfgP div votes (n + adj) prev) hokp (by omega)
        rw [ht0] at ht0'
        rw [htP] at htP'
        have e0 : T0' = T0 := by injection ht0' with h; exact (Prod.mk.inj h).1.symm
        have eP : TP' = TP := by injection htP' with h; exact (Prod.mk.inj h).1.symm
        subst e0; subst eP
        have hs : sortNat TP' = sortNat T0' := sortNat_eq_of_same_members TP' T0' hndP hnd0 (hmem T0' m0 TP' mP ht0 htP)
        simp only [hs, hmm]

open Gen.Divisor in
/-- **The boundary of the final-totals clause: parties without votes.**  D'Hondt, nobody has votes, 2 seats, party 0 holds
    one directly.  From scratch both parties are seated in one batch of quotient 0 (`{0: 1, 2: 1}`); continued from the
    direct seat, party 0's second quotient ties with party 2's first and a `Tie` is reported: party 2 ends with 0, not 1.
    The positivity hypothesis of `level_final_is_proportional(_tie)` cannot be dropped. -/
theorem final_zero_votes_witness :
    levelOverhang (haEval d_hondt) 200 [(0, 0), (2, 0)] 2 [(0, 1)] [] = .ok 0 ∧
    adjustedSeatCount (levelOverhang (haEval d_hondt) 200) (haEval d_hondt) [(0, 0), (2, 0)] 2 [(0, 1)] []
      = .ok [(.tie [0, 2], 1)] ∧
    haEval d_hondt [(0, 0), (2, 0)] (2 + 0) [] [] = .ok [(.cand 0, 1), (.cand 2, 1)] := by
  refine ⟨by decide +kernel, by decide +kernel, by decide +kernel⟩


/-! ### the literal "smallest enlargement" reading, and where the code departs from it -/

/-- **Smallest enlargement, literally.**  For an evaluator that fills the house and returns distinct keys: whenever the
    loop is entered (`adj > 0`), or no party outside the tier holds direct seats (`drop = 0`), the returned adjustment is
    THE least `e ≥ 0` such that the proportional distribution of `n + e − drop` seats — the seats not held by parties
    outside the tier — gives every tier key at least its direct seats and its initial share. -/
theorem level_least_enlargement (ev : PropEval) (fuel : Nat) (votes : Votes) (n : Nat) (prev : Seats) (adj : Nat)
    (hf : Fills ev votes) (hnod : ∀ r, ev votes n [] [] = .ok r → (r.map (·.1)).Nodup)
    (h : levelOverhang ev fuel votes n prev [] = .ok adj) :
    ∃ prop, ev votes n [] [] = .ok prop ∧
      (0 < adj ∨ nonpropDrop (lowestAllowed prop prev) prev = 0 →
        Adequate ev votes [] (lowestAllowed prop prev) (n - nonpropDrop (lowestAllowed prop prev) prev + adj) ∧
        ∀ e, e < adj → ¬ Adequate ev votes [] (lowestAllowed prop prev)
          (n - nonpropDrop (lowestAllowed prop prev) prev + e)) := by
  obtain ⟨prop, hp, hdn, _, hcases⟩ := level_is_least ev fuel votes n prev [] adj h
  refine ⟨prop, hp, fun hor => ?_⟩
  have hpn := hnod prop hp
  rcases hcases with ⟨h0, hm⟩ | ⟨hpos, hnm, hade, hmid⟩
  · subst h0
    rcases hor with hlt | hd0
    · omega
    · refine ⟨⟨prop, by rw [hd0]; simpa using hp, hm⟩, fun e he => by omega⟩
  · refine ⟨hade, fun e he => ?_⟩
    rcases Nat.eq_zero_or_pos e with rfl | hepos
    · rintro ⟨r, hr, hm⟩
      rw [Nat.add_zero] at hr
      -- Σ floors ≤ Σ r = n − drop, and Σ floors ≥ Σ prop = n
      have h1 := sum_floors_le (lowestAllowed prop prev) (by rw [lowestAllowed_keys]; exact hpn) r hm
      have h2 := sumDist_lowestAllowed_ge prop prev
      have h3 := hf n [] prop hp (by simp [sumSeats])
      have h4 := hf _ [] r hr (by simp [sumSeats])
      simp only [sumSeats, List.map_nil, List.sum_nil, Nat.zero_add] at h3 h4
      have hd0 : nonpropDrop (lowestAllowed prop prev) prev = 0 := by omega
      rw [hd0, Nat.sub_zero, hp] at hr
      rw [← Except.ok.inj hr] at hm
      exact hnm hm
    · obtain ⟨r, hr, hnmr⟩ := hmid e hepos he
      rintro ⟨r', hr', hm'⟩
      rw [hr] at hr'
      rw [← Except.ok.inj hr'] at hm'
      exact hnmr hm'

open Gen.Divisor in
/-- **Where the code departs from the literal reading** (recorded finding
    `C15-level-zero-with-party-outside-tier`): D'Hondt, votes 60:40, 10 seats, a party outside the tier holds 2 direct
    seats.  The adjustment is 0, but the proportional distribution of the 8 seats not held outside the tier is 5:3,
    below the initial shares 6:4 — enlargement 0 is NOT adequate in the literal sense; the hypothesis
    `0 < adj ∨ drop = 0` of `level_least_enlargement` is necessary. -/
theorem level_zero_outside_tier_witness :
    levelOverhang (haEval d_hondt) 400 [(0, 60), (1, 40)] 10 [(2, 2)] [] = .ok 0 ∧
    haEval d_hondt [(0, 60), (1, 40)] 10 [] [] = .ok [(.cand 0, 6), (.cand 1, 4)] ∧
    nonpropDrop (lowestAllowed [(.cand 0, 6), (.cand 1, 4)] [(2, 2)]) [(2, 2)] = 2 ∧
    ¬ Adequate (haEval d_hondt) [(0, 60), (1, 40)] [] (lowestAllowed [(.cand 0, 6), (.cand 1, 4)] [(2, 2)]) (10 - 2 + 0) := by
  refine ⟨by decide +kernel, by decide +kernel, by decide +kernel, ?_⟩
  rintro ⟨r, hr, hm⟩
  have h8 : haEval d_hondt [(0, 60), (1, 40)] (10 - 2 + 0) [] [] = .ok [(.cand 0, 5), (.cand 1, 3)] := by decide +kernel
  rw [h8] at hr
  rw [← Except.ok.inj hr] at hm
  have := hm (.cand 0, 6) (by decide +kernel)
  revert this
  decide +kernel

/-! ### Hare largest remainder as the evaluator -/

/-- the largest-remainder model fills the house (non-negative votes, at least one party, distinct parties) -/
theorem lrHareEval_fills (votes : Votes) (hne : votes ≠ []) (hv : ∀ p ∈ votes, 0 ≤ p.2) (hn : (keys votes).Nodup) :
    Fills lrHareEval votes :=
  fun n prev r hr _ => lrHare_fills votes hne hv hn n prev r hr

/-- **The house grows by exactly the reported adjustment**, `LargestRemainder('hare')` as the distributing
    evaluator: whenever it answers (it refuses with `VotingSystemError` when previous gains exceed a party's whole
    quotas — recorded finding), direct seats plus awarded seats are `n + adjustment`. -/
theorem house_grows_by_adj_lr (votes : Votes) (hne : votes ≠ []) (hv : ∀ p ∈ votes, 0 ≤ p.2) (hn : (keys votes).Nodup)
    (calcr : Calc) (n : Nat) (prev : Seats) (adj : Nat) (res : Dist) (hsum : sumSeats prev ≤ n)
    (hc : calcr votes n prev [] = .ok adj)
    (hr : adjustedSeatCount calcr lrHareEval votes n prev [] = .ok res) :
    sumSeats prev + sumDist res = n + adj :=
  house_grows_by_adj_of_fills calcr lrHareEval votes n prev adj res (lrHareEval_fills votes hne hv hn) hsum hc hr

/-- `level_least_enlargement` instantiated: for highest averages (built-in divisors) and for Hare largest remainder the
    hypotheses "fills the house" and "distinct keys" hold, so the literal least-enlargement statement applies. -/
theorem level_least_enlargement_ha (div : Nat → Rat) (hd : (∀ k, 0 < div k) ∧ StrictMono div) (fuel : Nat)
    (votes : Votes) (hv : ∀ p ∈ votes, 0 ≤ p.2) (hn : (keys votes).Nodup) (n : Nat) (prev : Seats) (adj : Nat)
    (h : levelOverhang (haEval div) fuel votes n prev [] = .ok adj) :
    ∃ prop, haEval div votes n [] [] = .ok prop ∧
      (0 < adj ∨ nonpropDrop (lowestAllowed prop prev) prev = 0 →
        Adequate (haEval div) votes [] (lowestAllowed prop prev) (n - nonpropDrop (lowestAllowed prop prev) prev + adj) ∧
        ∀ e, e < adj → ¬ Adequate (haEval div) votes [] (lowestAllowed prop prev)
          (n - nonpropDrop (lowestAllowed prop prev) prev + e)) :=
  level_least_enlargement (haEval div) fuel votes n prev adj (haEval_fills div hd votes hv hn)
    (fun r hr => haEval_nodup div votes n [] [] r hr) h

theorem level_least_enlargement_lr (fuel : Nat) (votes : Votes) (hne : votes ≠ []) (hv : ∀ p ∈ votes, 0 ≤ p.2)
    (hn : (keys votes).Nodup) (n : Nat) (prev : Seats) (adj : Nat)
    (h : levelOverhang lrHareEval fuel votes n prev [] = .ok adj) :
    ∃ prop, lrHareEval votes n [] [] = .ok prop ∧
      (0 < adj ∨ nonpropDrop (lowestAllowed prop prev) prev = 0 →
        Adequate lrHareEval votes [] (lowestAllowed prop prev) (n - nonpropDrop (lowestAllowed prop prev) prev + adj) ∧
        ∀ e, e < adj → ¬ Adequate lrHareEval votes [] (lowestAllowed prop prev)
          (n - nonpropDrop (lowestAllowed prop prev) prev + e)) :=
  level_least_enlargement lrHareEval fuel votes n prev adj (lrHareEval_fills votes hne hv hn)
    (fun r hr => lrHare_nodup votes hn n [] [] r hr) h

/-- **Levelling terminates (Hare largest remainder).**  Non-negative votes with a positive total, distinct parties,
    and a baseline result whose keys are parties with positive votes (no `Tie` key): from some fuel bound on the loop
    always returns an adjustment. -/
theorem level_terminates_lr (votes : Votes) (hv : ∀ p ∈ votes, 0 ≤ p.2) (hn : (keys votes).Nodup)
    (hT : 0 < sumVals votes) (n : Nat) (prev : Seats) (prop : Dist)
    (hp : lrHareEval votes n [] [] = .ok prop)
    (htier : ∀ p ∈ prop, ∃ c, p.1 = .cand c ∧ 0 < getD votes c 0)
    (hdrop : nonpropDrop (lowestAllowed prop prev) prev ≤ n) :
    ∃ F, ∀ fuel, F ≤ fuel → ∃ adj, levelOverhang lrHareEval fuel votes n prev [] = .ok adj := by
  have hfl : ∀ p ∈ lowestAllowed prop prev, ∃ c, p.1 = .cand c ∧ 0 < getD votes c 0 := by
    intro p hp'
    unfold lowestAllowed at hp'
    obtain ⟨q, hq, rfl⟩ := List.mem_map.mp hp'
    exact htier q hq
  obtain ⟨H0, hH0⟩ := lr_meets_eventually votes hv hn hT _ hfl
  generalize hfloors : lowestAllowed prop prev = floors at hdrop hH0
  generalize hdr : nonpropDrop floors prev = drop at hdrop
  refine ⟨max H0 (n - drop + 1) - (n - drop), fun fuel hfuel => ?_⟩
  obtain ⟨H, hH⟩ := levelLoop_terminates (fun h => lrHareEval votes h [] []) floors
    (max H0 (n - drop + 1) - (n - drop)) (n - drop) prop fuel hfuel
    (fun k hk1 _ => by
      obtain ⟨r, hr, _⟩ := lrHare_answers votes hv hn hT k (by omega)
      exact ⟨r, hr⟩)
    (fun h0 => by have := le_max_right H0 (n - drop + 1); omega)
    (fun _ => by
      have h1 := le_max_right H0 (n - drop + 1)
      have h2 := le_max_left H0 (n - drop + 1)
      have heq : n - drop + (max H0 (n - drop + 1) - (n - drop)) = max H0 (n - drop + 1) := by omega
      rw [heq]
      obtain ⟨r, hr, _⟩ := lrHare_answers votes hv hn hT (max H0 (n - drop + 1)) (by omega)
      exact ⟨r, hr, (belowMin_false_iff _ _).mpr (hH0 _ h2 (by omega) r hr)⟩)
  refine ⟨H + drop - n, ?_⟩
  unfold levelOverhang
  rw [hp]
  simp only [bind, Except.bind, hfloors, hdr]
  rw [if_neg (by omega)]
  simp only [hH]
  rfl


/-- **Final totals = proportional distribution of the enlarged house, Hare largest remainder** as both the
    levelling and the distributing evaluator (minimal model `lrHareEval`): non-negative votes, distinct parties, every
    party listed in the direct-seat map stands in the election, all direct seats belong to parties of the proportional
    tier, and the proportional distribution `full` of the enlarged house reports no tie.  Then for every party direct
    seats plus the seats awarded by `AdjustedSeatCount.evaluate` are exactly its seats in `full`, and no `Tie` is awarded. -/
theorem level_final_is_proportional_lr (votes : Votes) (hv : ∀ p ∈ votes, 0 ≤ p.2) (hn : (keys votes).Nodup)
    (fuel n : Nat) (prev : Seats) (hpn : (prev.map (·.1)).Nodup) (hpk : ∀ p ∈ prev, p.1 ∈ keys votes)
    (adj : Nat) (res prop full : Dist)
    (hc : levelOverhang lrHareEval fuel votes n prev [] = .ok adj)
    (hr : adjustedSeatCount (levelOverhang lrHareEval fuel) lrHareEval votes n prev [] = .ok res)
    (hp : lrHareEval votes n [] [] = .ok prop)
    (htier : ∀ p ∈ prev, 0 < p.2 → distHas prop (.cand p.1) = true)
    (hfull : lrHareEval votes (n + adj) [] [] = .ok full)
    (hnotie : ∀ p ∈ full, ∃ c, p.1 = .cand c) :
    (∀ p ∈ votes, natLookup prev p.1 0 + distGet res (.cand p.1) = distGet full (.cand p.1)) ∧
    (∀ p ∈ res, ∃ c, p.1 = .cand c) := by
  obtain ⟨prop', hp', _, _, hcases⟩ := level_is_least lrHareEval fuel votes n prev [] adj hc
  rw [hp] at hp'
  have hpe : prop' = prop := (Except.ok.inj hp').symm
  subst hpe
  have hpnd : (prop'.map (·.1)).Nodup := lrHare_nodup votes hn n [] [] prop' hp
  have hdrop : nonpropDrop (lowestAllowed prop' prev) prev = 0 := by
    rw [nonpropDrop_eq, List.sum_eq_zero_iff]
    intro x hx
    obtain ⟨p, hpm, rfl⟩ := List.mem_map.mp hx
    rw [distHas_lowestAllowed]
    by_cases hz : 0 < p.2
    · rw [htier p hpm hz]; rfl
    · have : p.2 = 0 := by omega
      split <;> simp [this]
  rw [hdrop] at hcases
  have hmeets : MeetsFloors full (lowestAllowed prop' prev) := by
    rcases hcases with ⟨h0, hm⟩ | ⟨_, _, ⟨r, hr', hm⟩, _⟩
    · subst h0
      rw [Nat.add_zero, hp] at hfull
      rw [← Except.ok.inj hfull]; exact hm
    · rw [Nat.sub_zero, hfull] at hr'
      rw [Except.ok.inj hr']; exact hm
  -- votes is not empty (the evaluation of the tier answered with seats or the map is empty …)
  by_cases hne : votes = []
  · subst hne
    refine ⟨fun p hp' => by simp at hp', ?_⟩
    intro p hpr
    unfold adjustedSeatCount at hr
    rw [hc] at hr
    simp only [bind, Except.bind] at hr
    obtain ⟨hre, _⟩ := lrHare_result [] (n + adj) prev res hr
    rw [hre] at hpr
    simp [lrBest, lrRems, lrQe, getNBest, sortDesc, seatsToDist] at hpr
  have hle : ∀ p ∈ votes, natLookup prev p.1 0 ≤ distGet full (.cand p.1) := by
    intro p _
    by_cases hz : 0 < natLookup prev p.1 0
    · unfold natLookup at hz ⊢
      cases hf : prev.find? (fun q => q.1 = p.1) with
      | none => simp
      | some q =>
        rw [hf] at hz
        simp only at hz ⊢
        have hq := List.mem_of_find?_eq_some hf
        have hqc := List.find?_some hf
        simp only [decide_eq_true_eq] at hqc
        have hin := htier q hq hz
        rw [distHas_iff, hqc] at hin
        obtain ⟨e, he, hek⟩ := List.mem_map.mp hin
        have hm := hmeets (e.1, max (prevGetKey prev e.1) e.2)
          (by unfold lowestAllowed; exact List.mem_map.mpr ⟨e, he, rfl⟩)
        simp only at hm
        rw [hek] at hm
        have hpk' : prevGetKey prev (.cand p.1) = q.2 := by
          simp only [prevGetKey]; unfold natLookup; rw [hf]
        rw [hpk'] at hm
        omega
    · omega
  have hnt0 : ∀ s ∈ lrBest votes (n + adj) [], isTieSlot s = false := by
    intro s hs
    cases s with
    | cand c => rfl
    | tie T =>
      exfalso
      obtain ⟨hfe, _⟩ := lrHare_result votes (n + adj) [] full hfull
      have hpos := tie_key_of_tie_slot _ (seatsToDist (lrQe votes (n + adj) [])) T hs
      rw [← hfe] at hpos
      obtain ⟨e, he, hek⟩ := List.mem_map.mp (distGet_pos_mem hpos)
      obtain ⟨c, hcc⟩ := hnotie e he
      rw [hek] at hcc
      cases hcc
  unfold adjustedSeatCount at hr
  rw [hc] at hr
  simp only [bind, Except.bind] at hr
  obtain ⟨hcont, hntP⟩ := lr_continue votes hne hv hn (n + adj) prev hpn hpk res full hr hfull hnt0 hle
  refine ⟨hcont, ?_⟩
  -- no Tie key in the awarded result
  intro p hpr
  obtain ⟨hre, _⟩ := lrHare_result votes (n + adj) prev res hr
  cases hk : p.1 with
  | cand c => exact ⟨c, rfl⟩
  | tie T =>
    exfalso
    -- a tie key can only come from a tie slot
    have hkey : ∀ (best : List Slot) (qd : Dist), (∀ s ∈ best, isTieSlot s = false) →
        (∀ e ∈ qd, ∃ c, e.1 = Key.cand c) → ∀ e ∈ best.foldl incSlot qd, ∃ c, e.1 = Key.cand c := by
      intro best
      induction best with
      | nil => intro qd _ hq e he; exact hq e he
      | cons x xs ih =>
        intro qd hb hq e he
        rw [List.foldl_cons] at he
        apply ih (incSlot qd x) (fun s hs => hb s (List.mem_cons_of_mem _ hs)) _ e he
        intro e' he'
        cases x with
        | tie T' => have := hb (Slot.tie T') List.mem_cons_self; simp [isTieSlot] at this
        | cand c =>
          simp only [incSlot] at he'
          have hmem : e'.1 ∈ (setK qd (Key.cand c) (distGet qd (Key.cand c) + 1)).map (·.1) :=
            List.mem_map.mpr ⟨e', he', rfl⟩
          rw [mem_keys_setK] at hmem
          rcases hmem with hm | hm
          · obtain ⟨e0, he0, hek⟩ := List.mem_map.mp hm
            obtain ⟨c0, hc0⟩ := hq e0 he0
            exact ⟨c0, by rw [← hek]; exact hc0⟩
          · exact ⟨c, hm⟩
    rw [hre] at hpr
    obtain ⟨c, hcc⟩ := hkey _ _ hntP (fun e he => by
      unfold seatsToDist at he
      obtain ⟨x, _, rfl⟩ := List.mem_map.mp he
      exact ⟨x.1, rfl⟩) p hpr
    rw [hk] at hcc
    cases hcc


/-- **Final totals = proportional distribution of the enlarged house, Hare largest remainder, ties included.**  As
    `level_final_is_proportional_lr` without the hypothesis that the enlarged house reports no tie: party totals agree and
    the awarded result carries exactly the same `Tie` entries. -/
theorem level_final_is_proportional_lr_tie (votes : Votes) (hv : ∀ p ∈ votes, 0 ≤ p.2) (hn : (keys votes).Nodup)
    (fuel n : Nat) (prev : Seats) (hpn : (prev.map (·.1)).Nodup) (hpk : ∀ p ∈ prev, p.1 ∈ keys votes)
    (adj : Nat) (res prop full : Dist)
    (hc : levelOverhang lrHareEval fuel votes n prev [] = .ok adj)
    (hr : adjustedSeatCount (levelOverhang lrHareEval fuel) lrHareEval votes n prev [] = .ok res)
    (hp : lrHareEval votes n [] [] = .ok prop)
    (htier : ∀ p ∈ prev, 0 < p.2 → distHas prop (.cand p.1) = true)
    (hfull : lrHareEval votes (n + adj) [] [] = .ok full) :
    (∀ p ∈ votes, natLookup prev p.1 0 + distGet res (.cand p.1) = distGet full (.cand p.1)) ∧
    (∀ S, distGet res (.tie S) = distGet full (.tie S)) := by
  obtain ⟨prop', hp', _, _, hcases⟩ := level_is_least lrHareEval fuel votes n prev [] adj hc
  rw [hp] at hp'
  have hpe : prop' = prop := (Except.ok.inj hp').symm
  subst hpe
  have hpnd : (prop'.map (·.1)).Nodup := lrHare_nodup votes hn n [] [] prop' hp
  have hdrop : nonpropDrop (lowestAllowed prop' prev) prev = 0 := by
    rw [nonpropDrop_eq, List.sum_eq_zero_iff]
    intro x hx
    obtain ⟨p, hpm, rfl⟩ := List.mem_map.mp hx
    rw [distHas_lowestAllowed]
    by_cases hz : 0 < p.2
    · rw [htier p hpm hz]; rfl
    · have : p.2 = 0 := by omega
      split <;> simp [this]
  rw [hdrop] at hcases
  have hmeets : MeetsFloors full (lowestAllowed prop' prev) := by
    rcases hcases with ⟨h0, hm⟩ | ⟨_, _, ⟨r, hr', hm⟩, _⟩
    · subst h0
      rw [Nat.add_zero, hp] at hfull
      rw [← Except.ok.inj hfull]; exact hm
    · rw [Nat.sub_zero, hfull] at hr'
      rw [Except.ok.inj hr']; exact hm
  unfold adjustedSeatCount at hr
  rw [hc] at hr
  simp only [bind, Except.bind] at hr
  obtain ⟨hre, _⟩ := lrHare_result votes (n + adj) prev res hr
  obtain ⟨hfe, _⟩ := lrHare_result votes (n + adj) [] full hfull
  by_cases hne : votes = []
  · subst hne
    refine ⟨fun p hp' => by simp at hp', fun S => ?_⟩
    rw [hre, hfe]
    simp [lrBest, lrRems, lrQe, getNBest, sortDesc, seatsToDist, distGet]
  have hle : ∀ p ∈ votes, natLookup prev p.1 0 ≤ distGet full (.cand p.1) := by
    intro p _
    by_cases hz : 0 < natLookup prev p.1 0
    · unfold natLookup at hz ⊢
      cases hf : prev.find? (fun q => q.1 = p.1) with
      | none => simp
      | some q =>
        rw [hf] at hz
        simp only at hz ⊢
        have hq := List.mem_of_find?_eq_some hf
        have hqc := List.find?_some hf
        simp only [decide_eq_true_eq] at hqc
        have hin := htier q hq hz
        rw [distHas_iff, hqc] at hin
        obtain ⟨e, he, hek⟩ := List.mem_map.mp hin
        have hm := hmeets (e.1, max (prevGetKey prev e.1) e.2)
          (by unfold lowestAllowed; exact List.mem_map.mpr ⟨e, he, rfl⟩)
        simp only at hm
        rw [hek] at hm
        have hpk' : prevGetKey prev (.cand p.1) = q.2 := by
          simp only [prevGetKey]; unfold natLookup; rw [hf]
        rw [hpk'] at hm
        omega
    · omega
  obtain ⟨hcont, hcnt, hmem⟩ := lr_continue_tie votes hne hv hn (n + adj) prev hpn hpk res full hr hfull hle
  refine ⟨hcont, fun S => ?_⟩
  rw [hre, hfe, distGet_foldl_incSlot_tie, distGet_foldl_incSlot_tie, distGet_seatsToDist_tie, distGet_seatsToDist_tie]
  by_cases hz : (lrBest votes (n + adj) []).countP isTieSlot = 0
  · have h0 : ∀ (l : List Slot), l.countP isTieSlot = 0 → l.countP (tieMatches S) = 0 := by
      intro l hl
      rw [List.countP_eq_zero] at hl ⊢
      intro s hs hm
      apply hl s hs
      cases s with
      | cand c => simp [tieMatches] at hm
      | tie T => rfl
    rw [h0 _ hz, h0 _ (by rw [hcnt]; exact hz)]
  · obtain ⟨T, hT0⟩ := exists_tie_of_countP_pos (lrBest votes (n + adj) []) (by omega)
    have hTP : Slot.tie T ∈ lrBest votes (n + adj) prev := (hmem T).mpr hT0
    have huniq : ∀ (v : Votes) (k : Nat), Slot.tie T ∈ getNBest v k →
        ∀ s ∈ getNBest v k, isTieSlot s = true → s = Slot.tie T := by
      intro v k hin s hs hts
      cases s with
      | cand c => simp [isTieSlot] at hts
      | tie T' => rw [tie_slot_unique v k T' T hs hin]
    have e1 : (lrBest votes (n + adj) prev).countP (tieMatches S)
        = if sortNat T = S then (lrBest votes (n + adj) prev).countP isTieSlot else 0 :=
      countP_tieMatches_of_unique _ T S (huniq _ _ hTP)
    have e2 : (lrBest votes (n + adj) []).countP (tieMatches S)
        = if sortNat T = S then (lrBest votes (n + adj) []).countP isTieSlot else 0 :=
      countP_tieMatches_of_unique _ T S (huniq _ _ hT0)
    rw [e1, e2, hcnt]


/-! ### LevelOverhangByConstituency -/

/-- **Levelling by constituency is least** (any way `ovAt` of obtaining the overall distribution).  With the floors
    summed over the constituencies (`lowestAllowedCty`), the returned adjustment is the least `e ≥ 0` for which the
    overall distribution of `n − drop + e` seats meets every floor (here the first evaluation is already made at
    `n − drop`, so the literal reading holds without exception). -/
theorem level_cty_at_is_least (cev : CtyEval) (ovAt : Nat → Except Err Dist) (fuel : Nat) (cv : CVotes) (n : Nat)
    (prev : CSeats) (adj : Nat) (h : levelOverhangCtyAt cev ovAt fuel cv n prev = .ok adj) :
    ∃ cres, cev cv n = .ok cres ∧
      nonpropDropCty (lowestAllowedCty cres prev) prev ≤ n ∧ adj ≤ fuel ∧
      (∃ r, ovAt (n - nonpropDropCty (lowestAllowedCty cres prev) prev + adj) = .ok r ∧
        MeetsFloors r (lowestAllowedCty cres prev)) ∧
      ∀ e, e < adj → ∃ r, ovAt (n - nonpropDropCty (lowestAllowedCty cres prev) prev + e) = .ok r ∧
        ¬ MeetsFloors r (lowestAllowedCty cres prev) := by
  unfold levelOverhangCtyAt at h
  cases hev : cev cv n with
  | error e => rw [hev] at h; simp [bind, Except.bind] at h
  | ok cres =>
    rw [hev] at h
    simp only [bind, Except.bind] at h
    refine ⟨cres, rfl, ?_⟩
    by_cases htie : hasTieCty cres = true
    · simp [htie] at h
    · simp only [htie] at h
      simp only [Bool.false_eq_true, ↓reduceIte] at h
      revert h
      generalize lowestAllowedCty cres prev = floors
      generalize nonpropDropCty floors prev = drop
      intro h
      by_cases hnd : n < drop
      · simp [hnd] at h
      · simp only [hnd, ↓reduceIte] at h
        cases hov : ovAt (n - drop) with
        | error e => rw [hov] at h; simp at h
        | ok prop =>
          rw [hov] at h
          simp only at h
          cases hl : levelLoop ovAt floors fuel (n - drop) prop with
          | error e => rw [hl] at h; simp at h
          | ok H =>
            rw [hl] at h
            simp only [pure, Except.pure, Except.ok.injEq] at h
            obtain ⟨h1, h2, h3, h4⟩ := levelLoop_spec _ _ _ _ _ _ hl
            refine ⟨by omega, by omega, ?_, ?_⟩
            · rcases Nat.eq_or_lt_of_le h1 with heq | hlt
              · have hadj : adj = 0 := by omega
                rw [hadj, Nat.add_zero]
                exact ⟨prop, hov, (belowMin_false_iff _ _).mp (h3 heq.symm)⟩
              · obtain ⟨_, ⟨r, hr, hrb⟩, _⟩ := h4 hlt
                have hH : n - drop + adj = H := by omega
                exact ⟨r, by rw [hH]; exact hr, (belowMin_false_iff _ _).mp hrb⟩
            · intro e he
              have hlt : n - drop < H := by omega
              obtain ⟨hb, _, hmid⟩ := h4 hlt
              rcases Nat.eq_zero_or_pos e with rfl | hepos
              · refine ⟨prop, by rw [Nat.add_zero]; exact hov, fun hm => ?_⟩
                rw [(belowMin_false_iff _ _).mpr hm] at hb
                exact Bool.false_ne_true hb
              · obtain ⟨r', hr', hrb'⟩ := hmid (n - drop + e) (by omega) (by omega)
                refine ⟨r', hr', fun hm => ?_⟩
                rw [(belowMin_false_iff _ _).mpr hm] at hrb'
                exact Bool.false_ne_true hrb'

/-- … with an overall evaluator given: it distributes the nationwide vote totals -/
theorem level_cty_is_least (cev : CtyEval) (ov : PropEval) (fuel : Nat) (cv : CVotes) (n : Nat) (prev : CSeats)
    (adj : Nat) (h : levelOverhangCty cev ov fuel cv n prev = .ok adj) :
    ∃ cres, cev cv n = .ok cres ∧
      nonpropDropCty (lowestAllowedCty cres prev) prev ≤ n ∧ adj ≤ fuel ∧
      Adequate ov (voteTotals cv) [] (lowestAllowedCty cres prev)
        (n - nonpropDropCty (lowestAllowedCty cres prev) prev + adj) ∧
      ∀ e, e < adj → ∃ r, ov (voteTotals cv) (n - nonpropDropCty (lowestAllowedCty cres prev) prev + e) [] [] = .ok r ∧
        ¬ MeetsFloors r (lowestAllowedCty cres prev) :=
  level_cty_at_is_least cev (fun h => ov (voteTotals cv) h [] []) fuel cv n prev adj h

/-- … with the default overall evaluator (`overall_evaluator=None`): the constituency evaluator itself, re-run for the
    enlarged house and merged over the constituencies -/
theorem level_cty_default_is_least (cev : CtyEval) (fuel : Nat) (cv : CVotes) (n : Nat) (prev : CSeats)
    (adj : Nat) (h : levelOverhangCtyDefault cev fuel cv n prev = .ok adj) :
    ∃ cres, cev cv n = .ok cres ∧
      nonpropDropCty (lowestAllowedCty cres prev) prev ≤ n ∧ adj ≤ fuel ∧
      (∃ r, cev cv (n - nonpropDropCty (lowestAllowedCty cres prev) prev + adj) = .ok r ∧
        MeetsFloors (mergeDists r) (lowestAllowedCty cres prev)) ∧
      ∀ e, e < adj → ∃ r, cev cv (n - nonpropDropCty (lowestAllowedCty cres prev) prev + e) = .ok r ∧
        ¬ MeetsFloors (mergeDists r) (lowestAllowedCty cres prev) := by
  obtain ⟨cres, hc, h1, h2, ⟨r, hr, hm⟩, hall⟩ :=
    level_cty_at_is_least cev (fun h => (cev cv h).map mergeDists) fuel cv n prev adj h
  refine ⟨cres, hc, h1, h2, ?_, ?_⟩
  · cases hcr : cev cv (n - nonpropDropCty (lowestAllowedCty cres prev) prev + adj) with
    | error e => simp only [hcr, Except.map] at hr; exact absurd hr (by simp)
    | ok r0 =>
      simp only [hcr, Except.map, Except.ok.injEq] at hr
      exact ⟨r0, rfl, by rw [hr]; exact hm⟩
  · intro e he
    obtain ⟨r', hr', hnm⟩ := hall e he
    cases hcr : cev cv (n - nonpropDropCty (lowestAllowedCty cres prev) prev + e) with
    | error e' => simp only [hcr, Except.map] at hr'; exact absurd hr' (by simp)
    | ok r0 =>
      simp only [hcr, Except.map, Except.ok.injEq] at hr'
      exact ⟨r0, rfl, by rw [hr']; exact hnm⟩

open Gen.Divisor in
/-- **Direct seats without a local proportional seat count** (the input of the repaired finding
    `C15-by-constituency-direct-seats-without-local-share`, fix fb7e169): D'Hondt, constituency 0 (3 seats, votes 60:30)
    gives party 1 one proportional seat, constituency 1 (2 seats, votes 90:10) gives it none, but party 1 holds the
    direct seat of constituency 1.  Its floor is now 1 + 1 = 2 (it was 1 before the repair, with adjustment 0), and the
    house grows by 4: the nationwide distribution of 9 seats (votes 150:40) is the first to give party 1 two seats. -/
theorem level_cty_direct_seat_counted :
    byConstituencyFixed (haEval d_hondt) [(0, 3), (1, 2)] [(0, [(0, 60), (1, 30)]), (1, [(0, 90), (1, 10)])] 5
      = .ok [(0, [(.cand 0, 2), (.cand 1, 1)]), (1, [(.cand 0, 2)])] ∧
    lowestAllowedCty [(0, [(.cand 0, 2), (.cand 1, 1)]), (1, [(.cand 0, 2)])] [(1, [(1, 1)])]
      = [(.cand 0, 4), (.cand 1, 2)] ∧
    levelOverhangCty (byConstituencyFixed (haEval d_hondt) [(0, 3), (1, 2)]) (haEval d_hondt) 200
      [(0, [(0, 60), (1, 30)]), (1, [(0, 90), (1, 10)])] 5 [(1, [(1, 1)])] = .ok 4 := by
  refine ⟨by decide +kernel, by decide +kernel, by decide +kernel⟩

/-! ### the by-constituency variant through ByParty -/

theorem partyVotes_ok (cv : CVotes) (hcn : (cv.map (·.1)).Nodup) (hvn : ∀ d ∈ cv, ∀ p ∈ d.2, 0 ≤ p.2) (k : Key) :
    (∀ p ∈ partyVotes cv k, 0 ≤ p.2) ∧ (keys (partyVotes cv k)).Nodup := by
  refine ⟨?_, ?_⟩
  · intro p hp
    unfold partyVotes at hp
    obtain ⟨d, hd, rfl⟩ := List.mem_map.mp hp
    simp only
    cases k with
    | tie T => simp [partyVotesIn]
    | cand c =>
      simp only [partyVotesIn]
      unfold getD lookup
      cases hf : d.2.find? (fun q => q.1 = c) with
      | none => simp
      | some q => simpa using hvn d hd q (List.mem_of_find?_eq_some hf)
  · unfold keys partyVotes
    rw [List.map_map]
    exact hcn

/-- **Final party totals = the overall proportional distribution of the enlarged house (ByParty stage).**
    `AdjustedSeatCount(calculator, ByParty(ov, HighestAverages))` on votes by constituency (distinct constituencies,
    non-negative votes): for every party of the overall distribution `overall` of the enlarged house `n + adj` whose
    direct seats (summed over the constituencies) do not exceed its overall seats, direct seats plus the seats awarded
    over all constituency rows are exactly its overall seats. -/
theorem level_cty_final_party_totals (div : Nat → Rat) (hd : (∀ k, 0 < div k) ∧ StrictMono div) (cv : CVotes)
    (hcn : (cv.map (·.1)).Nodup) (hvn : ∀ d ∈ cv, ∀ p ∈ d.2, 0 ≤ p.2) (calcr : CCalc) (ov : PropEval)
    (n : Nat) (prev : CSeats) (adj : Nat) (R : NDist) (overall : Dist)
    (hc : calcr cv n prev = .ok adj) (hR : adjustedByParty calcr ov (haEval div) cv n prev = .ok R)
    (hov : ov (voteTotals cv) (n + adj) [] [] = .ok overall) (hond : (overall.map (·.1)).Nodup)
    (e : Key × Nat) (he : e ∈ overall) (hfit : sumSeats (partyPrev prev e.1) ≤ e.2) :
    sumSeats (partyPrev prev e.1) + colSum R e.1 = e.2 := by
  unfold adjustedByParty at hR
  rw [hc] at hR
  simp only [bind, Except.bind] at hR
  exact byParty_party_total ov (haEval div) cv (n + adj) prev R overall hR hov hond
    (fun votes m pr r h => haEval_nodup div votes m pr [] r h)
    (fun k m pr r h hle =>
      haEval_fills div hd (partyVotes cv k) (partyVotes_ok cv hcn hvn k).1 (partyVotes_ok cv hcn hvn k).2 m pr r h hle)
    e he hfit

/-- **A tie inside a constituency is refused** (repair of the non-termination finding
    `C15-by-constituency-tie-floor-nontermination`): whatever the fuel, the calculator answers `VotingSystemError` and
    never enters the loop. -/
theorem level_cty_refuses_tie (cev : CtyEval) (ovAt : Nat → Except Err Dist) (fuel : Nat) (cv : CVotes) (n : Nat)
    (prev : CSeats) (cres : List (Cty × Dist)) (hc : cev cv n = .ok cres) (htie : hasTieCty cres = true) :
    levelOverhangCtyAt cev ovAt fuel cv n prev = .error .votingSystemError := by
  unfold levelOverhangCtyAt
  rw [hc]
  simp [bind, Except.bind, htie]

/-- an answer implies tie-free constituency results -/
theorem level_cty_ok_no_tie (cev : CtyEval) (ovAt : Nat → Except Err Dist) (fuel : Nat) (cv : CVotes) (n : Nat)
    (prev : CSeats) (adj : Nat) (h : levelOverhangCtyAt cev ovAt fuel cv n prev = .ok adj) :
    ∃ cres, cev cv n = .ok cres ∧ hasTieCty cres = false := by
  unfold levelOverhangCtyAt at h
  cases hev : cev cv n with
  | error e => rw [hev] at h; simp [bind, Except.bind] at h
  | ok cres =>
    refine ⟨cres, rfl, ?_⟩
    rw [hev] at h
    simp only [bind, Except.bind] at h
    by_cases htie : hasTieCty cres = true
    · simp [htie] at h
    · simpa using htie

/-- the input of the finding before the repair: two constituencies with one seat each, both tied between parties 0
    and 1; the floor of the tie object would be 2, which no overall result can reach (a tie carries fewer seats than it has
    members) -/
theorem level_cty_tie_witness :
    byConstituencyFixed (haEval Gen.Divisor.d_hondt) [(0, 1), (1, 1)] [(0, [(0, 1), (1, 1)]), (1, [(0, 1), (1, 1)])] 1
      = .ok [(0, [(.tie [0, 1], 1)]), (1, [(.tie [0, 1], 1)])] ∧
    lowestAllowedCty [(0, [(.tie [0, 1], 1)]), (1, [(.tie [0, 1], 1)])] [] = [(.tie [0, 1], 2)] ∧
    ∀ fuel, levelOverhangCty (byConstituencyFixed (haEval Gen.Divisor.d_hondt) [(0, 1), (1, 1)])
      (haEval Gen.Divisor.d_hondt) fuel [(0, [(0, 1), (1, 1)]), (1, [(0, 1), (1, 1)])] 1 [] = .error .votingSystemError := by
  refine ⟨by decide +kernel, by decide +kernel, fun fuel => ?_⟩
  unfold levelOverhangCty
  exact level_cty_refuses_tie _ _ fuel _ 1 [] [(0, [(.tie [0, 1], 1)]), (1, [(.tie [0, 1], 1)])]
    (by decide +kernel) (by decide +kernel)

/-- **By-constituency levelling terminates** (highest averages as the overall evaluator, unbounded divisors): when every
    floor belongs to a party with positive nationwide votes — after the repair a `Tie` can no longer be among the floors —
    and the parties outside the tier leave at least one seat, there is a fuel bound from which on the calculator always
    answers. -/
theorem level_cty_terminates (div : Nat → Rat) (hd : (∀ k, 0 < div k) ∧ StrictMono div)
    (hunb : ∀ B : Rat, ∃ k, B < div k) (cev : CtyEval) (cv : CVotes) (hne : voteTotals cv ≠ [])
    (hv : ∀ p ∈ voteTotals cv, 0 ≤ p.2) (hn : (keys (voteTotals cv)).Nodup)
    (n : Nat) (prev : CSeats) (cres : List (Cty × Dist)) (hc : cev cv n = .ok cres) (hnt : hasTieCty cres = false)
    (hfl : ∀ p ∈ lowestAllowedCty cres prev, ∃ c, p.1 = .cand c ∧ 0 < getD (voteTotals cv) c 0)
    (hdrop : nonpropDropCty (lowestAllowedCty cres prev) prev < n) :
    ∃ F, ∀ fuel, F ≤ fuel → ∃ adj, levelOverhangCty cev (haEval div) fuel cv n prev = .ok adj := by
  obtain ⟨H0, hH0⟩ := ha_adequate_eventually div hd hunb (voteTotals cv) hv hn _ hfl
  generalize hfloors : lowestAllowedCty cres prev = floors at hdrop hH0
  generalize hdr : nonpropDropCty floors prev = drop at hdrop
  refine ⟨max H0 (n - drop + 1) - (n - drop), fun fuel hfuel => ?_⟩
  have hev : ∀ k, 0 < k → (fun h => haEval div (voteTotals cv) h [] []) k
      = .ok (normDist (haResult (cfgH div (voteTotals cv) k))) :=
    fun k hk => haEval_cfgH div hd.1 (voteTotals cv) hne k hk
  obtain ⟨H, hH⟩ := levelLoop_terminates (fun h => haEval div (voteTotals cv) h [] []) floors
    (max H0 (n - drop + 1) - (n - drop)) (n - drop) (normDist (haResult (cfgH div (voteTotals cv) (n - drop)))) fuel hfuel
    (fun k hk1 _ => ⟨_, hev k (by omega)⟩)
    (fun h0 => by have := le_max_right H0 (n - drop + 1); omega)
    (fun _ => by
      have h1 := le_max_right H0 (n - drop + 1)
      have h2 := le_max_left H0 (n - drop + 1)
      have heq : n - drop + (max H0 (n - drop + 1) - (n - drop)) = max H0 (n - drop + 1) := by omega
      rw [heq]
      exact ⟨_, hev _ (by omega), (belowMin_false_iff _ _).mpr (hH0 _ h2)⟩)
  refine ⟨H + drop - n, ?_⟩
  unfold levelOverhangCty levelOverhangCtyAt
  rw [hc]
  simp only [bind, Except.bind, hnt, hfloors, hdr]
  rw [if_neg (by simp), if_neg (by omega)]
  have h0 := hev (n - drop) (by omega)
  simp only at h0
  simp only [h0, hH]
  rfl

theorem distGet_entry (d : Dist) (k : Key) (h : distHas d k = true) : ∃ p ∈ d, p.1 = k ∧ distGet d k = p.2 := by
  unfold distGet
  cases hf : d.find? (fun p => p.1 = k) with
  | none =>
    exfalso
    rw [distHas_iff] at h
    obtain ⟨p, hp, hpk⟩ := List.mem_map.mp h
    have := List.find?_eq_none.mp hf p hp
    simp [hpk] at this
  | some p =>
    have hm := List.mem_of_find?_eq_some hf
    have hk := List.find?_some hf
    simp only [decide_eq_true_eq] at hk
    exact ⟨p, hm, hk, rfl⟩

/-- **The levelling stop condition covers the direct seats** (by constituency, all direct seats inside the tier):
    after `LevelOverhangByConstituency` every party of the overall distribution of the enlarged house holds at least its
    direct seats summed over the constituencies — the hypothesis of `level_cty_final_party_totals`. -/
theorem level_cty_floors_cover_direct_seats (cev : CtyEval) (ov : PropEval) (fuel : Nat) (cv : CVotes) (n : Nat)
    (prev : CSeats) (adj : Nat) (h : levelOverhangCty cev ov fuel cv n prev = .ok adj)
    (cres : List (Cty × Dist)) (hc : cev cv n = .ok cres)
    (hcn : (cres.map (·.1)).Nodup) (hpn : (prev.map (·.1)).Nodup) (hsub : ∀ d ∈ prev, d.1 ∈ cres.map (·.1))
    (hrn : ∀ d ∈ cres, (d.2.map (·.1)).Nodup) (hqn : ∀ d ∈ prev, (d.2.map (·.1)).Nodup)
    (hdrop0 : nonpropDropCty (lowestAllowedCty cres prev) prev = 0)
    (overall : Dist) (hov : ov (voteTotals cv) (n + adj) [] [] = .ok overall) (hond : (overall.map (·.1)).Nodup)
    (e : Key × Nat) (he : e ∈ overall) : sumSeats (partyPrev prev e.1) ≤ e.2 := by
  obtain ⟨cres', hc', _, _, ⟨r, hr, hm⟩, _⟩ := level_cty_is_least cev ov fuel cv n prev adj h
  rw [hc] at hc'
  have hce : cres' = cres := (Except.ok.inj hc').symm
  subst hce
  rw [hdrop0, Nat.sub_zero, hov] at hr
  have hre : overall = r := Except.ok.inj hr
  subst hre
  have hval : distGet overall e.1 = e.2 := distGet_of_mem hond he
  cases hk : e.1 with
  | tie T => simp [partyPrev, sumSeats]
  | cand c =>
    rw [hk] at hval
    by_cases hfl : distHas (lowestAllowedCty cres' prev) (.cand c) = true
    · obtain ⟨p, hp, hpk, hpv⟩ := distGet_entry _ _ hfl
      have h1 := hm p hp
      rw [hpk, hval] at h1
      have hin : Key.cand c ∈ propParties cres' :=
        lowestAllowedCty_keys cres' prev _ ((distHas_iff _ _).mp hfl)
      have h2 := floors_cover_direct cres' prev hcn hpn hsub hrn hqn c hin
      omega
    · have hf : distHas (lowestAllowedCty cres' prev) (.cand c) = false := by
        cases hd : distHas (lowestAllowedCty cres' prev) (.cand c) with
        | false => rfl
        | true => exact absurd hd hfl
      rw [no_floor_no_direct _ prev hdrop0 c hf]
      exact Nat.zero_le _

/-- **By constituency: final party totals = the overall proportional distribution of the enlarged house.**
    `AdjustedSeatCount(LevelOverhangByConstituency(cev, ov), ByParty(ov, HighestAverages))`, all direct seats inside
    the tier and inside evaluated constituencies, distinct keys everywhere: for EVERY party of the overall distribution
    of the enlarged house `n + adj`, direct seats plus the seats awarded over all constituency rows are exactly its
    overall seats. -/
theorem level_cty_final_is_proportional (div : Nat → Rat) (hd : (∀ k, 0 < div k) ∧ StrictMono div) (cev : CtyEval)
    (ov : PropEval) (fuel : Nat) (cv : CVotes) (hcvn : (cv.map (·.1)).Nodup) (hvn : ∀ d ∈ cv, ∀ p ∈ d.2, 0 ≤ p.2)
    (n : Nat) (prev : CSeats) (adj : Nat) (R : NDist)
    (h : levelOverhangCty cev ov fuel cv n prev = .ok adj)
    (hR : adjustedByParty (levelOverhangCty cev ov fuel) ov (haEval div) cv n prev = .ok R)
    (cres : List (Cty × Dist)) (hc : cev cv n = .ok cres)
    (hcn : (cres.map (·.1)).Nodup) (hpn : (prev.map (·.1)).Nodup) (hsub : ∀ d ∈ prev, d.1 ∈ cres.map (·.1))
    (hrn : ∀ d ∈ cres, (d.2.map (·.1)).Nodup) (hqn : ∀ d ∈ prev, (d.2.map (·.1)).Nodup)
    (hdrop0 : nonpropDropCty (lowestAllowedCty cres prev) prev = 0)
    (overall : Dist) (hov : ov (voteTotals cv) (n + adj) [] [] = .ok overall) (hond : (overall.map (·.1)).Nodup) :
    ∀ e ∈ overall, sumSeats (partyPrev prev e.1) + colSum R e.1 = e.2 := by
  intro e he
  exact level_cty_final_party_totals div hd cv hcvn hvn (levelOverhangCty cev ov fuel) ov n prev adj R overall h hR hov
    hond e he
    (level_cty_floors_cover_direct_seats cev ov fuel cv n prev adj h cres hc hcn hpn hsub hrn hqn hdrop0 overall hov
      hond e he)

/-! ### non-vacuity: concrete inputs meeting the hypotheses of the conditional theorems -/

section Examples
open Gen.Divisor

/-- Sainte-Laguë, three parties, 5 seats (shares 3:1:1); party 2 holds 2 direct seats, party 0 holds 1 -/
def exVotes : Votes := [(0, 53), (1, 31), (2, 16)]
def exPrev : Seats := [(0, 1), (2, 2)]

example : haEval sainte_lague exVotes 5 [] [] = .ok [(.cand 0, 3), (.cand 1, 1), (.cand 2, 1)] := by
  decide +kernel
example : allowOverhang (haEval sainte_lague) exVotes 5 exPrev [] = .ok 1 := by decide +kernel
example : levelOverhang (haEval sainte_lague) 400 exVotes 5 exPrev [] = .ok 5 := by decide +kernel
example : adjustedSeatCount (levelOverhang (haEval sainte_lague) 400) (haEval sainte_lague) exVotes 5 exPrev []
    = .ok [(.cand 0, 4), (.cand 1, 3)] := by decide +kernel
example : haEval sainte_lague exVotes (5 + 5) [] [] = .ok [(.cand 0, 5), (.cand 1, 3), (.cand 2, 2)] := by
  decide +kernel
example : (∀ p ∈ exVotes, 0 < p.2) ∧ (keys exVotes).Nodup ∧ (exPrev.map (·.1)).Nodup ∧ sumSeats exPrev ≤ 5 := by
  decide +kernel
example : ∀ p ∈ exPrev, 0 < p.2 →
    distHas [(.cand 0, 3), (.cand 1, 1), (.cand 2, 1)] (.cand p.1) = true := by decide +kernel
example : ∀ p ∈ ([(.cand 0, 3), (.cand 1, 1), (.cand 2, 1)] : Dist),
    ∃ c, p.1 = .cand c ∧ 0 < getD exVotes c 0 := by
  intro p hp
  simp only [List.mem_cons, List.not_mem_nil, or_false] at hp
  rcases hp with rfl | rfl | rfl
  · exact ⟨0, rfl, by decide +kernel⟩
  · exact ⟨1, rfl, by decide +kernel⟩
  · exact ⟨2, rfl, by decide +kernel⟩
/-- the two-stage wrapper on the same input: totals, house 5 + 5 = 10 -/
example : multistage [(mockStage exPrev, exVotes),
      (adjustedSeatCount (levelOverhang (haEval sainte_lague) 400) (haEval sainte_lague), exVotes)] 5 [] []
    = .ok [(.cand 0, 5), (.cand 2, 2), (.cand 1, 3)] := by decide +kernel
/-- a party outside the tier (party 3, no votes) with a direct seat, and tier overhang: the loop runs from 5 − 1 -/
example : levelOverhang (haEval sainte_lague) 400 exVotes 5 [(2, 2), (3, 1)] [] = .ok 6 := by decide +kernel
/-- the repository's unit test: LevelOverhang(LargestRemainder('hare')), votes 500:300:100, 9 seats, direct 1:0:2 -> 4 -/
example : levelOverhang lrHareEval 400 [(0, 500), (1, 300), (2, 100)] 9 [(0, 1), (1, 0), (2, 2)] [] = .ok 4 := by
  decide +kernel
/-- the same input meets the hypotheses of `level_final_is_proportional_lr`: house 9 + 4 = 13, final totals 7:4:2 -/
example : adjustedSeatCount (levelOverhang lrHareEval 400) lrHareEval [(0, 500), (1, 300), (2, 100)] 9
    [(0, 1), (1, 0), (2, 2)] [] = .ok [(.cand 0, 6), (.cand 1, 4)] := by decide +kernel
example : lrHareEval [(0, 500), (1, 300), (2, 100)] 9 [] [] = .ok [(.cand 0, 5), (.cand 1, 3), (.cand 2, 1)] := by
  decide +kernel
example : lrHareEval [(0, 500), (1, 300), (2, 100)] (9 + 4) [] [] = .ok [(.cand 0, 7), (.cand 1, 4), (.cand 2, 2)] := by
  decide +kernel
/-- by constituency: two constituencies with 3 and 2 seats, D'Hondt, party 1 holds both seats of constituency 1 -/
example : levelOverhangCty (byConstituencyFixed (haEval d_hondt) [(0, 3), (1, 2)]) (haEval d_hondt) 400
    [(0, [(0, 60), (1, 30)]), (1, [(0, 50), (1, 40)])] 5 [(1, [(1, 2)])] = .ok 2 := by decide +kernel
/-- the default overall evaluator (`overall_evaluator=None`) with an apportioning constituency evaluator: 5 seats
    apportioned by D'Hondt over the constituency totals 90:100, party 1 holds a direct seat in constituency 1 -/
example : levelOverhangCtyDefault (byConstituencyApportioned (haEval d_hondt) (haEval d_hondt)) 200
    [(0, [(0, 61), (1, 30)]), (1, [(0, 90), (1, 10)])] 5 [(1, [(1, 1)])] = .ok 1 := by decide +kernel
/-- … and with votes 60:30 in constituency 0 its two seats end in a tie (60/2 = 30/1): levelling is refused -/
example : levelOverhangCtyDefault (byConstituencyApportioned (haEval d_hondt) (haEval d_hondt)) 200
    [(0, [(0, 60), (1, 30)]), (1, [(0, 90), (1, 10)])] 5 [(1, [(1, 1)])] = .error .votingSystemError := by
  decide +kernel
/-- ByParty stage on the by-constituency example above: adjustment 4, overall D'Hondt distribution of 9 seats 7:2,
    rows by constituency; party 1 keeps its direct seat of constituency 1 and gets one more in constituency 0 -/
example : adjustedByParty (levelOverhangCty (byConstituencyFixed (haEval d_hondt) [(0, 3), (1, 2)]) (haEval d_hondt) 200)
    (haEval d_hondt) (haEval d_hondt) [(0, [(0, 60), (1, 30)]), (1, [(0, 90), (1, 10)])] 5 [(1, [(1, 1)])]
    = .ok [(.cand 0, [(.cand 0, 3), (.cand 1, 1)]), (.cand 1, [(.cand 0, 4)])] := by decide +kernel
/-- hypotheses of `level_cty_final_is_proportional` on the same by-constituency input: no direct seat outside the tier,
    overall D'Hondt distribution of 5 + 4 = 9 seats -/
example : nonpropDropCty (lowestAllowedCty [(0, [(.cand 0, 2), (.cand 1, 1)]), (1, [(.cand 0, 2)])] [(1, [(1, 1)])])
    [(1, [(1, 1)])] = 0 := by decide +kernel
example : haEval d_hondt (voteTotals [(0, [(0, 60), (1, 30)]), (1, [(0, 90), (1, 10)])]) (5 + 4) [] []
    = .ok [(.cand 0, 7), (.cand 1, 2)] := by decide +kernel
/-- a tie in the enlarged house (`level_final_is_proportional_tie`): D'Hondt 4:2:2, 3 seats, party 0 holds one directly;
    from scratch {0: 1, Tie(0,1,2): 2}, continued from the direct seat the same tie for the same two seats -/
example : adjustedSeatCount (levelOverhang (haEval d_hondt) 200) (haEval d_hondt) [(0, 4), (1, 2), (2, 2)] 3 [(0, 1)] []
    = .ok [(.tie [0, 1, 2], 2)] := by decide +kernel
example : haEval d_hondt [(0, 4), (1, 2), (2, 2)] 3 [] [] = .ok [(.cand 0, 1), (.tie [0, 1, 2], 2)] := by decide +kernel
/-- Hare largest remainder with a tie in the enlarged house (`level_final_is_proportional_lr_tie`): votes 3:1:1, 2 seats,
    party 0 holds one seat directly: from scratch {0: 1, Tie(1,2): 1}, continued from the direct seat {Tie(1,2): 1} -/
example : lrHareEval [(0, 3), (1, 1), (2, 1)] 2 [] [] = .ok [(.cand 0, 1), (.tie [1, 2], 1)] := by decide +kernel
example : adjustedSeatCount (levelOverhang lrHareEval 200) lrHareEval [(0, 3), (1, 1), (2, 1)] 2 [(0, 1)] []
    = .ok [(.tie [1, 2], 1)] := by decide +kernel

end Examples

end VL.C15
