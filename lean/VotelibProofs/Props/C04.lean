import VotelibProofs.Lemmas.STVRun
import VotelibModel.PSC
namespace VL.C04
open VL VL.STV
end VL.C04
