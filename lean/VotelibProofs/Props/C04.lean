/-
  C04 — transferable vote seats quota-sized solid coalitions; result shape; exact Gregory count.
  Property theorems only (helper lemmas live in VotelibProofs/Lemmas).  Namespace VL.C04.

  Reading.  The outcome is `selectorEvaluate E cfg votes n ds` (= `TransferableVoteSelector.evaluate`; the
  "independently computed weighted-inclusive-Gregory count" of the statement is this model with `E = gregory`).
  The quota is the one actually used (`computeQuota`).  A ballot is solid for a candidate set `S` when some prefix
  of its ranks holds exactly `S` (`solidFor`); `support votes S` is the number of such votes.  A refusal
  (`Err.notImplemented`, unresolved tie) is an allowed outcome, so the theorems speak about `.ok` outcomes.
-/
import VotelibProofs.Lemmas.STVPsc
import VotelibModel.Gen.Quota
namespace VL.C04
open VL VL.STV

/-! ## the verified PSC checker -/

/-- **The checker decides proportionality for solid coalitions.**  `pscCheck`, which enumerates only the
    prefix sets of the ballots, is `true` exactly when the statement holds for *every* non-empty duplicate-free
    candidate list `S` and every `k` with `k` quotas of solid support: at least `min k |S|` members of `S` elected. -/
theorem pscCheck_sound_complete {votes : Profile} {q : Rat} (hq : 0 < q) (hwf : WFVotes votes) (elected : List Cand) :
    pscCheck votes q elected = true ↔
      ∀ S : List Cand, S.Nodup → S ≠ [] → ∀ k : Nat, (k : Rat) * q ≤ support votes S →
        min k S.length ≤ electedIn elected S :=
  pscCheck_iff hq hwf elected

/-- a coalition nobody supports solidly is never constrained (why prefix sets suffice) -/
theorem unsupported_coalition_trivial {votes : Profile} {q : Rat} (hq : 0 < q) {S : List Cand}
    (h : ∀ bw ∈ votes, solidFor bw.1 S = false) {k : Nat} (hk : (k : Rat) * q ≤ support votes S) : k = 0 := by
  rw [support_zero_of_none h] at hk
  by_contra hne
  have : 0 < (k : Rat) := by exact_mod_cast Nat.pos_of_ne_zero hne
  have := mul_pos this hq
  linarith

/-! ## a majority first choice wins a single seat -/

/-- the quota in force for one seat is at least half of the votes cast (true of Droop, Hare and
    Hagenbach-Bischoff, and vacuously of "no quota") -/
def QuotaAtLeastHalf (cfg : Cfg) (votes : Profile) : Prop :=
  ∀ q, computeQuota cfg (totalVotes votes) 1 = some q → totalVotes votes / 2 ≤ q

theorem droop_at_least_half {cfg : Cfg} (hc : cfg.quota = some Gen.Quota.droop) {votes : Profile} (hwf : WFVotes votes) :
    QuotaAtLeastHalf cfg votes := by
  intro q hq
  unfold computeQuota at hq
  rw [hc] at hq
  simp only at hq
  split at hq
  · injection hq with hq
    subst hq
    have hv := totalVotes_nonneg hwf
    have h2 : (0 : Rat) ≤ totalVotes votes / 2 := by linarith
    unfold Gen.Quota.droop Py.pyInt
    have hcast : ((((1 + 1 : Nat) : Nat) : Rat)) = 2 := by norm_num
    rw [hcast, if_pos h2]
    have := Rat.lt_floor_add_one (totalVotes votes / 2)
    push_cast at this ⊢
    linarith
  · cases hq

theorem hare_at_least_half {cfg : Cfg} (hc : cfg.quota = some Gen.Quota.hare) {votes : Profile} (hwf : WFVotes votes) :
    QuotaAtLeastHalf cfg votes := by
  intro q hq
  unfold computeQuota at hq
  rw [hc] at hq
  simp only at hq
  split at hq
  · injection hq with hq
    subst hq
    have hv := totalVotes_nonneg hwf
    unfold Gen.Quota.hare
    simp only [Nat.cast_one, div_one]
    linarith
  · cases hq

/-- **Majority first choice.**  In a single-seat count (any transferer meeting the specification, Gregory or
    Hare; any negative `eliminate_step`; a quota of at least half the votes, e.g. Droop or Hare), a candidate
    who is the sole first choice on more than half of all votes cast is the winner whenever a winner is returned. -/
theorem majority_first_choice_wins {E : Engine} (hE : EngineOK E) {cfg : Cfg} {votes : Profile} (hwf : WFVotes votes)
    {c : Cand} (hmaj : totalVotes votes / 2 < firstPrefTotal votes c)
    {s : Int} (hstep : cfg.step = some s) (hneg : s < 0) (hq : QuotaAtLeastHalf cfg votes)
    {ds : List Draw} {l : List Cand} (h : selectorEvaluate E cfg votes 1 ds = .ok l) : l = [c] := by
  obtain ⟨st, hr, hsum, rfl⟩ := selectorEvaluate_ok h
  have hm := maj_reach hE hwf hmaj hstep hneg hq hr
  rcases hm with ⟨hs0, _⟩ | hs1
  · rw [hs0] at hsum; simp [sumSeats] at hsum
  · rw [hs1]; simp [distributionToSelection, sortDesc, insertDesc]

/-! ## mutual majority (single seat) -/

/-- **Mutual majority.**  In a single-seat count (`eliminate_step = -1`, any transferer meeting the
    specification, a quota of at least half the votes), if the ballots that rank exactly the candidates `S`
    above everyone else (shared ranks allowed anywhere, also inside `S`) hold more than half of all votes cast,
    then the winner, whenever one is returned, is a member of `S`. -/
theorem mutual_majority {E : Engine} (hE : EngineOK E) {cfg : Cfg} {votes : Profile} (hwf : WFVotes votes)
    {S : List Cand} (hS : S ≠ [])
    (hmaj : totalVotes votes / 2 < support votes S) (hstep : cfg.step = some (-1))
    (hq : QuotaAtLeastHalf cfg votes) {ds : List Draw} {l : List Cand}
    (h : selectorEvaluate E cfg votes 1 ds = .ok l) : ∃ c ∈ S, l = [c] := by
  obtain ⟨st, hr, hsum, rfl⟩ := selectorEvaluate_ok h
  have hm := mut_reach hE ⟨hwf, hmaj, hstep, hq⟩ hS hr
  rcases hm with ⟨hs0, _⟩ | ⟨c, hcS, hs1⟩
  · rw [hs0] at hsum; simp [sumSeats] at hsum
  · exact ⟨c, hcS, by rw [hs1]; simp [distributionToSelection, sortDesc, insertDesc]⟩

/-! ## result shape -/

/-- **Result shape.**  Whenever `TransferableVoteSelector.evaluate` returns a list (any transferer meeting the
    specification, any configuration, any profile, any seat number), it holds exactly the requested number of
    candidates, all distinct, all of them candidates of the profile. -/
theorem result_shape {E : Engine} (hE : EngineOK E) {cfg : Cfg} {votes : Profile} {n : Nat} {ds : List Draw}
    {l : List Cand} (h : selectorEvaluate E cfg votes n ds = .ok l) :
    l.length = n ∧ l.Nodup ∧ ∀ c ∈ l, c ∈ allRanked votes := by
  obtain ⟨st, hr, hsum, rfl⟩ := selectorEvaluate_ok h
  have hj := shape_reach hE hr
  have hperm := distributionToSelection_perm st.seats
  refine ⟨?_, hperm.nodup_iff.mpr hj.nd, ?_⟩
  · rw [hperm.length_eq, List.length_map, ← sumSeats_of_ones hj.ones]; exact hsum
  · intro c hc
    obtain ⟨p, hp, rfl⟩ := List.mem_map.mp (hperm.mem_iff.mp hc)
    exact hj.sub p hp

/-- the Droop and Hare quotas of a profile with non-negative counts are positive whenever they are computed -/
theorem droop_positive {cfg : Cfg} (hc : cfg.quota = some Gen.Quota.droop) {votes : Profile} (hwf : WFVotes votes) (n : Nat) :
    ∀ q, computeQuota cfg (totalVotes votes) n = some q → 0 < q := by
  intro q hq
  unfold computeQuota at hq
  rw [hc] at hq
  simp only at hq
  split at hq
  · injection hq with hq
    subst hq
    have hv := totalVotes_nonneg hwf
    have h2 : (0 : Rat) ≤ totalVotes votes / (((n + 1 : Nat) : Nat) : Rat) := div_nonneg hv (Nat.cast_nonneg _)
    unfold Gen.Quota.droop Py.pyInt
    rw [if_pos h2]
    have : (0 : Int) ≤ (totalVotes votes / (((n + 1 : Nat) : Nat) : Rat)).floor :=
      Rat.le_floor_iff.mpr (by simpa using h2)
    have h3 : (0 : Rat) ≤ ((totalVotes votes / (((n + 1 : Nat) : Nat) : Rat)).floor : Rat) := by exact_mod_cast this
    push_cast at h3 ⊢
    linarith
  · cases hq

theorem hare_positive {cfg : Cfg} (hc : cfg.quota = some Gen.Quota.hare) {votes : Profile} (hwf : WFVotes votes) (n : Nat) :
    ∀ q, computeQuota cfg (totalVotes votes) n = some q → 0 < q := by
  intro q hq
  unfold computeQuota at hq
  rw [hc] at hq
  simp only at hq
  split at hq
  · rename_i hne
    injection hq with hq
    subst hq
    have hv := totalVotes_nonneg hwf
    have hpos : 0 < totalVotes votes := lt_of_le_of_ne hv (Ne.symm hne.1)
    unfold Gen.Quota.hare
    exact div_pos hpos (by exact_mod_cast Nat.pos_of_ne_zero hne.2)
  · cases hq

/-- **No stall, full list or declared refusal.**  For the default selector (`eliminate_step = -1`, no
    `mandatory_quota`) with Gregory transfer, a positive quota or none, and `n` seats among at least `n`
    candidates, `evaluate` either refuses with `NotImplementedError` (an unresolved tie) or returns exactly `n`
    distinct candidates.  In particular `VotingSystemError('infinite loop in STV')` cannot occur. -/
theorem full_list_or_refusal {votes : Profile} {cfg : Cfg} {n : Nat} (hstep : cfg.step = some (-1))
    (hmand : cfg.mandatory = false) (hq : ∀ q, computeQuota cfg (totalVotes votes) n = some q → 0 < q)
    (hn : n ≤ (allRanked votes).length) (ds : List Draw) :
    selectorEvaluate gregory cfg votes n ds = .error .notImplemented ∨
    ∃ l, selectorEvaluate gregory cfg votes n ds = .ok l ∧ l.length = n ∧ l.Nodup ∧ ∀ c ∈ l, c ∈ allRanked votes := by
  rcases selector_total ⟨hstep, hmand, hq⟩ hn ds with h | ⟨l, h⟩
  · exact Or.inl h
  · exact Or.inr ⟨l, h, result_shape gregory_ok h⟩

theorem no_infinite_loop {votes : Profile} {cfg : Cfg} {n : Nat} (hstep : cfg.step = some (-1))
    (hmand : cfg.mandatory = false) (hq : ∀ q, computeQuota cfg (totalVotes votes) n = some q → 0 < q)
    (hn : n ≤ (allRanked votes).length) (ds : List Draw) :
    selectorEvaluate gregory cfg votes n ds ≠ .error .votingSystemError := by
  rcases selector_total ⟨hstep, hmand, hq⟩ hn ds with h | ⟨l, h⟩ <;> rw [h] <;> simp

/-! ## proportionality for solid coalitions -/

/-- both transferers lower any class of papers of a pile by at most what they subtract (used below) -/
theorem gregory_sub_bound : SubBound gregory := gregory_subBound
theorem hare_sub_bound : SubBound hare := hare_subBound

/-- **Proportionality for solid coalitions (any number of seats).**  Selector form, `eliminate_step = -1`,
    `accept_quota_equal`, any transferer meeting the specification (Gregory, Hare under the draw contract), a
    positive quota `q` with `(n+1)·q > votes cast` (Droop, Hare).  If the ballots that rank exactly the
    candidates `S` above everyone else (`solidFor`: some prefix of the ranks of the ballot holds exactly `S`;
    shared ranks are allowed everywhere, also inside the coalition) hold at least `k` quotas, then every returned
    list contains at least `k` members of `S`, or all of `S`.  No restriction on the profile remains. -/
theorem psc_general {E : Engine} (hE : EngineOK E) (hB : SubBound E) {cfg : Cfg} {votes : Profile} {n : Nat}
    (hwf : WFVotes votes) (hstep : cfg.step = some (-1)) (heq : cfg.acceptEqual = true)
    {q : Rat} (hquota : computeQuota cfg (totalVotes votes) n = some q) (hqpos : 0 < q)
    (hdroop : totalVotes votes < ((n : Rat) + 1) * q)
    {S : List Cand} (hS : S.Nodup) (hne : S ≠ [])
    {k : Nat} (hk : (k : Rat) * q ≤ support votes S)
    {ds : List Draw} {l : List Cand} (h : selectorEvaluate E cfg votes n ds = .ok l) :
    min k S.length ≤ electedIn l S :=
  psc_selector hE hB ⟨hwf, hS, hne, hstep, heq, hquota, hqpos, hdroop, hk⟩ h

/-- the Droop quota exceeds `votes / (n + 1)` -/
theorem droop_exceeds {cfg : Cfg} (hc : cfg.quota = some Gen.Quota.droop) {votes : Profile} (hwf : WFVotes votes)
    {n : Nat} {q : Rat} (hq : computeQuota cfg (totalVotes votes) n = some q) :
    totalVotes votes < ((n : Rat) + 1) * q := by
  unfold computeQuota at hq
  rw [hc] at hq
  simp only at hq
  split at hq
  · injection hq with hq
    subst hq
    have hv := totalVotes_nonneg hwf
    have hn1 : (0 : Rat) < (n : Rat) + 1 := by positivity
    have h2 : (0 : Rat) ≤ totalVotes votes / (((n + 1 : Nat) : Nat) : Rat) := div_nonneg hv (Nat.cast_nonneg _)
    unfold Gen.Quota.droop Py.pyInt
    rw [if_pos h2]
    have := Rat.lt_floor_add_one (totalVotes votes / (((n + 1 : Nat) : Nat) : Rat))
    push_cast at this ⊢
    rw [div_lt_iff₀ hn1] at this
    linarith
  · cases hq

theorem hare_exceeds {cfg : Cfg} (hc : cfg.quota = some Gen.Quota.hare) {votes : Profile} (hwf : WFVotes votes)
    {n : Nat} {q : Rat} (hq : computeQuota cfg (totalVotes votes) n = some q) :
    totalVotes votes < ((n : Rat) + 1) * q := by
  unfold computeQuota at hq
  rw [hc] at hq
  simp only at hq
  split at hq
  · rename_i hne
    injection hq with hq
    subst hq
    have hv := totalVotes_nonneg hwf
    have hpos : 0 < totalVotes votes := lt_of_le_of_ne hv (Ne.symm hne.1)
    have hn : (0 : Rat) < (n : Rat) := by exact_mod_cast Nat.pos_of_ne_zero hne.2
    unfold Gen.Quota.hare
    rw [← mul_div_assoc, lt_div_iff₀ hn]
    nlinarith
  · cases hq

/-- **Droop proportionality for solid coalitions**, the default configuration of `TransferableVoteSelector` -/
theorem psc_droop {E : Engine} (hE : EngineOK E) (hB : SubBound E) {cfg : Cfg} {votes : Profile} {n : Nat}
    (hwf : WFVotes votes) (hstep : cfg.step = some (-1)) (heq : cfg.acceptEqual = true)
    (hc : cfg.quota = some Gen.Quota.droop) {q : Rat} (hquota : computeQuota cfg (totalVotes votes) n = some q)
    {S : List Cand} (hS : S.Nodup) (hne : S ≠ [])
    {k : Nat} (hk : (k : Rat) * q ≤ support votes S)
    {ds : List Draw} {l : List Cand} (h : selectorEvaluate E cfg votes n ds = .ok l) :
    min k S.length ≤ electedIn l S :=
  psc_general hE hB hwf hstep heq hquota (droop_positive hc hwf n q hquota) (droop_exceeds hc hwf hquota) hS hne hk h

/-- … and so every outcome, on every profile, passes the verified checker -/
theorem psc_check_passes {E : Engine} (hE : EngineOK E) (hB : SubBound E) {cfg : Cfg} {votes : Profile} {n : Nat}
    (hwf : WFVotes votes) (hstep : cfg.step = some (-1)) (heq : cfg.acceptEqual = true)
    {q : Rat} (hquota : computeQuota cfg (totalVotes votes) n = some q) (hqpos : 0 < q)
    (hdroop : totalVotes votes < ((n : Rat) + 1) * q)
    {ds : List Draw} {l : List Cand} (h : selectorEvaluate E cfg votes n ds = .ok l) :
    pscCheck votes q l = true :=
  (pscCheck_sound_complete hqpos hwf l).mpr (fun _ hS hne _ hk =>
    psc_general hE hB hwf hstep heq hquota hqpos hdroop hS hne hk h)

/-! ## the former counter-example (repaired by 4eda093) -/

section Witness
/-- ballots  {a,b} > c ×10,  c ×6,  a ×1  (a=0, b=1, c=2): ten of seventeen voters rank {a,b} above c -/
def wVotes : Profile := [([.shared [0, 1], .one 2], 10), ([.one 2], 6), ([.one 0], 1)]
def wCfg : Cfg := { quota := some Gen.Quota.droop, acceptEqual := true, mandatory := false, step := some (-1) }

/-- Before commit 4eda093 `ranked_next` passed the papers of the eliminated `b` over `a`, who shares the rank,
    to `c`, and `c` won against a majority coalition.  Now `a` wins and the verified checker accepts. -/
theorem shared_rank_coalition_seated :
    selectorEvaluate gregory wCfg wVotes 1 [] = .ok [0] ∧ computeQuota wCfg (totalVotes wVotes) 1 = some 9 ∧
    support wVotes [0, 1] = 10 ∧ pscCheck wVotes 9 [0] = true ∧ pscCheck wVotes 9 [2] = false := by decide +kernel
end Witness

/-! ## non-vacuity -/

section Example
/-- a > b ×6, b > c ×3, c ×2: a is first on 6 of 11 -/
def mVotes : Profile := [([.one 0, .one 1], 6), ([.one 1, .one 2], 3), ([.one 2], 2)]
example : totalVotes mVotes / 2 < firstPrefTotal mVotes 0 := by decide +kernel
example : selectorEvaluate gregory wCfg mVotes 1 [] = .ok [0] := by decide +kernel
/-- fractional weights: the majority candidate is below the Droop quota at the first count and wins later -/
def fVotes : Profile := [([.one 0], (8 : Rat) / 5), ([.one 1, .one 0], (4 : Rat) / 5), ([.one 2, .one 1], (3 : Rat) / 5)]
example : totalVotes fVotes / 2 < firstPrefTotal fVotes 0 ∧ firstPrefTotal fVotes 0 < 2 ∧
    computeQuota wCfg (totalVotes fVotes) 1 = some 2 ∧ selectorEvaluate gregory wCfg fVotes 1 [] = .ok [0] := by
  decide +kernel
example : pscCheck mVotes 6 [0] = true ∧ pscCheck mVotes 6 [1] = false := by decide +kernel
/-- a majority coalition {a, b} (a>b>c ×3, b>a>c ×3 of 11) against c with 5 first preferences: b wins -/
def cVotes : Profile := [([.one 0, .one 1, .one 2], 3), ([.one 1, .one 0, .one 2], 3), ([.one 2], 5)]
example : totalVotes cVotes / 2 < support cVotes [0, 1] ∧
    selectorEvaluate gregory wCfg cVotes 1 [] = .error .notImplemented := by decide +kernel
def cVotes2 : Profile := [([.one 0, .one 1, .one 2], 4), ([.one 1, .one 0, .one 2], 3), ([.one 2], 6)]
example : totalVotes cVotes2 / 2 < support cVotes2 [0, 1] ∧ firstPrefTotal cVotes2 2 = 6 ∧
    selectorEvaluate gregory wCfg cVotes2 1 [] = .ok [0] := by decide +kernel
/-- two seats, Droop quota 7; the coalition {a, b} is solidly supported by 7 votes = one quota and has two
    members: exactly one of them (a) is seated -/
def pVotes : Profile :=
  [([.one 0, .one 1, .one 2], 4), ([.one 1, .one 0, .one 2], 3), ([.one 2, .one 3], 5), ([.one 3], 6), ([.one 4, .one 3], 2)]
example : computeQuota wCfg (totalVotes pVotes) 2 = some 7 ∧ ((1 : Nat) : Rat) * 7 ≤ support pVotes [0, 1] ∧
    selectorEvaluate gregory wCfg pVotes 2 [] = .ok [3, 0] ∧ electedIn [3, 0] [0, 1] = 1 := by decide +kernel
/-- a supporter of {a, b} with a shared rank below the coalition -/
def qVotes : Profile := [([.one 0, .one 1, .shared [2, 3]], 7), ([.one 2], 5), ([.one 3, .one 2], 4)]
example : computeQuota wCfg (totalVotes qVotes) 2 = some 6 ∧ ((1 : Nat) : Rat) * 6 ≤ support qVotes [0, 1] ∧
    (∃ bw ∈ qVotes, solidFor bw.1 [0, 1] = true ∧ noShared bw.1 = false) ∧
    selectorEvaluate gregory wCfg qVotes 2 [] = .ok [0, 2] := by decide +kernel
/-- supporters sharing a rank *inside* the coalition, two seats: {a,b} > c ×7, a ×1, c ×5, d > c ×4 -/
def rVotes : Profile := [([.shared [0, 1], .one 2], 7), ([.one 0], 1), ([.one 2], 5), ([.one 3, .one 2], 4)]
example : computeQuota wCfg (totalVotes rVotes) 2 = some 6 ∧ ((1 : Nat) : Rat) * 6 ≤ support rVotes [0, 1] ∧
    selectorEvaluate gregory wCfg rVotes 2 [] = .ok [0, 2] ∧ pscCheck rVotes 6 [0, 2] = true := by decide +kernel
/-- the profile on which the count stalled before the repair b992cbb: `{('c','a'):2, ('b',):8}`, two seats -/
def lVotes : Profile := [([.one 2, .one 0], 2), ([.one 1], 8)]
example : 2 ≤ (allRanked lVotes).length ∧ selectorEvaluate gregory wCfg lVotes 2 [] = .ok [1, 2] := by decide +kernel
end Example

end VL.C04
